#!/usr/bin/env python3
"""Regenerates MANIFEST.json from props.py (single source for the per-property text)."""
import json
from props import PROPS, NOT_APPLICABLE

ALL = ["C%02d" % i for i in range(1, 21)]
checks = []
for pid in ALL:
    if pid not in PROPS:
        continue
    p = PROPS[pid]
    checks.append({
        "property_id": pid,
        "quick_cmd": "./check.sh %s quick" % pid,
        "thorough_cmd": "./check.sh %s thorough" % pid,
        "evidence_file": "/verif/evidence/%s.json" % pid,
        "replay_cmd_template": "./check.sh %s --replay {path}" % pid,
        "engine": "coq-model+correspondence",
        "level_claimed": {"category": "proof", "text": p["level_text"], "design_ref": "5.%d" % int(pid[1:])},
        "level_note": p["level_note"],
        "technique": p.get("technique", "Coq theorems over a Gallina model + in-Coq vm_compute correspondence with the Go implementation"),
    })
na = [{"property_id": pid, "reason": NOT_APPLICABLE.get(pid, "check not built yet in this round (design in DESIGN.md section 5.%d)" % int(pid[1:]))}
      for pid in ALL if pid not in PROPS]
m = {
    "version": 1,
    "setup_cmd": "./setup.sh",
    "hooks": {
        "guard": "verif",
        "enable": "go build -tags verif (the harness and translators are built with the tag; add-only files v2/verif_hooks.go, v2/v1compat/verif_hooks.go)",
        "baseline_off_cmd": "cd /repo/v2 && GOFLAGS=-mod=mod GOPROXY=off GOSUMDB=off go test -json -vet=off -count=1 -timeout 25m ./...",
        "source_commits": json.load(open("hooks.json"))["source_commits"],
        "add_only": True,
    },
    "engines": [{
        "name": "coq-model+correspondence", "path": "/verif/check.py",
        "serves_properties": [c["property_id"] for c in checks],
        "kind_free_text": "Coq 8.16.1 theorems about executable Gallina models (coq/), generated model parts regenerated from /repo on every run (tools/), Go harness (harness/) running the implementation on generated cases and coqc evaluating the model on the same cases",
    }],
    "checks": checks,
    "notes": "Every check regenerates coq/Gen from /repo, rebuilds the property's .vo cone, captures Print Assumptions, runs the Go harness against /repo's working tree and evaluates the model on the same cases with vm_compute. See DESIGN.md.",
    "not_applicable": na,
}
json.dump(m, open("MANIFEST.json", "w"), indent=1)
print("MANIFEST.json: %d checks, %d not_applicable" % (len(checks), len(na)))
