#!/usr/bin/env python3
"""check.py <property> quick|thorough          run one property check
   check.py <property> --replay <file>         re-run the case stored in a replay file

One run: regenerate the generated model parts from /repo, re-check the
property's theorems (full .vo build of the cone + Print Assumptions), run the
implementation on the property's case stream, evaluate the model on the same
cases inside Coq, decide (DESIGN.md section 4.3), write evidence/<id>.json."""
import fcntl
import glob
import hashlib
import json
import os
import re
import subprocess
import sys
import time
from concurrent.futures import ThreadPoolExecutor

ROOT = os.path.dirname(os.path.abspath(__file__))
COQ = os.path.join(ROOT, "coq")
WORK = os.path.join(ROOT, "work")
REPO = os.environ.get("VERIF_REPO", "/repo")
GOENV = dict(os.environ, GOFLAGS="-mod=mod", GOPROXY="off", GOSUMDB="off", GOTOOLCHAIN="local",
             CGO_ENABLED=os.environ.get("CGO_ENABLED", "0"))

sys.path.insert(0, ROOT)
from props import PROPS, KNOWN_MATCHERS  # noqa: E402

ALLOWED_AXIOMS = set()  # every property theorem is expected to be closed under the global context

TRUSTED_BASE = [
    "Coq 8.16.1 kernel and its vm_compute evaluator (no native_compute)",
    "translators: harness gen (reflection on the jwt types, regexp/syntax) and tools/globalsgen (go/ssa, x/tools v0.29.0) where the property uses generated tables",
    "source translator tools/globalsgen/srcgen.go (go/ast + go/types -> Gallina over Base/GoSem.v) for the *_source theorems: its reading of Go (strings as byte strings, int as Z, slices as lists of visible elements, maps as association lists, range loops as a fold with continue/break/return, an error as option) is trusted; run-time panics, slice aliasing and integer overflow are not modelled by it",
    "correspondence harness (Go): generators, fact computation with crypto/ed25519 and the standard library, canonicalisation, diff",
    "hand-written Gallina model of the jwt decision logic, tied to the code only on the explored cases",
    "Go toolchain, encoding/json, base64, nkeys, Ed25519 (modelled, not verified)",
]


def sh(cmd, cwd=None, env=None, timeout=None, capture=True):
    p = subprocess.run(cmd, cwd=cwd, env=env, timeout=timeout, shell=isinstance(cmd, str),
                       stdout=subprocess.PIPE if capture else None,
                       stderr=subprocess.STDOUT if capture else None, text=True, errors="replace")
    return p.returncode, (p.stdout or "")


class Lock:
    def __init__(self, name):
        os.makedirs(WORK, exist_ok=True)
        self.path = os.path.join(WORK, name)

    def __enter__(self):
        self.f = open(self.path, "w")
        fcntl.flock(self.f, fcntl.LOCK_EX)

    def __exit__(self, *a):
        fcntl.flock(self.f, fcntl.LOCK_UN)
        self.f.close()


# ---------------------------------------------------------------- build steps

def coq_sources():
    out = []
    for d in ("Base", "Gen", "Model", "Proofs", "Properties", "Extract"):
        out += sorted(glob.glob(os.path.join(COQ, d, "*.v")))
    return [os.path.relpath(p, COQ) for p in out]


def ensure_makefile():
    srcs = coq_sources()
    proj = "-Q . JWT\n" + "\n".join(srcs) + "\n"
    pj = os.path.join(COQ, "_CoqProject")
    old = open(pj).read() if os.path.exists(pj) else ""
    if old != proj or not os.path.exists(os.path.join(COQ, "Makefile.coq")):
        open(pj, "w").write(proj)
        rc, out = sh(["coq_makefile", "-f", "_CoqProject", "-o", "Makefile.coq"], cwd=COQ)
        if rc != 0:
            raise RuntimeError("coq_makefile failed: " + out)


notes_changed = []


def regen(log):
    """Regenerate coq/Gen/*.v from the working tree of REPO (translator part of the tie).
    Files are only replaced when their content changes so make stays incremental."""
    notes = []
    with Lock("go.lock"):
        binp = os.path.join(WORK, "bin", "harness")
        rc, out = sh(["go", "build", "-tags", "verif", "-o", binp, "."], cwd=os.path.join(ROOT, "harness"), env=GOENV, timeout=900)
        log.write("== build harness (translator) rc=%d\n%s\n" % (rc, out))
        if rc != 0:
            notes.append("translator (harness gen) no longer builds against the tree")
            return notes
        build_harness.done = True
        tmpd = os.path.join(WORK, "gen-%d" % os.getpid())
        os.makedirs(tmpd, exist_ok=True)
        rc, out = sh([binp, "gen", "-out", tmpd], cwd=os.path.join(ROOT, "harness"), env=GOENV, timeout=600)
        log.write("== harness gen rc=%d\n%s\n" % (rc, out))
        if rc != 0:
            notes.append("translator (harness gen) failed on the tree")
            return notes
        gdir = os.path.join(ROOT, "tools", "globalsgen")
        gbin = os.path.join(WORK, "bin", "globalsgen")
        rc, out = sh(["go", "build", "-o", gbin, "."], cwd=gdir, env=GOENV, timeout=900)
        log.write("== build globalsgen rc=%d\n%s\n" % (rc, out))
        if rc == 0:
            rc, out = sh([gbin, "-repo", REPO, "-out", tmpd], cwd=gdir, env=GOENV, timeout=600)
            log.write("== globalsgen rc=%d\n%s\n" % (rc, out))
        if rc != 0:
            notes.append("translator globalsgen (go/ssa) failed on the tree")
    with Lock("coq.lock"):
        for f in glob.glob(os.path.join(tmpd, "*.v")):
            dst = os.path.join(COQ, "Gen", os.path.basename(f))
            new = open(f).read()
            if not os.path.exists(dst) or open(dst).read() != new:
                open(dst, "w").write(new)
                notes_changed.append(os.path.basename(f))
    for f in glob.glob(os.path.join(tmpd, "*")):
        os.remove(f)
    os.rmdir(tmpd)
    return notes


def strip_comments(txt):
    """Remove Coq comments (nested), leaving string literals intact."""
    out, i, depth, n = [], 0, 0, len(txt)
    while i < n:
        c = txt[i]
        if depth == 0 and c == '"':
            j = i + 1
            while j < n:
                if txt[j] == '"':
                    if j + 1 < n and txt[j + 1] == '"':
                        j += 2
                        continue
                    break
                j += 1
            out.append(txt[i:j + 1])
            i = j + 1
        elif txt.startswith("(*", i):
            depth += 1
            i += 2
        elif depth > 0 and txt.startswith("*)", i):
            depth -= 1
            i += 2
        elif depth > 0:
            if c == '"':  # strings inside comments are lexed too
                j = i + 1
                while j < n and txt[j] != '"':
                    j += 1
                i = j + 1
            else:
                i += 1
        else:
            out.append(c)
            i += 1
    return "".join(out)


HYGIENE = re.compile(r"\b(Admitted|admit|Axiom|Axioms|Parameter|Parameters|Conjecture|Admit Obligations)\b|Unset Guard Checking|Unset Positivity|Unset Universe Checking|bypass_check|-type-in-type")


def hygiene():
    bad = []
    for rel in coq_sources():
        txt = open(os.path.join(COQ, rel)).read()
        txt = strip_comments(txt)
        txt_nostr = re.sub(r'"(?:[^"]|"")*"', '""', txt)
        for m in HYGIENE.finditer(txt_nostr):
            bad.append("%s: %s" % (rel, m.group(0)))
        # Variable / Hypothesis outside a Section
        depth = 0
        for line in txt.splitlines():
            s = line.strip()
            if re.match(r"Section\b", s):
                depth += 1
            elif re.match(r"End\b", s) and depth > 0:
                depth -= 1
            elif depth == 0 and re.match(r"(Variable|Variables|Hypothesis|Hypotheses|Context)\b", s):
                bad.append("%s: top-level %s" % (rel, s[:40]))
    return bad


def prove(prop, cfg, log, tier="quick"):
    """Full .vo build of the property's cone, then the property file itself with its
    Print Assumptions output captured.  Returns dict(obligations, discharged, failed, axioms)."""
    res = {"obligations": 0, "discharged": 0, "failed": [], "axioms": {}, "theorems": []}
    pfiles = [prop] + list(cfg.get("extra_property_files", []))
    theorems, printed = [], []
    for pf in pfiles:
        src_nc = strip_comments(open(os.path.join(COQ, "Properties", pf + ".v")).read())
        theorems += re.findall(r"^\s*Theorem\s+([\w']+)", src_nc, flags=re.M)
        printed += re.findall(r"^\s*Print Assumptions\s+([\w']+)\s*\.", src_nc, flags=re.M)
    res["theorems"] = theorems
    res["obligations"] = len(theorems)
    with Lock("coq.lock"):
        ensure_makefile()
        t0 = time.time()
        rc, out = sh("timeout 3000 make -f Makefile.coq -j16 %s 2>&1" % " ".join("Properties/%s.vo" % pf for pf in pfiles), cwd=COQ)
        log.write("== make Properties/%s.vo rc=%d (%.1fs)\n%s\n" % (prop, rc, time.time() - t0, out[-20000:]))
        if rc != 0:
            m = re.findall(r'File "\./([^"]+)", line (\d+)', out)
            where = ", ".join("%s:%s" % x for x in m[:3]) or "build"
            err = out.strip().splitlines()[-12:]
            res["failed"].append({"where": where, "log": err})
            return res
        # the property file once more, alone, to capture its Print Assumptions output
        out = ""
        for pf in pfiles:
            rc, o1 = sh("timeout 1200 coqc -Q . JWT -o %s Properties/%s.v 2>&1" %
                        (os.path.join(WORK, prop, pf + ".vo"), pf), cwd=COQ)
            log.write("== coqc Properties/%s.v rc=%d\n%s\n" % (pf, rc, o1[-20000:]))
            if rc != 0:
                res["failed"].append({"where": "Properties/%s.v" % pf, "log": o1.strip().splitlines()[-12:]})
                return res
            out += o1
    blocks = re.split(r"(?m)^(?=Closed under the global context|Axioms:)", out)
    blocks = [b for b in blocks if b.startswith("Closed under") or b.startswith("Axioms:")]
    for i, name in enumerate(printed):
        if i >= len(blocks):
            res["failed"].append({"where": name, "log": ["no Print Assumptions output"]})
            continue
        b = blocks[i]
        if b.startswith("Closed under"):
            res["axioms"][name] = []
        else:
            ax = re.findall(r"(?m)^([A-Za-z_][\w.']*)\s*:", b)
            res["axioms"][name] = ax
            notallowed = [a for a in ax if a not in ALLOWED_AXIOMS]
            if notallowed:
                res["failed"].append({"where": name, "log": ["depends on axioms: " + ", ".join(notallowed)]})
    if tier == "thorough":
        # independent re-check of the compiled cone (kernel re-typechecks every .vo the property depends on)
        t0 = time.time()
        with Lock("coq.lock"):
            rc, out = sh("timeout 6000 coqchk -silent -o -Q . JWT %s 2>&1" % " ".join("JWT.Properties." + pf for pf in pfiles), cwd=COQ)
        log.write("== coqchk JWT.Properties.%s rc=%d (%.1fs)\n%s\n" % (prop, rc, time.time() - t0, out[-6000:]))
        m = re.search(r"\* Axioms:\s*(.*?)\n\s*\n\s*\* Constants/Inductives relying on type-in-type:\s*(.*?)\n\s*\n\s*\* Constants/Inductives relying on unsafe \(co\)fixpoints:\s*(.*?)\n\s*\n\s*\* Inductives whose positivity is assumed:\s*(.*?)\n", out, flags=re.S)
        res["coqchk"] = {"rc": rc, "wall_s": round(time.time() - t0, 1),
                         "axioms": m.group(1).strip() if m else None, "type_in_type": m.group(2).strip() if m else None,
                         "unsafe_fixpoints": m.group(3).strip() if m else None, "assumed_positivity": m.group(4).strip() if m else None}
        if rc != 0 or not m or any(m.group(i).strip() != "<none>" for i in (1, 2, 3, 4)):
            res["failed"].append({"where": "coqchk JWT.Properties.%s" % prop, "log": out.strip().splitlines()[-15:]})
    bad = set(f["where"] for f in res["failed"])
    unprinted = [t for t in theorems if t not in printed]
    res["unprinted"] = unprinted
    res["discharged"] = len([t for t in theorems if t not in bad])
    return res


def build_harness(log):
    if os.path.exists(os.path.join(WORK, "bin", "harness")) and getattr(build_harness, "done", False):
        return True, ""
    with Lock("go.lock"):
        os.makedirs(os.path.join(WORK, "bin"), exist_ok=True)
        hd = os.path.join(ROOT, "harness")
        rc, out = sh(["go", "build", "-tags", "verif", "-o", os.path.join(WORK, "bin", "harness"), "."],
                     cwd=hd, env=GOENV, timeout=900)
        log.write("== build harness rc=%d\n%s\n" % (rc, out))
        return rc == 0, out


def build_race_harness(log):
    with Lock("go.lock"):
        env = dict(GOENV, CGO_ENABLED="1")
        rc, out = sh(["go", "build", "-race", "-tags", "verif", "-o", os.path.join(WORK, "bin", "harness-race"), "."],
                     cwd=os.path.join(ROOT, "harness"), env=env, timeout=1800)
        log.write("== build harness-race rc=%d\n%s\n" % (rc, out))
        return rc == 0, out


def run_harness(prop, tier, seed, outdir, log, extra=(), race=False):
    for f in glob.glob(os.path.join(outdir, "cases_*")) + glob.glob(os.path.join(outdir, "summary.json")):
        os.remove(f)
    t0 = time.time()
    binary = "harness-race" if race else "harness"
    cmd = [os.path.join(WORK, "bin", binary), prop, "-tier", tier, "-seed", str(seed), "-out", outdir] + list(extra)
    env = dict(GOENV, GORACE="halt_on_error=0 exitcode=0") if race else GOENV
    if not race:
        # a memory cap (address space) so that a runaway allocation fails fast instead of exhausting the machine;
        # the race-detector build needs its shadow address space and runs uncapped
        cmd = ["prlimit", "--as=%d" % (24 << 30), "--"] + cmd
    rc, out = sh(cmd, cwd=os.path.join(ROOT, "harness"), env=env, timeout=7200)
    log.write("== harness %s rc=%d (%.1fs)\n%s\n" % (" ".join(cmd[1:]), rc, time.time() - t0, out[-40000:]))
    sp = os.path.join(outdir, "summary.json")
    if rc != 0 or not os.path.exists(sp):
        return None, out
    summary = json.load(open(sp))
    if race and "WARNING: DATA RACE" in out:
        i = out.index("WARNING: DATA RACE")
        summary.setdefault("spec_violations", None)
        summary["spec_violations"] = (summary["spec_violations"] or []) + [
            {"what": "C17: the race detector reports an unsynchronised access", "input": {"race_report": out[i:i + 6000]}}]
    return summary, out


def eval_cases(prop, summary, outdir, log, tier="quick"):
    """coqc every generated case shard (vm_compute of the model on the observed cases)."""
    files = summary.get("case_files") or []
    mism = []
    errors = []

    def one(fn):
        rc, out = sh("timeout 3000 coqc -Q %s JWT %s 2>&1" % (COQ, fn), cwd=outdir)
        return fn, rc, out

    t0 = time.time()
    with ThreadPoolExecutor(max_workers=16 if tier == "quick" else 8) as ex:
        for fn, rc, out in ex.map(one, files):
            if rc != 0:
                errors.append({"file": fn, "log": out.strip().splitlines()[-8:]})
                continue
            m = re.search(r"bad\s*=\s*(\[.*?\])\s*:\s*list N", out, flags=re.S)
            if not m:
                errors.append({"file": fn, "log": ["no result printed"] + out.strip().splitlines()[-5:]})
                continue
            ids = re.findall(r"(\d+)%N|(\d+)", m.group(1))
            ids = [int(a or b) for a, b in ids]
            name = re.match(r"cases_%s_(\w+?)_\d+\.v" % prop, fn).group(1)
            for i in ids:
                mism.append({"case": "%s:%d" % (name, i), "input": (summary.get("case_index") or {}).get("%s:%d" % (name, i))})
    log.write("== evaluated %d case files in Coq (%.1fs): %d mismatches, %d errors\n" %
              (len(files), time.time() - t0, len(mism), len(errors)))
    for f in glob.glob(os.path.join(outdir, "cases_*.vo")) + glob.glob(os.path.join(outdir, "cases_*.glob")) + \
            glob.glob(os.path.join(outdir, ".cases_*.aux")) + glob.glob(os.path.join(outdir, "cases_*.vok")) + \
            glob.glob(os.path.join(outdir, "cases_*.vos")):
        os.remove(f)
    return mism, errors


# ---------------------------------------------------------------- decision

def load_known():
    p = os.path.join(ROOT, "known_findings.json")
    if not os.path.exists(p):
        return []
    return json.load(open(p)).get("findings", [])


def write_replay(prop, kind, what, payload, seed, tier):
    d = os.path.join(WORK, "replay")
    os.makedirs(d, exist_ok=True)
    body = {"property": prop, "kind": kind, "what": what, "seed": seed, "tier": tier, **payload}
    h = hashlib.sha1(json.dumps(body, sort_keys=True, default=str).encode()).hexdigest()[:10]
    p = os.path.join(d, "%s-%s.json" % (prop, h))
    json.dump(body, open(p, "w"), indent=1, default=str)
    return p


def classify(prop, violations):
    """Split concrete violations into known findings (by narrow matcher) and new ones."""
    known = [k for k in load_known() if k.get("property") == prop and k.get("status") == "known"]
    hits, fresh = {}, []
    for v in violations:
        matched = None
        for k in known:
            fn = KNOWN_MATCHERS.get(k["id"])
            try:
                if fn and fn(v):
                    matched = k
                    break
            except Exception:
                pass
        if matched:
            hits.setdefault(matched["id"], (matched, 0))
            hits[matched["id"]] = (matched, hits[matched["id"]][1] + 1)
        else:
            fresh.append(v)
    return hits, fresh


def main():
    if len(sys.argv) < 3:
        print(__doc__)
        sys.exit(2)
    prop = sys.argv[1]
    if prop not in PROPS:
        print("unknown property", prop)
        sys.exit(2)
    cfg = PROPS[prop]
    replay_file = None
    if sys.argv[2] == "--replay":
        replay_file = sys.argv[3]
        rp = json.load(open(replay_file))
        tier = rp.get("tier", "quick")
        seed = int(rp.get("seed", 1))
    else:
        tier = sys.argv[2]
        seed = int(os.environ.get("VERIF_SEED", "1") or "1")
    if tier not in ("quick", "thorough"):
        tier = "quick"
    t_start = time.time()
    outdir = os.path.join(WORK, prop)
    os.makedirs(outdir, exist_ok=True)
    log = open(os.path.join(outdir, "check.log"), "w")
    problems = []       # broken obligations / correspondence, each a dict(kind, what, detail)
    violations = []     # concrete failing inputs

    # 0. hygiene
    hy = hygiene()
    if hy:
        problems.append({"kind": "hygiene", "what": "forbidden construct in the Coq development", "detail": hy})

    # 1. regenerate the generated model parts
    for n in regen(log):
        problems.append({"kind": "translator", "what": n, "detail": []})

    # 2. prove
    if tier == "thorough" and cfg.get("clean_thorough", False):
        pass
    pr = prove(prop, cfg, log, tier)
    for f in pr["failed"]:
        problems.append({"kind": "proof", "what": "obligation no longer checks: " + f["where"], "detail": f["log"]})

    # 3./4. exercise the implementation and evaluate the model on the same cases
    summary = None
    mism, errs = [], []
    if cfg.get("harness", True):
        ok, out = build_harness(log)
        if ok and cfg.get("race"):
            ok, out = build_race_harness(log)
        if not ok:
            problems.append({"kind": "harness-build", "what": "correspondence harness no longer compiles against the tree",
                             "detail": out.strip().splitlines()[-15:]})
        else:
            summary, hout = run_harness(prop, tier, seed, outdir, log, race=bool(cfg.get("race")))
            if summary is None:
                problems.append({"kind": "harness-run", "what": "correspondence harness crashed", "detail": hout.strip().splitlines()[-25:]})
            else:
                for v in summary.get("spec_violations") or []:
                    violations.append(v)
                mism, errs = eval_cases(prop, summary, outdir, log, tier)
                for e in errs:
                    problems.append({"kind": "model-eval", "what": "model evaluation failed on " + e["file"], "detail": e["log"]})
                if mism:
                    problems.append({"kind": "correspondence", "what": "model and implementation disagree on %d case(s)" % len(mism),
                                     "detail": mism[:20]})

    # widen the search when something broke but no concrete failing input is known yet
    widened = False
    if problems and not violations and cfg.get("harness", True) and tier == "quick" and summary is not None:
        widened = True
        wdir = os.path.join(outdir, "widen")
        os.makedirs(wdir, exist_ok=True)
        s2, _ = run_harness(prop, "thorough", seed + 1, wdir, log, race=bool(cfg.get("race")))
        if s2:
            for v in s2.get("spec_violations") or []:
                violations.append(v)

    # 5. decide
    hits, fresh = classify(prop, violations)
    out_lines = []
    exit_code = 0
    for kid, (k, n) in sorted(hits.items()):
        out_lines.append("KNOWN-FINDING: property=%s %s (%d case(s) this run)" % (prop, k["what"], n))
    # a known finding explains model/impl-vs-spec disagreement only for its own cases; problems stay problems
    if fresh:
        fresh.sort(key=lambda x: len(json.dumps(x, default=str)))  # report the smallest failing input
        v = fresh[0]
        p = write_replay(prop, "failing-input", v.get("what", ""), {"input": v.get("input"), "more": fresh[1:10],
                         "broken": [x["what"] for x in problems]}, seed, tier)
        out_lines.append("VIOLATION property=%s replay=%s" % (prop, p))
        exit_code = 1
    elif problems:
        # correspondence failures that coincide exactly with known findings are already explained
        unexplained = [x for x in problems if not cfg.get("explained_by_known", lambda x, h: False)(x, hits)]
        if unexplained:
            p = write_replay(prop, "broken-obligation", unexplained[0]["what"],
                             {"broken": unexplained, "widened_search": widened}, seed, tier)
            out_lines.append("VIOLATION property=%s replay=%s no-failing-input-found" % (prop, p))
            exit_code = 1

    # evidence
    wall = time.time() - t_start
    cov = {
        "obligations": max(pr["obligations"], 1),
        "discharged": pr["discharged"],
        "checker_cmd": "cd coq && make -f Makefile.coq Properties/%s.vo && coqc -Q . JWT Properties/%s.v  (via ./check.sh %s %s)" % (prop, prop, prop, tier),
        "trusted_base": TRUSTED_BASE,
        "theorems": pr["theorems"],
        "axioms_per_theorem": pr["axioms"],
        "theorems_without_print_assumptions": pr.get("unprinted", []),
        "failed_obligations": [f["where"] for f in pr["failed"]],
        "coqchk": pr.get("coqchk"),
        "evaluations": (summary or {}).get("evaluations", 0),
        "distinct_nontrivial": (summary or {}).get("distinct_nontrivial", 0),
        "rule": (summary or {}).get("rule", ""),
        "samples": (summary or {}).get("samples") or [],
        "exhaustive": bool((summary or {}).get("exhaustive", False)),
        "traces_validated_against_impl": (summary or {}).get("model_cases_emitted", 0) - len(mism),
        "model_cases_evaluated_in_coq": (summary or {}).get("model_cases_emitted", 0),
        "model_mismatches": len(mism),
        "impl_vs_spec_checks": (summary or {}).get("impl_spec_checks", 0),
        "input_distribution": (summary or {}).get("distribution", {}),
        "notes": (summary or {}).get("notes") or [],
        "known_findings_hit": sorted(hits.keys()),
        "widened_search": widened,
    }
    ev = {
        "property_id": prop, "tier": tier, "seed": seed, "level": "proof", "coverage": cov,
        "assumptions": cfg.get("assumptions", []),
        "wall_s": round(wall, 2),
        "violations": len(fresh) + (1 if (exit_code == 1 and not fresh) else 0),
    }
    if replay_file is None:
        # runs against a deliberately broken tree (seeded changes) must not overwrite the committed evidence
        evdir = os.environ.get("VERIF_EVIDENCE_DIR") or os.path.join(ROOT, "evidence")
        os.makedirs(evdir, exist_ok=True)
        json.dump(ev, open(os.path.join(evdir, prop + ".json"), "w"), indent=1)
    log.write("\n".join(out_lines) + "\n")
    log.close()
    for l in out_lines:
        print(l)
    print("%s %s: obligations %d/%d, %d impl runs, %d model cases in Coq, %d mismatches, %d concrete violations, %.1fs"
          % (prop, tier, pr["discharged"], pr["obligations"], cov["evaluations"], cov["model_cases_evaluated_in_coq"],
             len(mism), len(fresh), wall))
    if replay_file is not None:
        print("replay of %s: %s" % (replay_file, "REPRODUCED" if exit_code else "not reproduced"))
    sys.exit(exit_code)


if __name__ == "__main__":
    main()
