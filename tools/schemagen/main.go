// schemagen regenerates the generated parts of the Coq model (coq/Gen/*.v)
// from the jwt packages as they are built now: constants and role tables
// (Tables.v), the JSON schema of every claims type read by reflection
// (Schema.v) and the credentials regular expression (CredsRe.v).
package main

import (
	"flag"
	"fmt"
	"os"
	"path/filepath"
	"strings"
)

func coqStr(s string) string {
	for i := 0; i < len(s); i++ {
		if s[i] < 32 && s[i] != '\n' && s[i] != '\t' || s[i] >= 127 {
			var sb strings.Builder
			sb.WriteString("(string_of_list_ascii (map ascii_of_nat [")
			for j := 0; j < len(s); j++ {
				if j > 0 {
					sb.WriteString(";")
				}
				fmt.Fprintf(&sb, "%d", s[j])
			}
			sb.WriteString("]))")
			return sb.String()
		}
	}
	return "\"" + strings.ReplaceAll(s, "\"", "\"\"") + "\""
}

func main() {
	repo := flag.String("repo", "/repo", "repository root (informational; the packages are linked in)")
	out := flag.String("out", "", "output directory")
	flag.Parse()
	_ = repo
	if *out == "" {
		fmt.Fprintln(os.Stderr, "-out required")
		os.Exit(2)
	}
	write := func(name, body string) {
		if err := os.WriteFile(filepath.Join(*out, name), []byte(body), 0o644); err != nil {
			panic(err)
		}
	}
	write("Tables.v", genTables())
	for name, body := range genMore() {
		write(name, body)
	}
}
