module schemagen

go 1.18

require (
	github.com/nats-io/jwt/v2 v2.0.0
	github.com/nats-io/nkeys v0.4.7
)

require (
	golang.org/x/crypto v0.19.0 // indirect
	golang.org/x/sys v0.17.0 // indirect
)

replace github.com/nats-io/jwt/v2 => /repo/v2
