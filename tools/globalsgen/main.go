// globalsgen inventories the package-level state of the jwt packages with
// go/ssa: every package variable, every instruction outside package
// initialisation that stores to it or through an address / map derived from it,
// where its value escapes to, and for the public read-only queries whether
// they store through their receiver or arguments (transitively through static
// calls inside the module).  Output: coq/Gen/Globals.v.
package main

import (
	"flag"
	"fmt"
	"go/token"
	"go/types"
	"os"
	"path/filepath"
	"sort"
	"strings"

	"golang.org/x/tools/go/packages"
	"golang.org/x/tools/go/ssa"
	"golang.org/x/tools/go/ssa/ssautil"
)

func coqStr(s string) string { return "\"" + strings.ReplaceAll(s, "\"", "\"\"") + "\"" }

// root follows address / value derivations back to what they come from.
func root(v ssa.Value, seen map[ssa.Value]bool) []ssa.Value {
	if seen[v] {
		return nil
	}
	seen[v] = true
	switch x := v.(type) {
	case *ssa.FieldAddr:
		return root(x.X, seen)
	case *ssa.IndexAddr:
		return root(x.X, seen)
	case *ssa.Field:
		return root(x.X, seen)
	case *ssa.Index:
		return root(x.X, seen)
	case *ssa.UnOp:
		if x.Op == token.MUL { // load: what is reached through the pointer stored there
			return root(x.X, seen)
		}
	case *ssa.ChangeType:
		return root(x.X, seen)
	case *ssa.Convert:
		return root(x.X, seen)
	case *ssa.Slice:
		return root(x.X, seen)
	case *ssa.Phi:
		var out []ssa.Value
		for _, e := range x.Edges {
			out = append(out, root(e, seen)...)
		}
		return out
	case *ssa.MakeInterface:
		return root(x.X, seen)
	case *ssa.TypeAssert:
		return root(x.X, seen)
	case *ssa.Extract:
		return root(x.Tuple, seen)
	}
	return []ssa.Value{v}
}

// hasRefs: does a value of this type carry a reference (so that copying it shares memory)?
func hasRefs(t types.Type, seen map[types.Type]bool) bool {
	if seen[t] {
		return false
	}
	seen[t] = true
	switch x := t.Underlying().(type) {
	case *types.Pointer, *types.Map, *types.Slice, *types.Chan, *types.Signature, *types.Interface:
		return true
	case *types.Struct:
		for i := 0; i < x.NumFields(); i++ {
			if hasRefs(x.Field(i).Type(), seen) {
				return true
			}
		}
	case *types.Array:
		return hasRefs(x.Elem(), seen)
	case *types.Tuple:
		for i := 0; i < x.Len(); i++ {
			if hasRefs(x.At(i).Type(), seen) {
				return true
			}
		}
	}
	return false
}

type gInfo struct {
	pkg, name, typ string
	writes         []string // "func: instr" outside init
	escapes        []string // callees receiving the variable's value or address
}

func main() {
	repo := flag.String("repo", "/repo", "repository root")
	out := flag.String("out", "", "output directory")
	flag.Parse()
	if *out == "" {
		fmt.Fprintln(os.Stderr, "-out required")
		os.Exit(2)
	}
	cfg := &packages.Config{Mode: packages.LoadAllSyntax, Dir: filepath.Join(*repo, "v2"), Env: os.Environ()}
	pkgs, err := packages.Load(cfg, "github.com/nats-io/jwt/v2", "github.com/nats-io/jwt/v2/v1compat")
	if err != nil || packages.PrintErrors(pkgs) > 0 {
		fmt.Fprintln(os.Stderr, "load failed", err)
		os.Exit(1)
	}
	prog, spkgs := ssautil.AllPackages(pkgs, ssa.InstantiateGenerics)
	prog.Build()
	mine := map[*ssa.Package]bool{}
	for _, p := range spkgs {
		if p != nil {
			mine[p] = true
		}
	}
	globals := map[*ssa.Global]*gInfo{}
	var order []*ssa.Global
	for _, p := range spkgs {
		var names []string
		for n := range p.Members {
			names = append(names, n)
		}
		sort.Strings(names)
		for _, n := range names {
			if g, ok := p.Members[n].(*ssa.Global); ok {
				if strings.HasPrefix(n, "init$") {
					continue
				}
				globals[g] = &gInfo{pkg: p.Pkg.Path(), name: n, typ: g.Type().(*types.Pointer).Elem().String()}
				order = append(order, g)
			}
		}
	}
	fns := ssautil.AllFunctions(prog)
	var myFns []*ssa.Function
	for f := range fns {
		if f.Pkg != nil && mine[f.Pkg] {
			myFns = append(myFns, f)
		}
	}
	sort.Slice(myFns, func(i, j int) bool { return myFns[i].String() < myFns[j].String() })
	var foreignWrites []string
	// stores to / through package-level variables of OTHER packages (net/http.DefaultClient, os.Args, ...)
	foreignOf := func(v ssa.Value) []*ssa.Global {
		var out []*ssa.Global
		for _, r := range root(v, map[ssa.Value]bool{}) {
			if g, ok := r.(*ssa.Global); ok {
				if _, mineG := globals[g]; !mineG && g.Pkg != nil && !mine[g.Pkg] {
					out = append(out, g)
				}
			}
		}
		return out
	}
	globalOf := func(v ssa.Value) []*ssa.Global {
		var out []*ssa.Global
		for _, r := range root(v, map[ssa.Value]bool{}) {
			if g, ok := r.(*ssa.Global); ok {
				if _, mineG := globals[g]; mineG {
					out = append(out, g)
				}
			}
		}
		return out
	}
	// stores through parameters, per function (direct), and static callees inside the module
	paramStores := map[*ssa.Function][]string{}
	callees := map[*ssa.Function][]*ssa.Function{}
	for _, f := range myFns {
		isInit := f.Name() == "init" || strings.HasPrefix(f.Name(), "init#")
		params := map[ssa.Value]bool{}
		for _, p := range f.Params {
			params[p] = true
		}
		for _, fv := range f.FreeVars {
			params[fv] = true
		}
		fromParam := func(v ssa.Value) bool {
			for _, r := range root(v, map[ssa.Value]bool{}) {
				if params[r] {
					return true
				}
			}
			return false
		}
		// local variables that hold a copy of a slice / map header reached from the receiver or an argument
		copies := map[ssa.Value]bool{}
		for pass := 0; pass < 3; pass++ {
			for _, b := range f.Blocks {
				for _, in := range b.Instrs {
					if st, ok := in.(*ssa.Store); ok {
						if al, isAlloc := st.Addr.(*ssa.Alloc); isAlloc {
							if fromParam(st.Val) {
								copies[al] = true
							}
							for _, r := range root(st.Val, map[ssa.Value]bool{}) {
								if copies[r] {
									copies[al] = true
								}
							}
						}
					}
				}
			}
		}
		sharesWithParam := func(v ssa.Value) bool {
			if fromParam(v) {
				return true
			}
			for _, r := range root(v, map[ssa.Value]bool{}) {
				if copies[r] {
					return true
				}
			}
			return false
		}
		for _, b := range f.Blocks {
			for _, in := range b.Instrs {
				switch x := in.(type) {
				case *ssa.Return:
					for _, r := range x.Results {
						if hasRefs(r.Type(), map[types.Type]bool{}) {
							for _, g := range globalOf(r) {
								if !isInit {
									globals[g].escapes = append(globals[g].escapes, "returned (shared) from "+f.String())
								}
							}
						}
					}
				case *ssa.Send:
					if hasRefs(x.X.Type(), map[types.Type]bool{}) {
						for _, g := range globalOf(x.X) {
							globals[g].escapes = append(globals[g].escapes, "sent on a channel in "+f.String())
						}
					}
				case *ssa.MakeClosure:
					for _, bnd := range x.Bindings {
						for _, g := range globalOf(bnd) {
							if !isInit {
								globals[g].escapes = append(globals[g].escapes, "captured by a closure in "+f.String())
							}
						}
					}
				case *ssa.Store:
					for _, g := range foreignOf(x.Addr) {
						foreignWrites = append(foreignWrites, f.String()+": store to "+g.Pkg.Pkg.Path()+"."+g.Name())
					}
					if hasRefs(x.Val.Type(), map[types.Type]bool{}) {
						for _, g := range globalOf(x.Val) {
							if !isInit && len(globalOf(x.Addr)) == 0 {
								globals[g].escapes = append(globals[g].escapes, "copied (shared) into memory in "+f.String())
							}
						}
					}
					for _, g := range globalOf(x.Addr) {
						if !isInit {
							globals[g].writes = append(globals[g].writes, f.String()+": store")
						}
					}
					if fromParam(x.Addr) {
						paramStores[f] = append(paramStores[f], "store")
					}
				case *ssa.MapUpdate:
					for _, g := range foreignOf(x.Map) {
						foreignWrites = append(foreignWrites, f.String()+": map update of "+g.Pkg.Pkg.Path()+"."+g.Name())
					}
					if hasRefs(x.Value.Type(), map[types.Type]bool{}) {
						for _, g := range globalOf(x.Value) {
							if !isInit {
								globals[g].escapes = append(globals[g].escapes, "copied (shared) into a map in "+f.String())
							}
						}
					}
					for _, g := range globalOf(x.Map) {
						if !isInit {
							globals[g].writes = append(globals[g].writes, f.String()+": map update")
						}
					}
					if fromParam(x.Map) {
						paramStores[f] = append(paramStores[f], "map update")
					}
				case ssa.CallInstruction:
					cc := x.Common()
					args := append([]ssa.Value{}, cc.Args...)
					if cc.IsInvoke() {
						args = append(args, cc.Value)
					}
					callee := cc.StaticCallee()
					name := "<dynamic>"
					if callee != nil {
						name = callee.String()
						if callee.Pkg != nil && mine[callee.Pkg] {
							callees[f] = append(callees[f], callee)
						}
					} else if cc.IsInvoke() {
						name = "<interface>." + cc.Method.Name()
					}
					if b, ok := cc.Value.(*ssa.Builtin); ok {
						name = "builtin " + b.Name()
						if b.Name() == "append" && len(args) > 0 && sharesWithParam(args[0]) {
							// appending to a slice reached from the receiver or an argument writes into its backing array
							// whenever there is spare capacity
							paramStores[f] = append(paramStores[f], "append into a slice of the receiver / an argument")
						}
						if b.Name() == "delete" && len(args) > 0 {
							for _, g := range globalOf(args[0]) {
								if !isInit {
									globals[g].writes = append(globals[g].writes, f.String()+": delete")
								}
							}
							if fromParam(args[0]) {
								paramStores[f] = append(paramStores[f], "delete")
							}
						}
					}
					if callee != nil && callee.Pkg != nil && (callee.Pkg.Pkg.Path() == "sort" || callee.Pkg.Pkg.Path() == "slices") {
						// sort.Sort / sort.Slice / slices.Sort... reorder their argument in place
						for _, a := range args {
							if fromParam(a) {
								paramStores[f] = append(paramStores[f], "in-place sort")
							}
							for _, g := range globalOf(a) {
								if !isInit {
									globals[g].writes = append(globals[g].writes, f.String()+": in-place sort")
								}
							}
						}
					}
					for _, a := range args {
						for _, g := range globalOf(a) {
							if !isInit {
								globals[g].escapes = append(globals[g].escapes, name)
							}
						}
					}
				}
			}
		}
	}
	// transitive closure: does a function (or a module-internal static callee) store through parameters?
	memo := map[*ssa.Function]int{}
	var storesThroughParams func(f *ssa.Function) bool
	storesThroughParams = func(f *ssa.Function) bool {
		switch memo[f] {
		case 1:
			return false
		case 2:
			return true
		case 3:
			return false
		}
		memo[f] = 1
		r := len(paramStores[f]) > 0
		for _, c := range callees[f] {
			if storesThroughParams(c) {
				r = true
			}
		}
		if r {
			memo[f] = 2
		} else {
			memo[f] = 3
		}
		return r
	}
	var sb strings.Builder
	sb.WriteString("(* GENERATED by tools/globalsgen (go/ssa over the jwt packages). Do not edit. *)\n")
	sb.WriteString("From JWT Require Import Base.Strings.\nOpen Scope string_scope.\n\n")
	sb.WriteString("Record gvar := { g_pkg : string; g_name : string; g_type : string;\n                 g_writes : list string;   (* instructions outside package initialisation that store to / through it *)\n                 g_escapes : list string   (* functions its value or address is passed to *) }.\n\n")
	sb.WriteString("Definition globals : list gvar := [\n")
	for i, g := range order {
		gi := globals[g]
		uniq := func(l []string) []string {
			m := map[string]bool{}
			var out []string
			for _, x := range l {
				if !m[x] {
					m[x] = true
					out = append(out, x)
				}
			}
			sort.Strings(out)
			return out
		}
		strs := func(l []string) string {
			it := make([]string, len(l))
			for i, x := range l {
				it[i] = coqStr(x)
			}
			return "[" + strings.Join(it, "; ") + "]"
		}
		sep := ";"
		if i == len(order)-1 {
			sep = ""
		}
		fmt.Fprintf(&sb, "  {| g_pkg := %s; g_name := %s; g_type := %s; g_writes := %s; g_escapes := %s |}%s\n",
			coqStr(gi.pkg), coqStr(gi.name), coqStr(gi.typ), strs(uniq(gi.writes)), strs(uniq(gi.escapes)), sep)
	}
	sb.WriteString("].\n\n")
	sort.Strings(foreignWrites)
	sb.WriteString("(* stores to or through package-level variables of other packages (the standard library, nkeys) *)\n")
	sb.WriteString("Definition foreign_global_writes : list string := [")
	for i, fw := range foreignWrites {
		if i > 0 {
			sb.WriteString("; ")
		}
		sb.WriteString(coqStr(fw))
	}
	sb.WriteString("].\n\n")
	// read-only queries
	queries := []string{"String", "Claims", "ClaimType", "Payload", "ExpectedPrefixes", "DidSign", "IsClaimRevoked", "IsRevoked",
		"HashID", "HasExportContainingSubject", "Contains", "GetTags", "IsSelfSigned", "IsContainedIn", "HasWildCards", "IsBlocking",
		"IsEmpty", "Errors", "Warnings", "IsService", "IsStream", "HasEmptyPermissions", "IsBearerToken", "GetScope", "Keys",
		"IsUnlimited", "IsJSEnabled", "SigningKey", "ValidateScopedSigner"}
	qset := map[string]bool{}
	for _, q := range queries {
		qset[q] = true
	}
	sb.WriteString("(* public query methods of the v2 package: does the method (or a module-internal static callee) store through its receiver or arguments? *)\n")
	sb.WriteString("Definition query_stores : list (string * bool) := [\n")
	var rows []string
	for _, f := range myFns {
		if f.Pkg == nil || f.Pkg.Pkg.Path() != "github.com/nats-io/jwt/v2" || f.Signature.Recv() == nil || !qset[f.Name()] || f.Synthetic != "" {
			continue
		}
		if !token.IsExported(f.Name()) {
			continue
		}
		rows = append(rows, fmt.Sprintf("  (%s, %v)", coqStr(f.String()), storesThroughParams(f)))
	}
	sb.WriteString(strings.Join(rows, ";\n"))
	sb.WriteString("\n].\n")
	if err := os.WriteFile(filepath.Join(*out, "Globals.v"), []byte(sb.String()), 0o644); err != nil {
		panic(err)
	}
	if err := srcgen(pkgs, *out); err != nil {
		panic(err)
	}
}
