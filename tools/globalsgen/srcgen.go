// srcgen: a translator from a small, pure subset of Go (strings, integers, booleans, read-only
// slices of strings; let-style assignment, if/else, range loops with break / continue / early
// return) to Gallina.  The decision functions named in srcTargets are translated from the
// working tree on every run into coq/Gen/Src.v; Proofs/SrcEquiv.v proves each translation equal
// to the hand-written model function the property theorems are about.  A function that leaves the
// subset is emitted as a value of type [untranslatable], which no equivalence proof accepts.
package main

import (
	"bytes"
	"fmt"
	"go/ast"
	"go/constant"
	"go/printer"
	"go/token"
	"go/types"
	"os"
	"path/filepath"
	"regexp"
	"sort"
	"strings"

	"golang.org/x/tools/go/packages"
)

type srcTarget struct{ Group, Recv, Name, Only string }

var srcTargets = []srcTarget{
	{Group: "Subject", Recv: "Subject", Name: "countTokenWildcards", Only: "V2"},
	{Group: "Subject", Recv: "Subject", Name: "HasWildCards"},
	{Group: "Subject", Recv: "Subject", Name: "IsContainedIn"},
	{Group: "Subject", Recv: "Exports", Name: "HasExportContainingSubject"},
	{Group: "Subject", Recv: "RenamingSubject", Name: "ToSubject", Only: "V2"},
	{Group: "Hash", Name: "cleanSubject"},
	{Group: "Hash", Recv: "ActivationClaims", Name: "HashID"},
	{Group: "Header", Recv: "Header", Name: "Valid"},
	{Group: "Header", Recv: "identifier", Name: "Kind", Only: "V2"},
	{Group: "Header", Recv: "identifier", Name: "Version", Only: "V2"},
	{Group: "Lists", Recv: "StringList", Name: "Contains"},
	{Group: "Lists", Recv: "StringList", Name: "Add"},
	{Group: "Lists", Recv: "StringList", Name: "Remove"},
	{Group: "Lists", Recv: "TagList", Name: "Contains"},
	{Group: "Lists", Recv: "TagList", Name: "Add"},
	{Group: "Lists", Recv: "TagList", Name: "Remove"},
	{Group: "Lists", Recv: "CIDRList", Name: "Contains", Only: "V2"},
	{Group: "Lists", Recv: "CIDRList", Name: "Add", Only: "V2"},
	{Group: "Lists", Recv: "CIDRList", Name: "Remove", Only: "V2"},
	{Group: "Lists", Recv: "CIDRList", Name: "Set", Only: "V2"},
	{Group: "Lists", Recv: "CIDRList", Name: "UnmarshalJSON", Only: "V2"},
	{Group: "Revocation", Recv: "RevocationList", Name: "Revoke"},
	{Group: "Revocation", Recv: "RevocationList", Name: "ClearRevocation"},
	{Group: "Revocation", Recv: "RevocationList", Name: "allRevoked"},
	{Group: "Revocation", Recv: "RevocationList", Name: "IsRevoked"},
	{Group: "Revocation", Recv: "RevocationList", Name: "MaybeCompact", Only: "V2"},
	{Group: "Revocation", Recv: "AccountClaims", Name: "isRevoked", Only: "V2"},
	{Group: "Revocation", Recv: "AccountClaims", Name: "IsClaimRevoked", Only: "V2"},
	{Group: "Revocation", Recv: "Export", Name: "isRevoked", Only: "V2"},
	{Group: "Revocation", Recv: "Export", Name: "IsClaimRevoked", Only: "V2"},
	{Group: "Revocation", Recv: "AccountClaims", Name: "RevokeAt", Only: "V2"},
	{Group: "Revocation", Recv: "AccountClaims", Name: "Revoke", Only: "V2"},
	{Group: "Revocation", Recv: "AccountClaims", Name: "ClearRevocation", Only: "V2"},
	{Group: "Revocation", Recv: "Export", Name: "RevokeAt", Only: "V2"},
	{Group: "Revocation", Recv: "Export", Name: "Revoke", Only: "V2"},
	{Group: "Revocation", Recv: "Export", Name: "ClearRevocation", Only: "V2"},
	{Group: "Validate", Recv: "ClaimsData", Name: "Validate"},
	{Group: "Validate", Recv: "Subject", Name: "Validate"},
	{Group: "Validate", Recv: "Subject", Name: "HasWildCards", Only: "V2"},
	{Group: "Validate", Recv: "ServiceLatency", Name: "Validate", Only: "V2"},
	{Group: "Validate", Recv: "Export", Name: "IsService", Only: "V2"},
	{Group: "Validate", Recv: "Export", Name: "IsStream", Only: "V2"},
	{Group: "Validate", Recv: "Export", Name: "IsSingleResponse", Only: "V2"},
	{Group: "Validate", Recv: "Export", Name: "IsChunkedResponse", Only: "V2"},
	{Group: "Validate", Recv: "Export", Name: "IsStreamResponse", Only: "V2"},
	{Group: "Validate", Recv: "Export", Name: "Validate", Only: "V2"},
	{Group: "Validate", Recv: "Subject", Name: "IsContainedIn", Only: "V2"},
	{Group: "Validate", Name: "isContainedIn", Only: "V2"},
	{Group: "Validate", Recv: "Exports", Name: "Validate", Only: "V2"},
	{Group: "ValidateClaims", Recv: "ClaimsData", Name: "Validate", Only: "V2"},
	{Group: "ValidateClaims", Recv: "Subject", Name: "Validate", Only: "V2"},
	{Group: "ValidateClaims", Recv: "Activation", Name: "IsService", Only: "V2"},
	{Group: "ValidateClaims", Recv: "Activation", Name: "IsStream", Only: "V2"},
	{Group: "ValidateClaims", Recv: "Activation", Name: "Validate", Only: "V2"},
	{Group: "ValidateClaims", Recv: "ActivationClaims", Name: "validateWithTimeChecks", Only: "V2"},
	{Group: "ValidateClaims", Recv: "ActivationClaims", Name: "Validate", Only: "V2"},
	{Group: "ValidateClaims", Recv: "Subject", Name: "HasWildCards", Only: "V2"},
	{Group: "ValidateClaims", Recv: "Subject", Name: "IsContainedIn", Only: "V2"},
	{Group: "ValidateClaims", Recv: "Import", Name: "IsService", Only: "V2"},
	{Group: "ValidateClaims", Recv: "Import", Name: "IsStream", Only: "V2"},
	{Group: "ValidateClaims", Recv: "Import", Name: "GetTo", Only: "V2"},
	{Group: "ValidateClaims", Recv: "Import", Name: "Validate", Only: "V2"},
	{Group: "ValidateClaims", Recv: "Imports", Name: "Validate", Only: "V2"},
	{Group: "ValidateClaims", Recv: "OperatorLimits", Name: "Validate", Only: "V2"},
	{Group: "ValidateClaims", Recv: "WeightedMapping", Name: "GetWeight", Only: "V2"},
	{Group: "ValidateClaims", Recv: "Mapping", Name: "Validate", Only: "V2"},
	{Group: "ValidateClaims", Recv: "AuthorizationRequestClaims", Name: "Validate", Only: "V2"},
	{Group: "ValidateClaims", Recv: "AuthorizationResponseClaims", Name: "Validate", Only: "V2"},
	{Group: "ValidateClaims", Recv: "GenericClaims", Name: "Validate", Only: "V2"},
	{Group: "ValidateClaims", Recv: "TimeRange", Name: "Validate", Only: "V2"},
	{Group: "ValidateClaims", Name: "checkPermission", Only: "V2"},
	{Group: "ValidateClaims", Recv: "Permission", Name: "Validate", Only: "V2"},
	{Group: "ValidateClaims", Recv: "ResponsePermission", Name: "Validate", Only: "V2"},
	{Group: "ValidateClaims", Recv: "Permissions", Name: "Validate", Only: "V2"},
	{Group: "ValidateClaims", Recv: "Limits", Name: "Validate", Only: "V2"},
	{Group: "ValidateClaims", Recv: "User", Name: "Validate", Only: "V2"},
	{Group: "ValidateClaims", Recv: "UserClaims", Name: "Validate", Only: "V2"},
	{Group: "ValidateClaims", Recv: "ExternalAuthorization", Name: "Validate", Only: "V2"},
	{Group: "ValidateClaims", Recv: "Info", Name: "Validate", Only: "V2"},
	{Group: "ValidateClaims", Recv: "SigningKeys", Name: "Validate", Only: "V2"},
	{Group: "ValidateClaims", Recv: "OperatorLimits", Name: "IsEmpty", Only: "V2"},
	{Group: "ValidateClaims", Recv: "Account", Name: "Validate", Only: "V2"},
	{Group: "ValidateClaims", Recv: "AccountClaims", Name: "Validate", Only: "V2"},
	{Group: "ValidateClaims", Recv: "UserScope", Name: "Validate", Only: "V2"},
	{Group: "ValidateClaims", Recv: "Operator", Name: "validateAccountServerURL", Only: "V2"},
	{Group: "ValidateClaims", Name: "ValidateOperatorServiceURL", Only: "V2"},
	{Group: "ValidateClaims", Recv: "Operator", Name: "validateOperatorServiceURLs", Only: "V2"},
	{Group: "ValidateClaims", Name: "ParseServerVersion", Only: "V2"},
	{Group: "ValidateClaims", Recv: "Operator", Name: "Validate", Only: "V2"},
	{Group: "ValidateClaims", Recv: "OperatorClaims", Name: "Validate", Only: "V2"},
	{Group: "ValidateClaims", Recv: "Subject", Name: "countTokenWildcards", Only: "V2"},
	{Group: "ValidateClaims", Recv: "RenamingSubject", Name: "Validate", Only: "V2"},
	{Group: "Decode", Recv: "Header", Name: "Valid", Only: "V2"},
	{Group: "Decode", Recv: "identifier", Name: "Kind", Only: "V2"},
	{Group: "Decode", Recv: "identifier", Name: "Version", Only: "V2"},
	{Group: "Decode", Name: "parseHeaders", Only: "V2"},
	{Group: "Decode", Name: "loadClaims", Only: "V2"},
	{Group: "Decode", Name: "Decode", Only: "V2"},
	{Group: "Decode", Name: "DecodeOperatorClaims", Only: "V2"},
	{Group: "Decode", Name: "DecodeAccountClaims", Only: "V2"},
	{Group: "Decode", Name: "DecodeUserClaims", Only: "V2"},
	{Group: "Decode", Name: "DecodeActivationClaims", Only: "V2"},
	{Group: "Decode", Name: "DecodeAuthorizationRequestClaims", Only: "V2"},
	{Group: "Decode", Name: "DecodeAuthorizationResponseClaims", Only: "V2"},
	{Group: "Decode", Recv: "ClaimsData", Name: "verify", Only: "V2"},
	{Group: "Decode", Name: "DecodeGeneric", Only: "V2"},
	{Group: "Decode", Name: "loadActivation", Only: "V2"},
	{Group: "Decode", Name: "loadUser", Only: "V2"},
	{Group: "Decode", Name: "loadAccount", Only: "V2"},
	{Group: "Decode", Name: "loadOperator", Only: "V2"},
	{Group: "Decode", Name: "loadAuthorizationRequest", Only: "V2"},
	{Group: "Decode", Name: "loadAuthorizationResponse", Only: "V2"},
	{Group: "Decode", Recv: "v1ActivationClaims", Name: "migrateV1", Only: "V2"},
	{Group: "Decode", Recv: "v1UserClaims", Name: "migrateV1", Only: "V2"},
	{Group: "Decode", Recv: "v1OperatorClaims", Name: "migrateV1", Only: "V2"},
	{Group: "Decode", Recv: "v1AccountClaims", Name: "migrateV1", Only: "V2"},
	{Group: "DecodeV1", Recv: "Header", Name: "Valid", Only: "V1"},
	{Group: "DecodeV1", Name: "parseHeaders", Only: "V1"},
	{Group: "DecodeV1", Name: "parseClaims", Only: "V1"},
	{Group: "DecodeV1", Name: "Decode", Only: "V1"},
	{Group: "DecodeV1", Name: "DecodeGeneric", Only: "V1"},
	{Group: "Codec", Recv: "OperatorClaims", Name: "updateVersion", Only: "V2"},
	{Group: "Codec", Recv: "AccountClaims", Name: "updateVersion", Only: "V2"},
	{Group: "Codec", Recv: "UserClaims", Name: "updateVersion", Only: "V2"},
	{Group: "Codec", Recv: "ActivationClaims", Name: "updateVersion", Only: "V2"},
	{Group: "Codec", Recv: "AuthorizationRequestClaims", Name: "updateVersion", Only: "V2"},
	{Group: "Codec", Recv: "AuthorizationResponseClaims", Name: "updateVersion", Only: "V2"},
	{Group: "Codec", Recv: "OperatorClaims", Name: "ExpectedPrefixes", Only: "V2"},
	{Group: "Codec", Recv: "AccountClaims", Name: "ExpectedPrefixes", Only: "V2"},
	{Group: "Codec", Recv: "UserClaims", Name: "ExpectedPrefixes", Only: "V2"},
	{Group: "Codec", Recv: "ActivationClaims", Name: "ExpectedPrefixes", Only: "V2"},
	{Group: "Codec", Recv: "AuthorizationRequestClaims", Name: "ExpectedPrefixes", Only: "V2"},
	{Group: "Codec", Recv: "AuthorizationResponseClaims", Name: "ExpectedPrefixes", Only: "V2"},
	{Group: "Codec", Recv: "GenericClaims", Name: "ExpectedPrefixes", Only: "V2"},
	{Group: "Codec", Name: "decodeString"},
	{Group: "Codec", Name: "encodeToString"},
	{Group: "Codec", Name: "serialize"},
	{Group: "Codec", Recv: "ClaimsData", Name: "hash"},
	{Group: "Encode", Recv: "ClaimsData", Name: "doEncode", Only: "V2"},
	{Group: "Encode", Recv: "ClaimsData", Name: "encode", Only: "V2"},
	{Group: "Encode", Recv: "OperatorClaims", Name: "Encode", Only: "V2"},
	{Group: "Encode", Recv: "AccountClaims", Name: "Encode", Only: "V2"},
	{Group: "Encode", Recv: "UserClaims", Name: "Encode", Only: "V2"},
	{Group: "Encode", Recv: "ActivationClaims", Name: "Encode", Only: "V2"},
	{Group: "Encode", Recv: "AuthorizationRequestClaims", Name: "Encode", Only: "V2"},
	{Group: "Encode", Recv: "AuthorizationResponseClaims", Name: "Encode", Only: "V2"},
	{Group: "Encode", Recv: "GenericClaims", Name: "Encode", Only: "V2"},
	{Group: "Results", Name: "CreateValidationResults"},
	{Group: "Results", Recv: "ValidationResults", Name: "Add"},
	{Group: "Results", Recv: "ValidationResults", Name: "AddError"},
	{Group: "Results", Recv: "ValidationResults", Name: "AddTimeCheck"},
	{Group: "Results", Recv: "ValidationResults", Name: "AddWarning"},
	{Group: "Results", Recv: "ValidationResults", Name: "IsBlocking"},
	{Group: "Results", Recv: "ValidationResults", Name: "IsEmpty"},
	{Group: "Results", Recv: "ValidationResults", Name: "Errors"},
	{Group: "Results", Recv: "ValidationResults", Name: "Warnings"},
	{Group: "DidSign", Recv: "StringList", Name: "Contains", Only: "V2"},
	{Group: "DidSign", Recv: "OperatorClaims", Name: "DidSign", Only: "V2"},
	{Group: "DidSign", Recv: "AccountClaims", Name: "DidSign", Only: "V2"},
	{Group: "DidSign", Recv: "UserClaims", Name: "HasEmptyPermissions", Only: "V2"},
	{Group: "DidSign", Recv: "UserScope", Name: "ValidateScopedSigner", Only: "V2"},
	{Group: "DidSign", Name: "IssueUserJWT", Only: "V2"},
	{Group: "DidSign", Recv: "SigningKeys", Name: "Keys", Only: "V2"},
	{Group: "DidSign", Recv: "SigningKeys", Name: "Contains", Only: "V2"},
	{Group: "DidSign", Recv: "SigningKeys", Name: "GetScope", Only: "V2"},
}

// translated methods that store into data fields of their abstract receiver: the fields (relative to the receiver, with
// their Coq types), in the order their new values are handed back
type stateField struct{ rel, ty string }

var stateful = map[types.Object][]stateField{}

type untr struct{ msg string }

// translated functions that take the opaque value type and its nil as their first two parameters
var usesVal = map[types.Object]bool{}

// translated functions whose bodies have effects on abstract values: they return the log of them first, and their
// observations that are calls are functions of the log
var effectful = map[types.Object]bool{}

func valArgs(o types.Object) string {
	if usesVal[o] {
		return "go_val go_nil "
	}
	return ""
}

// an observation parameter of a translated function: the path below its receiver and its Coq type
type absParam struct {
	rel, ty string
	global  bool // an observation of the world (the clock, an untranslated package function), not of the receiver
	root    int  // which abstract value it observes: -1 the receiver, i >= 0 the i-th parameter
}

type tr struct {
	info        *types.Info
	fset        *token.FileSet
	names       map[types.Object]string // local variable / parameter -> Coq name
	used        map[string]bool
	k           int
	recv        *types.Var
	fieldTy     map[string]string // observation of an abstract value (Coq parameter name) -> Coq type
	fieldOrder  []string
	roots       map[types.Object]string     // abstract values (struct receiver, struct-pointer / interface parameters, type-assertion results) -> name prefix
	absParams   map[types.Object][]absParam // per translated function: its observation parameters, relative to its receiver
	retTy       string
	resTy       string                  // the Go result alone (retTy adds the mutated receiver)
	resTys      []string                // the Go results one by one
	known       map[types.Object]string // translated functions of this package -> Coq name
	mutates     map[types.Object]bool   // known functions that return the updated receiver first
	mut         bool                    // this function assigns through its receiver (slice behind a pointer, or map)
	mapKey      []types.Object          // range key variables of enclosing map ranges
	wrap        func(string) string     // a Go result -> the complete return value (adds the updated receiver)
	vr          types.Object            // a *ValidationResults parameter: the list of issues so far, returned extended
	returnsVr   map[types.Object]bool   // translated functions that take and return the issue list
	localVR     map[types.Object]bool   // local variables holding validation results of their own (tvr := CreateValidationResults())
	stateVar    map[string]*types.Var   // fields of the abstract receiver that the body stores into, held as data (maps, lists, texts, numbers): path name -> variable carrying the current value
	stateOrder  []string
	stateFirst  map[string]token.Pos  // where the body first stores into each of them
	globalUse   map[string]string     // callee observation handed on as a global -> the abstract values the callee was called with
	storedLocal map[types.Object]bool // fresh locals the body has stored into (json.Unmarshal into one of them starts from what was stored)
	freshLocal  map[types.Object]bool // local variables holding an opaque value just made by a function of an imported package (h := sha256.New())
	myAbs       []absParam            // this function's observations of its own receiver
	paramRoot   map[string]int        // abstract parameters: name -> position
	effects     bool                  // the body assigns fields of abstract values or calls their methods for effect
	logVar      *types.Var            // ... then this pseudo-variable holds the log of those effects
	setFields   map[string]bool       // observation names of fields assigned so far
	foreignObs  bool                  // it also observes an abstract parameter
	dropNil     bool                  // the function's only result is an error that is nil on every path: dropped
}

func (t *tr) fail(n ast.Node, f string, a ...interface{}) {
	pos := ""
	if n != nil {
		p := t.fset.Position(n.Pos())
		pos = fmt.Sprintf(" (%s:%d)", filepath.Base(p.Filename), p.Line)
	}
	panic(untr{fmt.Sprintf(f, a...) + pos})
}

var coqReserved = map[string]bool{"at": true, "end": true, "in": true, "if": true, "then": true, "else": true, "fun": true, "let": true,
	"match": true, "with": true, "return": true, "as": true, "fix": true, "forall": true, "exists": true, "Type": true, "Set": true, "Prop": true,
	"split": true, "join": true, "contains": true, "length": true, "nth": true, "true": true, "false": true, "tt": true, "dot": true,
	"Cont": true, "Brk": true, "Ret": true, "inl": true, "inr": true, "Some": true, "None": true, "String": true, "string": true, "list": true,
	"bool": true, "Z": true, "nat": true, "negb": true, "app": true, "firstn": true, "skipn": true, "last": true, "map": true, "filter": true}

func (t *tr) bind(o types.Object) string {
	base := o.Name()
	if base == "_" || base == "" {
		base = "v_unused"
	}
	if coqReserved[base] || strings.HasPrefix(base, "go_") {
		base = "v_" + base
	}
	n := base
	for i := 1; t.used[n]; i++ {
		n = fmt.Sprintf("%s_%d", base, i)
	}
	t.used[n] = true
	t.names[o] = n
	return n
}

func (t *tr) coqType(n ast.Node, ty types.Type) string {
	if named, ok := ty.(*types.Named); ok && named.Obj().Pkg() == nil && named.Obj().Name() == "error" {
		return "(option string)"
	}
	if isVR(ty) {
		return "(list go_issue)"
	}
	if implResults && isResultsType(ty) {
		return "(list (string * bool * bool))"
	}
	if implResults && isIssuePtr(ty) {
		return "(string * bool * bool)"
	}
	if named, ok := ty.(*types.Named); ok && named.Obj().Name() == "go_log_t" {
		return "(list go_event)"
	}
	if isStringsBuilder(ty) {
		return "string" // a strings.Builder is the text written into it so far
	}
	if tup, ok := ty.(*types.Tuple); ok && tup.Len() >= 2 {
		var ts []string
		for i := 0; i < tup.Len(); i++ {
			ts = append(ts, t.coqType(n, tup.At(i).Type()))
		}
		return "(" + strings.Join(ts, " * ") + ")"
	}
	if named, ok := ty.(*types.Named); ok && named.Obj().Pkg() != nil && named.Obj().Pkg().Path() == "time" && named.Obj().Name() == "Time" {
		return "Z" // a time.Time is used through Unix() only: its seconds
	}
	switch u := ty.Underlying().(type) {
	case *types.Basic:
		switch {
		case u.Info()&types.IsString != 0:
			return "string"
		case u.Info()&types.IsBoolean != 0:
			return "bool"
		case u.Info()&types.IsInteger != 0:
			return "Z"
		}
	case *types.Slice:
		if b, ok := u.Elem().(*types.Basic); ok && b.Kind() == types.Uint8 {
			return "string" // []byte: a byte string
		}
		return "(list " + t.coqType(n, u.Elem()) + ")"
	case *types.Map:
		if isSetType(ty) {
			return "(list " + t.coqType(n, u.Key()) + ")"
		}
		return "(list (" + t.coqType(n, u.Key()) + " * " + t.coqType(n, u.Elem()) + "))"
	case *types.Struct:
		// a struct of plain fields is the tuple of its fields
		if isPlainStruct(ty) {
			var fs []string
			for i := 0; i < u.NumFields(); i++ {
				fs = append(fs, t.coqType(n, u.Field(i).Type()))
			}
			return "(" + strings.Join(fs, " * ") + ")"
		}
	}
	if isAbstractType(ty) {
		return "go_val" // a struct, a pointer to one, an interface: an opaque value, known through observations
	}
	t.fail(n, "type %s is outside the translated subset", ty)
	return ""
}

// isAbstractType: values the translation treats as opaque (type go_val)
// isStringsBuilder: strings.Builder - a text that is only ever appended to
func isStringsBuilder(ty types.Type) bool {
	named, ok := derefType(ty).(*types.Named)
	return ok && named.Obj().Pkg() != nil && named.Obj().Pkg().Path() == "strings" && named.Obj().Name() == "Builder"
}

func isAbstractType(ty types.Type) bool {
	if isVR(ty) || isStringsBuilder(ty) {
		return false
	}
	if named, ok := ty.(*types.Named); ok && named.Obj().Pkg() == nil && named.Obj().Name() == "error" {
		return false
	}
	switch u := derefType(ty).Underlying().(type) {
	case *types.Struct:
		return !isPlainStruct(ty)
	case *types.Interface:
		_ = u
		return true
	}
	return false
}

func typeShortName(ty types.Type) string {
	s := types.TypeString(derefType(ty), func(*types.Package) string { return "" })
	s = strings.TrimPrefix(s, "*")
	return strings.NewReplacer(".", "_", "{", "", "}", "", " ", "", ";", "_").Replace(s)
}

func coqString(n ast.Node, t *tr, s string) string {
	for i := 0; i < len(s); i++ {
		if s[i] < 32 || s[i] > 126 {
			t.fail(n, "string constant with a byte outside printable ASCII")
		}
	}
	return "\"" + strings.ReplaceAll(s, "\"", "\"\"") + "\""
}

func (t *tr) zero(n ast.Node, ty types.Type) string {
	switch t.coqType(n, ty) {
	case "string":
		return "\"\""
	case "bool":
		return "false"
	case "Z":
		return "0%Z"
	case "(option string)":
		return "(@None string)"
	case "go_val":
		return "go_nil"
	}
	if strings.HasPrefix(t.coqType(n, ty), "(list ") {
		return "[]"
	}
	if st, ok := ty.Underlying().(*types.Struct); ok && isPlainStruct(ty) {
		var zs []string
		for i := 0; i < st.NumFields(); i++ {
			zs = append(zs, t.zero(n, st.Field(i).Type()))
		}
		return "(" + strings.Join(zs, ", ") + ")"
	}
	t.fail(n, "no zero value")
	return ""
}

func (t *tr) isStr(e ast.Expr) bool {
	b, ok := t.info.TypeOf(e).Underlying().(*types.Basic)
	return ok && b.Info()&types.IsString != 0
}
func (t *tr) isInt(e ast.Expr) bool {
	b, ok := t.info.TypeOf(e).Underlying().(*types.Basic)
	return ok && b.Info()&types.IsInteger != 0
}
func (t *tr) isBool(e ast.Expr) bool {
	b, ok := t.info.TypeOf(e).Underlying().(*types.Basic)
	return ok && b.Info()&types.IsBoolean != 0
}
func (t *tr) isList(e ast.Expr) bool {
	_, ok := t.info.TypeOf(e).Underlying().(*types.Slice)
	return ok
}
func (t *tr) isMap(e ast.Expr) bool {
	_, ok := t.info.TypeOf(e).Underlying().(*types.Map)
	return ok
}

// isSet: a map to the empty struct, used as a set (a list of its members, in the order they went in)
func isSetType(ty types.Type) bool {
	m, ok := ty.Underlying().(*types.Map)
	if !ok {
		return false
	}
	st, ok := m.Elem().Underlying().(*types.Struct)
	return ok && st.NumFields() == 0
}
func (t *tr) isSet(e ast.Expr) bool { return isSetType(t.info.TypeOf(e)) }
func (t *tr) isTime(e ast.Expr) bool {
	named, ok := t.info.TypeOf(e).(*types.Named)
	return ok && named.Obj().Pkg() != nil && named.Obj().Pkg().Path() == "time" && named.Obj().Name() == "Time"
}

func (t *tr) expr(e ast.Expr) string {
	if tv, ok := t.info.Types[e]; ok && tv.Value != nil {
		switch tv.Value.Kind() {
		case constant.String:
			return coqString(e, t, constant.StringVal(tv.Value))
		case constant.Int:
			return "(" + tv.Value.ExactString() + ")%Z"
		case constant.Bool:
			if constant.BoolVal(tv.Value) {
				return "true"
			}
			return "false"
		}
		t.fail(e, "constant of an unsupported kind")
	}
	switch x := e.(type) {
	case *ast.ParenExpr:
		return t.expr(x.X)
	case *ast.Ident:
		o := t.info.Uses[x]
		if n, ok := t.names[o]; ok {
			return n
		}
		if _, isNil := o.(*types.Nil); isNil {
			t.fail(e, "nil outside a return")
		}
		t.fail(e, "identifier %s is not a local variable, parameter or constant", x.Name)
	case *ast.SelectorExpr:
		if id, ok := x.X.(*ast.Ident); ok && implResults && t.recv != nil && t.info.Uses[id] == t.recv && x.Sel.Name == "Issues" {
			return t.names[t.recv] // the results are their list of issues
		}
		if id, ok := x.X.(*ast.Ident); ok && t.names[t.info.Uses[id]] != "" {
			// a field of a local variable holding a plain struct (a tuple), also behind a pointer in the results' own code
			ty := t.info.TypeOf(id)
			if implResults && isIssuePtr(ty) {
				ty = ty.(*types.Pointer).Elem()
			}
			if st, ok := ty.Underlying().(*types.Struct); ok && isPlainStruct(ty) {
				var pat []string
				pick := ""
				for i := 0; i < st.NumFields(); i++ {
					pat = append(pat, fmt.Sprintf("go_f%d", i))
					if st.Field(i).Name() == x.Sel.Name {
						pick = pat[i]
					}
				}
				return "(let '(" + strings.Join(pat, ", ") + ") := " + t.names[t.info.Uses[id]] + " in " + pick + ")"
			}
		}
		if name, ok := t.absPath(x); ok {
			return t.observe(name, t.coqType(x, t.info.TypeOf(x)))
		}
		t.fail(e, "selector %s.%s", exprText(x.X), x.Sel.Name)
	case *ast.StarExpr:
		if id, ok := x.X.(*ast.Ident); ok && t.recv != nil && t.info.Uses[id] == t.recv {
			if n, ok := t.names[t.recv]; ok {
				return n
			}
		}
		t.fail(e, "dereference of %s", exprText(x.X))
	case *ast.CompositeLit:
		if st, ok := t.info.TypeOf(x).Underlying().(*types.Struct); ok && isPlainStruct(t.info.TypeOf(x)) {
			t.coqType(x, t.info.TypeOf(x))
			vals := make([]string, st.NumFields())
			for i, el := range x.Elts {
				if kv, ok := el.(*ast.KeyValueExpr); ok {
					for j := 0; j < st.NumFields(); j++ {
						if st.Field(j).Name() == kv.Key.(*ast.Ident).Name {
							vals[j] = t.expr(kv.Value)
						}
					}
				} else {
					vals[i] = t.expr(el)
				}
			}
			for j := range vals {
				if vals[j] == "" {
					vals[j] = t.zero(x, st.Field(j).Type())
				}
			}
			return "(" + strings.Join(vals, ", ") + ")"
		}
		if isStringsBuilder(t.info.TypeOf(x)) && len(x.Elts) == 0 {
			return "\"\"" // an empty builder
		}
		if isAbstractType(t.info.TypeOf(x)) && len(x.Elts) == 0 {
			return "go_nil" // the zero value of an opaque struct
		}
		if len(x.Elts) == 0 {
			switch t.info.TypeOf(x).Underlying().(type) {
			case *types.Map, *types.Slice:
				if strings.HasPrefix(t.coqType(x, t.info.TypeOf(x)), "(list ") {
					return "[]" // an empty map / list
				}
			}
		}
		if sl, isSlice := t.info.TypeOf(x).Underlying().(*types.Slice); isSlice {
			t.coqType(x, t.info.TypeOf(x))
			if len(x.Elts) == 0 {
				return "[]" // an empty slice literal
			}
			if _, basic := sl.Elem().Underlying().(*types.Basic); basic {
				var es []string
				for _, el := range x.Elts {
					if _, isKV := el.(*ast.KeyValueExpr); isKV {
						t.fail(e, "slice literal with indices")
					}
					es = append(es, t.expr(el))
				}
				return "[" + strings.Join(es, "; ") + "]" // a slice literal of plain values: a fresh list
			}
		}
		t.fail(e, "composite literal of %s", t.info.TypeOf(x))
	case *ast.UnaryExpr:
		switch x.Op {
		case token.NOT:
			return "(negb " + t.expr(x.X) + ")"
		case token.SUB:
			return "(- " + t.expr(x.X) + ")%Z"
		case token.AND:
			if id, ok := x.X.(*ast.Ident); ok && t.names[t.info.Uses[id]] != "" && isAbstractType(t.info.Uses[id].Type()) {
				return t.names[t.info.Uses[id]] // the address of an opaque local is that value
			}
			if sel, ok := x.X.(*ast.SelectorExpr); ok {
				if _, isAbs := t.absPath(sel); isAbs && isAbstractType(t.info.TypeOf(sel)) {
					return t.expr(sel) // the address of a struct-valued field of an abstract value: that part of it
				}
			}
			if lit, ok := x.X.(*ast.CompositeLit); ok && implResults && isResultsType(t.info.TypeOf(lit)) {
				// &ValidationResults{Issues: l}: the results are their list
				for _, el := range lit.Elts {
					if kv, ok := el.(*ast.KeyValueExpr); ok {
						if id, ok := kv.Key.(*ast.Ident); ok && id.Name == "Issues" {
							return t.expr(kv.Value)
						}
					} else {
						return t.expr(el)
					}
				}
				return "[]"
			}
			if lit, ok := x.X.(*ast.CompositeLit); ok && implResults && isPlainStruct(t.info.TypeOf(lit)) {
				return t.expr(lit) // (an issue behind a pointer is the issue: nothing in this package writes through it)
			}
		}
		t.fail(e, "unary operator %s", x.Op)
	case *ast.BinaryExpr:
		if x.Op == token.EQL || x.Op == token.NEQ {
			for _, pair := range [][2]ast.Expr{{x.X, x.Y}, {x.Y, x.X}} {
				if id, ok := pair[1].(*ast.Ident); ok {
					if _, isNil := t.info.Uses[id].(*types.Nil); isNil {
						if name, ok := t.absPath(pair[0]); ok {
							if v := t.stateVar[name]; v != nil && t.stateFirst[name].IsValid() && x.Pos() > t.stateFirst[name] {
								// (whether the field is nil is known of its value on entry only)
								t.fail(x, "nil test of %s after a store into it", name)
							}
							r := t.observe(name+"_isnil", "bool")
							if x.Op == token.NEQ {
								return "(negb " + r + ")"
							}
							return r
						}
						if lid, ok := pair[0].(*ast.Ident); ok && t.names[t.info.Uses[lid]] != "" && strings.HasPrefix(t.coqType(lid, t.info.TypeOf(lid)), "(list ") {
							// (a nil slice and an empty slice are the same list here)
							r := "(go_lnil " + t.names[t.info.Uses[lid]] + ")"
							if x.Op == token.NEQ {
								return "(negb " + r + ")"
							}
							return r
						}
						if lid, ok := pair[0].(*ast.Ident); ok && t.names[t.info.Uses[lid]] != "" && t.coqType(lid, t.info.TypeOf(lid)) == "(option string)" {
							r := "(go_err_isnil " + t.names[t.info.Uses[lid]] + ")"
							if x.Op == token.NEQ {
								return "(negb " + r + ")"
							}
							return r
						}
					}
				}
			}
		}
		if x.Op == token.EQL || x.Op == token.NEQ {
			// p.F == T{} / p.F != T{} for a struct-valued field of an abstract value: whether it is the zero value is an observation
			for _, pair := range [][2]ast.Expr{{x.X, x.Y}, {x.Y, x.X}} {
				lit, isLit := pair[1].(*ast.ParenExpr)
				var cl *ast.CompositeLit
				if isLit {
					cl, _ = lit.X.(*ast.CompositeLit)
				} else {
					cl, _ = pair[1].(*ast.CompositeLit)
				}
				if cl != nil && len(cl.Elts) == 0 {
					if pth, ok := t.absPath(pair[0]); ok && !strings.HasPrefix(pth, "\x00") {
						if _, isStruct := t.info.TypeOf(pair[0]).Underlying().(*types.Struct); isStruct {
							r := t.observe(pth+"_iszero", "bool")
							if x.Op == token.NEQ {
								return "(negb " + r + ")"
							}
							return r
						}
					}
				}
			}
			pa, oka := t.absPath(x.X)
			pb, okb := t.absPath(x.Y)
			isRef := func(e ast.Expr) bool {
				switch t.info.TypeOf(e).Underlying().(type) {
				case *types.Pointer, *types.Interface:
					return true
				}
				return false
			}
			if oka && okb && isRef(x.X) && isRef(x.Y) && !strings.HasPrefix(pa, "\x00") && !strings.HasPrefix(pb, "\x00") {
				// two abstract values compared: whether they are the same is one more observation
				r := t.observeCall("go_same__"+pa+"__"+pb, "bool")
				if x.Op == token.NEQ {
					return "(negb " + r + ")"
				}
				return r
			}
		}
		a, b := t.expr(x.X), t.expr(x.Y)
		switch x.Op {
		case token.LAND:
			return "(" + a + " && " + b + ")"
		case token.LOR:
			return "(" + a + " || " + b + ")"
		case token.EQL, token.NEQ:
			var r string
			switch {
			case t.isStr(x.X) && t.isStr(x.Y):
				r = "(" + a + " =? " + b + ")%string"
			case t.isInt(x.X) && t.isInt(x.Y):
				r = "(" + a + " =? " + b + ")%Z"
			case t.isBool(x.X) && t.isBool(x.Y):
				r = "(Bool.eqb " + a + " " + b + ")"
			default:
				t.fail(e, "comparison of %s", t.info.TypeOf(x.X))
			}
			if x.Op == token.NEQ {
				return "(negb " + r + ")"
			}
			return r
		case token.LSS, token.LEQ, token.GTR, token.GEQ:
			if !t.isInt(x.X) {
				t.fail(e, "ordering of %s", t.info.TypeOf(x.X))
			}
			op := map[token.Token]string{token.LSS: "<?", token.LEQ: "<=?", token.GTR: ">?", token.GEQ: ">=?"}[x.Op]
			return "(" + a + " " + op + " " + b + ")%Z"
		case token.ADD:
			if t.isStr(x.X) {
				return "(" + a + " ++ " + b + ")%string"
			}
			if t.isInt(x.X) {
				return narrow(t.info.TypeOf(x), "("+a+" + "+b+")%Z")
			}
		case token.SUB:
			if t.isInt(x.X) {
				return narrow(t.info.TypeOf(x), "("+a+" - "+b+")%Z")
			}
		case token.MUL:
			if t.isInt(x.X) {
				return narrow(t.info.TypeOf(x), "("+a+" * "+b+")%Z")
			}
		}
		t.fail(e, "binary operator %s on %s", x.Op, t.info.TypeOf(x.X))
	case *ast.IndexExpr:
		if t.isList(x.X) && t.isInt(x.Index) {
			if t.coqType(x, t.info.TypeOf(x)) != "string" {
				t.fail(e, "index into a list of %s", t.info.TypeOf(x))
			}
			return "(go_idx " + t.expr(x.X) + " " + t.expr(x.Index) + ")"
		}
		if t.isMap(x.X) {
			get, _, _ := t.mapOps(x.X)
			return "(fst (" + get + " " + t.mapExpr(x.X) + " " + t.expr(x.Index) + "))"
		}
		if t.isStr(x.X) && t.isInt(x.Index) {
			return "(go_sbyte " + t.expr(x.X) + " " + t.expr(x.Index) + ")"
		}
		t.fail(e, "index into %s", t.info.TypeOf(x.X))
	case *ast.SliceExpr:
		if t.isList(x.X) && !x.Slice3 {
			l := t.expr(x.X)
			lo, hi := "0%Z", "(go_llen "+l+")"
			if x.Low != nil {
				lo = t.expr(x.Low)
			}
			if x.High != nil {
				hi = t.expr(x.High)
			}
			return "(go_slice " + l + " " + lo + " " + hi + ")"
		}
		if t.isStr(x.X) && !x.Slice3 {
			str := t.expr(x.X)
			lo, hi := "0%Z", "(go_slen "+str+")"
			if x.Low != nil {
				lo = t.expr(x.Low)
			}
			if x.High != nil {
				hi = t.expr(x.High)
			}
			return "(go_substr " + str + " " + lo + " " + hi + ")"
		}
		t.fail(e, "slice of %s", t.info.TypeOf(x.X))
	case *ast.CallExpr:
		return t.call(x)
	}
	t.fail(e, "expression form %T", e)
	return ""
}

// absPath: an observation of an abstract value - a chain of field selections, calls of methods without arguments
// and nothing else, rooted at a struct receiver, a struct-pointer or interface parameter, or a type-assertion
// result.  Returned as the parameter name the observation gets.
func (t *tr) absPath(e ast.Expr) (string, bool) {
	switch x := e.(type) {
	case *ast.ParenExpr:
		return t.absPath(x.X)
	case *ast.StarExpr:
		return t.absPath(x.X)
	case *ast.Ident:
		if p, ok := t.roots[t.info.Uses[x]]; ok {
			return p, true
		}
		// a local variable holding an opaque value: its observations are functions applied to it
		if o := t.info.Uses[x]; o != nil && t.names[o] != "" && isAbstractType(o.Type()) {
			return "\x00" + t.names[o] + "\x00obs_" + typeShortName(o.Type()), true
		}
	case *ast.UnaryExpr:
		if x.Op == token.AND {
			return t.absPath(x.X)
		}
	case *ast.SelectorExpr:
		if p, ok := t.absPath(x.X); ok {
			if f, isVar := t.info.Uses[x.Sel].(*types.Var); isVar && f.IsField() {
				// a field promoted from an embedded struct is named through it (one name per field)
				if sel, ok := t.info.Selections[x]; ok && len(sel.Index()) > 1 {
					ty := derefType(sel.Recv())
					for _, i := range sel.Index()[:len(sel.Index())-1] {
						st, ok := ty.Underlying().(*types.Struct)
						if !ok {
							break
						}
						p += "_" + st.Field(i).Name()
						ty = derefType(st.Field(i).Type())
					}
				}
				return p + "_" + x.Sel.Name, true
			}
		}
	case *ast.CallExpr:
		if f, ok := x.Fun.(*ast.SelectorExpr); ok && len(x.Args) == 0 {
			if p, ok := t.absPath(f.X); ok {
				if _, isFn := t.info.Uses[f.Sel].(*types.Func); isFn {
					if sel, ok := t.info.Selections[f]; !ok || t.known[sel.Obj()] == "" {
						return p + "_" + f.Sel.Name, true
					}
				}
			}
		}
	}
	return "", false
}

// observe registers an observation parameter
// observeCall: an observation that is a call (a method of an abstract value, an untranslated function): when the body
// has effects on abstract values, what it answers may depend on the effects so far
func (t *tr) observeCall(name, ty string) string {
	if t.effects {
		return "(" + t.observe(name, "((list go_event) -> "+ty+")") + " " + t.names[t.logVar] + ")"
	}
	return t.observe(name, ty)
}

func (t *tr) observe(name, ty string) string {
	if t.setFields[name] {
		panic(untr{"read of " + name + " after it was assigned"})
	}
	if strings.HasPrefix(name, "\x00") {
		parts := strings.SplitN(name[1:], "\x00", 2)
		return "(" + t.observe(parts[1], "(go_val -> "+ty+")") + " " + parts[0] + ")"
	}
	if old, seen := t.fieldTy[name]; !seen {
		t.fieldOrder = append(t.fieldOrder, name)
	} else if old != ty {
		panic(untr{"observation " + name + " used at two types"})
	}
	t.fieldTy[name] = ty
	return name
}

func exprText(e ast.Expr) string {
	switch x := e.(type) {
	case *ast.Ident:
		return x.Name
	case *ast.SelectorExpr:
		return exprText(x.X) + "." + x.Sel.Name
	}
	return fmt.Sprintf("%T", e)
}

// isTimeNow: time.Now() or time.Now().UTC()
func isTimeNow(t *tr, e ast.Expr) bool {
	c, ok := e.(*ast.CallExpr)
	if !ok || len(c.Args) != 0 {
		return false
	}
	f, ok := c.Fun.(*ast.SelectorExpr)
	if !ok {
		return false
	}
	if f.Sel.Name == "UTC" {
		return isTimeNow(t, f.X)
	}
	id, ok := f.X.(*ast.Ident)
	if !ok || f.Sel.Name != "Now" {
		return false
	}
	pn, ok := t.info.Uses[id].(*types.PkgName)
	return ok && pn.Imported().Path() == "time"
}

// timeNowAdd: time.Now().Add(d), possibly followed by UTC()
func timeNowAdd(t *tr, e ast.Expr) (ast.Expr, bool) {
	c, ok := e.(*ast.CallExpr)
	if !ok {
		return nil, false
	}
	f, ok := c.Fun.(*ast.SelectorExpr)
	if !ok {
		return nil, false
	}
	if f.Sel.Name == "UTC" && len(c.Args) == 0 {
		return timeNowAdd(t, f.X)
	}
	if f.Sel.Name == "Add" && len(c.Args) == 1 && isTimeNow(t, f.X) {
		return c.Args[0], true
	}
	return nil, false
}

// knownArgs: the arguments of a call of a translated function: its observations (of the world, of the receiver it is
// called on, of abstract arguments - re-rooted at what the caller passes), then the explicit arguments (abstract ones
// are not passed: they are known through observations only)
func (t *tr) knownArgs(x *ast.CallExpr, o types.Object, recvPrefix string) []string {
	obs, args := t.knownArgs2(x, o, recvPrefix)
	return append(obs, args...)
}

// knownArgs2: the callee's observations, and the call's own arguments, apart
func (t *tr) knownArgs2(x *ast.CallExpr, o types.Object, recvPrefix string) ([]string, []string) {
	var as []string
	for _, ap := range t.absParams[o] {
		switch {
		case ap.global:
			if strings.Contains(ap.rel, "__") {
				// an observation the callee makes of ITS abstract values (an untranslated function applied to one of them),
				// handed on under the callee's name for it: sound only while this function hands the callee the same
				// values at every call
				sig := recvPrefix
				for i, a := range x.Args {
					if pth, ok := t.absPath(a); ok {
						sig += fmt.Sprintf("|%d:%s", i, pth)
					}
				}
				key := fmt.Sprintf("%p/%s", o, ap.rel)
				if t.globalUse == nil {
					t.globalUse = map[string]string{}
				}
				if prev, seen := t.globalUse[key]; seen && prev != sig {
					t.fail(x, "two calls of %s with different abstract values, whose observation %s would be taken for one", o.Name(), ap.rel)
				}
				t.globalUse[key] = sig
			}
			as = append(as, t.observe(ap.rel, ap.ty))
		case ap.root == -1 && strings.HasPrefix(recvPrefix, "\x01"):
			// the receiver is a local variable holding a plain struct (a tuple): the observation is that field of it
			as = append(as, t.tupleField(x, recvPrefix[1:], ap.rel))
		case ap.root == -1:
			if recvPrefix == "" {
				t.fail(x, "call of a function that observes a receiver it is not given")
			}
			as = append(as, t.observe(recvPrefix+ap.rel, ap.ty))
		default:
			if ap.root >= len(x.Args) {
				t.fail(x, "call with too few arguments")
			}
			prefix, ok := t.absPath(x.Args[ap.root])
			if !ok {
				if v, ok := t.litObs(x.Args[ap.root], ap.rel); ok {
					as = append(as, v)
					continue
				}
				t.fail(x, "argument %d is not an abstract value", ap.root)
			}
			as = append(as, t.observe(prefix+ap.rel, ap.ty))
		}
		if effectful[o] && t.logVar != nil && strings.HasPrefix(ap.ty, "((list go_event) -> ") {
			// the callee's log starts where ours stands
			as[len(as)-1] = "(fun go_l => " + as[len(as)-1] + " (" + t.names[t.logVar] + " ++ go_l)%list)"
		}
	}
	sig := o.Type().(*types.Signature)
	var rest []string
	for i, a := range x.Args {
		if i < sig.Params().Len() && isAbstractParam(sig.Params().At(i).Type()) {
			continue
		}
		rest = append(rest, t.expr(a))
	}
	return as, rest
}

// litObs: an observation of an argument that is the address of a struct literal (&Header{a, b}): it is not nil and
// its fields are what the literal says
func (t *tr) litObs(arg ast.Expr, rel string) (string, bool) {
	u, ok := arg.(*ast.UnaryExpr)
	if !ok || u.Op != token.AND {
		return "", false
	}
	lit, ok := u.X.(*ast.CompositeLit)
	if !ok {
		return "", false
	}
	st, ok := t.info.TypeOf(lit).Underlying().(*types.Struct)
	if !ok {
		return "", false
	}
	if rel == "_isnil" {
		return "false", true
	}
	for i := 0; i < st.NumFields(); i++ {
		if rel != "_"+st.Field(i).Name() {
			continue
		}
		for j, el := range lit.Elts {
			if kv, ok := el.(*ast.KeyValueExpr); ok {
				if id, ok := kv.Key.(*ast.Ident); ok && id.Name == st.Field(i).Name() {
					return t.expr(kv.Value), true
				}
				continue
			}
			if j == i {
				return t.expr(el), true
			}
		}
		return t.zero(lit, st.Field(i).Type()), true
	}
	return "", false
}

// calleeOf: the function or method a call names, if it is one of this package
func (t *tr) calleeOf(c *ast.CallExpr) types.Object {
	switch f := c.Fun.(type) {
	case *ast.Ident:
		return t.info.Uses[f]
	case *ast.SelectorExpr:
		if sel, ok := t.info.Selections[f]; ok {
			return sel.Obj()
		}
		return t.info.Uses[f.Sel]
	}
	return nil
}

// narrow: arithmetic in an integer type of fewer than 64 bits wraps: the result is taken modulo the type's range
// (the 64-bit types and int / uint are read as unbounded integers: trusted reading)
func narrow(ty types.Type, v string) string {
	b, ok := ty.Underlying().(*types.Basic)
	if !ok {
		return v
	}
	switch b.Kind() {
	case types.Uint8:
		return "(go_wrap_u 8 " + v + ")"
	case types.Uint16:
		return "(go_wrap_u 16 " + v + ")"
	case types.Uint32:
		return "(go_wrap_u 32 " + v + ")"
	case types.Int8:
		return "(go_wrap_s 8 " + v + ")"
	case types.Int16:
		return "(go_wrap_s 16 " + v + ")"
	case types.Int32:
		return "(go_wrap_s 32 " + v + ")"
	}
	return v
}

// tupleField: the projection of the field named by an observation suffix ("_Weight") out of a tuple-valued expression
func (t *tr) tupleField(n ast.Node, tupleExprAndType string, rel string) string {
	parts := strings.SplitN(tupleExprAndType, "\x01", 2) // Coq expression, then the field names joined by commas
	fields := strings.Split(parts[1], ",")
	var pat []string
	pick := ""
	for i, f := range fields {
		pat = append(pat, fmt.Sprintf("go_f%d", i))
		if "_"+f == rel {
			pick = pat[i]
		}
	}
	if pick == "" {
		t.fail(n, "observation %s of a plain struct value", rel)
	}
	return "(let '(" + strings.Join(pat, ", ") + ") := " + parts[0] + " in " + pick + ")"
}

// isAbstractParam: a parameter known through observations only (as translateFunc classifies it)
func isAbstractParam(ty types.Type) bool {
	if isVR(ty) {
		return false
	}
	if named, ok := ty.(*types.Named); ok && named.Obj().Pkg() != nil && named.Obj().Pkg().Path() == "time" {
		return false
	}
	if named, ok := ty.(*types.Named); ok && named.Obj().Pkg() == nil && named.Obj().Name() == "error" {
		return false
	}
	_, isStruct := derefType(ty).Underlying().(*types.Struct)
	_, isIface := ty.Underlying().(*types.Interface)
	return (isStruct && !isPlainStruct(ty)) || isIface
}

// mapExpr: a map of strings to integers (an association list in the translation)
func (t *tr) mapExpr(e ast.Expr) string {
	if !strings.HasPrefix(t.coqType(e, t.info.TypeOf(e)), "(list (string * ") {
		t.fail(e, "map type %s", t.info.TypeOf(e))
	}
	return t.expr(e)
}

// mapTranslatable: a map whose values are translated as data (integers, strings, the empty struct)
func (t *tr) mapTranslatable(e ast.Expr) bool {
	m, ok := t.info.TypeOf(e).Underlying().(*types.Map)
	if !ok {
		return false
	}
	if isSetType(t.info.TypeOf(e)) {
		return true
	}
	_, basic := m.Elem().Underlying().(*types.Basic)
	return basic
}

// mapOps: the get / set vocabulary for a map: integers have their own (go_mget / go_mset); any other value type uses
// the polymorphic pair, whose get takes the zero value to answer for a missing key
func (t *tr) mapOps(e ast.Expr) (get, set, vty string) {
	m := t.info.TypeOf(e).Underlying().(*types.Map)
	vty = t.coqType(e, m.Elem())
	if vty == "Z" {
		return "go_mget", "go_mset", vty
	}
	return "go_pget " + t.zero(e, m.Elem()), "go_pset", vty
}

func (t *tr) sepArg(e ast.Expr) string {
	tv := t.info.Types[e]
	if tv.Value == nil || tv.Value.Kind() != constant.String || len(constant.StringVal(tv.Value)) != 1 {
		t.fail(e, "separator is not a one-character constant")
	}
	return coqString(e, t, constant.StringVal(tv.Value))
}

func (t *tr) call(x *ast.CallExpr) string {
	// conversions
	if tv, ok := t.info.Types[x.Fun]; ok && tv.IsType() {
		if u := t.unconv(x); u != ast.Expr(x) {
			return t.expr(u) // a pointer seen as a pointer to another type with the same content
		}
		if len(x.Args) == 1 && t.coqType(x, tv.Type) == t.coqType(x.Args[0], t.info.TypeOf(x.Args[0])) {
			if t.isInt(x.Args[0]) {
				if src, ok := t.info.TypeOf(x.Args[0]).Underlying().(*types.Basic); ok {
					if dst, ok := tv.Type.Underlying().(*types.Basic); ok && dst.Kind() != src.Kind() && t.info.Types[x.Args[0]].Value == nil {
						return narrow(tv.Type, t.expr(x.Args[0])) // a conversion to a narrower integer type cuts the value down
					}
				}
			}
			return t.expr(x.Args[0])
		}
		t.fail(x, "conversion to %s", tv.Type)
	}
	args := func() []string {
		var out []string
		for _, a := range x.Args {
			out = append(out, t.expr(a))
		}
		return out
	}
	switch f := x.Fun.(type) {
	case *ast.Ident:
		if v, ok := t.info.Uses[f].(*types.Var); ok && t.names[v] != "" {
			if _, isFunc := v.Type().Underlying().(*types.Signature); isFunc {
				return "(" + t.names[v] + " " + strings.Join(args(), " ") + ")" // a local function
			}
		}
		switch o := t.info.Uses[f].(type) {
		case *types.Builtin:
			switch o.Name() {
			case "len":
				if pth, ok := t.absPath(x.Args[0]); ok && !strings.HasPrefix(pth, "\x00") && t.isMap(x.Args[0]) && !t.mapTranslatable(x.Args[0]) {
					return t.observe(pth+"_len", "Z") // a map of abstract values: how many entries it has is an observation
				}
				if t.isStr(x.Args[0]) || t.coqType(x.Args[0], t.info.TypeOf(x.Args[0])) == "string" {
					return "(go_slen " + t.expr(x.Args[0]) + ")"
				}
				if t.isList(x.Args[0]) || t.isMap(x.Args[0]) {
					return "(go_llen " + t.expr(x.Args[0]) + ")"
				}
			case "make":
				if tv, ok := t.info.Types[x.Args[0]]; ok && tv.IsType() {
					if _, isMap := tv.Type.Underlying().(*types.Map); isMap {
						return "[]" // an empty map (the size hint is not content)
					}
				}
			case "append":
				// at the level of the visible elements only: what becomes of spare capacity is not modelled
				if x.Ellipsis.IsValid() && len(x.Args) == 2 {
					return "(" + t.expr(x.Args[0]) + " ++ " + t.expr(x.Args[1]) + ")%list"
				}
				if !x.Ellipsis.IsValid() {
					a := args()
					return "(" + a[0] + " ++ [" + strings.Join(a[1:], "; ") + "])%list"
				}
			}
			t.fail(x, "builtin %s", o.Name())
		case *types.Func:
			if n, ok := t.known[o]; ok {
				return "(" + n + " " + valArgs(o) + strings.Join(t.knownArgs(x, o, ""), " ") + ")"
			}
			// an untranslated function of this package: an unknown function of its arguments
			if sig, ok := o.Type().(*types.Signature); ok && !sig.Variadic() && sig.Results().Len() >= 1 {
				var tys, rtys, as []string
				suffix := ""
				for _, a := range x.Args {
					if prefix, isAbs := t.absPath(a); isAbs && !strings.HasPrefix(prefix, "\x00") && !(t.isStr(a) || t.isInt(a) || t.isBool(a)) {
						suffix += "__" + prefix // applied to an abstract parameter: an observation of it
						continue
					}
					tys = append(tys, t.coqType(a, t.info.TypeOf(a)))
					as = append(as, t.expr(a))
				}
				for i := 0; i < sig.Results().Len(); i++ {
					rtys = append(rtys, t.coqType(x, sig.Results().At(i).Type()))
				}
				rty := rtys[0]
				if len(rtys) > 1 {
					rty = "(" + strings.Join(rtys, " * ") + ")"
				}
				name := t.observeCall("go_"+f.Name+suffix, "("+strings.Join(append(tys, rty), " -> ")+")")
				if len(as) == 0 {
					return name
				}
				return "(" + name + " " + strings.Join(as, " ") + ")"
			}
		}
		t.fail(x, "call of %s", f.Name)
	case *ast.SelectorExpr:
		if id, ok := f.X.(*ast.Ident); ok && f.Sel.Name == "String" && len(x.Args) == 0 && t.info.Uses[id] != nil && t.names[t.info.Uses[id]] != "" && isStringsBuilder(t.info.Uses[id].Type()) {
			return t.names[t.info.Uses[id]] // what was written into the builder
		}
		if id, ok := f.X.(*ast.Ident); ok && !implResults && t.isVRObj(t.info.Uses[id]) && f.Sel.Name == "IsEmpty" && len(x.Args) == 0 {
			return "((go_llen " + t.names[t.info.Uses[id]] + ") =? (0)%Z)%Z" // (ValidationResults.IsEmpty, translated and proved in the Results group)
		}
		if id, ok := f.X.(*ast.Ident); ok {
			if pn, ok := t.info.Uses[id].(*types.PkgName); ok {
				full := pn.Imported().Path() + "." + f.Sel.Name
				a := x.Args
				switch full {
				case "strings.Split":
					return "(go_split " + t.expr(a[0]) + " " + t.sepArg(a[1]) + ")"
				case "strings.Join":
					return "(go_join " + t.expr(a[0]) + " " + t.sepArg(a[1]) + ")"
				case "strings.HasPrefix":
					return "(has_prefix " + t.expr(a[1]) + " " + t.expr(a[0]) + ")"
				case "strings.HasSuffix":
					return "(has_suffix " + t.expr(a[1]) + " " + t.expr(a[0]) + ")"
				case "strings.Contains":
					return "(contains " + t.expr(a[1]) + " " + t.expr(a[0]) + ")"
				case "strings.ToLower":
					return "(to_lower " + t.expr(a[0]) + ")"
				case "strings.ToUpper":
					return "(to_upper " + t.expr(a[0]) + ")"
				case "strings.TrimSpace":
					return "(trim_space " + t.expr(a[0]) + ")"
				case "encoding/json.Unmarshal":
					// json.Unmarshal(text, &p) into an abstract parameter: whether it fails is an observation of p (as a
					// function of the text); what p holds afterwards is what the other observations of p tell
					if u, ok := a[1].(*ast.UnaryExpr); ok && u.Op == token.AND {
						if prefix, ok := t.absPath(u.X); ok && !strings.HasPrefix(prefix, "\x00") {
							return "(" + t.observe(prefix+"_json_Unmarshal", "(string -> (option string))") + " " + t.expr(a[0]) + ")"
						}
					}
					t.fail(x, "json.Unmarshal into something that is not an abstract parameter")
				case "time.Unix":
					if tv := t.info.Types[a[1]]; tv.Value != nil && tv.Value.ExactString() == "0" {
						return t.expr(a[0]) // a time is its Unix seconds
					}
					t.fail(x, "time.Unix with nanoseconds")
				case "fmt.Sprintf":
					if x.Ellipsis.IsValid() && len(a) == 2 {
						if prefix, ok := t.absPath(a[1]); ok {
							// the text depends on arguments that are not translated: an unknown function of the format
							return "(" + t.observe("go_fmt_Sprintf__"+prefix, "(string -> string)") + " " + t.expr(a[0]) + ")"
						}
					}
					// a format of %s verbs and plain text over strings: concatenation
					if tv := t.info.Types[a[0]]; tv.Value != nil && tv.Value.Kind() == constant.String {
						parts := strings.Split(constant.StringVal(tv.Value), "%s")
						if len(parts) == len(a) && !strings.Contains(strings.Join(parts, ""), "%") {
							out := coqString(a[0], t, parts[0])
							for i := 1; i < len(parts); i++ {
								if !t.isStr(a[i]) {
									t.fail(x, "Sprintf of a non-string")
								}
								out += " ++ " + t.expr(a[i]) + " ++ " + coqString(a[0], t, parts[i])
							}
							return "(" + out + ")%string"
						}
					}
					t.fail(x, "Sprintf with a format other than %%s verbs")
				case "fmt.Errorf", "errors.New":
					// an error value: only that it is not nil, and its format text, are kept
					tv := t.info.Types[a[0]]
					if tv.Value != nil && tv.Value.Kind() == constant.String {
						return "(Some " + coqString(a[0], t, constant.StringVal(tv.Value)) + ")"
					}
					return "(Some \"error\")"
				}
				// any other function of an imported package, of translatable argument and result types: an unknown
				// function of its arguments (one more observation of the world)
				if sig, ok := t.info.TypeOf(f).(*types.Signature); ok && sig.Results().Len() >= 1 && !sig.Variadic() {
					var tys, rtys []string
					suffix := ""
					var plain []ast.Expr
					for _, arg := range a {
						if prefix, isAbs := t.absPath(arg); isAbs && !strings.HasPrefix(prefix, "\x00") && !(t.isStr(arg) || t.isInt(arg) || t.isBool(arg)) {
							suffix += "__" + prefix // applied to an abstract value: part of the observation's name
							continue
						}
						plain = append(plain, arg)
						tys = append(tys, t.coqType(arg, t.info.TypeOf(arg)))
					}
					if suffix != "" {
						for i := 0; i < sig.Results().Len(); i++ {
							rtys = append(rtys, t.coqType(x, sig.Results().At(i).Type()))
						}
						rty := rtys[0]
						if len(rtys) > 1 {
							rty = "(" + strings.Join(rtys, " * ") + ")"
						}
						name := t.observeCall("go_"+pn.Imported().Name()+"_"+f.Sel.Name+suffix, "("+strings.Join(append(tys, rty), " -> ")+")")
						var as []string
						for _, arg := range plain {
							as = append(as, t.expr(arg))
						}
						if len(as) == 0 {
							return name
						}
						return "(" + name + " " + strings.Join(as, " ") + ")"
					}
					for i := 0; i < sig.Results().Len(); i++ {
						rtys = append(rtys, t.coqType(x, sig.Results().At(i).Type()))
					}
					rty := rtys[0]
					if len(rtys) > 1 {
						rty = "(" + strings.Join(rtys, " * ") + ")"
					}
					ty := "(" + strings.Join(append(tys, rty), " -> ") + ")"
					name := t.observe("go_"+pn.Imported().Name()+"_"+f.Sel.Name, ty)
					return "(" + name + " " + strings.Join(args(), " ") + ")"
				}
				t.fail(x, "call of %s", full)
			}
		}
		if chain, ok := t.pkgChain(f.X); ok {
			{
				{
					if sig, ok := t.info.TypeOf(f).(*types.Signature); ok && sig.Results().Len() >= 1 && !sig.Variadic() {
						// a method of a package-level value of an imported package (base64.RawURLEncoding.DecodeString): an
						// unknown function of its arguments, named after package, value and method
						var tys, rtys, as []string
						for _, arg := range x.Args {
							tys = append(tys, t.coqType(arg, t.info.TypeOf(arg)))
							as = append(as, t.expr(arg))
						}
						for i := 0; i < sig.Results().Len(); i++ {
							rtys = append(rtys, t.coqType(x, sig.Results().At(i).Type()))
						}
						rty := rtys[0]
						if len(rtys) > 1 {
							rty = "(" + strings.Join(rtys, " * ") + ")"
						}
						name := t.observe("go_"+chain+"_"+f.Sel.Name, "("+strings.Join(append(tys, rty), " -> ")+")")
						return "(" + name + " " + strings.Join(as, " ") + ")"
					}
				}
			}
		}
		if f.Sel.Name == "Unix" && len(x.Args) == 0 && isTimeNow(t, f.X) {
			return t.observe("go_now", "Z") // the clock: one more thing the function observes
		}
		if d, ok := timeNowAdd(t, f.X); ok && f.Sel.Name == "Unix" && len(x.Args) == 0 {
			// time.Now().Add(d).UTC().Unix(): the clock read and moved by d, in whole seconds - an unknown function of d
			return "(" + t.observe("go_now_add", "(Z -> Z)") + " " + t.expr(d) + ")"
		}
		if f.Sel.Name == "Unix" && len(x.Args) == 0 && t.isTime(f.X) {
			return t.expr(f.X)
		}
		if name, ok := t.absPath(x); ok {
			return t.observeCall(name, t.coqType(x, t.info.TypeOf(x)))
		}
		// method of a translated receiver type
		if sel, ok := t.info.Selections[f]; ok {
			if t.mutates[sel.Obj()] {
				t.fail(x, "call of %s, which updates its receiver, inside an expression", exprText(f))
			}
			if n, ok := t.known[sel.Obj()]; ok {
				if lid, isId := f.X.(*ast.Ident); isId && t.names[t.info.Uses[lid]] != "" && isPlainStruct(derefType(t.info.TypeOf(lid))) && recvIsStruct(sel.Obj()) {
					// a translated method of a plain struct held in a local variable: its observations are fields of the tuple
					st := derefType(t.info.TypeOf(lid)).Underlying().(*types.Struct)
					var fs []string
					for i := 0; i < st.NumFields(); i++ {
						fs = append(fs, st.Field(i).Name())
					}
					return "(" + n + " " + valArgs(sel.Obj()) + strings.Join(t.knownArgs(x, sel.Obj(), "\x01"+t.names[t.info.Uses[lid]]+"\x01"+strings.Join(fs, ",")), " ") + ")"
				}
				if prefix, isAbs := t.absPath(f.X); isAbs && t.absParams[sel.Obj()] != nil && recvIsStruct(sel.Obj()) {
					// a translated method of an abstract value: its observations become ours, under our name for the value
					return "(" + n + " " + valArgs(sel.Obj()) + strings.Join(t.knownArgs(x, sel.Obj(), prefix), " ") + ")"
				}
				// a value receiver: the callee's observations of the world first, then the receiver itself, then the arguments
				obs, rest := t.knownArgs2(x, sel.Obj(), "")
				as := append(append(obs, t.expr(f.X)), rest...)
				return "(" + n + " " + valArgs(sel.Obj()) + strings.Join(as, " ") + ")"
			}
			// an untranslated method of an abstract value, with arguments: an unknown function of the arguments
			if prefix, isAbs := t.absPath(f.X); isAbs {
				var tys, as []string
				suffix := ""
				for i, a := range x.Args {
					if ap, isAbsArg := t.absPath(a); isAbsArg && !strings.HasPrefix(ap, "\x00") && !(t.isStr(a) || t.isInt(a) || t.isBool(a)) {
						suffix += "__" + ap // applied to an abstract value: part of the observation's name
						continue
					}
					if nid, ok := a.(*ast.Ident); ok {
						if _, isNil := t.info.Uses[nid].(*types.Nil); isNil {
							// nil handed for a byte-slice parameter: the empty text
							if sig, ok := t.info.TypeOf(f).(*types.Signature); ok && i < sig.Params().Len() && t.coqType(a, sig.Params().At(i).Type()) == "string" {
								tys = append(tys, "string")
								as = append(as, "\"\"")
								continue
							}
						}
					}
					tys = append(tys, t.coqType(a, t.info.TypeOf(a)))
					as = append(as, t.expr(a))
				}
				ty := "(" + strings.Join(append(tys, t.coqType(x, t.info.TypeOf(x))), " -> ") + ")"
				name := t.observeCall(prefix+"_"+f.Sel.Name+suffix, ty)
				if len(as) == 0 {
					return name
				}
				return "(" + name + " " + strings.Join(as, " ") + ")"
			}
		}
		t.fail(x, "call of %s", exprText(f))
	}
	t.fail(x, "call form")
	return ""
}

// ---- statements ----

type sctx struct {
	fall      string
	ret       func(string) string // deliver a Go result (the updated receiver is added by t.wrap)
	emit      func(string) string // deliver a complete return value
	brk, cont string
}

// hasJump: does the statement contain a return, break, continue or a loop (whose translation has a return arm)?
func hasJump(n ast.Node) bool {
	found := false
	ast.Inspect(n, func(m ast.Node) bool {
		switch m.(type) {
		case *ast.ReturnStmt, *ast.BranchStmt, *ast.RangeStmt, *ast.ForStmt, *ast.FuncLit, *ast.SwitchStmt:
			found = true
		}
		return !found
	})
	return found
}

func canFall(stmts []ast.Stmt) bool {
	if len(stmts) == 0 {
		return true
	}
	switch s := stmts[len(stmts)-1].(type) {
	case *ast.ReturnStmt:
		return false
	case *ast.BranchStmt:
		return !(s.Tok == token.BREAK || s.Tok == token.CONTINUE)
	case *ast.BlockStmt:
		return canFall(s.List)
	case *ast.IfStmt:
		if s.Else == nil {
			return true
		}
		return canFall(s.Body.List) || canFall([]ast.Stmt{s.Else})
	}
	return true
}

// assigned: variables declared outside n that n assigns, in order of first assignment
func (t *tr) assigned(n ast.Node) []*types.Var {
	var out []*types.Var
	seen := map[*types.Var]bool{}
	add := func(e ast.Expr) {
		switch y := e.(type) {
		case *ast.StarExpr: // *recv = ...
			e = y.X
		case *ast.IndexExpr: // m[k] = ...
			e = y.X
		case *ast.SelectorExpr: // v.Issues = ... in the results' own code
			if implResults && y.Sel.Name == "Issues" {
				e = y.X
			}
		}
		id, ok := e.(*ast.Ident)
		if !ok || id.Name == "_" {
			return
		}
		v, ok := t.info.Uses[id].(*types.Var)
		if !ok || seen[v] {
			return
		}
		if v.Pos() >= n.Pos() && v.Pos() < n.End() {
			return
		}
		seen[v] = true
		out = append(out, v)
	}
	addLog := func() {
		if t.logVar != nil && !seen[t.logVar] {
			seen[t.logVar] = true
			out = append(out, t.logVar)
		}
	}
	ast.Inspect(n, func(m ast.Node) bool {
		switch s := m.(type) {
		case *ast.AssignStmt:
			for _, l := range s.Lhs {
				if v, ok := t.stateOf(l); ok {
					if !seen[v] {
						seen[v] = true
						out = append(out, v)
					}
					continue
				}
				if root, _, _, ok := t.freshStore(l); ok {
					if v, isVar := root.(*types.Var); isVar && !seen[v] {
						seen[v] = true
						out = append(out, v)
					}
					continue
				}
				if _, isSel := l.(*ast.SelectorExpr); isSel && t.isEffectTarget(l) {
					addLog()
					continue
				}
				add(l)
			}
		case *ast.IncDecStmt:
			add(s.X)
		case *ast.ExprStmt:
			// delete(m, k) and calls of methods that update their receiver
			if c, ok := s.X.(*ast.CallExpr); ok {
				if f, ok := c.Fun.(*ast.SelectorExpr); ok {
					if root, _, key, ok := t.freshStore(f.X); ok && key == nil {
						if v, isVar := root.(*types.Var); isVar && !seen[v] {
							seen[v] = true
							out = append(out, v)
						}
					}
				}
				if f, ok := c.Fun.(*ast.SelectorExpr); ok && f.Sel.Name == "WriteString" {
					if id, ok := f.X.(*ast.Ident); ok && t.info.Uses[id] != nil && isStringsBuilder(t.info.Uses[id].Type()) {
						add(f.X)
					}
				}
				if id, ok := c.Fun.(*ast.Ident); ok && id.Name == "delete" && len(c.Args) == 2 {
					add(c.Args[0])
				}
				if f, ok := c.Fun.(*ast.SelectorExpr); ok {
					if sel, ok := t.info.Selections[f]; ok && t.mutates[sel.Obj()] {
						if v, ok := t.stateOf(f.X); ok {
							if !seen[v] {
								seen[v] = true
								out = append(out, v)
							}
						} else {
							add(t.unconv(f.X))
						}
					}
					if sel, ok := t.info.Selections[f]; ok && stateful[sel.Obj()] != nil {
						if prefix, isAbs := t.absPath(f.X); isAbs {
							for _, sf := range stateful[sel.Obj()] {
								if v := t.stateVar[prefix+sf.rel]; v != nil && !seen[v] {
									seen[v] = true
									out = append(out, v)
								}
							}
						}
					}
					if id, ok := f.X.(*ast.Ident); ok && t.isVRObj(t.info.Uses[id]) {
						add(f.X) // vr.AddError(...)
					}
				}
				for _, a := range c.Args {
					if id, ok := a.(*ast.Ident); ok && t.isVRObj(t.info.Uses[id]) {
						add(a) // f(..., vr)
					}
				}
				if t.isEffectCall(c) {
					addLog()
				}
			}
		case *ast.RangeStmt:
			if s.Tok == token.ASSIGN {
				if s.Key != nil {
					add(s.Key)
				}
				if s.Value != nil {
					add(s.Value)
				}
			}
		}
		return true
	})
	return out
}

func (t *tr) tupleOf(n ast.Node, vs []*types.Var) (pat, ty string) {
	if len(vs) == 0 {
		return "tt", "unit"
	}
	var ns, ts []string
	for _, v := range vs {
		name, ok := t.names[v]
		if !ok {
			t.fail(n, "assignment to %s, which is not a local variable", v.Name())
		}
		ns = append(ns, name)
		ts = append(ts, t.coqType(n, derefType(v.Type())))
	}
	if len(vs) == 1 {
		return ns[0], ts[0]
	}
	return "(" + strings.Join(ns, ", ") + ")", "(" + strings.Join(ts, " * ") + ")"
}

func unpack(pat, from string, n int) string {
	switch {
	case n == 0:
		return ""
	case n == 1:
		return "let " + pat + " := " + from + " in "
	}
	return "let '" + pat + " := " + from + " in "
}

func (t *tr) lhsName(e ast.Expr, define bool) string {
	if st, ok := e.(*ast.StarExpr); ok {
		if id, ok := st.X.(*ast.Ident); ok && t.recv != nil && t.info.Uses[id] == t.recv && t.names[t.recv] != "" {
			t.mut = true
			return t.names[t.recv]
		}
	}
	id, ok := e.(*ast.Ident)
	if !ok {
		t.fail(e, "assignment to %s", exprText(e))
	}
	if id.Name == "_" {
		return "_"
	}
	if o := t.info.Defs[id]; define && o != nil {
		return t.bind(o)
	}
	o := t.info.Uses[id]
	if n, ok := t.names[o]; ok {
		if o == t.recv {
			t.fail(e, "assignment to the receiver")
		}
		return n
	}
	t.fail(e, "assignment to %s, which is not a local variable", id.Name)
	return ""
}

func (t *tr) block(stmts []ast.Stmt, c sctx, ind string) string {
	return peephole(t.block0(stmts, c, ind))
}

var letVarRE = regexp.MustCompile(`(?s)^let ([A-Za-z_0-9']+) := (.*) in\s+([A-Za-z_0-9']+)$`)

// peephole: "let x := E in x" is E (when E is one self-contained expression)
func peephole(s string) string {
	m := letVarRE.FindStringSubmatch(s)
	if m == nil || m[1] != m[3] {
		return s
	}
	depth := 0
	v := m[2]
	for i := 0; i < len(v); i++ {
		switch v[i] {
		case '(':
			depth++
		case ')':
			depth--
		}
		if depth < 0 {
			return s
		}
		if depth == 0 && (strings.HasPrefix(v[i:], "let ") || strings.HasPrefix(v[i:], " in ") || strings.HasPrefix(v[i:], " in\n") || strings.HasPrefix(v[i:], "match ") || strings.HasPrefix(v[i:], "if ")) {
			return s
		}
	}
	if depth != 0 {
		return s
	}
	return v
}

func (t *tr) block0(stmts []ast.Stmt, c sctx, ind string) string {
	if len(stmts) == 0 {
		return c.fall
	}
	s, rest := stmts[0], stmts[1:]
	nl := "\n" + ind
	switch x := s.(type) {
	case *ast.EmptyStmt:
		return t.block(rest, c, ind)
	case *ast.BlockStmt:
		return t.block(append(append([]ast.Stmt{}, x.List...), rest...), c, ind)
	case *ast.ReturnStmt:
		if len(x.Results) == 0 || t.dropNil {
			return c.ret("tt")
		}
		if len(x.Results) == 1 && len(t.resTys) > 1 {
			// return f(...) where f yields all the results
			if call, ok := x.Results[0].(*ast.CallExpr); ok {
				if tup, ok := t.info.TypeOf(call).(*types.Tuple); ok && tup.Len() == len(t.resTys) {
					if o := t.calleeOf(call); o != nil && effectful[o] && t.known[o] != "" {
						// the callee's effects follow ours
						lg := t.names[t.logVar]
						return "let '(go_l, go_r) := " + t.expr(call) + " in" + nl + "let " + lg + " := (" + lg + " ++ go_l)%list in" + nl + c.ret("go_r")
					}
					return c.ret(t.expr(call))
				}
			}
		}
		if len(x.Results) != len(t.resTys) {
			t.fail(x, "return of %d values", len(x.Results))
		}
		var vals []string
		for i, r := range x.Results {
			if id, ok := r.(*ast.Ident); ok {
				if _, isNil := t.info.Uses[id].(*types.Nil); isNil {
					switch {
					case t.resTys[i] == "(option string)":
						vals = append(vals, "None")
					case t.resTys[i] == "go_val":
						vals = append(vals, "go_nil")
					case strings.HasPrefix(t.resTys[i], "(list "):
						vals = append(vals, "[]")
					default:
						t.fail(x, "return nil as %s", t.resTys[i])
					}
					continue
				}
			}
			vals = append(vals, t.expr(r))
		}
		if len(vals) == 1 {
			return c.ret(vals[0])
		}
		return c.ret("(" + strings.Join(vals, ", ") + ")")
	case *ast.BranchStmt:
		if x.Label != nil {
			t.fail(x, "labelled branch")
		}
		switch x.Tok {
		case token.BREAK:
			if c.brk == "" {
				t.fail(x, "break outside a range loop")
			}
			return c.brk
		case token.CONTINUE:
			if c.cont == "" {
				t.fail(x, "continue outside a range loop")
			}
			return c.cont
		}
		t.fail(x, "branch %s", x.Tok)
	case *ast.IncDecStmt:
		n := t.lhsName(x.X, false)
		op := "+"
		if x.Tok == token.DEC {
			op = "-"
		}
		return "let " + n + " := (" + n + " " + op + " 1)%Z in" + nl + t.block(rest, c, ind)
	case *ast.DeclStmt:
		gd, ok := x.Decl.(*ast.GenDecl)
		if !ok || gd.Tok != token.VAR {
			t.fail(x, "declaration")
		}
		out := ""
		for _, sp := range gd.Specs {
			vs := sp.(*ast.ValueSpec)
			for i, id := range vs.Names {
				var val string
				if i < len(vs.Values) {
					val = t.expr(vs.Values[i])
				} else {
					val = t.zero(id, t.info.Defs[id].Type())
					if ct := t.coqType(id, t.info.Defs[id].Type()); val == "[]" && strings.HasPrefix(ct, "(list ") {
						val = "(@nil " + strings.TrimSuffix(strings.TrimPrefix(ct, "(list "), ")") + ")" // (typed: the variable may never be read)
					}
					if _, isStruct := t.info.Defs[id].Type().Underlying().(*types.Struct); isStruct && isAbstractType(t.info.Defs[id].Type()) {
						// var x T for an opaque struct: a fresh value of the function's own (stores into it rebind it)
						if t.freshLocal == nil {
							t.freshLocal = map[types.Object]bool{}
						}
						t.freshLocal[t.info.Defs[id]] = true
					}
				}
				out += "let " + t.bind(t.info.Defs[id]) + " := " + val + " in" + nl
			}
		}
		return out + t.block(rest, c, ind)
	case *ast.AssignStmt:
		// f := func(p T) R { return e }: a local function of its parameters (what it reads of the enclosing function's
		// variables it reads as they are here: such a literal may not assign anything)
		if len(x.Lhs) == 1 && len(x.Rhs) == 1 && x.Tok == token.DEFINE {
			if fl, ok := x.Rhs[0].(*ast.FuncLit); ok {
				lid, isId := x.Lhs[0].(*ast.Ident)
				if !isId || len(fl.Body.List) != 1 {
					t.fail(x, "function literal with a body other than one return")
				}
				ret, isRet := fl.Body.List[0].(*ast.ReturnStmt)
				if !isRet || len(ret.Results) != 1 {
					t.fail(x, "function literal with a body other than one return")
				}
				var ps []string
				for _, f := range fl.Type.Params.List {
					for _, pn := range f.Names {
						po := t.info.Defs[pn]
						ps = append(ps, "("+t.bind(po)+" : "+t.coqType(f, po.Type())+")")
					}
				}
				body := t.expr(ret.Results[0])
				name := t.bind(t.info.Defs[lid])
				return "let " + name + " := fun " + strings.Join(ps, " ") + " => " + body + " in" + nl + t.block(rest, c, ind)
			}
		}
		// a.F = e for a data field of the receiver that is carried as a variable
		if len(x.Lhs) == 1 && len(x.Rhs) == 1 && x.Tok == token.ASSIGN {
			if v, ok := t.stateOf(x.Lhs[0]); ok {
				val := t.expr(x.Rhs[0])
				return "let " + t.names[v] + " := " + val + " in" + nl + t.block(rest, c, ind)
			}
		}
		// x := T{} for an opaque struct: x is a fresh value of its own too (stores into it rebind it)
		if len(x.Lhs) == 1 && len(x.Rhs) == 1 && x.Tok == token.DEFINE {
			if lit, ok := x.Rhs[0].(*ast.CompositeLit); ok && isAbstractType(t.info.TypeOf(lit)) && len(lit.Elts) == 0 {
				if lid, ok := x.Lhs[0].(*ast.Ident); ok && lid.Name != "_" && t.info.Defs[lid] != nil {
					if t.freshLocal == nil {
						t.freshLocal = map[types.Object]bool{}
					}
					t.freshLocal[t.info.Defs[lid]] = true
				}
			}
		}
		// x.A.B = e, x.A.B[k] = e for a fresh opaque local x: x becomes an unknown function of the old x and what is stored
		if len(x.Lhs) == 1 && len(x.Rhs) == 1 && x.Tok == token.ASSIGN {
			if root, path, key, ok := t.freshStore(x.Lhs[0]); ok {
				if t.storedLocal == nil {
					t.storedLocal = map[types.Object]bool{}
				}
				t.storedLocal[root] = true
				local := t.names[root]
				tys := []string{"go_val"}
				as := []string{local}
				name := "obs_" + typeShortName(root.Type()) + "_set_" + path
				if key != nil {
					name += "_at"
					tys = append(tys, t.coqType(key, t.info.TypeOf(key)))
					as = append(as, t.expr(key))
				}
				if call, ok := x.Rhs[0].(*ast.CallExpr); ok && isBuiltinMake(t, call) {
					name += "_make" // a new empty map / list of a type that is not translated: nothing to hand over
				} else if lit, ok := x.Rhs[0].(*ast.CompositeLit); ok && isAbstractType(t.info.TypeOf(lit)) {
					// a struct literal of a type that is not translated: what is stored is named by how it is written
					var src bytes.Buffer
					printer.Fprint(&src, t.fset, lit)
					name += "_lit_" + strings.Trim(regexp.MustCompile(`[^A-Za-z0-9]+`).ReplaceAllString(src.String(), "_"), "_")
				} else {
					vt := t.coqType(x.Rhs[0], t.info.TypeOf(x.Rhs[0]))
					tys = append(tys, vt)
					as = append(as, t.expr(x.Rhs[0]))
					name += "_" + strings.Trim(strings.NewReplacer("(", "", ")", "", " ", "_", "*", "x").Replace(vt), "_") // (one unknown function per type of value stored)
				}
				fn := t.observe(name, "("+strings.Join(append(tys, "go_val"), " -> ")+")")
				return "let " + local + " := (" + fn + " " + strings.Join(as, " ") + ") in" + nl + t.block(rest, c, ind)
			}
		}
		// h := pkg.F(...) for an opaque value: h is a fresh value of its own (methods called on it for effect rebind it)
		if len(x.Lhs) == 1 && len(x.Rhs) == 1 && x.Tok == token.DEFINE {
			if call, ok := x.Rhs[0].(*ast.CallExpr); ok {
				if f, ok := call.Fun.(*ast.SelectorExpr); ok {
					if pid, ok := f.X.(*ast.Ident); ok {
						if _, isPkg := t.info.Uses[pid].(*types.PkgName); isPkg {
							if lid, ok := x.Lhs[0].(*ast.Ident); ok && lid.Name != "_" && t.info.Defs[lid] != nil && isAbstractType(t.info.Defs[lid].Type()) {
								if t.freshLocal == nil {
									t.freshLocal = map[types.Object]bool{}
								}
								t.freshLocal[t.info.Defs[lid]] = true
							}
						}
					}
				}
				// x := NewT(...) - an untranslated function of this package handing back a pointer to a struct: within this
				// function the value is reachable through x only, so stores into it and methods called on it for effect
				// rebind x
				if fid, ok := call.Fun.(*ast.Ident); ok {
					if fo, ok := t.info.Uses[fid].(*types.Func); ok && t.known[fo] == "" {
						if lid, ok := x.Lhs[0].(*ast.Ident); ok && lid.Name != "_" && t.info.Defs[lid] != nil && isAbstractType(t.info.Defs[lid].Type()) {
							if _, isPtr := t.info.Defs[lid].Type().(*types.Pointer); isPtr {
								if t.freshLocal == nil {
									t.freshLocal = map[types.Object]bool{}
								}
								t.freshLocal[t.info.Defs[lid]] = true
							}
						}
					}
				}
			}
		}
		// tvr := CreateValidationResults(): results of the function's own, empty to begin with
		if !implResults && len(x.Lhs) == 1 && len(x.Rhs) == 1 && x.Tok == token.DEFINE {
			if call, ok := x.Rhs[0].(*ast.CallExpr); ok && len(call.Args) == 0 && isVR(t.info.TypeOf(call)) {
				if fid, ok := call.Fun.(*ast.Ident); ok && fid.Name == "CreateValidationResults" {
					if lid, ok := x.Lhs[0].(*ast.Ident); ok && lid.Name != "_" {
						o := t.info.Defs[lid]
						if t.localVR == nil {
							t.localVR = map[types.Object]bool{}
						}
						t.localVR[o] = true
						return "let " + t.bind(o) + " := (@nil go_issue) in" + nl + t.block(rest, c, ind)
					}
				}
			}
		}
		// v.Issues = e in the results' own code: the receiver becomes e
		if implResults && len(x.Lhs) == 1 && len(x.Rhs) == 1 && x.Tok == token.ASSIGN {
			if sel, ok := x.Lhs[0].(*ast.SelectorExpr); ok && sel.Sel.Name == "Issues" {
				if id, ok := sel.X.(*ast.Ident); ok && t.recv != nil && t.info.Uses[id] == t.recv {
					t.mut = true
					return "let " + t.names[t.recv] + " := " + t.expr(x.Rhs[0]) + " in" + nl + t.block(rest, c, ind)
				}
			}
		}
		// x.F = e for a local variable x holding a plain struct (a tuple): the tuple with that field replaced
		if len(x.Lhs) == 1 && len(x.Rhs) == 1 && x.Tok == token.ASSIGN {
			if sel, ok := x.Lhs[0].(*ast.SelectorExpr); ok {
				if lid, ok := sel.X.(*ast.Ident); ok && t.names[t.info.Uses[lid]] != "" && isPlainStruct(t.info.TypeOf(lid)) {
					st := t.info.TypeOf(lid).Underlying().(*types.Struct)
					name := t.names[t.info.Uses[lid]]
					var pat, val []string
					for i := 0; i < st.NumFields(); i++ {
						f := fmt.Sprintf("go_f%d", i)
						pat = append(pat, f)
						if st.Field(i).Name() == sel.Sel.Name {
							if named, ok := t.info.TypeOf(lid).(*types.Named); ok && named.Obj().Name() == "ValidationIssue" && sel.Sel.Name == "Description" {
								f = "\"\"" // (the text of an issue is not kept)
							} else {
								f = t.expr(x.Rhs[0])
							}
						}
						val = append(val, f)
					}
					return "let '(" + strings.Join(pat, ", ") + ") := " + name + " in" + nl + "let " + name + " := (" + strings.Join(val, ", ") + ") in" + nl + t.block(rest, c, ind)
				}
			}
		}
		if len(x.Lhs) == 2 && len(x.Rhs) == 1 {
			// _, err := pkg.F(args): only whether it failed is kept - an unknown function of the arguments
			if call, isCall := x.Rhs[0].(*ast.CallExpr); isCall {
				if f, ok := call.Fun.(*ast.SelectorExpr); ok {
					if id, ok := f.X.(*ast.Ident); ok {
						if pn, ok := t.info.Uses[id].(*types.PkgName); ok {
							if b, ok := x.Lhs[0].(*ast.Ident); ok && b.Name == "_" && t.coqType(x, t.info.TypeOf(x.Lhs[1])) == "(option string)" {
								var tys, as []string
								for _, arg := range call.Args {
									tys = append(tys, t.coqType(arg, t.info.TypeOf(arg)))
									as = append(as, t.expr(arg))
								}
								ty := "(" + strings.Join(append(tys, "(option string)"), " -> ") + ")"
								name := t.observe("go_"+pn.Imported().Name()+"_"+f.Sel.Name+"_err", ty)
								en := t.lhsName(x.Lhs[1], x.Tok == token.DEFINE)
								return "let " + en + " := (" + name + " " + strings.Join(as, " ") + ") in" + nl + t.block(rest, c, ind)
							}
						}
					}
				}
			}
			// v, ok := c.(*T): whether c holds a *T is an observation of c; v is c seen as a *T
			if ta, isTA := x.Rhs[0].(*ast.TypeAssertExpr); isTA && ta.Type != nil {
				if prefix, ok := t.absPath(ta.X); ok {
					tn := strings.TrimPrefix(types.TypeString(t.info.TypeOf(ta.Type), func(*types.Package) string { return "" }), "*")
					tn = strings.ReplaceAll(tn, ".", "_")
					bindVal := ""
					if id, isID := x.Lhs[0].(*ast.Ident); isID && id.Name != "_" {
						o := t.info.Defs[id]
						if o == nil {
							o = t.info.Uses[id]
						}
						t.roots[o] = prefix + "_as_" + tn
						if strings.HasPrefix(prefix, "\x00") {
							// an opaque local seen as a *T is the same value
							local := strings.SplitN(prefix[1:], "\x00", 2)[0]
							bindVal = "let " + t.bind(o) + " := " + local + " in" + nl
						}
					}
					okName := t.lhsName(x.Lhs[1], x.Tok == token.DEFINE)
					return bindVal + "let " + okName + " := " + t.observe(prefix+"_is_"+tn, "bool") + " in" + nl + t.block(rest, c, ind)
				}
			}
			// _, ok := p.M[k] for a map of abstract values held by an abstract value: whether the key is there is an observation
			if ie, ok := x.Rhs[0].(*ast.IndexExpr); ok && t.isMap(ie.X) && !t.mapTranslatable(ie.X) && (x.Tok == token.DEFINE || x.Tok == token.ASSIGN) {
				if pth, isAbs := t.absPath(ie.X); isAbs && !strings.HasPrefix(pth, "\x00") {
					if id, isId := x.Lhs[0].(*ast.Ident); isId && id.Name == "_" {
						b := t.lhsName(x.Lhs[1], x.Tok == token.DEFINE)
						return "let " + b + " := (" + t.observe(pth+"_has", "(string -> bool)") + " " + t.expr(ie.Index) + ") in" + nl + t.block(rest, c, ind)
					}
				}
			}
			// _, ok := s[k] for a set
			if ie, ok := x.Rhs[0].(*ast.IndexExpr); ok && t.isSet(ie.X) && (x.Tok == token.DEFINE || x.Tok == token.ASSIGN) {
				if id, isId := x.Lhs[0].(*ast.Ident); !isId || id.Name != "_" {
					t.fail(x, "the value of a set member read")
				}
				b := t.lhsName(x.Lhs[1], x.Tok == token.DEFINE)
				return "let " + b + " := (go_smem " + t.expr(ie.X) + " " + t.expr(ie.Index) + ") in" + nl + t.block(rest, c, ind)
			}
			// v, ok := m[k]
			if ie, ok := x.Rhs[0].(*ast.IndexExpr); ok && t.isMap(ie.X) && (x.Tok == token.DEFINE || x.Tok == token.ASSIGN) {
				get, _, _ := t.mapOps(ie.X)
				val := "(" + get + " " + t.mapExpr(ie.X) + " " + t.expr(ie.Index) + ")"
				a, b := t.lhsName(x.Lhs[0], x.Tok == token.DEFINE), t.lhsName(x.Lhs[1], x.Tok == token.DEFINE)
				return "let '(" + a + ", " + b + ") := " + val + " in" + nl + t.block(rest, c, ind)
			}
		}
		if len(x.Lhs) == 1 && len(x.Rhs) == 1 && x.Tok == token.ASSIGN {
			// s[k] = struct{}{} for a set held in a local variable
			if ie, ok := x.Lhs[0].(*ast.IndexExpr); ok && t.isSet(ie.X) {
				id, isId := ie.X.(*ast.Ident)
				if !isId || t.names[t.info.Uses[id]] == "" {
					t.fail(x, "store into a set that is not a local variable")
				}
				m := t.names[t.info.Uses[id]]
				return "let " + m + " := (go_sadd " + m + " " + t.expr(ie.Index) + ") in" + nl + t.block(rest, c, ind)
			}
			// m[k] = v
			if ie, ok := x.Lhs[0].(*ast.IndexExpr); ok && t.isMap(ie.X) {
				if len(t.mapKey) > 0 {
					t.fail(x, "store into a map inside a range over a map")
				}
				m := t.mapExpr(ie.X)
				if lid, isId := ie.X.(*ast.Ident); !(isId && t.names[t.info.Uses[lid]] != "" && (t.recv == nil || t.info.Uses[lid] != t.recv)) {
					t.markMutated(ie.X) // (a map held in a local variable is simply rebound)
				}
				_, set, _ := t.mapOps(ie.X)
				return "let " + m + " := (" + set + " " + m + " " + t.expr(ie.Index) + " " + t.expr(x.Rhs[0]) + ") in" + nl + t.block(rest, c, ind)
			}
		}
		// p.F = e for an abstract receiver or parameter p: an effect, logged
		if len(x.Lhs) == 1 && len(x.Rhs) == 1 && x.Tok == token.ASSIGN && t.logVar != nil && t.isEffectTarget(x.Lhs[0]) {
			name, _ := t.absPath(x.Lhs[0])
			v := t.expr(x.Rhs[0])
			return t.logSet(x, name, t.coqType(x.Lhs[0], t.info.TypeOf(x.Lhs[0])), v) + nl + t.block(rest, c, ind)
		}
		// err := json.Unmarshal(data, &v): v is what the text decodes to (an unknown function of the text), err whether it failed
		if len(x.Lhs) == 1 && len(x.Rhs) == 1 && (x.Tok == token.DEFINE || x.Tok == token.ASSIGN) {
			if call, ok := x.Rhs[0].(*ast.CallExpr); ok && len(call.Args) == 2 {
				if f, ok := call.Fun.(*ast.SelectorExpr); ok && f.Sel.Name == "Unmarshal" {
					if id, ok := f.X.(*ast.Ident); ok {
						if pn, ok := t.info.Uses[id].(*types.PkgName); ok && pn.Imported().Path() == "encoding/json" {
							if u, ok := call.Args[1].(*ast.UnaryExpr); ok && u.Op == token.AND {
								if vid, ok := u.X.(*ast.Ident); ok && t.names[t.info.Uses[vid]] != "" && !isAbstractType(t.info.Uses[vid].Type()) {
									// into a local holding data (a text, a list of texts): what the text decodes to as that type, an unknown
									// function of the text
									vty := t.coqType(vid, t.info.Uses[vid].Type())
									vn := t.names[t.info.Uses[vid]]
									fn := t.observe("go_json_Unmarshal_as_"+strings.Trim(strings.NewReplacer("(", "", ")", "", " ", "_", "*", "x").Replace(vty), "_"), "(string -> ("+vty+" * (option string)))")
									en := t.lhsName(x.Lhs[0], x.Tok == token.DEFINE)
									return "let '(" + vn + ", " + en + ") := (" + fn + " " + t.expr(call.Args[0]) + ") in" + nl + t.block(rest, c, ind)
								}
								if vid, ok := u.X.(*ast.Ident); ok && t.names[t.info.Uses[vid]] != "" && isAbstractType(t.info.Uses[vid].Type()) {
									vn := t.names[t.info.Uses[vid]]
									if t.storedLocal[t.info.Uses[vid]] {
										// into a value the body has stored presets into: members the text does not name keep them - an
										// unknown function of that value and the text
										fn := t.observe("go_json_Unmarshal_into_"+typeShortName(t.info.Uses[vid].Type()), "(go_val -> string -> (go_val * (option string)))")
										en := t.lhsName(x.Lhs[0], x.Tok == token.DEFINE)
										return "let '(" + vn + ", " + en + ") := (" + fn + " " + vn + " " + t.expr(call.Args[0]) + ") in" + nl + t.block(rest, c, ind)
									}
									fn := t.observe("go_json_Unmarshal_"+typeShortName(t.info.Uses[vid].Type()), "(string -> (go_val * (option string)))")
									en := t.lhsName(x.Lhs[0], x.Tok == token.DEFINE)
									return "let '(" + vn + ", " + en + ") := (" + fn + " " + t.expr(call.Args[0]) + ") in" + nl + t.block(rest, c, ind)
								}
							}
						}
					}
				}
			}
		}
		// a, b := f(x): the results of a call, one by one
		if len(x.Lhs) > 1 && len(x.Rhs) == 1 && (x.Tok == token.DEFINE || x.Tok == token.ASSIGN) {
			if call, ok := x.Rhs[0].(*ast.CallExpr); ok {
				val := t.call(call)
				var ns, sets []string
				for i, l := range x.Lhs {
					if t.logVar != nil && t.isEffectTarget(l) {
						tmp := fmt.Sprintf("go_tmp%d", i)
						ns = append(ns, tmp)
						name, _ := t.absPath(l)
						sets = append(sets, t.logSet(x, name, t.coqType(l, t.info.TypeOf(l)), tmp)+nl)
						continue
					}
					ns = append(ns, t.lhsName(l, x.Tok == token.DEFINE))
				}
				return "let '(" + strings.Join(ns, ", ") + ") := " + val + " in" + nl + strings.Join(sets, "") + t.block(rest, c, ind)
			}
		}
		if len(x.Lhs) != len(x.Rhs) {
			t.fail(x, "assignment from a multi-valued expression")
		}
		switch x.Tok {
		case token.DEFINE, token.ASSIGN:
			var vals []string
			for _, r := range x.Rhs {
				vals = append(vals, t.expr(r)) // right-hand sides first: they see the old bindings
			}
			var ns []string
			for _, l := range x.Lhs {
				ns = append(ns, t.lhsName(l, x.Tok == token.DEFINE))
			}
			if len(ns) == 1 {
				return "let " + ns[0] + " := " + vals[0] + " in" + nl + t.block(rest, c, ind)
			}
			return "let '(" + strings.Join(ns, ", ") + ") := (" + strings.Join(vals, ", ") + ") in" + nl + t.block(rest, c, ind)
		case token.ADD_ASSIGN, token.SUB_ASSIGN:
			if len(x.Lhs) != 1 {
				t.fail(x, "compound assignment")
			}
			n := t.lhsName(x.Lhs[0], false)
			v := t.expr(x.Rhs[0])
			switch {
			case t.isInt(x.Lhs[0]) && x.Tok == token.ADD_ASSIGN:
				return "let " + n + " := " + narrow(t.info.TypeOf(x.Lhs[0]), "("+n+" + "+v+")%Z") + " in" + nl + t.block(rest, c, ind)
			case t.isInt(x.Lhs[0]):
				return "let " + n + " := " + narrow(t.info.TypeOf(x.Lhs[0]), "("+n+" - "+v+")%Z") + " in" + nl + t.block(rest, c, ind)
			case t.isStr(x.Lhs[0]) && x.Tok == token.ADD_ASSIGN:
				return "let " + n + " := (" + n + " ++ " + v + ")%string in" + nl + t.block(rest, c, ind)
			}
		}
		t.fail(x, "assignment %s", x.Tok)
	case *ast.IfStmt:
		if x.Init != nil {
			inner := *x
			inner.Init = nil
			return t.block(append([]ast.Stmt{x.Init, &inner}, rest...), c, ind)
		}
		cond := t.expr(x.Cond)
		var els []ast.Stmt
		if x.Else != nil {
			els = []ast.Stmt{x.Else}
		}
		// branches that only assign (no return / break / continue / loop inside): the statement is a conditional
		// update of the variables they assign
		if !hasJump(x.Body) && (x.Else == nil || !hasJump(x.Else)) {
			vs := t.assigned(x)
			if len(vs) == 0 {
				// nothing the rest can see is assigned: the branches are translated all the same, so that a statement in
				// them that is outside the subset (a store through a field of an abstract value, say) is refused and not
				// silently dropped with the branch
				noJump0 := func(string) string { t.fail(x, "internal: jump in a branch taken as assignment-only"); return "" }
				c0 := sctx{fall: "tt", ret: noJump0, emit: noJump0}
				t.block(x.Body.List, c0, ind)
				t.block(els, c0, ind)
				return t.block(rest, c, ind)
			}
			pat, _ := t.tupleOf(x, vs)
			noJump := func(string) string { t.fail(x, "internal: jump in a branch taken as assignment-only"); return "" }
			c2 := sctx{fall: pat, ret: noJump, emit: noJump}
			in3 := ind + "    "
			thenT, elseT := t.block(x.Body.List, c2, in3), t.block(els, c2, in3)
			lhs := pat
			if len(vs) > 1 {
				lhs = "'" + pat
			}
			return "let " + lhs + " :=" + nl + "  (if " + cond + nl + "   then " + thenT + nl + "   else " + elseT + ") in" + nl + t.block(rest, c, ind)
		}
		falls := 0
		if canFall(x.Body.List) {
			falls++
		}
		if canFall(els) {
			falls++
		}
		in2 := ind + "  "
		if falls >= 2 && (len(rest) > 0 || len(c.fall) > 60) {
			// a join point: the rest of the block becomes a local function of the variables the branches assign
			t.k++
			k := fmt.Sprintf("go_k%d", t.k)
			vs := t.assigned(x)
			pat, _ := t.tupleOf(x, vs)
			var params string
			if len(vs) == 0 {
				params = "(_ : unit)"
			} else {
				for _, v := range vs {
					params += "(" + t.names[v] + " : " + t.coqType(x, derefType(v.Type())) + ") "
				}
			}
			callk := k + " " + strings.Join(strings.Split(strings.Trim(pat, "()"), ", "), " ")
			restTerm := t.block(rest, c, in2)
			c2 := c
			c2.fall = callk
			return "let " + k + " := fun " + params + " =>" + "\n" + in2 + restTerm + " in" + nl +
				"if " + cond + nl + "then " + t.block(x.Body.List, c2, in2) + nl + "else " + t.block(els, c2, in2)
		}
		// at most one branch continues into the rest of the block: the rest is its continuation
		cThen, cElse := c, c
		restTerm := ""
		if len(rest) > 0 {
			restTerm = t.block(rest, c, in2)
			cThen.fall, cElse.fall = restTerm, restTerm
		}
		return "if " + cond + nl + "then " + t.block(x.Body.List, cThen, in2) + nl + "else " + t.block(els, cElse, in2)
	case *ast.ExprStmt:
		if call, ok := x.X.(*ast.CallExpr); ok {
			if id, ok := call.Fun.(*ast.Ident); ok && len(call.Args) == 2 {
				if b, ok := t.info.Uses[id].(*types.Builtin); ok && b.Name() == "delete" {
					m := t.mapExpr(call.Args[0])
					t.markMutated(call.Args[0])
					if len(t.mapKey) > 0 {
						// inside a range over a map only the entry being visited may be deleted (the translation walks a snapshot)
						kid, ok := call.Args[1].(*ast.Ident)
						if !ok || t.info.Uses[kid] != t.mapKey[len(t.mapKey)-1] {
							t.fail(x, "delete of another entry inside a range over a map")
						}
					}
					return "let " + m + " := (go_mdel " + m + " " + t.expr(call.Args[1]) + ") in" + nl + t.block(rest, c, ind)
				}
			}
			// (a callee that also acts on abstract values hands back its log with the results: it follows ours)
			bindVr := func(vrn string, o types.Object) string {
				if effectful[o] && t.logVar != nil {
					lg := t.names[t.logVar]
					return "let '(go_l, " + vrn + ") := " + t.call(call) + " in" + nl + "let " + lg + " := (" + lg + " ++ go_l)%list in" + nl + t.block(rest, c, ind)
				}
				return "let " + vrn + " := " + t.call(call) + " in" + nl + t.block(rest, c, ind)
			}
			if id, ok := call.Fun.(*ast.Ident); ok && t.vr != nil {
				if fo, ok := t.info.Uses[id].(*types.Func); ok && t.returnsVr[fo] && t.vrArg(call) != nil {
					return bindVr(t.names[t.vrArg(call)], fo)
				}
			}
			if f, ok := call.Fun.(*ast.SelectorExpr); ok && t.vr != nil {
				vrn := t.names[t.vr]
				if va := t.vrArg(call); va != nil {
					vrn = t.names[va]
				}
				if id, ok := f.X.(*ast.Ident); ok && t.isVRObj(t.info.Uses[id]) {
					vrn = t.names[t.info.Uses[id]]
					if f.Sel.Name == "Add" && len(call.Args) == 1 {
						// vr.Add(&issue) for an issue held in a local variable: its flags decide what it is
						if u, ok := call.Args[0].(*ast.UnaryExpr); ok && u.Op == token.AND {
							if lid, ok := u.X.(*ast.Ident); ok && t.names[t.info.Uses[lid]] != "" && t.coqType(lid, t.info.TypeOf(lid)) == "(string * bool * bool)" {
								return "let " + vrn + " := (" + vrn + " ++ [go_issue_of " + t.names[t.info.Uses[lid]] + "])%list in" + nl + t.block(rest, c, ind)
							}
						}
					}
					kind := map[string]string{"AddError": "GoError", "AddWarning": "GoWarning", "AddTimeCheck": "GoTimeCheck"}[f.Sel.Name]
					if kind == "" {
						t.fail(x, "call of %s on the validation results", f.Sel.Name)
					}
					return "let " + vrn + " := (" + vrn + " ++ [" + kind + "])%list in" + nl + t.block(rest, c, ind)
				}
				if sel, ok := t.info.Selections[f]; ok && t.returnsVr[sel.Obj()] {
					// a translated method that reports into the same results: it returns them extended
					return bindVr(vrn, sel.Obj())
				}
				// an untranslated method of an abstract value that is handed the results: what it reports is an
				// observation of that value (a function of the other arguments), appended
				if prefix, isAbs := t.absPath(f.X); isAbs {
					var tys, as []string
					seenVr := false
					for _, a := range call.Args {
						if id, ok := a.(*ast.Ident); ok && t.isVRObj(t.info.Uses[id]) {
							seenVr = true
							continue
						}
						tys = append(tys, t.coqType(a, t.info.TypeOf(a)))
						as = append(as, t.expr(a))
					}
					if seenVr {
						ty := "(" + strings.Join(append(tys, "(list go_issue)"), " -> ") + ")"
						obs := t.observe(prefix+"_"+f.Sel.Name, ty)
						if len(as) > 0 {
							obs = "(" + obs + " " + strings.Join(as, " ") + ")"
						}
						return "let " + vrn + " := (" + vrn + " ++ " + obs + ")%list in" + nl + t.block(rest, c, ind)
					}
				}
			}
			if f, ok := call.Fun.(*ast.SelectorExpr); ok {
				if sel, ok := t.info.Selections[f]; ok && stateful[sel.Obj()] != nil && t.known[sel.Obj()] != "" {
					if prefix, isAbs := t.absPath(f.X); isAbs && !strings.HasPrefix(prefix, "\x00") {
						// a translated method that stores into data fields of the value it is called on: their new values come back
						var names []string
						for _, sf := range stateful[sel.Obj()] {
							v := t.stateVar[prefix+sf.rel]
							if v == nil {
								t.fail(x, "call of %s, which stores into %s, not carried as a variable here", f.Sel.Name, prefix+sf.rel)
							}
							names = append(names, t.names[v])
						}
						pat := names[0]
						if len(names) > 1 {
							pat = "'(" + strings.Join(names, ", ") + ")"
						}
						app := "(" + t.known[sel.Obj()] + " " + valArgs(sel.Obj()) + strings.Join(t.knownArgs(call, sel.Obj(), prefix), " ") + ")"
						if sel.Obj().(*types.Func).Type().(*types.Signature).Results().Len() > 0 {
							app = "(fst " + app + ")"
						}
						return "let " + pat + " := " + app + " in" + nl + t.block(rest, c, ind)
					}
				}
				if sel, ok := t.info.Selections[f]; ok && t.mutates[sel.Obj()] {
					// a method that updates its receiver, called on our own receiver or a local: rebind it
					recvName := t.lhsRef(f.X)
					var as []string
					for _, a := range call.Args {
						as = append(as, t.expr(a))
					}
					app := "(" + t.known[sel.Obj()] + " " + strings.Join(append([]string{recvName}, as...), " ") + ")"
					if sel.Obj().(*types.Func).Type().(*types.Signature).Results().Len() > 0 {
						app = "(fst " + app + ")"
					}
					return "let " + recvName + " := " + app + " in" + nl + t.block(rest, c, ind)
				}
			}
		}
		if call, ok := x.X.(*ast.CallExpr); ok && t.logVar != nil && t.isEffectCall(call) {
			f := call.Fun.(*ast.SelectorExpr)
			name, _ := t.absPath(f.X)
			var as []string
			for _, a := range call.Args {
				as = append(as, t.expr(a))
			}
			if len(as) > 0 {
				t.fail(s, "effectful call with arguments")
			}
			lg := t.names[t.logVar]
			return "let " + lg + " := (" + lg + " ++ [GoDo \"" + name + "." + f.Sel.Name + "\"])%list in" + nl + t.block(rest, c, ind)
		}
		if call, ok := x.X.(*ast.CallExpr); ok && t.logVar != nil {
			if name, ok := t.pkgEffectCall(call); ok {
				lg := t.names[t.logVar]
				return "let " + lg + " := (" + lg + " ++ [GoDo \"" + name + "\"])%list in" + nl + t.block(rest, c, ind)
			}
		}
		// bldr.WriteString(s) / WriteByte / WriteRune on a strings.Builder held in a local variable: the text grows
		if call, ok := x.X.(*ast.CallExpr); ok {
			if f, ok := call.Fun.(*ast.SelectorExpr); ok && f.Sel.Name == "WriteString" && len(call.Args) == 1 {
				if id, ok := f.X.(*ast.Ident); ok && t.names[t.info.Uses[id]] != "" && isStringsBuilder(t.info.Uses[id].Type()) {
					b := t.names[t.info.Uses[id]]
					return "let " + b + " := (" + b + " ++ " + t.expr(call.Args[0]) + ")%string in" + nl + t.block(rest, c, ind)
				}
			}
		}
		// h.Write(b) for a local variable h holding an opaque value of an imported type that was made by a function of
		// that package (h := sha256.New()): the call may change the value - h becomes an unknown function of the old h and
		// the arguments; what the call returns is dropped
		// x.A.B.M(args) for a fresh opaque local x: a method called for effect on a part of it - x becomes an unknown function of
		// the old x and the arguments
		if call, ok := x.X.(*ast.CallExpr); ok {
			if f, ok := call.Fun.(*ast.SelectorExpr); ok {
				if root, path, key, ok := t.freshStore(f.X); ok && key == nil {
					local := t.names[root]
					tys := []string{"go_val"}
					as := []string{local}
					for _, a := range call.Args {
						tys = append(tys, t.coqType(a, t.info.TypeOf(a)))
						as = append(as, t.expr(a))
					}
					name := t.observe("obs_"+typeShortName(root.Type())+"_call_"+path+"_"+f.Sel.Name, "("+strings.Join(append(tys, "go_val"), " -> ")+")")
					if t.storedLocal == nil {
						t.storedLocal = map[types.Object]bool{}
					}
					t.storedLocal[root] = true
					return "let " + local + " := (" + name + " " + strings.Join(as, " ") + ") in" + nl + t.block(rest, c, ind)
				}
			}
		}
		if call, ok := x.X.(*ast.CallExpr); ok {
			if f, ok := call.Fun.(*ast.SelectorExpr); ok {
				if id, ok := f.X.(*ast.Ident); ok && t.freshLocal[t.info.Uses[id]] {
					if prefix, isAbs := t.absPath(f.X); isAbs && strings.HasPrefix(prefix, "\x00") {
						parts := strings.SplitN(prefix[1:], "\x00", 2)
						local, obs := parts[0], parts[1]
						tys := []string{"go_val"}
						as := []string{local}
						for _, a := range call.Args {
							tys = append(tys, t.coqType(a, t.info.TypeOf(a)))
							as = append(as, t.expr(a))
						}
						ty := "(" + strings.Join(append(tys, "go_val"), " -> ") + ")"
						name := t.observe(obs+"_"+f.Sel.Name+"_upd", ty)
						return "let " + local + " := (" + name + " " + strings.Join(as, " ") + ") in" + nl + t.block(rest, c, ind)
					}
				}
			}
		}
		t.fail(s, "expression statement")
	case *ast.SwitchStmt:
		// switch [init;] [tag] { case a, b: ...; default: ... } without fallthrough or break: an if-chain
		if x.Init != nil {
			inner := *x
			inner.Init = nil
			return t.block(append([]ast.Stmt{x.Init, &inner}, rest...), c, ind)
		}
		var chain ast.Stmt
		var dflt *ast.CaseClause
		var clauses []*ast.CaseClause
		for _, cs := range x.Body.List {
			cc := cs.(*ast.CaseClause)
			ast.Inspect(cc, func(m ast.Node) bool {
				if b, ok := m.(*ast.BranchStmt); ok && (b.Tok == token.BREAK || b.Tok == token.FALLTHROUGH) {
					t.fail(b, "%s inside a switch", b.Tok)
				}
				return true
			})
			if cc.List == nil {
				dflt = cc
			} else {
				clauses = append(clauses, cc)
			}
		}
		if dflt != nil {
			chain = &ast.BlockStmt{List: dflt.Body}
		}
		for i := len(clauses) - 1; i >= 0; i-- {
			cc := clauses[i]
			var cond ast.Expr
			for _, v := range cc.List {
				var one ast.Expr = v
				if x.Tag != nil {
					be := &ast.BinaryExpr{X: x.Tag, Op: token.EQL, Y: v, OpPos: v.Pos()}
					t.info.Types[be] = types.TypeAndValue{Type: types.Typ[types.Bool]}
					one = be
				}
				if cond == nil {
					cond = one
				} else {
					be := &ast.BinaryExpr{X: cond, Op: token.LOR, Y: one, OpPos: v.Pos()}
					t.info.Types[be] = types.TypeAndValue{Type: types.Typ[types.Bool]}
					cond = be
				}
			}
			ifs := &ast.IfStmt{If: cc.Pos(), Cond: cond, Body: &ast.BlockStmt{Lbrace: cc.Pos(), List: cc.Body, Rbrace: cc.End()}}
			if chain != nil {
				ifs.Else = chain
			}
			chain = ifs
		}
		if chain == nil {
			return t.block(rest, c, ind)
		}
		return t.block(append([]ast.Stmt{chain}, rest...), c, ind)
	case *ast.RangeStmt:
		if t.isMap(x.X) && !t.isSet(x.X) {
			return t.mapRange(x, rest, c, ind)
		}
		if !t.isList(x.X) && !t.isSet(x.X) {
			t.fail(x, "range over %s", t.info.TypeOf(x.X))
		}
		if x.Tok != token.DEFINE && (x.Key != nil || x.Value != nil) {
			t.fail(x, "range assigning to existing variables")
		}
		xs := t.expr(x.X)
		var ety string
		vs := t.loopState(x)
		pat, sty := t.tupleOf(x, vs)
		key, val := "_", "_"
		if t.isSet(x.X) {
			// for k := range set: the members, in the list's order (the body must not depend on the order: trusted reading)
			ety = t.coqType(x, t.info.TypeOf(x.X).Underlying().(*types.Map).Key())
			if x.Value != nil {
				t.fail(x, "range over a set with a value variable")
			}
			if id, ok := x.Key.(*ast.Ident); ok && id.Name != "_" {
				val = t.bind(t.info.Defs[id])
			}
		} else {
			ety = t.coqType(x, t.info.TypeOf(x.X).Underlying().(*types.Slice).Elem())
			if id, ok := x.Key.(*ast.Ident); ok && id.Name != "_" {
				key = t.bind(t.info.Defs[id])
			}
			if id, ok := x.Value.(*ast.Ident); ok && id.Name != "_" {
				val = t.bind(t.info.Defs[id])
			}
		}
		in2 := ind + "    "
		lc := sctx{fall: "Cont " + pat, cont: "Cont " + pat, brk: "Brk " + pat, ret: func(v string) string { return "Ret " + t.wrap(v) },
			emit: func(v string) string { return "Ret " + v }}
		body := t.block(x.Body.List, lc, in2)
		after := t.block(rest, c, ind+"  ")
		return "match go_range (A:=" + ety + ") (S:=" + sty + ") (R:=" + t.retTy + ")" + nl +
			"    (fun (" + key + " : Z) (" + val + " : " + ety + ") (go_st : " + sty + ") =>" + "\n" + in2 + unpack(pat, "go_st", len(vs)) + body + ")" + nl +
			"    0%Z " + xs + " " + pat + " with" + nl +
			"| inr go_r => " + c.emit("go_r") + nl +
			"| inl go_st => " + unpack(pat, "go_st", len(vs)) + after + nl + "end"
	}
	t.fail(s, "statement form %T", s)
	return ""
}

// isEffectTarget: a field of an abstract receiver or parameter (the left-hand side of an assignment)
func (t *tr) isEffectTarget(e ast.Expr) bool {
	sel, ok := e.(*ast.SelectorExpr)
	if !ok {
		return false
	}
	p, ok := t.absPath(sel)
	return ok && !strings.HasPrefix(p, "\x00")
}

// isVRObj: the validation results the function was handed, or results of its own held in a local variable
func (t *tr) isVRObj(o types.Object) bool {
	return o != nil && ((t.vr != nil && o == t.vr) || t.localVR[o])
}

// vrArg: the validation results a call is handed (by name), if any
func (t *tr) vrArg(c *ast.CallExpr) types.Object {
	for _, a := range c.Args {
		if id, ok := a.(*ast.Ident); ok && t.isVRObj(t.info.Uses[id]) {
			return t.info.Uses[id]
		}
	}
	return nil
}

// isEffectCall: a method of an abstract receiver or parameter called as a statement (for its effect)
func (t *tr) isEffectCall(c *ast.CallExpr) bool {
	f, ok := c.Fun.(*ast.SelectorExpr)
	if !ok {
		return false
	}
	if id, ok := f.X.(*ast.Ident); ok && t.isVRObj(t.info.Uses[id]) {
		return false
	}
	if sel, ok := t.info.Selections[f]; ok && (t.known[sel.Obj()] != "" || t.mutates[sel.Obj()]) {
		return false
	}
	p, ok := t.absPath(f.X)
	if !ok || strings.HasPrefix(p, "\x00") {
		return false
	}
	for _, a := range c.Args {
		if id, ok := a.(*ast.Ident); ok && t.isVRObj(t.info.Uses[id]) {
			return false
		}
	}
	return true
}

// pkgEffectCall: a function of an imported package called as a statement with abstract values only as arguments
// (sort.Sort(a.Exports)): an effect on them, recorded by name
func (t *tr) pkgEffectCall(c *ast.CallExpr) (string, bool) {
	f, ok := c.Fun.(*ast.SelectorExpr)
	if !ok || len(c.Args) == 0 {
		return "", false
	}
	id, ok := f.X.(*ast.Ident)
	if !ok {
		return "", false
	}
	pn, ok := t.info.Uses[id].(*types.PkgName)
	if !ok {
		return "", false
	}
	name := pn.Imported().Name() + "." + f.Sel.Name
	for _, a := range c.Args {
		p, ok := t.absPath(a)
		if !ok || strings.HasPrefix(p, "\x00") {
			return "", false
		}
		name += " " + p
	}
	return name, true
}

// logSet: the log entry for an assignment of value v (of Coq type ty) to the field named name
func (t *tr) logSet(n ast.Node, name, ty, v string) string {
	ctor := map[string]string{"string": "GoSetS", "Z": "GoSetZ", "bool": "GoSetB"}[ty]
	if ctor == "" {
		t.fail(n, "assignment of a %s to a field of an abstract value", ty)
	}
	lg := t.names[t.logVar]
	t.setFields[name] = true
	return "let " + lg + " := (" + lg + " ++ [" + ctor + " \"" + name + "\" " + v + "])%list in"
}

// loopState: the outer variables a range body assigns (the loop's own key / value variables are per iteration)
func (t *tr) loopState(x *ast.RangeStmt) []*types.Var {
	own := map[types.Object]bool{}
	for _, e := range []ast.Expr{x.Key, x.Value} {
		if id, ok := e.(*ast.Ident); ok && t.info.Defs[id] != nil {
			own[t.info.Defs[id]] = true
		}
	}
	var out []*types.Var
	for _, v := range t.assigned(x.Body) {
		if !own[v] {
			out = append(out, v)
		}
	}
	return out
}

// markMutated: a store through e (the receiver's map) makes the function return the updated value
func (t *tr) markMutated(e ast.Expr) {
	id, ok := e.(*ast.Ident)
	if !ok || t.recv == nil || t.info.Uses[id] != t.recv {
		t.fail(e, "store through %s, which is not the receiver", exprText(e))
	}
	t.mut = true
}

// pkgChain: an expression made only of package-level values and constants of imported packages and of methods applied
// to such (base64.RawURLEncoding; base32.StdEncoding.WithPadding(base32.NoPadding)): a value of that package, named
// after how it is written
func (t *tr) pkgChain(e ast.Expr) (string, bool) {
	switch x := e.(type) {
	case *ast.ParenExpr:
		return t.pkgChain(x.X)
	case *ast.SelectorExpr:
		if id, ok := x.X.(*ast.Ident); ok {
			if pn, ok := t.info.Uses[id].(*types.PkgName); ok {
				if _, isFunc := t.info.Uses[x.Sel].(*types.Func); !isFunc {
					return pn.Imported().Name() + "_" + x.Sel.Name, true
				}
			}
		}
	case *ast.CallExpr:
		f, ok := x.Fun.(*ast.SelectorExpr)
		if !ok {
			return "", false
		}
		base, ok := t.pkgChain(f.X)
		if !ok {
			return "", false
		}
		name := base + "_" + f.Sel.Name
		for _, a := range x.Args {
			an, ok := t.pkgChain(a)
			if !ok {
				return "", false
			}
			name += "_" + an
		}
		return name, true
	}
	return "", false
}

// dataField: e is a field path of the function's own abstract receiver whose type is translated as data (a map of
// strings to integers, a list of strings, a text, a number): its observation name and Coq type
func (t *tr) dataField(e ast.Expr) (string, string, bool) {
	sel, ok := e.(*ast.SelectorExpr)
	if !ok || t.recv == nil || t.roots[t.recv] == "" {
		return "", "", false
	}
	p, ok := t.absPath(sel)
	if !ok || strings.HasPrefix(p, "\x00") || !strings.HasPrefix(p, t.roots[t.recv]+"_") {
		return "", "", false
	}
	if isAbstractType(t.info.TypeOf(sel)) {
		return "", "", false
	}
	var ty string
	func() {
		defer func() {
			if r := recover(); r != nil {
				if _, isU := r.(untr); !isU {
					panic(r)
				}
				ok = false
			}
		}()
		ty = t.coqType(sel, t.info.TypeOf(sel))
	}()
	if !ok || ty == "go_val" || !(strings.HasPrefix(ty, "(list ") || ty == "string" || ty == "Z" || ty == "bool") {
		return "", "", false
	}
	return p, ty, true
}

// stateOf: the variable carrying the current value of a data field the body stores into
func (t *tr) stateOf(e ast.Expr) (*types.Var, bool) {
	p, _, ok := t.dataField(e)
	if !ok {
		return nil, false
	}
	v, ok := t.stateVar[p]
	return v, ok
}

// freshStore: e is a field path (optionally indexed) of a fresh opaque local: the local, the path, the index
func (t *tr) freshStore(e ast.Expr) (types.Object, string, ast.Expr, bool) {
	var key ast.Expr
	if ie, ok := e.(*ast.IndexExpr); ok {
		key = ie.Index
		e = ie.X
	}
	var names []string
	for {
		switch y := e.(type) {
		case *ast.ParenExpr:
			e = y.X
			continue
		case *ast.SelectorExpr:
			names = append([]string{y.Sel.Name}, names...)
			e = y.X
			continue
		}
		break
	}
	id, ok := e.(*ast.Ident)
	if !ok || len(names) == 0 {
		return nil, "", nil, false
	}
	o := t.info.Uses[id]
	if o == nil || !t.freshLocal[o] || t.names[o] == "" {
		return nil, "", nil, false
	}
	return o, strings.Join(names, "_"), key, true
}

func isBuiltinMake(t *tr, c *ast.CallExpr) bool {
	id, ok := c.Fun.(*ast.Ident)
	if !ok {
		return false
	}
	b, ok := t.info.Uses[id].(*types.Builtin)
	return ok && b.Name() == "make"
}

// unconv: e without conversions between pointer types whose pointees are translated alike ((*TagList)(c) for a
// *CIDRList c: the same list under another method set)
func (t *tr) unconv(e ast.Expr) ast.Expr {
	for {
		switch x := e.(type) {
		case *ast.ParenExpr:
			e = x.X
			continue
		case *ast.CallExpr:
			if tv, ok := t.info.Types[x.Fun]; ok && tv.IsType() && len(x.Args) == 1 {
				pd, ok1 := tv.Type.Underlying().(*types.Pointer)
				ps, ok2 := t.info.TypeOf(x.Args[0]).Underlying().(*types.Pointer)
				if ok1 && ok2 && t.coqType(x, pd.Elem()) == t.coqType(x, ps.Elem()) {
					e = x.Args[0]
					continue
				}
			}
		}
		return e
	}
}

// lhsRef: the receiver (or a local) whose updated value a mutating method call rebinds
func (t *tr) lhsRef(e ast.Expr) string {
	e = t.unconv(e)
	if v, ok := t.stateOf(e); ok {
		return t.names[v]
	}
	if id, ok := e.(*ast.Ident); ok {
		if n, ok := t.names[t.info.Uses[id]]; ok && n != "" {
			if t.info.Uses[id] == t.recv {
				t.mut = true
			}
			return n
		}
	}
	t.fail(e, "receiver %s of a call that updates it", exprText(e))
	return ""
}

// mapRange: for k, v := range m over a map of strings to integers; the iteration order is the list's order
func (t *tr) mapRange(x *ast.RangeStmt, rest []ast.Stmt, c sctx, ind string) string {
	nl := "\n" + ind
	if x.Tok != token.DEFINE {
		t.fail(x, "range assigning to existing variables")
	}
	m := t.mapExpr(x.X)
	vs := t.loopState(x)
	pat, sty := t.tupleOf(x, vs)
	key, val := "_", "_"
	var keyObj types.Object
	if id, ok := x.Key.(*ast.Ident); ok && id.Name != "_" {
		keyObj = t.info.Defs[id]
		key = t.bind(keyObj)
	}
	if id, ok := x.Value.(*ast.Ident); ok && id.Name != "_" {
		val = t.bind(t.info.Defs[id])
	}
	in2 := ind + "    "
	lc := sctx{fall: "Cont " + pat, cont: "Cont " + pat, brk: "Brk " + pat, ret: func(v string) string { return "Ret " + t.wrap(v) },
		emit: func(v string) string { return "Ret " + v }}
	t.mapKey = append(t.mapKey, keyObj)
	body := t.block(x.Body.List, lc, in2)
	t.mapKey = t.mapKey[:len(t.mapKey)-1]
	after := t.block(rest, c, ind+"  ")
	_, _, vty := t.mapOps(x.X)
	return "match go_range (A:=(string * " + vty + ")) (S:=" + sty + ") (R:=" + t.retTy + ")" + nl +
		"    (fun (_ : Z) (go_e : string * " + vty + ") (go_st : " + sty + ") =>" + "\n" + in2 + "let '(" + key + ", " + val + ") := go_e in " + unpack(pat, "go_st", len(vs)) + body + ")" + nl +
		"    0%Z " + m + " " + pat + " with" + nl +
		"| inr go_r => " + c.emit("go_r") + nl +
		"| inl go_st => " + unpack(pat, "go_st", len(vs)) + after + nl + "end"
}

// translateFunc returns the Coq definition text for one function declaration
func translateFunc(pkg *packages.Package, fd *ast.FuncDecl, coqName string, known map[types.Object]string, mutates map[types.Object]bool, absParams map[types.Object][]absParam, returnsVr map[types.Object]bool) (text string, mutated bool, abs []absParam, vr bool) {
	t := &tr{info: pkg.TypesInfo, fset: pkg.Fset, names: map[types.Object]string{}, used: map[string]bool{},
		fieldTy: map[string]string{}, known: known, mutates: mutates, roots: map[types.Object]string{}, absParams: absParams, returnsVr: returnsVr, paramRoot: map[string]int{}, setFields: map[string]bool{}}
	defer func() {
		if r := recover(); r != nil {
			u, ok := r.(untr)
			if !ok {
				u = untr{fmt.Sprintf("translator error: %v", r)}
			}
			text = fmt.Sprintf("Definition %s : untranslatable := Untranslatable %s.\n", coqName, "\""+strings.ReplaceAll(u.msg, "\"", "'")+"\"")
			mutated = false
		}
	}()
	var params []string
	recvName := ""
	implResults = recvTypeName(fd) == "ValidationResults" || (fd.Recv == nil && fd.Name.Name == "CreateValidationResults")
	defer func() { implResults = false }()
	if fd.Recv != nil && len(fd.Recv.List) == 1 && len(fd.Recv.List[0].Names) == 1 {
		id := fd.Recv.List[0].Names[0]
		rv := t.info.Defs[id].(*types.Var)
		t.recv = rv
		if _, isStruct := derefType(rv.Type()).Underlying().(*types.Struct); !isStruct || implResults {
			// a string, a map, or a slice (possibly behind a pointer): the receiver is a value parameter
			recvName = t.bind(rv)
			params = append(params, "("+recvName+" : "+t.coqType(fd, derefType(rv.Type()))+")")
		} else {
			t.roots[rv] = id.Name // a struct: known through the observations the body makes of it
		}
	}
	pidx := -1
	for _, f := range fd.Type.Params.List {
		for _, id := range f.Names {
			pidx++
			o := t.info.Defs[id]
			_, isStruct := derefType(o.Type()).Underlying().(*types.Struct)
			_, isIface := o.Type().Underlying().(*types.Interface)
			if named, ok := o.Type().(*types.Named); ok && named.Obj().Pkg() != nil && named.Obj().Pkg().Path() == "time" {
				isStruct = false // a time.Time is its Unix seconds
			}
			if isVR(o.Type()) {
				isStruct = false
			}
			if sl, ok := o.Type().(*types.Slice); ok {
				if it, ok := sl.Elem().Underlying().(*types.Interface); ok && it.NumMethods() == 0 {
					isIface = true // args ...interface{}: known only through what is made of them (a formatted text)
				}
			}
			if implResults && isIssuePtr(o.Type()) {
				isStruct = false
			}
			if (isStruct && !isPlainStruct(o.Type())) || isIface {
				t.roots[o] = id.Name
				t.paramRoot[id.Name] = pidx
				continue
			}
			if isVR(o.Type()) {
				t.vr = o
			}
			params = append(params, "("+t.bind(o)+" : "+t.coqType(f, o.Type())+")") // (a variadic parameter already has its slice type)
		}
	}
	// data fields of the receiver that the body stores into, or updates through a translated method that updates its
	// receiver (a.Revocations = RevocationList{}; a.Revocations.Revoke(k, ts)): each is carried as a variable that starts
	// as the field's value on entry and is handed back with the result
	t.stateVar, t.stateFirst = map[string]*types.Var{}, map[string]token.Pos{}
	if recvName == "" && t.recv != nil && t.roots[t.recv] != "" {
		note := func(e ast.Expr) {
			if p, ty, ok := t.dataField(e); ok && (strings.HasPrefix(ty, "(list ")) {
				if t.stateVar == nil {
					t.stateVar = map[string]*types.Var{}
					t.stateFirst = map[string]token.Pos{}
				}
				if !t.stateFirst[p].IsValid() || e.Pos() < t.stateFirst[p] {
					t.stateFirst[p] = e.Pos()
				}
				if t.stateVar[p] == nil {
					t.observe(p, ty) // (the value on entry is a parameter)
					v := types.NewVar(token.NoPos, nil, p, t.info.TypeOf(e))
					t.stateVar[p] = v
					t.names[v] = p
					t.stateOrder = append(t.stateOrder, p)
				}
			}
		}
		ast.Inspect(fd.Body, func(m ast.Node) bool {
			switch st := m.(type) {
			case *ast.AssignStmt:
				if st.Tok == token.ASSIGN {
					for _, l := range st.Lhs {
						note(l)
					}
				}
			case *ast.ExprStmt:
				if c, ok := st.X.(*ast.CallExpr); ok {
					if f, ok := c.Fun.(*ast.SelectorExpr); ok {
						if sel, ok := t.info.Selections[f]; ok && t.mutates[sel.Obj()] {
							note(f.X)
						}
						if sel, ok := t.info.Selections[f]; ok && stateful[sel.Obj()] != nil {
							// a translated method that stores into data fields of the same receiver: they are ours too
							if prefix, isAbs := t.absPath(f.X); isAbs && !strings.HasPrefix(prefix, "\x00") {
								for _, sf := range stateful[sel.Obj()] {
									p := prefix + sf.rel
									if t.stateVar == nil {
										t.stateVar = map[string]*types.Var{}
									}
									if t.stateVar[p] == nil {
										t.observe(p, sf.ty)
										v := types.NewVar(token.NoPos, nil, p, types.Typ[types.Invalid])
										t.stateVar[p] = v
										t.names[v] = p
										t.stateOrder = append(t.stateOrder, p)
									}
								}
							}
						}
					}
				}
			}
			return true
		})
		sort.Strings(t.stateOrder)
	}
	// does the body assign fields of, or call for effect methods of, abstract values?
	ast.Inspect(fd.Body, func(m ast.Node) bool {
		switch st := m.(type) {
		case *ast.AssignStmt:
			for _, l := range st.Lhs {
				if _, isState := t.stateOf(l); isState {
					continue
				}
				if t.isEffectTarget(l) {
					t.effects = true
				}
			}
		case *ast.ExprStmt:
			if c, ok := st.X.(*ast.CallExpr); ok && t.isEffectCall(c) {
				t.effects = true
			}
			if c, ok := st.X.(*ast.CallExpr); ok {
				if _, ok := t.pkgEffectCall(c); ok {
					t.effects = true
				}
			}
		}
		return true
	})
	ast.Inspect(fd.Body, func(m ast.Node) bool {
		if c, ok := m.(*ast.CallExpr); ok {
			if o := t.calleeOf(c); o != nil && effectful[o] {
				t.effects = true
			}
		}
		return true
	})
	if t.effects {
		logT := types.NewNamed(types.NewTypeName(token.NoPos, nil, "go_log_t", nil), types.NewSlice(types.Typ[types.String]), nil)
		t.logVar = types.NewVar(token.NoPos, nil, "go_log", logT)
		t.names[t.logVar] = "go_log"
		t.used["go_log"] = true
	}
	t.resTy = "unit"
	if fd.Type.Results != nil {
		for _, r := range fd.Type.Results.List {
			if len(r.Names) > 0 {
				// a named result is accepted when the body never uses the name (every return spells its value out)
				for _, rn := range r.Names {
					ro := t.info.Defs[rn]
					used := false
					ast.Inspect(fd.Body, func(m ast.Node) bool {
						if id, ok := m.(*ast.Ident); ok && t.info.Uses[id] == ro {
							used = true
						}
						if rs, ok := m.(*ast.ReturnStmt); ok && len(rs.Results) == 0 {
							used = true
						}
						return true
					})
					if used {
						t.fail(fd, "named results")
					}
				}
			}
			t.resTys = append(t.resTys, t.coqType(fd, t.info.TypeOf(r.Type)))
		}
		if len(t.resTys) == 1 {
			t.resTy = t.resTys[0]
		} else {
			t.resTy = "(" + strings.Join(t.resTys, " * ") + ")"
		}
	}
	// does the body store through the receiver?  (decided before translating: it fixes the result type)
	if recvName != "" {
		for _, v := range t.assigned(fd.Body) {
			if v == t.recv {
				t.mut = true
			}
		}
	}
	t.retTy = t.resTy
	t.wrap = func(v string) string { return v }
	fall := "tt"
	if t.mut {
		rty := t.coqType(fd, derefType(t.recv.Type()))
		if t.resTy == "unit" {
			t.retTy = rty
			t.wrap = func(v string) string { return recvName }
			fall = recvName
		} else {
			t.retTy = "(" + rty + " * " + t.resTy + ")"
			t.wrap = func(v string) string { return "(" + recvName + ", " + v + ")" }
		}
	}
	if len(t.stateOrder) > 0 {
		if t.mut || t.vr != nil || t.effects {
			t.fail(fd, "stores into data fields of the receiver together with an updated value receiver, validation results or effects on abstract values")
		}
		var tys []string
		for _, n := range t.stateOrder {
			tys = append(tys, t.fieldTy[n])
		}
		st, stTy := t.stateOrder[0], tys[0]
		if len(t.stateOrder) > 1 {
			st, stTy = "("+strings.Join(t.stateOrder, ", ")+")", "("+strings.Join(tys, " * ")+")"
		}
		if t.resTy == "unit" {
			t.retTy = stTy
			t.wrap = func(v string) string { return st }
			fall = st
		} else {
			t.retTy = "(" + stTy + " * " + t.resTy + ")"
			t.wrap = func(v string) string { return "(" + st + ", " + v + ")" }
		}
	}
	if t.vr != nil && t.resTy == "(option string)" {
		// an error result that is nil on every path says nothing: dropped
		allNil := true
		ast.Inspect(fd.Body, func(m ast.Node) bool {
			if r, ok := m.(*ast.ReturnStmt); ok {
				if len(r.Results) != 1 {
					allNil = false
				} else if id, ok := r.Results[0].(*ast.Ident); !ok || id.Name != "nil" {
					allNil = false
				}
			}
			return true
		})
		if allNil {
			t.resTy, t.resTys, t.dropNil = "unit", nil, true
		}
	}
	if t.vr != nil {
		if t.mut || t.resTy != "unit" {
			t.fail(fd, "a function that reports into validation results and also returns a value or updates its receiver")
		}
		vrn := t.names[t.vr]
		t.retTy = "(list go_issue)"
		t.wrap = func(v string) string { return vrn }
		fall = vrn
	}
	pre := ""
	if t.effects {
		if t.mut {
			t.fail(fd, "effects on abstract values together with an updated receiver")
		}
		if t.vr != nil {
			// reports into validation results AND acts on abstract values: both come back, the log first
			vrn := t.names[t.vr]
			t.retTy = "((list go_event) * (list go_issue))"
			t.wrap = func(v string) string { return "(go_log, " + vrn + ")" }
			fall = "(go_log, " + vrn + ")"
		} else if t.resTy == "unit" {
			t.retTy = "(list go_event)"
			t.wrap = func(v string) string { return "go_log" }
			fall = "go_log"
		} else {
			t.retTy = "((list go_event) * " + t.resTy + ")"
			t.wrap = func(v string) string { return "(go_log, " + v + ")" }
		}
		pre = "let go_log := (@nil go_event) in\n  "
	}
	body := pre + t.block(fd.Body.List, sctx{fall: fall, ret: func(v string) string { return t.wrap(v) }, emit: func(v string) string { return v }}, "  ")
	// the observations the body makes of abstract values become parameters, in alphabetical order
	sort.Strings(t.fieldOrder)
	var fp []string
	for _, n := range t.fieldOrder {
		fp = append(fp, "("+n+" : "+t.fieldTy[n]+")")
		switch {
		case strings.HasPrefix(n, "go_") || strings.HasPrefix(n, "obs_"):
			t.myAbs = append(t.myAbs, absParam{n, t.fieldTy[n], true, -2})
		case t.recv != nil && t.roots[t.recv] != "" && strings.HasPrefix(n, t.roots[t.recv]+"_"):
			t.myAbs = append(t.myAbs, absParam{strings.TrimPrefix(n, t.roots[t.recv]), t.fieldTy[n], false, -1})
		default:
			found := false
			for pn, pi := range t.paramRoot {
				if strings.HasPrefix(n, pn+"_") {
					t.myAbs = append(t.myAbs, absParam{strings.TrimPrefix(n, pn), t.fieldTy[n], false, pi})
					found = true
					break
				}
			}
			if !found {
				t.foreignObs = true
			}
		}
	}
	params = append(fp, params...)
	switch {
	case t.foreignObs:
		t.myAbs = nil // callable from other translated functions only when all its observations are of its own receiver
	case t.recv != nil && t.roots[t.recv] == "":
		// a value receiver (string, list, map): passed as such; only observations of the world travel with the call
		var globals []absParam
		for _, ap := range t.myAbs {
			if ap.global || ap.root >= 0 {
				globals = append(globals, ap)
			}
		}
		t.myAbs = globals
	case t.myAbs == nil:
		t.myAbs = []absParam{}
	}
	text = fmt.Sprintf("Definition %s %s : %s :=\n  %s.\n", coqName, strings.Join(params, " "), t.retTy, body)
	if t.effects {
		effectful[pkg.TypesInfo.Defs[fd.Name]] = true
	}
	if len(t.stateOrder) > 0 {
		var sf []stateField
		root := t.roots[t.recv]
		for _, n := range t.stateOrder {
			sf = append(sf, stateField{strings.TrimPrefix(n, root), t.fieldTy[n]})
		}
		stateful[pkg.TypesInfo.Defs[fd.Name]] = sf
	}
	// what the function consults: the names of its observations of the world (untranslated functions of this and of
	// imported packages, the clock) - so that a theorem can pin them (json.Marshal replaced by another function changes
	// nothing in the shape of the translation, only this list)
	var world []string
	for _, n := range t.fieldOrder {
		if strings.HasPrefix(n, "go_") {
			world = append(world, "\""+n+"\"")
		}
	}
	consults := fmt.Sprintf("Definition %s_consults : list string := [%s]%%list.\n", coqName, strings.Join(world, "; "))
	defer func() {
		if text != "" && !strings.Contains(text, ": untranslatable :=") {
			text += consults
		}
	}()
	if strings.Contains(text, "go_val") || strings.Contains(text, "go_nil") {
		text = fmt.Sprintf("Definition %s (go_val : Type) (go_nil : go_val) %s : %s :=\n  %s.\n", coqName, strings.Join(params, " "), t.retTy, body)
		usesVal[pkg.TypesInfo.Defs[fd.Name]] = true
	}
	return text, t.mut, t.myAbs, t.vr != nil
}

// recvIsStruct: is the method's receiver a struct (possibly behind a pointer), i.e. an abstract value in the translation?
func recvIsStruct(o types.Object) bool {
	f, ok := o.(*types.Func)
	if !ok {
		return false
	}
	r := f.Type().(*types.Signature).Recv()
	if r == nil {
		return false
	}
	_, isStruct := derefType(r.Type()).Underlying().(*types.Struct)
	return isStruct
}

// isVR: *ValidationResults (of either library)
// implResults: set while the methods of ValidationResults themselves are translated - there the results are not the
// opaque "list of issues so far" but the struct that they are: one field, a list of issues (an issue, also behind a
// pointer, is the tuple of its text and two flags)
var implResults bool

func isResultsType(ty types.Type) bool {
	if p, ok := ty.(*types.Pointer); ok {
		ty = p.Elem()
	}
	n, ok := ty.(*types.Named)
	return ok && n.Obj().Name() == "ValidationResults"
}
func isIssuePtr(ty types.Type) bool {
	p, ok := ty.(*types.Pointer)
	if !ok {
		return false
	}
	n, ok := p.Elem().(*types.Named)
	return ok && n.Obj().Name() == "ValidationIssue"
}
func isVR(ty types.Type) bool {
	return !implResults && isResultsType(ty)
}

// isPlainStruct: a struct of plain fields, translated as a tuple (not an abstract value)
func isPlainStruct(ty types.Type) bool {
	if _, isPtr := ty.(*types.Pointer); isPtr {
		return false
	}
	st, ok := ty.Underlying().(*types.Struct)
	if !ok || st.NumFields() < 2 || st.NumFields() > 3 {
		return false
	}
	isIssue := false
	if named, ok := ty.(*types.Named); ok && (named.Obj().Name() == "ValidationIssue" || named.Obj().Name() == "WeightedMapping") {
		isIssue = true // (an issue is its text and its two flags, a weighted mapping its three fields; their one method only reads a field)
	}
	if !isIssue && types.NewMethodSet(types.NewPointer(ty)).Len() > 0 {
		return false // a type with behaviour of its own is an abstract value
	}
	for i := 0; i < st.NumFields(); i++ {
		if _, basic := st.Field(i).Type().Underlying().(*types.Basic); !basic {
			return false
		}
	}
	return true
}

func derefType(t types.Type) types.Type {
	if p, ok := t.(*types.Pointer); ok {
		return p.Elem()
	}
	return t
}

func recvTypeName(fd *ast.FuncDecl) string {
	if fd.Recv == nil || len(fd.Recv.List) == 0 {
		return ""
	}
	e := fd.Recv.List[0].Type
	if s, ok := e.(*ast.StarExpr); ok {
		e = s.X
	}
	if id, ok := e.(*ast.Ident); ok {
		return id.Name
	}
	return "?"
}

// srcgen writes coq/Gen/Src<Group>.v: one file per group of functions (so that a property's proof cone holds only
// the functions it is about), one module per package, one definition per target function
func srcgen(pkgs []*packages.Package, outDir string) error {
	sort.Slice(pkgs, func(i, j int) bool { return pkgs[i].PkgPath < pkgs[j].PkgPath })
	var groups []string
	seen := map[string]bool{}
	for _, tg := range srcTargets {
		if !seen[tg.Group] {
			seen[tg.Group] = true
			groups = append(groups, tg.Group)
		}
	}
	for _, group := range groups {
		var b strings.Builder
		b.WriteString("(* GENERATED by tools/globalsgen (srcgen.go) from the Go source of the working tree; do not edit.\n")
		b.WriteString("   Each definition is the translation of the named function's body (see Base/GoSem.v for the vocabulary). *)\n")
		b.WriteString("From JWT Require Import Base.GoSem.\nOpen Scope string_scope.\n\n")
		for _, pkg := range pkgs {
			mod := "V2"
			if strings.HasSuffix(pkg.PkgPath, "v1compat") {
				mod = "V1"
			}
			decls := map[srcTarget]*ast.FuncDecl{}
			for _, f := range pkg.Syntax {
				for _, d := range f.Decls {
					if fd, ok := d.(*ast.FuncDecl); ok && fd.Body != nil {
						decls[srcTarget{Recv: recvTypeName(fd), Name: fd.Name.Name}] = fd
					}
				}
			}
			b.WriteString("Module " + mod + ".\n")
			known := map[types.Object]string{}
			mutates := map[types.Object]bool{}
			absParams := map[types.Object][]absParam{}
			returnsVr := map[types.Object]bool{}
			for _, tg := range srcTargets {
				if tg.Group != group || (tg.Only != "" && tg.Only != mod) {
					continue
				}
				name := tg.Name
				if tg.Recv != "" {
					name = tg.Recv + "_" + tg.Name
				}
				fd, ok := decls[srcTarget{Recv: tg.Recv, Name: tg.Name}]
				if !ok {
					b.WriteString(fmt.Sprintf("Definition %s : untranslatable := Untranslatable \"the function no longer exists\".\n", name))
					continue
				}
				b.WriteString(fmt.Sprintf("(* %s *)\n", filepath.Base(pkg.Fset.Position(fd.Pos()).Filename)))
				text, mut, abs, rvr := translateFunc(pkg, fd, name, known, mutates, absParams, returnsVr)
				b.WriteString(text)
				if !strings.Contains(text, ": untranslatable :=") {
					known[pkg.TypesInfo.Defs[fd.Name]] = name
					mutates[pkg.TypesInfo.Defs[fd.Name]] = mut
					if abs != nil {
						absParams[pkg.TypesInfo.Defs[fd.Name]] = abs
					}
					returnsVr[pkg.TypesInfo.Defs[fd.Name]] = rvr
				}
			}
			b.WriteString("End " + mod + ".\n\n")
		}
		if err := os.WriteFile(filepath.Join(outDir, "Src"+group+".v"), []byte(b.String()), 0o644); err != nil {
			return err
		}
	}
	return nil
}
