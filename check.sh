#!/bin/sh
# ./check.sh <Cxx> quick|thorough   |   ./check.sh <Cxx> --replay <file>
cd "$(dirname "$0")" || exit 2
exec python3 check.py "$@"
