package main

import (
	"encoding/json"
	"fmt"
	"github.com/nats-io/nkeys"
	"strings"

	jwt "github.com/nats-io/jwt/v2"
)

func init() { drivers["C20"] = runC20 }

type lop struct {
	Kind string   `json:"op"` // add | remove
	Args []string `json:"args"`
}

func (o lop) coq() string {
	if o.Kind == "add" {
		return "Add " + coqStrList(o.Args)
	}
	return "Remove " + coqStrList(o.Args)
}

// specification oracle: insertion-ordered set of normalised non-empty strings
type ordset struct {
	items []string
	norm  func(string) string
}

func asciiLowerTrim(s string) string {
	b := []byte(s)
	i, j := 0, len(b)
	isSp := func(c byte) bool { return c == ' ' || (c >= 9 && c <= 13) }
	for i < j && isSp(b[i]) {
		i++
	}
	for j > i && isSp(b[j-1]) {
		j--
	}
	b = append([]byte(nil), b[i:j]...)
	for k := range b {
		if b[k] >= 'A' && b[k] <= 'Z' {
			b[k] += 32
		}
	}
	return string(b)
}

func (s *ordset) has(x string) bool {
	x = s.norm(x)
	for _, t := range s.items {
		if t == x {
			return true
		}
	}
	return false
}
func (s *ordset) add(x string) {
	x = s.norm(x)
	if x != "" && !s.has(x) {
		s.items = append(s.items, x)
	}
}
func (s *ordset) remove(x string) {
	x = s.norm(x)
	var out []string
	for _, t := range s.items {
		if t != x {
			out = append(out, t)
		}
	}
	s.items = out
}

type listImpl interface {
	Add(...string)
	Remove(...string)
	Contains(string) bool
}

func runC20(c *Ctx) {
	lobsTy := "list lop * list string * list (string * bool)"
	wt := c.newCaseWriter("tag", "From JWT Require Import Model.Lists.", lobsTy, "tag_hist_ok")
	ws := c.newCaseWriter("str", "From JWT Require Import Model.Lists.", lobsTy, "str_hist_ok")
	wstep := c.newCaseWriter("tagsteps", "From JWT Require Import Model.Lists.", "list lobs", "tag_case_ok")
	wc := c.newCaseWriter("cidr", "From JWT Require Import Model.Lists.", "cidr_json * list string", "cidr_case_ok")
	alpha := []string{"a", "A", " a ", "b", "B ", "", "c"}
	probes := []string{"a", "A", " b", "B", "c", "", "zz"}
	distinct := map[string]bool{}
	one := func(kind string, ops []lop, emit bool) {
		c.sum.Evaluations++
		var view func() []string
		var impl listImpl
		var sp *ordset
		if kind == "tag" {
			var tl jwt.TagList
			impl = &tl
			view = func() []string { return append([]string{}, tl...) }
			sp = &ordset{norm: asciiLowerTrim}
		} else if kind == "cidr" {
			// a source-network list is the same kind of set (lower-cased, trimmed entries)
			var cl jwt.CIDRList
			impl = &cl
			view = func() []string { return append([]string{}, cl...) }
			sp = &ordset{norm: asciiLowerTrim}
		} else {
			var sl jwt.StringList
			impl = &sl
			view = func() []string { return append([]string{}, sl...) }
			sp = &ordset{norm: func(s string) string { return s }}
		}
		var alias []string
		defer func() {
			if r := recover(); r != nil {
				c.violation(kind+" list operation panicked: "+fmt.Sprint(r), map[string]interface{}{"list": kind, "history": ops})
			}
		}()
		for _, o := range ops {
			if o.Kind == "add" {
				impl.Add(o.Args...)
				for _, a := range o.Args {
					sp.add(a)
				}
			} else {
				alias = view() // a copy taken before in-place deletion must not matter
				impl.Remove(o.Args...)
				for _, a := range o.Args {
					sp.remove(a)
				}
			}
		}
		_ = alias
		v := view()
		c.sum.ImplChecks++
		if strings.Join(v, "\x00") != strings.Join(sp.items, "\x00") || len(v) != len(sp.items) {
			c.violation(kind+" list contents differ from the ordered-set specification",
				map[string]interface{}{"list": kind, "history": ops, "impl": v, "spec": append([]string{}, sp.items...)})
		}
		pr := make([]string, len(probes))
		for i, p := range probes {
			a := impl.Contains(p)
			if a != sp.has(p) {
				c.violation(kind+" list Contains differs from membership of the normalised probe",
					map[string]interface{}{"list": kind, "history": ops, "probe": p, "impl": a, "spec": sp.has(p)})
			}
			pr[i] = "(" + coqStr(p) + ", " + coqBool(a) + ")"
		}
		if emit {
			opsS := make([]string, len(ops))
			for i, o := range ops {
				opsS[i] = o.coq()
			}
			term := "(" + coqList(opsS) + ", " + coqStrList(v) + ", " + coqList(pr) + ")"
			inp := map[string]interface{}{"list": kind, "history": ops}
			if kind == "tag" || kind == "cidr" {
				wt.add(term, inp)
			} else {
				ws.add(term, inp)
			}
		}
		if len(v) > 0 {
			distinct[kind+fmt.Sprint(ops)] = true
		}
		c.count(fmt.Sprintf("%s_len_%d", kind, len(ops)))
		if c.sum.Evaluations%9973 == 11 {
			c.sample(map[string]interface{}{"list": kind, "history": ops, "contents": v})
		}
	}
	var alphabet []lop
	for _, a := range alpha {
		alphabet = append(alphabet, lop{"add", []string{a}}, lop{"remove", []string{a}})
	}
	maxTag, maxStr := 4, 3
	if c.thorough() {
		maxTag, maxStr = 5, 4
	}
	var rec func(kind string, cur []lop, max int)
	rec = func(kind string, cur []lop, max int) {
		// histories of the deepest level are checked against the specification oracle on
		// every run; through Coq they go completely up to max-1 and sampled at max in thorough
		emit := len(cur) < max || !c.thorough() || c.Rng.Intn(8) == 0
		one(kind, cur, emit)
		if len(cur) == max {
			return
		}
		for _, a := range alphabet {
			rec(kind, append(append([]lop(nil), cur...), a), max)
		}
	}
	rec("tag", nil, maxTag)
	rec("str", nil, maxStr)
	rec("cidr", nil, maxStr)
	// multi-argument steps on a source-network list (entries that differ by case and blanks only)
	for i := 0; i < 300; i++ {
		// (an argument is ONE entry, whatever it contains: a comma, a semicolon, a blank inside)
		nalpha := []string{"10.0.0.0/8", " 10.0.0.0/8", "A:B::/32", "a:b::/32 ", "\tA:b::/32", "", "fe80::/10", "FE80::/10",
			"10.0.0.0/8,192.168.0.0/16", " 10.0.0.0/8,192.168.0.0/16 ", "a,b", ",", "x;y", "10.0.0.0/8 192.168.0.0/16"}
		var ops []lop
		for j := 0; j < 2+c.Rng.Intn(6); j++ {
			args := make([]string, 1+c.Rng.Intn(3))
			for k := range args {
				args[k] = nalpha[c.Rng.Intn(len(nalpha))]
			}
			kind := "add"
			if c.Rng.Intn(5) < 2 {
				kind = "remove"
			}
			ops = append(ops, lop{kind, args})
		}
		one("cidr", ops, i < 100)
	}
	// long lists: many distinct entries (added in one call or one by one), then removals of several present entries
	// in one call, given in any order (list order, reverse, first and last together), interleaved with further adds
	for _, kind := range []string{"tag", "str", "cidr"} {
		for _, size := range []int{8, 20, 33, 40, 64, 130} {
			for rep := 0; rep < 6; rep++ {
				var all []string
				for i := 0; i < size; i++ {
					all = append(all, fmt.Sprintf("tag-%03d", i))
				}
				var ops []lop
				if rep%2 == 0 {
					ops = append(ops, lop{"add", append([]string{}, all...)})
				} else {
					for _, a := range all {
						ops = append(ops, lop{"add", []string{a}})
					}
				}
				present := append([]string{}, all...)
				for step := 0; step < 4; step++ {
					k := 2 + c.Rng.Intn(5)
					var args []string
					switch (rep + step) % 4 {
					case 0: // the last entry, then the first
						args = []string{present[len(present)-1], present[0]}
					case 1: // descending positions
						for j := 0; j < k && j*3 < len(present); j++ {
							args = append(args, present[len(present)-1-j*3])
						}
					default: // any order, written in another letter case and padded (tags and networks are normalised)
						for _, j := range permute(c.Rng, len(present)) {
							if len(args) < k {
								a := present[j]
								if kind != "str" && len(args)%2 == 1 {
									a = " " + strings.ToUpper(a)
								}
								args = append(args, a)
							}
						}
					}
					ops = append(ops, lop{"remove", args})
					gone := map[string]bool{}
					for _, a := range args {
						gone[strings.ToLower(strings.TrimSpace(a))] = true
					}
					var rest []string
					for _, p := range present {
						if !gone[p] {
							rest = append(rest, p)
						}
					}
					present = rest
					if step == 1 {
						ops = append(ops, lop{"add", []string{"later-1", all[0], "later-2"}})
						present = append(present, "later-1")
						if gone[all[0]] || !containsStr(present, all[0]) {
							present = append(present, all[0])
						}
						present = append(present, "later-2")
					}
					if len(present) < 8 {
						break
					}
				}
				one(kind, ops, size <= 40 && rep < 2)
				c.count("long_list_multi_remove")
			}
		}
	}
	c.sum.Exhaustive = true
	// random long histories with multi-argument calls, observed after every step
	nrand := 600
	if c.thorough() {
		nrand = 8000
	}
	ralpha := []string{"a", "A", " a ", "b", "B ", "", "c", "\tC\n", "dd", "Dd ", "e f", "  ", "a,b", "A,B ", ",", "c;dd"}
	for i := 0; i < nrand; i++ {
		n := 5 + c.Rng.Intn(36)
		var tl jwt.TagList
		sp := &ordset{norm: asciiLowerTrim}
		obs := make([]string, 0, n)
		var hist []lop
		bad := false
		for j := 0; j < n; j++ {
			na := 1 + c.Rng.Intn(3)
			args := make([]string, na)
			for k := range args {
				args[k] = ralpha[c.Rng.Intn(len(ralpha))]
			}
			o := lop{"add", args}
			if c.Rng.Intn(5) < 2 {
				o.Kind = "remove"
				tl.Remove(args...)
				for _, a := range args {
					sp.remove(a)
				}
			} else {
				tl.Add(args...)
				for _, a := range args {
					sp.add(a)
				}
			}
			hist = append(hist, o)
			v := append([]string{}, tl...)
			if !bad && strings.Join(v, "\x00") != strings.Join(sp.items, "\x00") {
				bad = true
				c.violation("tag list contents differ from the ordered-set specification",
					map[string]interface{}{"list": "tag", "history": append([]lop{}, hist...), "impl": v, "spec": append([]string{}, sp.items...)})
			}
			p := ralpha[c.Rng.Intn(len(ralpha))]
			obs = append(obs, fmt.Sprintf("{| lo_op := %s; lo_view := %s; lo_probe := [(%s, %s)] |}", o.coq(), coqStrList(v), coqStr(p), coqBool(tl.Contains(p))))
		}
		c.sum.Evaluations++
		c.sum.ImplChecks++
		c.count("tag_random_steps")
		wstep.add(coqList(obs), map[string]interface{}{"list": "tag", "history": hist})
		distinct["r"+fmt.Sprint(hist)] = true
	}
	// beyond ASCII (implementation against the statement only; the Coq model is ASCII): "lower-cased" is Go's
	// strings.ToLower, membership is equality of lower-cased trimmed forms - not a looser Unicode folding
	{
		ualpha := []string{"\u03bcs", "\u00b5s", "\u03c3", "\u03c2", "\u017f", "s", "S", "\u0130d", "id", "\u212a", "k", "K", "\u00c4 ", "\u00e4", "stra\u00dfe", "STRASSE", "\u1e9e"}
		unorm := func(x string) string { return strings.ToLower(strings.TrimSpace(x)) }
		for i := 0; i < 400; i++ {
			var tl jwt.TagList
			sp := &ordset{norm: unorm}
			var hist []lop
			for j := 0; j < 3+c.Rng.Intn(10); j++ {
				a := ualpha[c.Rng.Intn(len(ualpha))]
				if c.Rng.Intn(4) == 0 {
					tl.Remove(a)
					sp.remove(a)
					hist = append(hist, lop{"remove", []string{a}})
				} else {
					tl.Add(a)
					sp.add(a)
					hist = append(hist, lop{"add", []string{a}})
				}
				probe := ualpha[c.Rng.Intn(len(ualpha))]
				c.sum.ImplChecks++
				if strings.Join(tl, "\x00") != strings.Join(sp.items, "\x00") || tl.Contains(probe) != sp.has(probe) {
					c.violation("tag list beyond ASCII: contents or membership differ from the lower-cased ordered-set specification",
						map[string]interface{}{"list": "tag", "history": append([]lop{}, hist...), "impl": append([]string{}, tl...), "spec": append([]string{}, sp.items...), "probe": probe,
							"impl_contains": tl.Contains(probe), "spec_contains": sp.has(probe)})
					break
				}
			}
			c.sum.Evaluations++
			c.count("tag_beyond_ascii")
		}
	}
	// the source-network list answers through the same set: the same histories on a CIDRList (a query whose lower-case
	// form has another byte length than the query - Kelvin sign, capital sharp s, dotted capital I - among them)
	{
		ualpha := []string{"\u212a", "k", "K", "\u1e9e", "\u00df", "\u0130", "i\u0307", "\u023a", "\u2c65", "\u212b", "\u00e5", " \u212a ", "\u00c4", "\u00e4", "10.0.0.0/8", "FE80::/10"}
		unorm := func(x string) string { return strings.ToLower(strings.TrimSpace(x)) }
		for i := 0; i < 400; i++ {
			var cl jwt.CIDRList
			sp := &ordset{norm: unorm}
			var hist []lop
			for j := 0; j < 1+c.Rng.Intn(6); j++ {
				a := ualpha[c.Rng.Intn(len(ualpha))]
				if c.Rng.Intn(5) == 0 {
					cl.Remove(a)
					sp.remove(a)
					hist = append(hist, lop{"remove", []string{a}})
				} else {
					cl.Add(a)
					sp.add(a)
					hist = append(hist, lop{"add", []string{a}})
				}
				bad := false
				for _, probe := range ualpha {
					c.sum.ImplChecks++
					if strings.Join(cl, "\x00") != strings.Join(sp.items, "\x00") || cl.Contains(probe) != sp.has(probe) {
						c.violation("source-network list beyond ASCII: contents or membership differ from the lower-cased ordered-set specification",
							map[string]interface{}{"list": "cidr", "history": append([]lop{}, hist...), "impl": append([]string{}, cl...), "spec": append([]string{}, sp.items...), "probe": probe,
								"impl_contains": cl.Contains(probe), "spec_contains": sp.has(probe)})
						bad = true
						break
					}
				}
				if bad {
					break
				}
			}
			c.sum.Evaluations++
			c.count("cidr_beyond_ascii")
		}
		// ... and the comma-separated JSON form with blanks of every kind around the entries (no-break space, next line,
		// vertical tab, form feed, em space, ideographic space): one entry or several, the entries come out trimmed
		for _, blank := range []string{" ", "\t", "\u00a0", "\u0085", "\v", "\f", "\u2003", "\u3000", "\u00a0 \t"} {
			for _, entries := range [][]string{{"10.0.0.0/8"}, {"FE80::/10"}, {"10.0.0.0/8", "192.168.0.0/16"}, {"10.0.0.0/8", "10.0.0.0/8"}, {""}} {
				var padded []string
				sp := &ordset{norm: unorm}
				for _, e := range entries {
					padded = append(padded, blank+e+blank)
					sp.add(e)
				}
				text := strings.Join(padded, ",")
				js, _ := json.Marshal(text)
				var got jwt.CIDRList
				err := json.Unmarshal(js, &got)
				var viaSet jwt.CIDRList
				viaSet.Set(text)
				c.sum.Evaluations++
				c.sum.ImplChecks++
				if err != nil || strings.Join(got, "\x00") != strings.Join(sp.items, "\x00") || strings.Join(viaSet, "\x00") != strings.Join(sp.items, "\x00") {
					c.violation("source-network list: the comma-separated form with blanks around the entries does not decode to the trimmed lower-cased entries",
						map[string]interface{}{"list": "cidr", "json": string(js), "impl": append([]string{}, got...), "via_set": append([]string{}, viaSet...), "spec": append([]string{}, sp.items...), "error": fmt.Sprint(err)})
				}
				c.count("cidr_string_form_with_unicode_blanks")
			}
		}
	}
	// source networks: both JSON forms
	// (the same network written with and without blanks, in both letter cases: one entry of the set)
	calpha := []string{"10.0.0.0/8", "192.168.1.0/24", "::1/128", "A:B::/32", " 10.1.0.0/16 ", "", "fe80::/10", " 10.0.0.0/8", "10.0.0.0/8 ", "a:b::/32", "FE80::/10 ", "10.1.0.0/16",
		// one network spelled in ways an address parser would print differently: entries are texts, kept as written
		"2001:0db8::1/32", "2001:db8:0:0:0:0:0:1/32", "2001:db8::1/32", "10.0.0.1/8", "010.0.0.0/8", "::ffff:10.0.0.0/104", "0:0:0:0:0:0:0:1/128", "10.0.0.0/08", "not a network", "10.0.0.0"}
	ncidr := 400
	if c.thorough() {
		ncidr = 5000
	}
	for i := 0; i < ncidr; i++ {
		n := c.Rng.Intn(5)
		es := make([]string, n)
		clean := true
		seen := map[string]bool{}
		for k := range es {
			es[k] = calpha[c.Rng.Intn(len(calpha))]
			if es[k] != asciiLowerTrim(es[k]) || es[k] == "" || seen[es[k]] {
				clean = false
			}
			seen[es[k]] = true
		}
		arrJSON, _ := json.Marshal(es)
		if n == 0 {
			arrJSON = []byte("[]")
		}
		strJSON, _ := json.Marshal(strings.Join(es, ","))
		var fromArr, fromStr jwt.CIDRList
		if err := json.Unmarshal(arrJSON, &fromArr); err != nil {
			panic(err)
		}
		if err := json.Unmarshal(strJSON, &fromStr); err != nil {
			panic(err)
		}
		c.sum.Evaluations++
		// Set replaces the list it is called on and touches no other: a list that shares its backing array with it (a
		// struct copied by value) keeps its entries; Set and the string form of the decoder give the same list
		{
			orig := jwt.CIDRList{"192.168.0.0/16", "10.0.0.0/8", "172.16.0.0/12", "fd00::/8"}
			snapshot := strings.Join(orig, "|")
			cp := orig
			cp.Set(strings.Join(es, ","))
			cp2 := orig
			json.Unmarshal(strJSON, &cp2)
			c.sum.ImplChecks++
			if strings.Join(orig, "|") != snapshot {
				c.violation("source-network list: Set / decoding into a copy of a list changed the original list",
					map[string]interface{}{"text": strings.Join(es, ","), "original_now": append([]string{}, orig...), "original_before": snapshot})
			}
			if strings.Join(cp, "|") != strings.Join(fromStr, "|") || strings.Join(cp2, "|") != strings.Join(fromStr, "|") {
				c.violation("source-network list: Set on a non-empty list differs from decoding the string form into an empty one",
					map[string]interface{}{"text": strings.Join(es, ","), "set": append([]string{}, cp...), "decoded_into_nonempty": append([]string{}, cp2...), "decoded": append([]string{}, fromStr...)})
			}
		}
		// the comma-separated form, for ANY entries: the ordered set of the lower-cased, trimmed, non-empty pieces
		{
			sp := &ordset{norm: asciiLowerTrim}
			for _, piece := range strings.Split(strings.Join(es, ","), ",") {
				sp.add(piece)
			}
			c.sum.ImplChecks++
			if strings.Join(fromStr, "|") != strings.Join(sp.items, "|") || len(fromStr) != len(sp.items) {
				c.violation("source-network list: the comma-separated form does not decode to the ordered set of its lower-cased trimmed entries",
					map[string]interface{}{"text": strings.Join(es, ","), "from_string": fromStr, "spec": append([]string{}, sp.items...)})
			}
		}
		if clean {
			c.sum.ImplChecks++
			c.count("cidr_clean")
			if strings.Join(fromArr, "|") != strings.Join(es, "|") || strings.Join(fromStr, "|") != strings.Join(es, "|") {
				c.violation("source-network list: array form and comma-separated form decode differently",
					map[string]interface{}{"entries": es, "from_array": fromArr, "from_string": fromStr})
			}
		} else {
			c.count("cidr_unclean")
		}
		wc.add("(CArr "+coqStrList(es)+", "+coqStrList(fromArr)+")", map[string]interface{}{"entries": es, "form": "array"})
		wc.add("(CStr "+coqStr(strings.Join(es, ","))+", "+coqStrList(fromStr)+")", map[string]interface{}{"entries": es, "form": "string"})
		if n > 1 {
			distinct["c"+strings.Join(es, "|")] = true
		}
	}
	// the string form as OTHER encoders write it: JSON allows escapes that Go's own encoder never emits (an escaped
	// solidus, \u escapes for plain characters, surrogate pairs) - the text of the string is what encoding/json says it is
	kpAcct, _ := nkeys.CreateAccount()
	kpUser, _ := nkeys.CreateUser()
	for _, rawJSON := range []string{
		`"192.0.2.0\/24,10.0.0.0\/8"`, `"192.0.2.0\u002f24"`, `"\u0031\u0030.0.0.0/8, 10.1.0.0\/16 "`, `"fd00::\/8,FD00::\/8"`,
		`"net-\ud83d\ude00/8,10.0.0.0/8"`, `"a\tb,c"`, `"\"quoted\",x"`, `"back\\slash"`, `"10.0.0.0/8\u002c10.1.0.0/16"`, `""`, `"\/"`} {
		var text string
		if err := json.Unmarshal([]byte(rawJSON), &text); err != nil {
			panic(err)
		}
		var got jwt.CIDRList
		err := json.Unmarshal([]byte(rawJSON), &got)
		sp := &ordset{norm: asciiLowerTrim}
		for _, piece := range strings.Split(text, ",") {
			sp.add(piece)
		}
		c.sum.Evaluations++
		c.sum.ImplChecks++
		if err != nil || strings.Join(got, "|") != strings.Join(sp.items, "|") || len(got) != len(sp.items) {
			c.violation("source-network list: the comma-separated form written with JSON escapes does not decode to the ordered set of its lower-cased trimmed entries",
				map[string]interface{}{"json_text": rawJSON, "string_value": text, "decoded": append([]string{}, got...), "error": fmt.Sprint(err), "spec": append([]string{}, sp.items...)})
		}
		// ... and the same inside a user token
		uc := jwt.NewUserClaims(mustPub(kpUser))
		if tok, err := uc.Encode(kpAcct); err == nil {
			ch := strings.Split(tok, ".")
			pj, _ := b64.DecodeString(ch[1])
			pj2 := strings.Replace(string(pj), `"nats":{`, `"nats":{"src":`+rawJSON+`,`, 1)
			ft := forge(hdrV2, pj2, "v2", &signer{kp: kpAcct})
			d, err := jwt.DecodeUserClaims(ft.Token)
			c.sum.ImplChecks++
			if err != nil || d == nil || strings.Join(d.Src, "|") != strings.Join(sp.items, "|") {
				c.violation("source-network list: a user token whose src is the comma-separated form written with JSON escapes does not decode to its entries",
					map[string]interface{}{"json_text": rawJSON, "token": ft.Token, "error": fmt.Sprint(err), "spec": append([]string{}, sp.items...)})
			}
		}
		c.count("cidr_string_form_with_json_escapes")
	}
	wt.flush()
	ws.flush()
	wstep.flush()
	wc.flush()
	c.sum.DistinctNontriv = len(distinct)
	c.sum.Rule = fmt.Sprintf("all add/remove histories over the 7-string alphabet {a, A, ' a ', b, 'B ', '', c}: TagList up to length %d, StringList and CIDRList (Add/Remove/Contains as a lower-cased trimmed set) up to length %d (exhaustive), contents and 7 Contains probes; random histories of 5-40 multi-argument steps observed after every step; random source-network entry lists in both JSON forms; non-trivial = distinct history leaving a non-empty list / distinct multi-entry network list", maxTag, maxStr)
}

func containsStr(l []string, x string) bool {
	for _, y := range l {
		if y == x {
			return true
		}
	}
	return false
}
