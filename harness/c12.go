package main

import (
	"crypto/sha512"
	"encoding/json"
	"fmt"
	"reflect"
	"sort"
	"strings"
	"time"

	jwt "github.com/nats-io/jwt/v2"
	"github.com/nats-io/nkeys"
	"verifharness/schema"
)

func init() { drivers["C12"] = runC12 }

// failingSigner is a key pair whose Sign always fails (a hardware token that is unplugged, say)
type failingSigner struct{ nkeys.KeyPair }

func (failingSigner) Sign([]byte) ([]byte, error) { return nil, fmt.Errorf("signer unavailable") }

// rotatingSigner is ONE signer object whose key is replaced between uses (a key-management service that rotates)
type rotatingSigner struct{ nkeys.KeyPair }

func ownID(cd jwt.ClaimsData) (string, []byte) {
	cd.ID = ""
	j, _ := json.Marshal(&cd)
	h := sha512.Sum512_256(j)
	return b32.EncodeToString(h[:]), j
}

// blankStamps renders a claims object with everything Encode is allowed to touch neutralised.
func blankStamps(cl jwt.Claims) string {
	cp := reflect.New(reflect.TypeOf(cl).Elem())
	cp.Elem().Set(reflect.ValueOf(cl).Elem())
	c := cp.Interface().(jwt.Claims)
	cd := c.Claims()
	cd.Issuer, cd.IssuedAt, cd.ID = "", 0, ""
	switch x := c.(type) {
	case *jwt.OperatorClaims:
		x.Type, x.Version = "", 0
	case *jwt.AccountClaims:
		x.Type, x.Version = "", 0
		// order of imports / exports is Encode's to choose: compare as sorted multisets
		ex := append(jwt.Exports{}, x.Exports...)
		sort.SliceStable(ex, func(i, j int) bool { return canonString(reflect.ValueOf(ex[i])) < canonString(reflect.ValueOf(ex[j])) })
		x.Exports = ex
		im := append(jwt.Imports{}, x.Imports...)
		sort.SliceStable(im, func(i, j int) bool { return canonString(reflect.ValueOf(im[i])) < canonString(reflect.ValueOf(im[j])) })
		x.Imports = im
	case *jwt.UserClaims:
		x.Type, x.Version = "", 0
	case *jwt.ActivationClaims:
		x.Type, x.Version = "", 0
	case *jwt.AuthorizationRequestClaims:
		x.Type, x.Version = "", 0
	case *jwt.AuthorizationResponseClaims:
		x.Type, x.Version = "", 0
	case *jwt.GenericClaims:
		if x.Data != nil {
			m := map[string]interface{}{}
			for k, v := range x.Data {
				if k != "version" {
					m[k] = v
				}
			}
			x.Data = m
		}
	}
	return canonString(cp.Elem())
}

func typeAndVersion(cl jwt.Claims) (string, int, bool) {
	switch x := cl.(type) {
	case *jwt.OperatorClaims:
		return string(x.Type), x.Version, true
	case *jwt.AccountClaims:
		return string(x.Type), x.Version, true
	case *jwt.UserClaims:
		return string(x.Type), x.Version, true
	case *jwt.ActivationClaims:
		return string(x.Type), x.Version, true
	case *jwt.AuthorizationRequestClaims:
		return string(x.Type), x.Version, true
	case *jwt.AuthorizationResponseClaims:
		return string(x.Type), x.Version, true
	case *jwt.GenericClaims:
		if x.Data == nil {
			return "", 0, false
		}
		v, _ := x.Data["version"].(float64)
		return "", int(v), true
	}
	return "", 0, false
}

func runC12(c *Ctx) {
	w := c.newCaseWriter("stamp", "From JWT Require Import Model.Encode.\nOpen Scope Z_scope.", "ckind * val * string * Z * json * string * val", "scase_ok")
	kr := newKeyring()
	g := &valGen{rng: c.Rng, kr: kr, fill: 50, scopeByValue: true, wideInts: true}
	perKind, perKindCoq := 300, 30
	if c.thorough() {
		perKind, perKindCoq = 5000, 250
	}
	distinct := map[string]bool{}
	for _, kind := range kindNames {
		em, ty, elem := emitterFor(kind)
		for i := 0; i < perKind; i++ {
			g.fill = []int{15, 50, 90}[i%3]
			cl, s := g.newClaims(kind)
			// make sorting deterministic for the model comparison: distinct subjects
			if ac, ok := cl.(*jwt.AccountClaims); ok {
				for n, e := range ac.Exports {
					if e != nil {
						e.Subject = jwt.Subject(fmt.Sprintf("%s.%d", e.Subject, (n*7)%5*10+n))
					}
				}
				for n, e := range ac.Imports {
					if e != nil {
						e.Subject = jwt.Subject(fmt.Sprintf("%s.%d", e.Subject, (n*7)%5*10+n))
					}
				}
			}
			// subjects that share a prefix and go on with a dot, or with a character that sorts BEFORE the dot (blank ! " #
			// $ % & ' ( ) * + , -): the order Encode gives the lists is the order of the subjects as plain texts
			if ac, ok := cl.(*jwt.AccountClaims); ok && i%4 == 1 {
				fam := []string{"orders.new", "orders-eu.new", "orders.new.eu", "orders*.x", "orders$1.x", "orders.", "orders", "orders!.x", "orders x.y", "orders,x", "orders+.x", "orders/x", "orders.-", "orders-"}
				for _, k := range permute(c.Rng, len(fam)) {
					ac.Exports = append(ac.Exports, &jwt.Export{Subject: jwt.Subject(fam[k]), Type: jwt.Stream})
					ac.Imports = append(ac.Imports, &jwt.Import{Subject: jwt.Subject(fam[k]), Account: kr.by["account"].pub, Type: jwt.Stream})
				}
			}
			// text that is not valid UTF-8 (a Latin-1 name, stray bytes) is the caller's content too: Encode may write what
			// it likes into the token, the object stays as it was (these objects are not sent to the Coq model)
			if i >= perKindCoq && i%5 == 2 {
				cd := cl.Claims()
				cd.Name = []string{"caf\xe9 \xff\xfe latin-1 name", "\xff", "ok\xc3", "\xed\xa0\x80 surrogate"}[i%4]
				if i%2 == 0 {
					cd.Audience = "aud\xe9\xe9"
				}
			}
			// content that happens to equal the signing key's public key is content like any other
			if i%3 == 1 {
				switch x := cl.(type) {
				case *jwt.UserClaims:
					x.IssuerAccount = s.pub
				case *jwt.ActivationClaims:
					x.IssuerAccount = s.pub
				case *jwt.AuthorizationResponseClaims:
					x.IssuerAccount = s.pub
				case *jwt.OperatorClaims:
					x.SystemAccount = s.pub
					x.SigningKeys.Add(s.pub)
				case *jwt.AccountClaims:
					if x.SigningKeys != nil {
						x.SigningKeys.Add(s.pub)
					}
				}
				cl.Claims().Name, cl.Claims().Audience = s.pub, s.pub
			}
			// every way Encode can fail returns no token: also when everything passes and only the signing step fails
			if i < 12 {
				for _, how := range []string{"public-only key", "signer reports an error", "nil key"} {
					var badKp nkeys.KeyPair
					switch how {
					case "public-only key":
						badKp, _ = nkeys.FromPublicKey(s.pub)
					case "signer reports an error":
						badKp = failingSigner{s.kp}
					}
					ft, ferr := cl.Encode(badKp)
					c.sum.ImplChecks++
					c.sum.Evaluations++
					if ferr == nil || ft != "" {
						c.violation("C12: a failed Encode returned a non-empty token (or no error)", map[string]interface{}{"kind": kind, "failure": how, "token": ft, "error": fmt.Sprint(ferr)})
					}
					c.count("encode_fails_at_signing")
				}
			}
			// generic claims that WRAP another claim: their data holds a nats section of its own (with a type and perhaps a
			// version of its own) and no top-level type - the stamp goes where the decoders read it, the wrapped section
			// is content
			if gc, ok := cl.(*jwt.GenericClaims); ok && i >= perKindCoq && i%3 == 1 {
				if gc.Data == nil {
					gc.Data = map[string]interface{}{}
				}
				delete(gc.Data, "type")
				inner := map[string]interface{}{"type": "wrapped_kind", "k": "v"}
				if i%2 == 0 {
					inner["version"] = float64(1)
				}
				gc.Data["nats"] = inner
				c.count("generic_claims_wrapping_a_nats_section")
			}
			// scopes put together by hand rather than with NewUserScope, filed directly in the key set: one that names no key
			// of its own, one whose kind was left at its zero value (Encode refuses that one). Whatever Encode does with them,
			// the scope objects are the caller's and stay as they were
			handBuilt := ""
			if ac, ok := cl.(*jwt.AccountClaims); ok && i >= perKindCoq && i%4 != 0 {
				if ac.SigningKeys == nil {
					ac.SigningKeys = jwt.SigningKeys{}
				}
				k := newSigner("account").pub
				switch i % 4 {
				case 1:
					ac.SigningKeys[k] = &jwt.UserScope{Kind: jwt.UserScopeType, Role: "filed without a key of its own"}
					handBuilt = "scope with an empty key"
				case 2:
					ac.SigningKeys[k] = &jwt.UserScope{Key: k, Role: "kind left at zero"}
					handBuilt = "scope whose kind is zero"
				case 3:
					ac.SigningKeys[k] = &jwt.UserScope{Role: "neither kind nor key"}
					handBuilt = "scope with neither kind nor key"
				}
				c.count("hand_built_" + handBuilt)
			}
			before := blankStamps(cl)
			vterm := ""
			if i < perKindCoq {
				vterm = em.Val(ty, elem(cl))
			}
			t0 := time.Now().UTC().Unix()
			tok, err := cl.Encode(s.kp)
			t1 := time.Now().UTC().Unix()
			c.sum.Evaluations++
			c.sum.ImplChecks++
			inp := map[string]interface{}{"kind": kind, "signer_role": s.role, "token": tok}
			if err != nil {
				if tok != "" {
					c.violation("C12: a failed Encode returned a non-empty token", inp)
				}
				if handBuilt != "" && blankStamps(cl) != before {
					inp["diff"], inp["hand_built"] = firstDiff(before, blankStamps(cl)), handBuilt
					c.violation("C12: an Encode that failed changed content other than issuer, issue time, id, kind, version and the order of imports/exports", inp)
				}
				c.count("encode_error")
				continue
			}
			if handBuilt != "" {
				inp["hand_built"] = handBuilt
			}
			cd := cl.Claims()
			typ, ver, has := typeAndVersion(cl)
			id, text := ownID(*cd)
			switch {
			case cd.Issuer != s.pub:
				c.violation("C12: issuer is not the signing key's public key", inp)
			case cd.IssuedAt < t0 || cd.IssuedAt > t1:
				c.violation("C12: issue time is not the current second", inp)
			case kind != "generic" && typ != kind:
				c.violation("C12: kind not stamped", inp)
			case has && ver != 2:
				c.violation("C12: version not stamped as 2", inp)
			case cd.ID != id:
				c.violation("C12: the token id is not the hash of the other standard fields", inp)
			case blankStamps(cl) != before:
				inp["diff"] = firstDiff(before, blankStamps(cl))
				c.violation("C12: Encode changed content other than issuer, issue time, id, kind, version and the order of imports/exports", inp)
			}
			if ac, ok := cl.(*jwt.AccountClaims); ok {
				for n := 1; n < len(ac.Exports); n++ {
					a, b := ac.Exports[n-1], ac.Exports[n]
					if a != nil && (b == nil || b.Subject < a.Subject) {
						c.violation("C12: exports not ordered by subject after Encode", inp)
					}
				}
				for n := 1; n < len(ac.Imports); n++ {
					a, b := ac.Imports[n-1], ac.Imports[n]
					if a != nil && (b == nil || b.Subject < a.Subject) {
						c.violation("C12: imports not ordered by subject after Encode", inp)
					}
				}
			}
			// decoders report exactly the stamped values
			poisonStep() // (what came before must not matter)
			d, derr := jwt.Decode(tok)
			if derr != nil {
				inp["error"] = derr.Error()
				c.violation("C03: Decode refuses the token", inp)
				continue
			}
			dt, dv, _ := typeAndVersion(d)
			if dc := d.Claims(); dc.Issuer != cd.Issuer || dc.IssuedAt != cd.IssuedAt || dc.ID != cd.ID || (kind != "generic" && (dt != typ || dv != ver)) {
				c.violation("C12: the decoder reports other stamps than Encode set", inp)
			}
			// the object as the FIRST Encode left it (the second Encode below may fall into the next second)
			postTerm, postIat := "", cl.Claims().IssuedAt
			if i < perKindCoq && t0 == t1 {
				postTerm = em.Val(ty, elem(cl))
			}
			// the id ignores the previous id and the payload; repeated Encode in the same second gives the same id
			prevID := cd.ID
			cd.ID = "garbage-" + fmt.Sprint(i)
			tok2, err := cl.Encode(s.kp)
			if err == nil && cl.Claims().IssuedAt == t1 && t0 == t1 {
				if cl.Claims().ID != prevID {
					c.violation("C12: the id depends on the previous id", inp)
				}
				if tok2 != tok {
					c.violation("C13: encoding the same object twice in one second gives different tokens", inp)
				}
			}
			// changing any standard field changes the id
			alt := *cl.Claims()
			switch i % 5 {
			case 0:
				alt.Audience += "x"
			case 1:
				alt.Expires++
			case 2:
				alt.Name += "x"
			case 3:
				alt.NotBefore++
			default:
				alt.Subject += "x"
			}
			if aid, _ := ownID(alt); aid == cl.Claims().ID {
				c.violation("C12: changing a standard field does not change the id", inp)
			}
			distinct[cd.ID] = true
			c.count("encoded_" + kind)
			if postTerm != "" {
				w.add(fmt.Sprintf("(%s, %s, %s, %s, %s, %s, %s)", kindCoq[kind], vterm, coqStr(s.pub), coqZ(postIat), schema.JSONTerm(text), coqStr(id), postTerm), inp)
			}
			if i%101 == 0 {
				c.sample(map[string]interface{}{"kind": kind, "id": cd.ID, "hashed_text": string(text)})
			}
		}
	}
	// one signer object, its key replaced between two Encodes: the issuer stamped is the key that signs NOW, and the
	// token verifies under it (claims of every kind, fresh objects and the same object again)
	for _, kind := range kindNames {
		for rep := 0; rep < 6; rep++ {
			cl1, s1 := g.newClaims(kind)
			cl2, _ := g.newClaims(kind)
			s2 := newSigner(s1.role)
			rs := &rotatingSigner{s1.kp}
			if _, err := cl1.Encode(rs); err != nil {
				continue
			}
			rs.KeyPair = s2.kp
			for which, cl := range []jwt.Claims{cl2, cl1} {
				tok, err := cl.Encode(rs)
				c.sum.Evaluations++
				c.sum.ImplChecks++
				if err != nil {
					continue
				}
				inp := map[string]interface{}{"kind": kind, "signer_role": s1.role, "token": tok, "note": "the signer object's key was replaced after an earlier Encode", "same_claims_object_again": which == 1}
				if cl.Claims().Issuer != s2.pub {
					c.violation("C12: issuer is not the signing key's public key", inp)
				} else if d, derr := jwt.Decode(tok); derr != nil || d.Claims().Issuer != s2.pub {
					c.violation("C03: Decode refuses the token", inp)
				}
				c.count("signer_object_with_replaced_key")
			}
		}
	}
	w.flush()
	c.sum.DistinctNontriv = len(distinct)
	c.sum.Rule = fmt.Sprintf("random claims of all 7 kinds (by reflection) with arbitrary pre-existing issuer, issue time, id, kind and version, all permitted signers, %d per kind: the object before and after Encode (first and repeated), the id recomputed with the harness's own SHA-512/256 over its own marshalling of the standard fields, the decoded token; the first %d per kind also through the Coq model of the stamping; non-trivial = distinct id", perKind, perKindCoq)
	_ = strings.TrimSpace
}
