package main

import (
	"fmt"
	"reflect"
	"strings"

	jwt "github.com/nats-io/jwt/v2"
	v1 "github.com/nats-io/jwt/v2/v1compat"
	"verifharness/schema"
)

func init() { drivers["C04"] = runC04 }

// ---- the expected mapping, written from the property statement (not from the migrate code) ----

func expStd(d *jwt.ClaimsData, s *v1.ClaimsData) {
	d.Audience, d.Expires, d.ID, d.IssuedAt = s.Audience, s.Expires, s.ID, s.IssuedAt
	d.Issuer, d.Name, d.NotBefore, d.Subject = s.Issuer, s.Name, s.NotBefore, s.Subject
}

func expGeneric(g *jwt.GenericFields, s *v1.ClaimsData) {
	g.Type = jwt.ClaimType(s.Type)
	g.Tags = jwt.TagList(append([]string(nil), s.Tags...))
	g.Version = 1
}

func expRevocations(r v1.RevocationList) jwt.RevocationList {
	if r == nil {
		return nil
	}
	out := jwt.RevocationList{}
	for k, v := range r {
		out[k] = v
	}
	return out
}

func expPermission(p v1.Permission) jwt.Permission {
	return jwt.Permission{Allow: jwt.StringList(append([]string(nil), p.Allow...)), Deny: jwt.StringList(append([]string(nil), p.Deny...))}
}

func expTimes(ts []v1.TimeRange) []jwt.TimeRange {
	var out []jwt.TimeRange
	for _, t := range ts {
		out = append(out, jwt.TimeRange{Start: t.Start, End: t.End})
	}
	return out
}

// source networks: split on commas, lower-cased, trimmed, empty and repeated entries dropped
func expSrc(s string) jwt.CIDRList {
	out := jwt.CIDRList{}
	seen := map[string]bool{}
	for _, e := range strings.Split(asciiLower(s), ",") {
		e = asciiLowerTrim(e)
		if e == "" || seen[e] {
			continue
		}
		seen[e] = true
		out = append(out, e)
	}
	return out
}

func unlimitedIfAbsent(x int64) int64 {
	if x == 0 { // omitted by the v1 encoder
		return -1
	}
	return x
}

func expectedOperator(s *v1.OperatorClaims) *jwt.OperatorClaims {
	d := &jwt.OperatorClaims{}
	expStd(&d.ClaimsData, &s.ClaimsData)
	expGeneric(&d.GenericFields, &s.ClaimsData)
	d.SigningKeys = jwt.StringList(append([]string(nil), s.SigningKeys...))
	d.AccountServerURL = s.AccountServerURL
	d.OperatorServiceURLs = jwt.StringList(append([]string(nil), s.OperatorServiceURLs...))
	d.SystemAccount = s.SystemAccount
	return d
}

func expectedAccount(s *v1.AccountClaims) *jwt.AccountClaims {
	d := &jwt.AccountClaims{}
	expStd(&d.ClaimsData, &s.ClaimsData)
	expGeneric(&d.GenericFields, &s.ClaimsData)
	for _, im := range s.Imports {
		if im == nil {
			d.Imports = append(d.Imports, nil)
			continue
		}
		d.Imports = append(d.Imports, &jwt.Import{Name: im.Name, Subject: jwt.Subject(im.Subject), Account: im.Account, Token: im.Token,
			To: jwt.Subject(im.To), Type: jwt.ExportType(im.Type)})
	}
	for _, ex := range s.Exports {
		if ex == nil {
			d.Exports = append(d.Exports, nil)
			continue
		}
		e := &jwt.Export{Name: ex.Name, Subject: jwt.Subject(ex.Subject), Type: jwt.ExportType(ex.Type), TokenReq: ex.TokenReq,
			Revocations: expRevocations(ex.Revocations), ResponseType: jwt.ResponseType(ex.ResponseType), AccountTokenPosition: ex.AccountTokenPosition}
		if ex.Latency != nil {
			e.Latency = &jwt.ServiceLatency{Sampling: jwt.SamplingRate(ex.Latency.Sampling), Results: jwt.Subject(ex.Latency.Results)}
		}
		d.Exports = append(d.Exports, e)
	}
	l := s.Limits
	d.Limits.NatsLimits = jwt.NatsLimits{Subs: l.Subs, Data: l.Data, Payload: l.Payload}
	d.Limits.AccountLimits = jwt.AccountLimits{Imports: l.Imports, Exports: l.Exports, WildcardExports: l.WildcardExports, Conn: l.Conn, LeafNodeConn: l.LeafNodeConn}
	d.SigningKeys = jwt.SigningKeys{}
	for _, k := range s.SigningKeys {
		d.SigningKeys.Add(k)
	}
	d.Revocations = expRevocations(s.Revocations)
	return d
}

func expectedUser(s *v1.UserClaims) *jwt.UserClaims {
	d := &jwt.UserClaims{}
	expStd(&d.ClaimsData, &s.ClaimsData)
	expGeneric(&d.GenericFields, &s.ClaimsData)
	d.IssuerAccount = s.IssuerAccount
	d.Permissions.Pub = expPermission(s.Pub)
	d.Permissions.Sub = expPermission(s.Sub)
	if s.Resp != nil {
		d.Resp = &jwt.ResponsePermission{MaxMsgs: s.Resp.MaxMsgs, Expires: s.Resp.Expires}
	}
	if s.Src != "" {
		d.Src = expSrc(s.Src)
	}
	d.Times = expTimes(s.Times)
	// legacy limits: subscriptions and data never existed (unlimited); an absent payload limit is unlimited
	d.NatsLimits = jwt.NatsLimits{Subs: -1, Data: -1, Payload: unlimitedIfAbsent(s.Limits.Payload)}
	d.BearerToken = s.BearerToken
	return d
}

func expectedActivation(s *v1.ActivationClaims) *jwt.ActivationClaims {
	d := &jwt.ActivationClaims{}
	expStd(&d.ClaimsData, &s.ClaimsData)
	expGeneric(&d.GenericFields, &s.ClaimsData)
	d.IssuerAccount = s.IssuerAccount
	d.ImportSubject = jwt.Subject(s.ImportSubject)
	d.ImportType = jwt.ExportType(s.ImportType)
	return d
}

var v1SchemaIndex = map[string]int{"operator": 0, "account": 1, "user": 2, "activation": 3, "cluster": 4, "server": 5, "generic": 6}

func runC04(c *Ctx) {
	w := c.newCaseWriter("mig", "From JWT Require Import Model.Migrate.\nOpen Scope Z_scope.", "ckind * nat * val * json * val * option val", "mcase_ok")
	kr := newKeyring()
	g := &valGen{rng: c.Rng, kr: kr, fill: 50, wideInts: true}
	perKind, perKindSpec := 40, 400
	if c.thorough() {
		perKind, perKindSpec = 300, 6000
	}
	distinct := map[string]bool{}
	em1 := schema.NewEmitter(schemaV1Builder)
	for _, kind := range []string{"operator", "account", "user", "activation", "generic"} {
		em2, ty2, elem2 := emitterFor(kind)
		for i := 0; i < perKindSpec; i++ {
			g.fill = []int{15, 50, 90}[i%3]
			var src v1.Claims
			var s *signer
			var want string
			var ty1 *schema.Ty
			switch kind {
			case "operator":
				x := &v1.OperatorClaims{}
				g.fillValue(reflect.ValueOf(x).Elem())
				x.Subject = kr.by["operator"].pub
				// (every URL the version-1 encoder accepted - any that parses and has a scheme: with a port, a query, a
				// fragment, credentials, another scheme - migrates and can be written again as version 2)
				x.AccountServerURL = []string{"", "https://example.com/jwt/v1", "https://accounts.example.com:9090/jwt/v1?tenant=blue", "https://example.com/jwt/v1#operator",
					"http://user:pw@localhost:8080/jwt/v1/", "nats://localhost:4222", "HTTPS://Example.COM/jwt/v1/?a=1&b=2#x", "https://[::1]:9090/jwt/v1"}[g.rng.Intn(8)]
				src, s = x, kr.by["operator"]
			case "account":
				x := &v1.AccountClaims{}
				g.fillValue(reflect.ValueOf(x).Elem())
				x.Subject = kr.by["account"].pub
				// the v1 library's own Encode dereferences list entries: no nil entries in v1 values
				var ims v1.Imports
				for _, im := range x.Imports {
					if im != nil {
						ims = append(ims, im)
					}
				}
				x.Imports = ims
				var exs v1.Exports
				for _, ex := range x.Exports {
					if ex != nil {
						exs = append(exs, ex)
					}
				}
				x.Exports = exs
				for _, ex := range x.Exports {
					// a sampling rate outside 0..100 is invalid in both versions (Validate rejects it,
					// the v2 encoder cannot write it): keep generated v1 claims inside the range
					if ex.Latency != nil {
						ex.Latency.Sampling = g.rng.Intn(101)
					}
				}
				src, s = x, kr.by[[]string{"operator", "account"}[g.rng.Intn(2)]]
			case "user":
				x := &v1.UserClaims{}
				g.fillValue(reflect.ValueOf(x).Elem())
				x.Subject = kr.by["user"].pub
				// source networks stay ASCII: Unicode white space and case folding are outside the model
				x.Src = []string{"", "10.0.0.0/8", "10.0.0.0/8, 192.168.1.0/24", "A::/16,a::/16, ,10.1.0.0/16", " 10.2.0.0/16 ,FE80::/10",
					" 192.0.2.0/24", "10.3.0.0/16 ", "\tFE80::/10", " ",
					// one network twice, spelled with other blanks or letter case: one entry after migration
					"10.0.0.0/8, 192.168.0.0/16, 10.0.0.0/8", "fe80::/10,FE80::/10 , fe80::/10", "10.1.0.0/16 ,10.1.0.0/16",
					// entries that are no networks (a bare address, a word): they migrate as the entries they are
					"192.0.2.0/24, 192.168.1.1 ,FE80::1", "10.0.0.1", "not-a-network,10.0.0.0/8", "::1, 10.0.0.0/33"}[g.rng.Intn(16)]
				src, s = x, kr.by["account"]
			case "activation":
				x := &v1.ActivationClaims{}
				g.fillValue(reflect.ValueOf(x).Elem())
				x.Subject = kr.by["account"].pub
				src, s = x, kr.by[[]string{"operator", "account"}[g.rng.Intn(2)]]
			default:
				x := &v1.GenericClaims{}
				g.fillValue(reflect.ValueOf(x).Elem())
				if x.Subject == "" {
					x.Subject = "sub"
				}
				// a v1 generic token's kind is its top-level type: keep it generic
				x.Type = v1.ClaimType([]string{"", "generic", "my_custom_kind", "User", "ACCOUNT", "Activation", "oPerator", "\u017ferver"}[g.rng.Intn(8)])
				if x.Data != nil && g.rng.Intn(3) == 0 {
					// the free-form data may use the names the re-homing writes to
					x.Data["type"] = "inner"
					if g.rng.Intn(2) == 0 {
						x.Data["tags"] = []interface{}{"inner-tag"}
					}
				}
				if x.Data != nil && x.Type != "" && g.rng.Intn(3) == 0 {
					// ... and "version": in a version-1 generic token that is the application's own number (the token's
					// version is 1 because it names its kind at the top level); the re-encoded token is version 2
					x.Data["version"] = []interface{}{3.0, 7.0, 1e9, 2.5, "1.4.2", -1.0}[g.rng.Intn(6)]
				}
				src, s = x, kr.by[[]string{"operator", "account", "user", "server", "cluster"}[g.rng.Intn(5)]]
			}
			if kind != "generic" {
				g.coincide(src, s.pub, src.Claims().Subject)
			}
			ty1 = schemaV1Builder.Of(reflect.TypeOf(src).Elem())
			tok, err := src.Encode(s.kp)
			c.sum.Evaluations++
			if err != nil {
				c.count("v1_encode_error_" + kind)
				continue
			}
			c.count("v1_encoded_" + kind)
			inp := map[string]interface{}{"kind": kind, "signer_role": s.role, "token": tok}
			poisonStep() // (what came before must not matter)
			d, err := jwt.Decode(tok)
			c.sum.ImplChecks++
			if err != nil {
				inp["error"] = err.Error()
				if gx, ok := src.(*v1.GenericClaims); ok && gx.Data != nil {
					if pv, planted := gx.Data["version"]; planted {
						if f, isNum := pv.(float64); !isNum || f != float64(int64(f)) {
							// the recorded finding K5, and nothing else: without the planted entry the same claims migrate
							delete(gx.Data, "version")
							if t2, e2 := gx.Encode(s.kp); e2 == nil {
								if d2, e3 := jwt.Decode(t2); e3 == nil && dynKind(d2) == kind {
									inp["known"], inp["planted_version"] = []string{"K5"}, fmt.Sprint(pv)
									c.violation("C04 known: K5", inp)
									continue
								}
							}
						}
					}
				}
				c.violation("C04: the v2 decoder refuses a token produced by the v1 encoder", inp)
				continue
			}
			if dynKind(d) != kind {
				inp["decoded_kind"] = dynKind(d)
				c.violation("C04: a v1 token decodes to another kind", inp)
				continue
			}
			// every v1 token through DecodeGeneric: accepted, the v1 kind (top-level type) is the kind reported,
			// the v1 tags are carried in the data, the standard fields are kept
			{
				c.sum.ImplChecks++
				gg, err := jwt.DecodeGeneric(tok)
				cd1 := src.Claims()
				if err != nil || gg == nil {
					inp["error"] = fmt.Sprint(err)
					c.violation("C04: DecodeGeneric refuses a token produced by the v1 encoder", inp)
					continue
				}
				wantKind := string(cd1.Type)
				gotKind, _ := gg.Data["type"].(string) // (ClaimType() maps custom kinds to "generic"; the data keeps the text)
				if wantKind != "" && (gotKind != wantKind || (kind != "generic" && string(gg.ClaimType()) != wantKind)) {
					inp["generic_kind"], inp["v1_kind"] = gotKind, wantKind
					c.violation("C04: DecodeGeneric of a v1 token reports another kind than the token's", inp)
					continue
				}
				if len(cd1.Tags) != 0 && canonString(reflect.ValueOf(gg.Data["tags"])) != canonString(reflect.ValueOf(jwt.TagList(cd1.Tags))) {
					inp["generic_tags"] = fmt.Sprint(gg.Data["tags"])
					c.violation("C04: DecodeGeneric of a v1 token loses the tags", inp)
					continue
				}
				e := &jwt.ClaimsData{}
				expStd(e, cd1)
				if canonString(reflect.ValueOf(e).Elem()) != canonString(reflect.ValueOf(&gg.ClaimsData).Elem()) {
					c.violation("C04: DecodeGeneric of a v1 token changes the standard fields", inp)
					continue
				}
			}
			var got string
			var dg *jwt.GenericClaims
			switch x := src.(type) {
			case *v1.OperatorClaims:
				want = canonString(reflect.ValueOf(expectedOperator(x)).Elem())
			case *v1.AccountClaims:
				want = canonString(reflect.ValueOf(expectedAccount(x)).Elem())
			case *v1.UserClaims:
				want = canonString(reflect.ValueOf(expectedUser(x)).Elem())
			case *v1.ActivationClaims:
				want = canonString(reflect.ValueOf(expectedActivation(x)).Elem())
			case *v1.GenericClaims:
				// through Decode: standard fields and data only
				e := &jwt.GenericClaims{}
				expStd(&e.ClaimsData, &x.ClaimsData)
				e.Data = x.Data
				want = canonString(reflect.ValueOf(e).Elem())
				// through DecodeGeneric: type and tags re-homed into the data map
				dg, err = jwt.DecodeGeneric(tok)
				if err != nil {
					inp["error"] = err.Error()
					c.violation("C04: DecodeGeneric refuses a v1 generic token", inp)
					continue
				}
				e2 := &jwt.GenericClaims{}
				expStd(&e2.ClaimsData, &x.ClaimsData)
				e2.Data = map[string]interface{}{}
				for k, v := range x.Data {
					e2.Data[k] = v
				}
				if x.Type != "" {
					e2.Data["type"] = string(x.Type)
				}
				if len(x.Tags) != 0 {
					e2.Data["tags"] = x.Tags
				}
				if w2, g2 := canonString(reflect.ValueOf(e2).Elem()), canonString(reflect.ValueOf(dg).Elem()); w2 != g2 {
					inp["diff"] = firstDiff(w2, g2)
					c.violation("C04: DecodeGeneric of a v1 generic token loses or changes content", inp)
					continue
				}
			}
			got = canonString(elem2(d))
			if want != got {
				inp["diff"] = firstDiff(want, got)
				c.violation("C04: migrated claims differ from the expected mapping of the v1 claims", inp)
				continue
			}
			if v := versionOf(d); kind != "generic" && v != 1 {
				inp["version"] = v
				c.violation("C04: migrated claims do not report version 1", inp)
				continue
			}
			dterm := ""
			if i < perKind {
				dterm = em2.Val(ty2, elem2(d))
			}
			// re-encoding gives a version-2 token with the same content
			tok2, err := d.Encode(s.kp)
			if err != nil {
				inp["error"] = err.Error()
				c.violation("C04: re-encoding migrated claims fails", inp)
				continue
			}
			poisonStep() // (what came before must not matter)
			d2, err := jwt.Decode(tok2)
			if err != nil {
				inp["error"] = err.Error()
				c.violation("C04: the re-encoded migrated token does not decode", inp)
				continue
			}
			blank := func(x jwt.Claims) string {
				cd := x.Claims()
				iat, jti := cd.IssuedAt, cd.ID
				cd.IssuedAt, cd.ID = 0, ""
				setVersion(x, 0)
				s := canonString(elem2(x))
				cd.IssuedAt, cd.ID = iat, jti
				return s
			}
			v2ver := versionOf(d2)
			if a, b := blank(d), blank(d2); a != b || (kind != "generic" && v2ver != 2) {
				inp["diff"] = firstDiff(a, b)
				inp["version"] = v2ver
				c.violation("C04: re-encoding the migrated claims changes the content or does not yield version 2", inp)
				continue
			}
			setVersion(d, 1)
			distinct[got] = true
			if i < perKind {
				ch := strings.Split(tok, ".")
				raw, _ := b64.DecodeString(ch[1])
				dgTerm := "None"
				if dg != nil {
					dgTerm = "(Some " + em2.Val(ty2, reflect.ValueOf(dg).Elem()) + ")"
				}
				term := fmt.Sprintf("(%s, %d%%nat, %s, %s, %s, %s)", kindCoq[kind], v1SchemaIndex[kind], em1.Val(ty1, reflect.ValueOf(src).Elem()),
					schema.JSONTerm(raw), dterm, dgTerm)
				w.add(term, inp)
			}
			if i%131 == 0 {
				c.sample(map[string]interface{}{"kind": kind, "payload": string(func() []byte { r, _ := b64.DecodeString(strings.Split(tok, ".")[1]); return r }())})
			}
		}
	}
	w.flush()
	c.sum.DistinctNontriv = len(distinct)
	c.sum.Rule = fmt.Sprintf("random version-1 claims of the five migratable kinds generated by reflection from the v1compat types (every field populated with probability 15/50/90%%), encoded by the real v1 encoder with every permitted signer role, decoded by v2 Decode / DecodeGeneric; %d per kind against the independently written expected mapping and re-encoding, the first %d per kind also through the Coq model (v1 enc tree, shadow decode + migrate); non-trivial = distinct migrated content", perKindSpec, perKind)
}

func versionOf(c jwt.Claims) int {
	switch x := c.(type) {
	case *jwt.OperatorClaims:
		return x.Version
	case *jwt.AccountClaims:
		return x.Version
	case *jwt.UserClaims:
		return x.Version
	case *jwt.ActivationClaims:
		return x.Version
	}
	return -1
}

func setVersion(c jwt.Claims, v int) {
	switch x := c.(type) {
	case *jwt.OperatorClaims:
		x.Version = v
	case *jwt.AccountClaims:
		x.Version = v
	case *jwt.UserClaims:
		x.Version = v
	case *jwt.ActivationClaims:
		x.Version = v
	case *jwt.GenericClaims:
		if x.Data != nil {
			delete(x.Data, "version")
		}
	}
}
