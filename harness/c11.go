package main

import (
	"bytes"
	"encoding/json"
	"fmt"
	"github.com/nats-io/nkeys"
	"reflect"
	"strings"
	"time"

	jwt "github.com/nats-io/jwt/v2"
	v1 "github.com/nats-io/jwt/v2/v1compat"
)

func init() { drivers["C11"] = runC11 }

// pokeLists calls Contains / Remove / Add with every entry of every TagList, StringList and CIDRList reachable from v.
func pokeLists(v reflect.Value, depth int) {
	if depth > 10 {
		return
	}
	switch v.Kind() {
	case reflect.Ptr, reflect.Interface:
		if !v.IsNil() {
			pokeLists(v.Elem(), depth+1)
		}
	case reflect.Struct:
		for i := 0; i < v.NumField(); i++ {
			if v.Field(i).CanSet() {
				pokeLists(v.Field(i), depth+1)
			}
		}
	case reflect.Map:
		for _, k := range v.MapKeys() {
			pokeLists(v.MapIndex(k), depth+1)
		}
	case reflect.Slice:
		if v.CanAddr() {
			switch l := v.Addr().Interface().(type) {
			case *jwt.TagList:
				for _, e := range append([]string{}, *l...) {
					l.Contains(e)
					l.Remove(e)
					l.Add(e)
				}
				return
			case *jwt.StringList:
				for _, e := range append([]string{}, *l...) {
					l.Contains(e)
					l.Remove(e)
					l.Add(e)
				}
				return
			case *jwt.CIDRList:
				for _, e := range append([]string{}, *l...) {
					l.Contains(e)
					l.Remove(e)
					l.Add(e)
				}
				return
			}
		}
		for i := 0; i < v.Len(); i++ {
			pokeLists(v.Index(i), depth+1)
		}
	}
}

var sweepCount int

// guard runs f and reports a panic as a string.
func guard(f func()) (p string) {
	defer func() {
		if r := recover(); r != nil {
			p = fmt.Sprint(r)
		}
	}()
	f()
	return ""
}

// every public operation on a decoded claims object, each under recover
func exerciseClaims(c jwt.Claims, s *signer, report func(op, panic string)) {
	try := func(op string, f func()) {
		if p := guard(f); p != "" {
			report(op, p)
		}
	}
	try("Validate", func() {
		vr := jwt.CreateValidationResults()
		c.Validate(vr)
		vr.IsBlocking(true)
		vr.Errors()
		vr.Warnings()
	})
	try("String", func() { _ = c.String() })
	try("ClaimType", func() { _ = c.ClaimType() })
	try("Payload", func() { _ = c.Payload() })
	try("Claims", func() { _ = c.Claims().IsSelfSigned() })
	try("ExpectedPrefixes", func() { _ = c.ExpectedPrefixes() })
	uc := jwt.NewUserClaims("UX")
	uc.IssuedAt = 5
	act := jwt.NewActivationClaims("AX")
	act.IssuedAt = 5
	switch x := c.(type) {
	case *jwt.AccountClaims:
		try("AccountClaims.DidSign", func() { x.DidSign(x); x.DidSign(nil); x.DidSign(uc) })
		try("AccountClaims.IsClaimRevoked", func() { x.IsClaimRevoked(uc); x.IsClaimRevoked(nil) })
		try("HasExportContainingSubject", func() { x.Exports.HasExportContainingSubject("a.b"); x.Exports.HasExportContainingSubject("") })
		try("Limits queries", func() { x.Limits.IsEmpty(); x.Limits.IsUnlimited(); x.Limits.IsJSEnabled() })
		try("SigningKeys queries", func() {
			for _, k := range x.SigningKeys.Keys() {
				x.SigningKeys.Contains(k)
				if sc, ok := x.SigningKeys.GetScope(k); ok && sc != nil {
					sc.SigningKey()
					sc.ValidateScopedSigner(uc)
				}
			}
		})
		try("GetTags", func() { x.GetTags(); x.Tags.Contains("a") })
		try("HasExternalAuthorization", func() { x.HasExternalAuthorization() })
		for i, e := range x.Exports {
			e := e
			try(fmt.Sprintf("Export[%d] queries", i), func() {
				if e != nil {
					e.IsClaimRevoked(act)
					e.IsClaimRevoked(nil)
					e.IsService()
					e.IsStream()
					e.IsSingleResponse()
					e.IsChunkedResponse()
					e.IsStreamResponse()
					vr := jwt.CreateValidationResults()
					e.Validate(vr)
				}
			})
			try(fmt.Sprintf("Export[%d] mutation helpers", i), func() {
				if e != nil {
					e.RevokeAt("k", time.Unix(1, 0))
					e.ClearRevocation("k")
					e.Revocations.MaybeCompact()
				}
			})
		}
		for i, im := range x.Imports {
			im := im
			try(fmt.Sprintf("Import[%d] queries", i), func() {
				if im != nil {
					im.IsService()
					im.IsStream()
					im.GetTo()
					vr := jwt.CreateValidationResults()
					im.Validate(x.Subject, vr)
				}
			})
		}
		try("mutation helpers", func() {
			x.RevokeAt("k", time.Unix(1, 0))
			x.Revoke("k2")
			x.ClearRevocation("k")
			x.Revocations.MaybeCompact()
			x.AddMapping("m.x", jwt.WeightedMapping{Subject: "t"})
			x.EnableExternalAuthorization("UX")
			x.SigningKeys.Add("AK")
			x.SigningKeys.Remove("AK")
			x.Tags.Add("t")
			x.Tags.Remove("t")
			x.Exports.Add(&jwt.Export{Subject: "zz", Type: jwt.Stream})
			x.Imports.Add(&jwt.Import{Subject: "zz", Type: jwt.Stream, Account: "A"})
		})
	case *jwt.OperatorClaims:
		try("OperatorClaims.DidSign", func() { x.DidSign(x); x.DidSign(nil); x.DidSign(uc) })
		try("GetTags", func() { x.GetTags() })
		try("mutation helpers", func() { x.SigningKeys.Add("k"); x.SigningKeys.Remove("k"); x.OperatorServiceURLs.Add("nats://h") })
	case *jwt.UserClaims:
		try("UserClaims queries", func() {
			x.HasEmptyPermissions()
			x.IsBearerToken()
			x.GetTags()
			x.Limits.IsUnlimited()
			x.UserLimits.Empty()
		})
		try("mutation helpers", func() {
			x.Src.Add("10.0.0.0/8")
			x.Src.Remove("10.0.0.0/8")
			x.Src.Set("a,b")
			x.Pub.Allow.Add("x")
			x.SetScoped(false)
		})
	case *jwt.ActivationClaims:
		try("HashID", func() { x.HashID() })
		try("Activation queries", func() { x.IsService(); x.IsStream() })
	case *jwt.GenericClaims:
		try("GenericClaims data", func() { _ = x.Data["x"] })
	}
	// every tag / string / network list anywhere in the decoded claims: remove and re-add each of its entries
	// (a hand-written payload may hold duplicates, which the library's own Add never creates)
	try("list helpers on decoded lists", func() { pokeLists(reflect.ValueOf(c), 0) })
	// every other exported method of everything reachable from the claims, with synthesised arguments
	sweepCount++
	if sweepCount%20 == 1 {
		sweepMethods(c, func(op, p string) { report("method sweep: "+op, p) })
	}
	// re-encode last: Encode sorts and stamps
	try("Encode", func() { c.Encode(s.kp) })
}

func exerciseToken(tok string, s *signer, seed []byte, report func(op, panic string)) {
	try := func(op string, f func()) {
		if p := guard(f); p != "" {
			report(op, p)
		}
	}
	var c jwt.Claims
	try("Decode", func() { c, _ = jwt.Decode(tok) })
	try("DecodeGeneric", func() {
		if g, err := jwt.DecodeGeneric(tok); err == nil && g != nil {
			g.ClaimType()
			_ = g.String()
		}
	})
	try("typed decoders", func() {
		jwt.DecodeOperatorClaims(tok)
		jwt.DecodeAccountClaims(tok)
		jwt.DecodeUserClaims(tok)
		jwt.DecodeActivationClaims(tok)
		jwt.DecodeAuthorizationRequestClaims(tok)
		jwt.DecodeAuthorizationResponseClaims(tok)
	})
	try("DecorateJWT", func() { jwt.DecorateJWT(tok) })
	try("FormatUserConfig", func() { jwt.FormatUserConfig(tok, seed) })
	if c != nil {
		exerciseClaims(c, s, report)
	}
}

// all single-node structural mutations of a JSON tree
type jpath []interface{}

func collectPaths(v interface{}, cur jpath, out *[]jpath) {
	*out = append(*out, append(jpath{}, cur...))
	switch x := v.(type) {
	case map[string]interface{}:
		for k := range x {
			collectPaths(x[k], append(cur, k), out)
		}
	case []interface{}:
		for i := range x {
			collectPaths(x[i], append(cur, i), out)
		}
	}
}

func deepCopy(v interface{}) interface{} {
	b, _ := json.Marshal(v)
	var out interface{}
	d := json.NewDecoder(bytes.NewReader(b))
	d.UseNumber() // keep integer literals exact
	d.Decode(&out)
	return out
}

// apply replaces / drops / duplicates the node at path
func mutateAt(root interface{}, path jpath, how string, repl interface{}) interface{} {
	repl = deepCopy(repl) // replacement literals are shared between mutations: never alias them into a tree (a second mutation could tie a knot)
	if len(path) == 0 {
		if how == "replace" {
			return repl
		}
		return root
	}
	parent := root
	for _, p := range path[:len(path)-1] {
		switch x := parent.(type) {
		case map[string]interface{}:
			parent = x[p.(string)]
		case []interface{}:
			parent = x[p.(int)]
		}
	}
	last := path[len(path)-1]
	switch x := parent.(type) {
	case map[string]interface{}:
		k := last.(string)
		switch how {
		case "replace":
			x[k] = repl
		case "drop":
			delete(x, k)
		case "dup":
			x[k+"_dup"] = deepCopy(x[k])
			x[strings.ToUpper(k)] = deepCopy(x[k]) // encoding/json matches keys case-insensitively
		case "rename":
			// the member under another name (the blank name among them: free-form objects - tiers, mappings, revocations,
			// data - take any name the token gives)
			if nk, ok := repl.(string); ok && nk != k {
				x[nk] = x[k]
				delete(x, k)
			}
		}
	case []interface{}:
		i := last.(int)
		switch how {
		case "replace":
			x[i] = repl
		case "drop", "dup":
			// rebuild the parent slice in the grandparent
			var nl []interface{}
			for j, e := range x {
				if j == i && how == "drop" {
					continue
				}
				nl = append(nl, e)
				if j == i && how == "dup" {
					nl = append(nl, deepCopy(e))
				}
			}
			return setAt(root, path[:len(path)-1], nl)
		}
	}
	return root
}

func setAt(root interface{}, path jpath, v interface{}) interface{} {
	if len(path) == 0 {
		return v
	}
	return mutateAt(root, path, "replace", v)
}

var hostileStrings = []string{".", "..", "$", "$1", "a..$1", ".$1", "$1.", "a.$.b", "$$", "*", ">", ">.a", "a b c", " ", "*.>", "a.*.$2.>",
	"-", "S", "SU", strings.Repeat("x.", 300) + "$1", "\x00", "é.$1..", "local..$1",
	// reference tokens with a sign, leading zeros or too many digits
	"my.$-1", "$-0.x", "a.$+1", "$00", "$99999999999999999999.b", "$-9223372036854775808", "$1.$1.$1",
	// long texts of multi-byte characters (many bytes, few runes), with and without what makes a validator echo them
	"orders. " + strings.Repeat("世界", 200), strings.Repeat("é", 700) + "..$1", strings.Repeat("\U0001F600", 300) + " x", strings.Repeat("世", 1100)}

// well-formed nkeys (valid prefix byte and CRC16) whose key body is not 32 bytes: every prefix check accepts them
var keyShapedStrings = func() []string {
	var out []string
	for _, pre := range []nkeys.PrefixByte{nkeys.PrefixByteAccount, nkeys.PrefixByteOperator, nkeys.PrefixByteUser, nkeys.PrefixByteServer, nkeys.PrefixByteCurve} {
		for _, n := range []int{1, 16, 33} {
			body := make([]byte, n)
			for i := range body {
				body[i] = byte(17*i + 3)
			}
			if k, err := nkeys.Encode(pre, body); err == nil {
				out = append(out, string(k))
			}
		}
	}
	return out
}()

func init() { hostileStrings = append(hostileStrings, keyShapedStrings...) }

func nodeAt(root interface{}, path jpath) interface{} {
	cur := root
	for _, p := range path {
		switch x := cur.(type) {
		case map[string]interface{}:
			cur = x[p.(string)]
		case []interface{}:
			cur = x[p.(int)]
		default:
			return nil
		}
	}
	return cur
}

func runC11(c *Ctx) {
	w := c.newCaseWriter("ns", "From JWT Require Import Model.NilSafety.", "nscase", "nscase_ok")
	kr := newKeyring()
	g := &valGen{rng: c.Rng, kr: kr, fill: 90, scopeByValue: true}
	seedU, _ := kr.by["user"].kp.Seed()
	distinct := map[string]bool{}
	report := func(tok, note string) func(op, p string) {
		return func(op, p string) {
			c.violation("C11: "+op+" panicked: "+p, map[string]interface{}{"operation": op, "panic": p, "token": tok, "note": note})
		}
	}
	replacements := []interface{}{nil, 7.0, -1.5, "str", "", []interface{}{}, map[string]interface{}{}, []interface{}{nil},
		map[string]interface{}{"k": nil}, true, []interface{}{map[string]interface{}{}}, 1e300,
		// exact integer literals at the edges of the Go integer types (a float64 cannot spell them)
		json.Number("18446744073709551615"), json.Number("9223372036854775808"), json.Number("9223372036854775807"),
		json.Number("-9223372036854775808"), json.Number("4294967296"), json.Number("256"), json.Number("-1"), json.Number("0")}
	sampled := 0
	basesPerKind, sampleEvery := 3, 1
	if c.thorough() {
		basesPerKind, sampleEvery = 12, 1
	}
	for _, kind := range kindNames {
		for b := 0; b < basesPerKind; b++ {
			cl, s := g.newClaims(kind)
			if gc, ok := cl.(*jwt.GenericClaims); ok {
				// free-form data with members named like the sections the library itself reads (nats, type, tags, version),
				// as objects: the single-node mutations then turn each into every other JSON shape
				if gc.Data == nil {
					gc.Data = map[string]interface{}{}
				}
				gc.Data["nats"] = map[string]interface{}{"type": "inner", "k": "v"}
				gc.Data["tags"] = []interface{}{"t"}
				if b%2 == 0 {
					delete(gc.Data, "type")
					gc.Data["nats"] = map[string]interface{}{"k": "v"}
				}
			}
			if ac, ok := cl.(*jwt.AccountClaims); ok {
				ac.Exports.Add(&jwt.Export{Subject: "e1.>", Type: jwt.Stream}, &jwt.Export{Subject: "e2", Type: jwt.Service, Latency: &jwt.ServiceLatency{Sampling: 5, Results: "r"}},
					&jwt.Export{Subject: "e3.*.x", Type: jwt.Stream, AccountTokenPosition: 2, ResponseThreshold: 5})
				ac.Mappings = jwt.Mapping{"m.src": []jwt.WeightedMapping{{Subject: "m.t", Weight: 50, Cluster: "c"}}}
				ac.Limits.JetStreamTieredLimits = jwt.JetStreamTieredLimits{"R1": jwt.JetStreamLimits{DiskStorage: 5}}
				ac.Imports.Add(&jwt.Import{Subject: "i1", Account: "A", Type: jwt.Stream}, &jwt.Import{Subject: "i2", Account: "A", Type: jwt.Service})
				ac.Limits.Exports, ac.Limits.WildcardExports = 10, false
				// (limits at, below and above the number of entries: code that reports WHICH entry is over a limit looks
				// at the entry whose index is the limit)
				switch b % 3 {
				case 0:
					ac.Limits.Imports, ac.Limits.Exports = 1, 1
				case 2:
					ac.Limits.Imports, ac.Limits.Exports = 0, 0
				}
			}
			tok, err := cl.Encode(s.kp)
			if err != nil {
				continue
			}
			raw, _ := b64.DecodeString(strings.Split(tok, ".")[1])
			var tree interface{}
			// (numbers kept as written: a float64 would round the 64-bit values of the base and make every mutated
			// token undecodable)
			treeDec := json.NewDecoder(bytes.NewReader(raw))
			treeDec.UseNumber()
			treeDec.Decode(&tree)
			var paths []jpath
			collectPaths(tree, nil, &paths)
			n := 0
			for _, p := range paths {
				muts := []struct {
					how  string
					repl interface{}
				}{{"drop", nil}, {"dup", nil}}
				for _, r := range replacements {
					muts = append(muts, struct {
						how  string
						repl interface{}
					}{"replace", r})
				}
				if _, isMember := append(jpath{0}, p...)[len(p)].(string); isMember {
					for _, nk := range []string{"", "a b.>"} {
						muts = append(muts, struct {
							how  string
							repl interface{}
						}{"rename", nk})
					}
				}
				// arrays additionally get duplicated entries (first entry again at the end; the whole list twice)
				if arr, isArr := nodeAt(tree, p).([]interface{}); isArr && len(arr) > 0 {
					muts = append(muts, struct {
						how  string
						repl interface{}
					}{"replace", append(append([]interface{}{}, arr...), arr[0])}, struct {
						how  string
						repl interface{}
					}{"replace", append(append([]interface{}{}, arr...), arr...)})
				}
				// ... and the same entry again IN ANOTHER FORM: a text entry also as an object naming it as its key (before and
				// after it), an object entry's key also as plain text (before and after it), an object entry twice with one
				// member changed - lists that hold keys either way are filled entry by entry into a map
				if arr, isArr := nodeAt(tree, p).([]interface{}); isArr && len(arr) > 0 {
					var before, after, twice []interface{}
					for _, e := range arr {
						switch x := e.(type) {
						case string:
							obj := map[string]interface{}{"kind": "user_scope", "key": x, "role": "other-role", "template": map[string]interface{}{}}
							before = append(before, obj, e)
							after = append(after, e, obj)
							twice = append(twice, e, map[string]interface{}{"kind": "user_scope", "key": x}, e)
						case map[string]interface{}:
							k, hasKey := x["key"].(string)
							if !hasKey {
								before, after, twice = append(before, e), append(after, e), append(twice, e)
								continue
							}
							cp := deepCopy(x).(map[string]interface{})
							cp["role"] = "other-role"
							before = append(before, k, e)
							after = append(after, e, k)
							twice = append(twice, e, cp)
						default:
							before, after, twice = append(before, e), append(after, e), append(twice, e)
						}
					}
					for _, l := range [][]interface{}{before, after, twice, {"", map[string]interface{}{"kind": "user_scope"}}} {
						muts = append(muts, struct {
							how  string
							repl interface{}
						}{"replace", l})
					}
				}
				// string-valued nodes additionally take hostile strings (subjects with empty tokens, "$" references,
				// wildcards and blanks in odd places, over-long text)
				if orig, isStr := nodeAt(tree, p).(string); isStr {
					for hi, hs := range hostileStrings {
						if keyShaped := hi >= len(hostileStrings)-len(keyShapedStrings); keyShaped && !c.thorough() {
							// quick tier: key-shaped strings where a key stands (and at every top-level text field)
							if !(len(p) == 1 || nkeys.IsValidPublicKey(orig)) || (hi+b)%2 != 0 {
								continue
							}
						} else if !c.thorough() && (hi+len(muts)+len(p)+b)%3 != 0 {
							continue // quick tier: a rotating third of the hostile strings per node
						}
						muts = append(muts, struct {
							how  string
							repl interface{}
						}{"replace", hs})
					}
				}
				for _, m := range muts {
					n++
					if n%sampleEvery != 0 {
						continue
					}
					mt := mutateAt(deepCopy(tree), p, m.how, m.repl)
					pj, err := json.Marshal(mt)
					if err != nil {
						continue
					}
					note := fmt.Sprintf("%s payload, %s at %v", kind, m.how, p)
					for _, layout := range []string{"v2", "v1"} {
						hdr := hdrV2
						if layout == "v1" {
							// (a version-2 payload signed the version-1 way is refused at the signature unless the mutation hit
							// the version or the kind: one in eight of them; version-1 PAYLOADS mutated the same way go
							// through both libraries in c11_v1.go)
							if n%8 != 0 && !(len(p) > 0 && (fmt.Sprint(p[len(p)-1]) == "version" || fmt.Sprint(p[len(p)-1]) == "type")) {
								continue
							}
							hdr = hdrV1
						}
						ft := forge(hdr, string(pj), layout, s)
						exerciseToken(ft.Token, s, seedU, report(ft.Token, note+" "+layout))
						c.sum.Evaluations++
						c.sum.ImplChecks++
						// (how far the mutated tokens get - recorded in the evidence: a stream the decoder refuses wholesale
						// exercises nothing behind it)
						sampled++
						if sampled%16 == 0 {
							if d, err := jwt.Decode(ft.Token); err == nil && d != nil {
								c.count("sampled_mutated_token_decodes_" + layout)
							} else {
								c.count("sampled_mutated_token_refused_" + layout)
							}
						}
					}
					c.count("mutation_" + m.how)
					distinct[fmt.Sprint(kind, m.how, len(p), fmt.Sprint(m.repl))] = true
					if c.sum.Evaluations%4001 == 1 {
						c.sample(map[string]interface{}{"note": note, "payload": string(pj)[:min(len(pj), 300)]})
					}
				}
			}
			// random double mutations
			for i := 0; i < 60; i++ {
				mt := deepCopy(tree)
				for k := 0; k < 2; k++ {
					var ps []jpath
					collectPaths(mt, nil, &ps)
					p := ps[c.Rng.Intn(len(ps))]
					mt = mutateAt(mt, p, []string{"replace", "replace", "drop", "dup"}[c.Rng.Intn(4)], replacements[c.Rng.Intn(len(replacements))])
				}
				pj, err := json.Marshal(mt)
				if err != nil {
					continue
				}
				ft := forge(hdrV2, string(pj), "v2", s)
				exerciseToken(ft.Token, s, seedU, report(ft.Token, "double mutation of "+kind))
				ft = forge(hdrV1, string(pj), "v1", s)
				exerciseToken(ft.Token, s, seedU, report(ft.Token, "double mutation of "+kind))
				c.sum.Evaluations += 2
				c.count("mutation_double")
			}
		}
	}
	// every segment of a valid token replaced by the base64url text of a JSON literal (a header or payload that is
	// valid JSON of the wrong shape: null, a number, a string, an array ...), by nothing, and by non-base64 text
	{
		lits := []string{"null", " null ", "true", "false", "0", "-1", "1e3", `"s"`, `""`, "[]", "[null]", "{}", `{"typ":null,"alg":null}`,
			`{"typ":"JWT","alg":"ed25519-nkey"}`, `{"typ":"JWT","alg":"ed25519"}`, `{"typ":1,"alg":[]}`, `[{"typ":"JWT"}]`, `{"nats":null}`, `{"nats":[]}`,
			`{"nats":{"type":"account","version":2}}`, `{"type":"user"}`, `{"nats":{"type":"authorization_request","version":0}}`}
		var segs []string
		for _, l := range lits {
			segs = append(segs, b64.EncodeToString([]byte(l)))
		}
		segs = append(segs, "", "=", "!!", "bnVsbA==", "A")
		vt := validTokens(kr)
		var vn []string
		for k := range vt {
			vn = append(vn, k)
		}
		sortStrings(vn)
		for _, name := range vn {
			parts := strings.Split(vt[name], ".")
			for pos := 0; pos < 3; pos++ {
				for _, sg := range segs {
					q := append([]string(nil), parts...)
					q[pos] = sg
					tok := strings.Join(q, ".")
					exerciseToken(tok, kr.by["account"], seedU, report(tok, fmt.Sprintf("%s token, segment %d replaced", name, pos)))
					exerciseV1Token(tok, kr.by["account"], seedU, report(tok, fmt.Sprintf("%s token, segment %d replaced", name, pos)))
					c.sum.Evaluations++
					c.sum.ImplChecks++
					c.count("segment_literal")
				}
			}
			// all three segments literals at once
			for _, a := range segs[:8] {
				for _, b := range segs[:8] {
					tok := a + "." + b + "." + parts[2]
					exerciseToken(tok, kr.by["account"], seedU, report(tok, "header and payload literals"))
					c.sum.Evaluations++
				}
			}
		}
	}
	// the bundled version-1 library on version-1 payloads
	runC11V1(c, g, seedU, replacements, report)
	// arbitrary byte strings into every parser
	nb := 3000
	if c.thorough() {
		nb = 60000
	}
	valid := validTokens(kr)
	var vnames []string
	for k := range valid {
		vnames = append(vnames, k)
	}
	sortStrings(vnames)
	pieces := []string{"-----BEGIN NATS USER JWT-----\n", "------END NATS USER JWT------\n", "---", "\n", "\r\n", "SU", "SA", "SO", "S", " ", ".", "eyJ0eXAiOiJKV1QiLCJhbGciOiJlZDI1NTE5LW5rZXkifQ", "e30", "bnVsbA", "W10", "=", "\x00", "\xff", "*************"}
	for i := 0; i < nb; i++ {
		var sb strings.Builder
		for k := c.Rng.Intn(8); k >= 0; k-- {
			switch c.Rng.Intn(4) {
			case 0:
				sb.WriteString(pieces[c.Rng.Intn(len(pieces))])
			case 1:
				t := valid[vnames[c.Rng.Intn(len(vnames))]]
				a := c.Rng.Intn(len(t))
				sb.WriteString(t[a : a+c.Rng.Intn(len(t)-a)])
			case 2:
				sb.WriteByte(byte(c.Rng.Intn(256)))
			default:
				sb.WriteString(string(seedU)[:c.Rng.Intn(len(seedU))])
			}
		}
		in := sb.String()
		rep := report(in, "arbitrary bytes")
		try := func(op string, f func()) {
			if p := guard(f); p != "" {
				rep(op, p)
			}
		}
		try("Decode", func() { jwt.Decode(in) })
		try("DecodeGeneric", func() { jwt.DecodeGeneric(in) })
		try("DecodeAccountClaims", func() { jwt.DecodeAccountClaims(in) })
		try("ParseDecoratedJWT", func() { jwt.ParseDecoratedJWT([]byte(in)) })
		try("ParseDecoratedNKey", func() { jwt.ParseDecoratedNKey([]byte(in)) })
		try("ParseDecoratedUserNKey", func() { jwt.ParseDecoratedUserNKey([]byte(in)) })
		try("DecorateSeed", func() { jwt.DecorateSeed([]byte(in)) })
		try("DecorateJWT", func() { jwt.DecorateJWT(in) })
		try("FormatUserConfig", func() { jwt.FormatUserConfig(valid["user"], []byte(in)); jwt.FormatUserConfig(in, seedU) })
		try("ValidateOperatorServiceURL", func() { jwt.ValidateOperatorServiceURL(in) })
		try("ParseServerVersion", func() { jwt.ParseServerVersion(in) })
		try("v1compat decoders", func() {
			v1.DecodeGeneric(in)
			v1.DecodeAccountClaims(in)
			v1.DecodeOperatorClaims(in)
			v1.DecodeUserClaims(in)
			v1.DecodeActivationClaims(in)
		})
		try("v1compat ParseDecoratedJWT", func() { v1.ParseDecoratedJWT([]byte(in)) })
		try("v1compat ParseDecoratedNKey", func() { v1.ParseDecoratedNKey([]byte(in)) })
		try("v1compat ParseDecoratedUserNKey", func() { v1.ParseDecoratedUserNKey([]byte(in)) })
		try("v1compat DecorateSeed", func() { v1.DecorateSeed([]byte(in)) })
		try("v1compat DecorateJWT", func() { v1.DecorateJWT(in) })
		try("v1compat FormatUserConfig", func() { v1.FormatUserConfig(valid["user"], []byte(in)); v1.FormatUserConfig(in, seedU) })
		c.sum.Evaluations++
		c.sum.ImplChecks++
		c.count("arbitrary_bytes")
	}
	// the modelled sites, with the same inputs evaluated in Coq
	subjPool := []string{"local..$1", ".$1", "$1.", "a..b.$2", "", "a", "a.b", "*", ">", "a.*", "a.>", ".", "..", "a..b", ".a", "a.", "*.*", "a.b.c.d", "$1", "$", "x.$1.$22", "a b", "$a", "$-1"}
	for _, s := range subjPool {
		for _, o := range subjPool {
			var got bool
			p := guard(func() { got = jwt.Subject(s).IsContainedIn(jwt.Subject(o)) })
			if p != "" {
				c.violation("C11: IsContainedIn panicked: "+p, map[string]interface{}{"subject": s, "other": o})
			}
			w.add(fmt.Sprintf("(NSContained %s %s %s)", coqStr(s), coqStr(o), coqBool(got)), map[string]interface{}{"subject": s, "other": o})
		}
		p := guard(func() {
			vr := jwt.CreateValidationResults()
			jwt.Subject(s).Validate(vr)
			jwt.RenamingSubject(s).Validate("a.*", vr)
			jwt.RenamingSubject(s).ToSubject()
		})
		if p != "" {
			c.violation("C11: Subject/RenamingSubject.Validate panicked: "+p, map[string]interface{}{"subject": s})
		}
		w.add("(NSSubject "+coqStr(s)+")", map[string]interface{}{"subject": s})
		w.add("(NSRenaming "+coqStr(s)+")", map[string]interface{}{"subject": s})
		w.add(fmt.Sprintf("(NSClean %s %s)", coqStr(s), coqStr(jwt.VerifCleanSubject(s))), map[string]interface{}{"subject": s})
		for _, atp := range []uint{0, 1, 2, 3, 100} {
			e := &jwt.Export{Subject: jwt.Subject(s), Type: jwt.Stream, AccountTokenPosition: atp}
			p := guard(func() { vr := jwt.CreateValidationResults(); e.Validate(vr) })
			if p != "" {
				c.violation("C11: Export.Validate panicked: "+p, map[string]interface{}{"subject": s, "position": atp})
			}
			w.add(fmt.Sprintf("(NSTokenPos %s %d%%nat)", coqStr(s), atp), map[string]interface{}{"subject": s, "position": atp})
		}
		c.sum.Evaluations++
	}
	for i := 0; i < 200; i++ {
		n := c.Rng.Intn(5)
		var ents []string
		ac := jwt.NewAccountClaims(kr.by["account"].pub)
		for k := 0; k < n; k++ {
			if c.Rng.Intn(3) == 0 {
				ac.Exports = append(ac.Exports, nil)
				ac.Imports = append(ac.Imports, nil)
				ents = append(ents, "None")
				continue
			}
			s := subjPool[c.Rng.Intn(len(subjPool))]
			svc := c.Rng.Intn(2) == 0
			t := jwt.Stream
			if svc {
				t = jwt.Service
			}
			ac.Exports = append(ac.Exports, &jwt.Export{Subject: jwt.Subject(s), Type: t})
			ac.Imports = append(ac.Imports, &jwt.Import{Subject: jwt.Subject(s), Type: t, Account: "A"})
			ents = append(ents, "(Some ("+coqStr(s)+", "+coqBool(svc)+"))")
		}
		ac.Limits.Exports, ac.Limits.WildcardExports = 100, false
		p := guard(func() {
			vr := jwt.CreateValidationResults()
			ac.Validate(vr)
			ac.Exports.HasExportContainingSubject("a.b")
			ac.Encode(kr.by["operator"].kp)
		})
		if p != "" {
			c.violation("C11: an account with null list entries panicked: "+p, map[string]interface{}{"entries": ents})
		}
		w.add("(NSEntries \"a.b\" "+coqList(ents)+")", map[string]interface{}{"entries": ents})
		c.sum.Evaluations++
	}
	for _, seed := range []string{"", "S", " ", "SU", "SA", "SO", "SX", " S ", "SUAAA", "\nSU\n", "  ", "SUA IO", string(seedU), "\tS", "SÜ"} {
		var err error
		p := guard(func() { _, err = jwt.DecorateSeed([]byte(seed)) })
		if p != "" {
			c.violation("C11: DecorateSeed panicked: "+p, map[string]interface{}{"seed": seed})
		}
		w.add(fmt.Sprintf("(NSSeed %s %s)", coqStr(seed), coqBool(err != nil)), map[string]interface{}{"seed": seed})
		c.sum.Evaluations++
	}
	for _, nilMap := range []bool{true, false} {
		for _, tp := range []string{"", "generic", "x"} {
			for _, tags := range []bool{true, false} {
				m := map[string]interface{}{"iss": kr.by["user"].pub, "sub": "s"}
				if tp != "" {
					m["type"] = tp
				}
				if tags {
					m["tags"] = []string{"a"}
				}
				if !nilMap {
					m["nats"] = map[string]interface{}{}
				}
				pj, _ := json.Marshal(m)
				ft := forge(hdrV1, string(pj), "v1", kr.by["user"])
				p := guard(func() { jwt.DecodeGeneric(ft.Token) })
				if p != "" {
					c.violation("C11: DecodeGeneric panicked: "+p, map[string]interface{}{"token": ft.Token})
				}
				w.add(fmt.Sprintf("(NSRehome %s %s %s)", coqBool(nilMap), coqStr(tp), coqBool(tags)), map[string]interface{}{"token": ft.Token})
				c.sum.Evaluations++
			}
		}
	}
	w.flush()
	c.sum.DistinctNontriv = len(distinct)
	c.sum.Rule = "every single-node structural mutation (replace by null / number / string / [] / {} / [null] / {k:null} / bool / [{}] / huge float; drop; duplicate incl. a case-folded key) of rich valid payloads of each kind, plus random double mutations, each correctly signed in both layouts, then every decoder and every public operation on what was decoded (plus, on every twentieth token, a reflective sweep of every other exported method of everything reachable from the claims with synthesised arguments) (validation, printing, queries, signer and revocation queries, export lookup, hash id, mutation helpers, re-encoding) under recover(); every segment of valid tokens replaced by the base64url text of JSON literals of the wrong shape (null, numbers, strings, arrays, partial objects), by nothing and by non-base64 text; arbitrary byte strings (token and credentials fragments, random bytes) into every parser and decorator of v2 and of the bundled v1 library; rich version-1 payloads of all seven v1 kinds with every single-node mutation through every v1compat decoder and every public operation on what it decoded; the modelled index / dereference / nil-map sites on the same inputs in Coq; non-trivial = distinct (kind, mutation, depth, replacement)"
	_ = reflect.TypeOf
}
