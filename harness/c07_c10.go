package main

import (
	"fmt"
	"math"
	"strings"
	"time"

	jwt "github.com/nats-io/jwt/v2"
	v1 "github.com/nats-io/jwt/v2/v1compat"
)

func init() {
	drivers["C07"] = runC07
	drivers["C10"] = runC10
}

func runC07(c *Ctx) {
	w := c.newCaseWriter("time", vcaseRequires, "vcase", "vcase_ok")
	g := &cleanGen{rng: c.Rng, kr: newKeyring()}
	distinct := map[string]bool{}
	now := time.Now().Unix()
	grid := []int64{math.MinInt64, -1, 0, 1, now - 1000000000, now - 3, now + 3, now + 1000000000, math.MaxInt64}
	one := func(kind string, exp, nbf int64, emit bool) {
		cl := g.clean(kind)
		cd := cl.Claims()
		cd.Expires, cd.NotBefore = exp, nbf
		if ac, ok := cl.(*jwt.AccountClaims); ok && !emit {
			// an import whose activation token is itself expired, or not valid yet: the account's time-check issues are
			// about the account's own times - a token it carries adds none
			exporter := newSigner("account")
			act := jwt.NewActivationClaims(ac.Subject)
			act.ImportSubject, act.ImportType = "timed.import.>", jwt.Stream
			if g.rng.Intn(2) == 0 {
				act.Expires = now - 5000
			} else {
				act.NotBefore = now + 5000
			}
			if tok, err := act.Encode(exporter.kp); err == nil {
				ac.Imports.Add(&jwt.Import{Name: "timed", Subject: "timed.import.x", Account: exporter.pub, Type: jwt.Stream, Token: tok})
				if ac.Limits.Imports != -1 {
					ac.Limits.Imports++
				}
				c.count("account_with_an_import_whose_token_has_a_time_problem")
			}
		}
		o := observeValidate(cl)
		// outside a 2-second band around the observed second
		for _, t := range []int64{exp, nbf} {
			if t > 0 && t >= o.Now-2 && t <= o.Now+2 {
				return
			}
		}
		c.sum.Evaluations++
		c.sum.ImplChecks++
		want := 0
		if exp > 0 && o.Now > exp {
			want++
		}
		if nbf > 0 && nbf > o.Now {
			want++
		}
		inp := map[string]interface{}{"kind": kind, "exp": exp, "nbf": nbf, "now": o.Now, "time_issues": o.Time, "expected": want,
			"blocking": o.Blocking, "blocking_with_time_checks": o.BlockingT}
		switch {
		case o.Panic != "":
			c.violation("C11: Validate panicked: "+o.Panic, inp)
		case o.Time != want:
			c.violation("C07: wrong number of time-check issues", inp)
		case o.Blocking:
			c.violation("C07: a time issue (or nothing) made clean claims blocking without time checks requested", inp)
		case o.BlockingT != (want > 0):
			c.violation("C07: IsBlocking(true) does not reflect the time-check issues", inp)
		}
		distinct[fmt.Sprint(kind, exp > 0, nbf > 0, o.Time)] = true
		c.count(fmt.Sprintf("issues_%d", o.Time))
		if emit {
			w.add(vcaseCoq(cl, o), inp)
		}
		if c.sum.Evaluations%97 == 1 {
			c.sample(inp)
		}
	}
	for _, kind := range kindNames {
		for _, exp := range grid {
			for _, nbf := range grid {
				one(kind, exp, nbf, true)
			}
		}
	}
	// a sweep over the whole range of the field: every power of two and of ten, their neighbours, and the present
	// instant in other units (milli-, micro-, nanoseconds; minutes) - the comparison is of plain seconds everywhere
	{
		var sweep []int64
		for e := uint(0); e < 63; e++ {
			sweep = append(sweep, int64(1)<<e, int64(1)<<e-1, int64(1)<<e+1)
		}
		for p, k := int64(1), 0; k < 19; k, p = k+1, p*10 {
			sweep = append(sweep, p, p+1, p-1, 3*p, 7*p)
		}
		sweep = append(sweep, now*1000, now*1000-1, now*1000+1, now*1000000, now*1000000000, now/60, now/1000, now*2, now+now/2, now*999, now*1001)
		n := 0
		for _, v := range sweep {
			for _, sign := range []int64{1, -1} {
				kind := kindNames[n%len(kindNames)]
				n++
				one(kind, sign*v, 0, n%5 == 0)
				one(kind, 0, sign*v, n%5 == 1)
				one(kind, sign*v, sign*v, false)
				c.count("range_sweep")
			}
		}
	}
	// one results object for several claims (an operator, its accounts and users checked in one go), and for the same
	// claim twice: every Validate adds its own time-check issues, whatever the object already holds
	for _, ka := range kindNames {
		for _, kb := range kindNames {
			for _, tcase := range [][2]int64{{now - 1000, 0}, {0, now + 1000}, {now - 900, now + 900}, {0, 0}} {
				a, b := g.clean(ka), g.clean(kb)
				a.Claims().Expires, a.Claims().NotBefore = tcase[0], tcase[1]
				b.Claims().Expires, b.Claims().NotBefore = tcase[0], tcase[1]
				each := 0
				if tcase[0] > 0 {
					each++
				}
				if tcase[1] > 0 {
					each++
				}
				vr := jwt.CreateValidationResults()
				count := func() int {
					n := 0
					for _, is := range vr.Issues {
						if is.TimeCheck {
							n++
						}
					}
					return n
				}
				a.Validate(vr)
				n1 := count()
				b.Validate(vr)
				n2 := count()
				a.Validate(vr)
				n3 := count()
				c.sum.Evaluations++
				c.sum.ImplChecks++
				if n1 != each || n2 != 2*each || n3 != 3*each || vr.IsBlocking(true) != (each > 0) || vr.IsBlocking(false) {
					c.violation("C07: claims validated into a results object that already holds issues do not add their own time-check issues",
						map[string]interface{}{"first": ka, "second": kb, "exp": tcase[0], "nbf": tcase[1], "time_issues_after_each_validate": []int{n1, n2, n3}, "expected_per_claim": each})
				}
				c.count("shared_results_object")
			}
		}
	}
	// SEVERAL results objects alive at once (one per claim, as a server validating a batch keeps them): each holds the
	// issues of its own claim and nothing of the others', however few issues each has and in whatever order they fill
	for _, ka := range kindNames {
		for _, kb := range kindNames {
			a, b, cc := g.clean(ka), g.clean(kb), g.clean(ka)
			a.Claims().Expires = now - 1000
			b.Claims().NotBefore = now + 1000
			vrs := []*jwt.ValidationResults{jwt.CreateValidationResults(), jwt.CreateValidationResults(), jwt.CreateValidationResults(), jwt.CreateValidationResults()}
			a.Validate(vrs[0])
			b.Validate(vrs[1])
			cc.Validate(vrs[2])
			vrs[3].AddWarning("a warning of another run")
			b.Validate(vrs[1])
			vrs[3].AddError("an error of another run")
			count := func(vr *jwt.ValidationResults) (n int) {
				for _, is := range vr.Issues {
					if is.TimeCheck {
						n++
					}
				}
				return
			}
			c.sum.Evaluations++
			c.sum.ImplChecks++
			got := []int{count(vrs[0]), count(vrs[1]), count(vrs[2]), count(vrs[3]), len(vrs[0].Issues), len(vrs[1].Issues), len(vrs[2].Issues), len(vrs[3].Issues)}
			want := []int{1, 2, 0, 0, 1, 2, 0, 2}
			if fmt.Sprint(got) != fmt.Sprint(want) || vrs[0].IsBlocking(false) || !vrs[0].IsBlocking(true) || vrs[2].IsBlocking(true) || !vrs[3].IsBlocking(false) {
				c.violation("C07: results objects that are alive at the same time do not each hold their own claim's time-check issues",
					map[string]interface{}{"first": ka, "second": kb, "time_issues_and_lengths": got, "expected": want})
			}
			c.count("several_results_objects")
		}
	}
	// claims that ARRIVE AS TOKENS, one after another: the times Validate judges are the times the token at hand carries -
	// a token without expiry decoded right after an expired one (same kind, same layout) has no time issue, and the other
	// way round; version-1 and version-2 layouts, every kind both encoders write
	{
		kr := g.kr
		mk := func(kind, layout string, exp, nbf int64) string {
			var tok string
			var err error
			switch kind + "/" + layout {
			case "activation/v1":
				x := v1.NewActivationClaims(kr.by["account"].pub)
				x.ImportSubject, x.ImportType, x.Expires, x.NotBefore = "a.b", v1.Stream, exp, nbf
				tok, err = x.Encode(kr.by["account"].kp)
			case "activation/v2":
				x := jwt.NewActivationClaims(kr.by["account"].pub)
				x.ImportSubject, x.ImportType, x.Expires, x.NotBefore = "a.b", jwt.Stream, exp, nbf
				tok, err = x.Encode(kr.by["account"].kp)
			case "user/v1":
				x := v1.NewUserClaims(kr.by["user"].pub)
				x.Expires, x.NotBefore = exp, nbf
				tok, err = x.Encode(kr.by["account"].kp)
			case "user/v2":
				x := jwt.NewUserClaims(kr.by["user"].pub)
				x.Expires, x.NotBefore = exp, nbf
				tok, err = x.Encode(kr.by["account"].kp)
			case "account/v1":
				x := v1.NewAccountClaims(kr.by["account"].pub)
				x.Expires, x.NotBefore = exp, nbf
				tok, err = x.Encode(kr.by["operator"].kp)
			case "account/v2":
				x := jwt.NewAccountClaims(kr.by["account"].pub)
				x.Expires, x.NotBefore = exp, nbf
				tok, err = x.Encode(kr.by["operator"].kp)
			case "operator/v1":
				x := v1.NewOperatorClaims(kr.by["operator"].pub)
				x.Expires, x.NotBefore = exp, nbf
				tok, err = x.Encode(kr.by["operator"].kp)
			case "operator/v2":
				x := jwt.NewOperatorClaims(kr.by["operator"].pub)
				x.Expires, x.NotBefore = exp, nbf
				tok, err = x.Encode(kr.by["operator"].kp)
			}
			if err != nil {
				panic(err)
			}
			return tok
		}
		for _, kind := range []string{"activation", "user", "account", "operator"} {
			for _, layout := range []string{"v1", "v2"} {
				timed := []string{mk(kind, layout, now-5000, 0), mk(kind, layout, 0, now+5000), mk(kind, layout, now-5000, now+5000)}
				plain := mk(kind, layout, 0, 0)
				wants := []int{1, 1, 2}
				for rep := 0; rep < 12; rep++ {
					ti := rep % 3
					for step, tok := range []string{timed[ti], plain, plain, timed[ti]} {
						want := 0
						if step == 0 || step == 3 {
							want = wants[ti]
						}
						cl, err := jwt.Decode(tok)
						c.sum.Evaluations++
						c.sum.ImplChecks++
						if err != nil {
							c.violation("C07: a token the library encoded does not decode", map[string]interface{}{"kind": kind, "layout": layout, "error": err.Error()})
							continue
						}
						vr := jwt.CreateValidationResults()
						cl.Validate(vr)
						n := 0
						for _, is := range vr.Issues {
							if is.TimeCheck {
								n++
							}
						}
						if n != want {
							c.violation("C07: a claim decoded from a token has other time-check issues than the token's own times give (it was decoded right after a token with other times)",
								map[string]interface{}{"kind": kind, "layout": layout, "step": step, "time_issues": n, "expected": want, "exp": cl.Claims().Expires, "nbf": cl.Claims().NotBefore, "token": tok})
						}
						c.count("decoded_in_sequence")
					}
				}
			}
		}
	}
	// a results object that is already CROWDED - it holds many warnings (a long list of imports using a deprecated
	// field was validated into it), or the claim itself raises many errors next to its time issues (130 exports of no
	// kind): however many issues there are, the time-check issues are all there and IsBlocking(true) shows them
	for _, crowd := range []int{99, 100, 101, 127, 128, 255, 256, 1000, 1023, 1024, 4096, 16383, 16384, 16385, 65536, 70000} {
		for ki, kind := range kindNames {
			if crowd > 1024 && ki != crowd%len(kindNames) {
				continue // the big crowds with one kind each
			}
			for _, tcase := range [][2]int64{{now - 1000, 0}, {now - 900, now + 900}, {0, 0}} {
				cl := g.clean(kind)
				cl.Claims().Expires, cl.Claims().NotBefore = tcase[0], tcase[1]
				each := 0
				if tcase[0] > 0 {
					each++
				}
				if tcase[1] > 0 {
					each++
				}
				for _, where := range []string{"before", "after"} {
					vr := jwt.CreateValidationResults()
					fill := func() {
						for i := 0; i < crowd; i++ {
							vr.AddWarning("warning %d of a long validation run", i)
						}
					}
					if where == "before" {
						fill()
					}
					cl.Validate(vr)
					if where == "after" {
						fill()
					}
					n := 0
					for _, is := range vr.Issues {
						if is.TimeCheck {
							n++
						}
					}
					c.sum.Evaluations++
					c.sum.ImplChecks++
					if n != each || vr.IsBlocking(true) != (each > 0) || vr.IsBlocking(false) || len(vr.Issues) != crowd+each {
						c.violation("C07: in a results object crowded with warnings the time-check issues of a claim are not all there",
							map[string]interface{}{"kind": kind, "exp": tcase[0], "nbf": tcase[1], "warnings": crowd, "warnings_added": where + " the claim was validated",
								"time_issues": n, "expected": each, "issues_held": len(vr.Issues), "blocking_with_time_checks": vr.IsBlocking(true), "blocking": vr.IsBlocking(false)})
					}
					c.count("crowded_results_object")
				}
			}
		}
	}
	for _, nbad := range []int{99, 100, 130, 1000, 2500} {
		ac := g.clean("account").(*jwt.AccountClaims)
		ac.Exports = nil
		for i := 0; i < nbad; i++ {
			ac.Exports.Add(&jwt.Export{Subject: jwt.Subject(fmt.Sprintf("bad.export.%d", i)), Type: jwt.ExportType(7)})
		}
		ac.Limits.Exports = -1
		ac.Expires, ac.NotBefore = now-1000, now+1000
		vr := jwt.CreateValidationResults()
		ac.Validate(vr)
		n := 0
		for _, is := range vr.Issues {
			if is.TimeCheck {
				n++
			}
		}
		c.sum.Evaluations++
		c.sum.ImplChecks++
		if n != 2 || !vr.IsBlocking(true) {
			c.violation("C07: next to many errors of its own a claim's time-check issues are not all there",
				map[string]interface{}{"kind": "account", "exports_of_no_kind": nbad, "time_issues": n, "expected": 2, "issues_held": len(vr.Issues)})
		}
		c.count("crowded_by_own_errors")
	}
	c.sum.Exhaustive = true
	// claims that ALSO contain something invalid: the time issues change neither that they block without time
	// checks nor what is counted (an authorization response may be a rejection: error set, no token)
	spoil := func(cl jwt.Claims) bool {
		switch x := cl.(type) {
		case *jwt.OperatorClaims:
			x.SigningKeys.Add("not-a-key")
		case *jwt.AccountClaims:
			x.SigningKeys.Add("not-a-key")
		case *jwt.UserClaims:
			x.IssuerAccount = "not-a-key"
		case *jwt.ActivationClaims:
			x.IssuerAccount = "not-a-key"
		case *jwt.AuthorizationRequestClaims:
			x.UserNkey = "not-a-key"
		case *jwt.AuthorizationResponseClaims:
			x.IssuerAccount = "not-a-key"
		default:
			return false
		}
		return true
	}
	for _, kind := range kindNames {
		for _, exp := range []int64{0, now - 1000, now + 1000} {
			for _, nbf := range []int64{0, now - 1000, now + 1000} {
				for variant := 0; variant < 2; variant++ {
					cl := g.clean(kind)
					if variant == 0 {
						if !spoil(cl) {
							continue
						}
					} else if ar, ok := cl.(*jwt.AuthorizationResponseClaims); ok {
						ar.Error, ar.Jwt = "denied", "" // a rejection response is clean claims too
					} else {
						continue
					}
					cd := cl.Claims()
					cd.Expires, cd.NotBefore = exp, nbf
					o := observeValidate(cl)
					c.sum.Evaluations++
					c.sum.ImplChecks++
					want := 0
					if exp > 0 && o.Now > exp {
						want++
					}
					if nbf > 0 && nbf > o.Now {
						want++
					}
					inp := map[string]interface{}{"kind": kind, "exp": exp, "nbf": nbf, "now": o.Now, "time_issues": o.Time, "expected": want,
						"blocking": o.Blocking, "blocking_with_time_checks": o.BlockingT, "also_invalid": variant == 0}
					switch {
					case o.Panic != "":
						c.violation("C11: Validate panicked: "+o.Panic, inp)
					case o.Time != want:
						c.violation("C07: wrong number of time-check issues", inp)
					case variant == 0 && (!o.Blocking || !o.BlockingT):
						c.violation("C07: a time-check issue hides a blocking issue", inp)
					case variant == 1 && (o.Blocking || o.BlockingT != (want > 0)):
						c.violation("C07: IsBlocking does not follow the time-check issues (rejection response)", inp)
					}
					w.add(vcaseCoq(cl, o), inp)
					c.count("with_blocking_issue_or_rejection")
				}
			}
		}
	}
	nr := 100
	if c.thorough() {
		nr = 3000
	}
	for _, kind := range kindNames {
		for i := 0; i < nr; i++ {
			r := func() int64 {
				switch c.Rng.Intn(4) {
				case 0:
					return now + int64(c.Rng.Intn(2000000)) - 1000000
				case 1:
					return c.Rng.Int63() - c.Rng.Int63()
				case 2:
					return int64(c.Rng.Intn(5)) - 2
				}
				return 0
			}
			one(kind, r(), r(), i%4 == 0)
		}
	}
	w.flush()
	c.sum.DistinctNontriv = len(distinct)
	c.sum.Rule = "7 kinds x the 9x9 grid of (expiry, not-before) over {min-int64, -1, 0, 1, now-1e9, now-3, now+3, now+1e9, max-int64} (complete) plus random pairs, on clean claims of each kind (and, on a 3x3 grid, on claims that also hold a blocking violation and on rejection responses), skipping values within 2 seconds of the observed clock second; observed: number of issues with TimeCheck set, IsBlocking(false), IsBlocking(true); non-trivial = distinct (kind, exp set, nbf set, count)"
}

var noKindTurn int

func runC10(c *Ctx) {
	w := c.newCaseWriter("imp", vcaseRequires, "vcase", "vcase_ok")
	g := &cleanGen{rng: c.Rng, kr: newKeyring()}
	distinct := map[string]bool{}
	reps := 2
	if c.thorough() {
		reps = 40
	}
	subjects := [][2]string{{"i.foo", "i.>"}, {"i.foo", "i.foo"}, {"i.*.bar", "i.*.bar"}, {"i.a.b", "i.*.b"}, {"i.a.>", "i.>"}, {"i.x", "*.x"}, {"q", ">"},
		{"i.a.b.c", "i.a.>"}, {"i.*.c", "i.*.*"}, {"i.a", "*.*"}, {"i.>", "i.>"}}
	// near misses: the granted subject looks close but does not contain the imported one
	// (a '>' that is not the last token is an ordinary token; '>' needs at least one token; '*' exactly one)
	nearMiss := [][2]string{{"i.eu.public", "i.>.internal"}, {"i.a.b", "i.>.b"}, {"i.a.b", "i.*"}, {"i.>", "i.*"}, {"i.*", "i.a"},
		{"i.foo.bar", "i.foo"}, {"i.foo", "i.foo.>"}, {"i.foo", "i.foo.bar"}, {"i.a.b", "*.a"}, {"i", ">.x"}, {"i.a", "i.a.*"}, {"i.>", "i.a.>"},
		{"i.a.b", "i.a.b.>"}, {"i.a.b", ">.a.b"},
		// tokens are compared whole: a grant whose token is a character-wise prefix of the imported one, or whose last
		// token merely ENDS in a wildcard character, grants nothing more than itself
		{"i.orders.eu", "i.order.>"}, {"i.foobar", "i.foo.>"}, {"i.eu.private.billing", "i.eu>"}, {"i.eux", "i.eu>"}, {"i.ab", "i.a*"},
		{"i.a.b", "i.>>"}, {"i.abc", "i.ab"}, {"i.ab", "i.abc"}, {"i.a.bc.d", "i.a.b.>"}, {"i.eu>x", "i.eu>"}}
	for rep := 0; rep < reps; rep++ {
		for pi := 0; pi < 40; pi++ {
			pat := pi
			if pi >= 32 {
				pat = 31 // the fully satisfied pattern several more times (it must never block)
			}
			for _, signerKind := range []string{"identity", "signing_key", "operator"} {
				for _, layout := range []string{"v2", "v1"} {
					ok := [5]bool{pat&1 != 0, pat&2 != 0, pat&4 != 0, pat&8 != 0, pat&16 != 0}
					exporter, other := newSigner("account"), newSigner("account")
					importer := newSigner("account")
					kind := jwt.ExportType(1 + c.Rng.Intn(2))
					sp := subjects[c.Rng.Intn(len(subjects))]
					subj, grant := sp[0], sp[1]
					if !ok[4] {
						if c.Rng.Intn(3) == 0 {
							grant = []string{"other.subject", "i", "i.foo.bar.baz", "j.>"}[c.Rng.Intn(4)]
						} else {
							nm := nearMiss[c.Rng.Intn(len(nearMiss))]
							subj, grant = nm[0], nm[1]
						}
					}
					tokKind := kind
					if !ok[3] {
						tokKind = 3 - kind
						noKindTurn++
						if noKindTurn%2 == 0 {
							tokKind = 0 // the token names no kind at all (the member is left out): it grants neither kind
						}
					}
					addressee := importer.pub
					if !ok[2] {
						addressee = other.pub
					}
					issuerAcct := exporter
					if !ok[1] {
						issuerAcct = other
					}
					// who signs
					var kp *signer
					issuerAccountField := ""
					switch signerKind {
					case "identity":
						kp = issuerAcct
					case "signing_key":
						kp = newSigner("account")
						issuerAccountField = issuerAcct.pub
					default:
						kp = g.kr.by["operator"]
						issuerAccountField = issuerAcct.pub
					}
					expired := c.Rng.Intn(3) == 0 // expiry of the token is deliberately not considered
					var tok string
					var err error
					if layout == "v2" {
						ac := jwt.NewActivationClaims(addressee)
						ac.ImportSubject, ac.ImportType, ac.IssuerAccount = jwt.Subject(grant), tokKind, issuerAccountField
						if expired {
							ac.Expires = time.Now().Unix() - 100000
						}
						tok, err = ac.Encode(kp.kp)
					} else {
						ac := v1.NewActivationClaims(addressee)
						ac.ImportSubject, ac.ImportType, ac.IssuerAccount = v1.Subject(grant), v1.ExportType(tokKind), issuerAccountField
						if expired {
							ac.Expires = time.Now().Unix() - 100000
						}
						tok, err = ac.Encode(kp.kp)
					}
					if err != nil {
						panic(err)
					}
					// the same token as another implementation would write it: the kind spelled with a JSON escape
					// (s\u0074ream is stream), signed over that text - it says what it said
					if c.Rng.Intn(4) == 0 {
						ch := splitTok(tok)
						if pj, e := b64.DecodeString(ch[1]); e == nil {
							pj2 := strings.NewReplacer(`"stream"`, `"s\u0074ream"`, `"service"`, `"s\u0065rvice"`).Replace(string(pj))
							hj, _ := b64.DecodeString(ch[0])
							ft := forge(string(hj), pj2, layout, kp)
							if _, e := jwt.DecodeActivationClaims(tok); e == nil {
								tok = ft.Token
								c.count("activation_kind_spelled_with_an_escape")
							}
						}
					}
					how := ""
					if !ok[0] {
						switch c.Rng.Intn(4) {
						case 0:
							// text that is no token at all - among it what older files put in this place: a URL of the token
							notTokens := []string{"garbage", "https://example.com/activations/ABC.jwt", "http://localhost:9090/jwt/v1/activations/x",
								"HTTPS://EXAMPLE.COM/a.jwt", "Http://example.com", "file:///etc/nats/activation.jwt", "nats://demo.nats.io/a", "a.b.c", "eyJ0eXAiOiJKV1QifQ", "{}", " "}
							tok = notTokens[c.Rng.Intn(len(notTokens))]
							how = "not a token: " + tok
						case 1:
							uc := jwt.NewUserClaims(g.userKey())
							tok, _ = uc.Encode(exporter.kp)
							how = "user token"
						case 2:
							b := []byte(tok)
							p := len(b) - 3 - c.Rng.Intn(30)
							if b[p] == 'Q' {
								b[p] = 'R'
							} else {
								b[p] = 'Q'
							}
							tok, how = string(b), "tampered signature"
						default:
							// payload of another token under this signature
							ac := jwt.NewActivationClaims(addressee)
							ac.ImportSubject, ac.ImportType = ">", tokKind
							ac.Name = "another token" // (never the same payload text as the token it is spliced into)
							t2, _ := ac.Encode(exporter.kp)
							a, b := splitTok(tok), splitTok(t2)
							tok, how = a[0]+"."+b[1]+"."+a[2], "spliced payload"
						}
					}
					// what the signed token says counts, not what a caller did to claims decoded from the same text earlier:
					// decode it, and edit the returned object so that IT would satisfy (or violate) every binding
					if c.Rng.Intn(2) == 0 {
						if draft, err := jwt.DecodeActivationClaims(tok); err == nil && draft != nil {
							if c.Rng.Intn(2) == 0 {
								draft.ImportSubject, draft.ImportType, draft.Subject = ">", kind, importer.pub
								draft.Issuer, draft.IssuerAccount = exporter.pub, ""
							} else {
								draft.ImportSubject, draft.ImportType, draft.Subject = "nothing.at.all", 3-kind, other.pub
							}
						}
					}
					im := &jwt.Import{Name: "x", Subject: jwt.Subject(subj), Account: exporter.pub, Token: tok, Type: kind}
					if kind == jwt.Service && c.Rng.Intn(3) == 0 && ok[4] {
						// for services the deprecated "to" is what must be contained
						im.To = im.Subject
						im.Subject = "local.name"
					} else if kind == jwt.Stream && c.Rng.Intn(3) == 0 {
						// for streams "to" is only the local name: the imported subject is what must be contained,
						// whatever "to" says (here "to" is granted exactly when the subject is not, and vice versa)
						if ok[4] {
							im.To = "somewhere.else"
						} else {
							im.To = jwt.Subject(grant)
						}
					} else if kind == jwt.Service && c.Rng.Intn(4) == 0 && !ok[4] {
						// a service import whose subject is granted but whose "to" is not
						im.To = im.Subject
						im.Subject = jwt.Subject(grant)
					}
					allOK := ok[0] && ok[1] && ok[2] && ok[3] && ok[4]
					vr := jwt.CreateValidationResults()
					im.Validate(importer.pub, vr)
					got := vr.IsBlocking(false)
					timeIssues := 0
					for _, is := range vr.Issues {
						if is.TimeCheck {
							timeIssues++
						}
					}
					c.sum.Evaluations++
					c.sum.ImplChecks++
					inp := map[string]interface{}{"decodable": ok[0], "issuer_is_exporter": ok[1], "addressed_to_importer": ok[2], "same_kind": ok[3], "grants_subject": ok[4],
						"undecodable_how": how, "signer": signerKind, "token_layout": layout, "import_subject": subj, "granted": grant, "expired_token": expired, "blocking": got, "token": tok}
					if got != !allOK {
						if allOK {
							c.violation("C10: a token satisfying the whole binding causes a blocking issue", inp)
						} else {
							c.violation("C10: an import whose token violates the binding validates without a blocking issue", inp)
						}
					}
					if timeIssues != 0 {
						c.violation("C10: the embedded token contributed a time-check issue", inp)
					}
					// keys are compared as the texts they are: the exporter's or the importing account's key in another
					// letter case, or with look-alike characters that fold to the right letters, is another text
					if allOK {
						for _, respell := range []func(string) string{strings.ToLower,
							func(k string) string { return strings.Replace(k, "S", "\u017f", 1) },
							func(k string) string { return strings.Replace(k, "K", "\u212a", 1) },
							func(k string) string { return k[:1] + strings.ToLower(k[1:]) }} {
							if r := respell(exporter.pub); r != exporter.pub && signerKind == "identity" {
								im2 := *im
								im2.Account = r
								v2 := jwt.CreateValidationResults()
								im2.Validate(importer.pub, v2)
								c.sum.ImplChecks++
								if !v2.IsBlocking(false) {
									c.violation("C10: an import naming a respelling of the exporter's key is bound to the exporter's token", inp)
								}
							}
							if r := respell(importer.pub); r != importer.pub {
								v2 := jwt.CreateValidationResults()
								im.Validate(r, v2)
								c.sum.ImplChecks++
								if !v2.IsBlocking(false) {
									c.violation("C10: a token addressed to an account binds under a respelling of that account's key", inp)
								}
							}
						}
						c.count("respelled_keys")
					}
					// validated with NO containing account (empty key): a token is always addressed to some account,
					// never to "none", so the binding cannot hold
					{
						vr0 := jwt.CreateValidationResults()
						im.Validate("", vr0)
						c.sum.ImplChecks++
						if !vr0.IsBlocking(false) {
							c.violation("C10: an import validated without a containing account accepts a token addressed to another account", inp)
						}
						ims := jwt.Imports{im}
						vr1 := jwt.CreateValidationResults()
						ims.Validate("", vr1)
						if !vr1.IsBlocking(false) {
							c.violation("C10: an import list validated without a containing account accepts a token addressed to another account", inp)
						}
					}
					// in a list, behind another import that carries the very same token and is bound to it perfectly: every
					// import is checked against its own token, whatever was checked before
					if act, err := jwt.DecodeActivationClaims(tok); err == nil && act != nil && !allOK && ok[2] {
						from := act.Issuer
						if act.IssuerAccount != "" {
							from = act.IssuerAccount
						}
						sib := &jwt.Import{Name: "sibling", Type: act.ImportType, Account: from, Subject: act.ImportSubject, Token: tok}
						vs := jwt.CreateValidationResults()
						sib.Validate(importer.pub, vs)
						if !vs.IsBlocking(false) {
							vl := jwt.CreateValidationResults()
							ims := jwt.Imports{sib, im}
							ims.Validate(importer.pub, vl)
							c.sum.ImplChecks++
							if !vl.IsBlocking(false) {
								c.violation("C10: an import whose token violates the binding passes when another import with the same token precedes it in the list", inp)
							}
							c.count("behind_a_sibling_with_the_same_token")
						}
					}
					// the same import inside a clean account, at a random position
					ac, _ := g.account()
					ac.Subject = importer.pub
					for _, other := range ac.Imports {
						other.Token = "" // their tokens are addressed to the account's previous identity
					}
					ac.Imports = nil
					ac.Limits.Imports = -1
					pos := 0
					ac.Imports = append(ac.Imports[:pos], append(jwt.Imports{im}, ac.Imports[pos:]...)...)
					o := observeValidate(ac)
					c.sum.ImplChecks++
					if o.Panic != "" {
						c.violation("C11: Validate panicked: "+o.Panic, inp)
					} else if o.Blocking != !allOK {
						c.violation("C10: account-level validation disagrees with the binding rule", inp)
					}
					// ... and the same account as it comes back from its own token (encoded by an operator, decoded): the
					// import is bound as it was
					if opk := g.kr.by["operator"]; opk != nil {
						if t2, err := ac.Encode(opk.kp); err == nil {
							if d2, err := jwt.DecodeAccountClaims(t2); err == nil && d2 != nil {
								o2 := observeValidate(d2)
								c.sum.ImplChecks++
								if o2.Panic == "" && o2.Blocking != !allOK {
									inp["import_as_decoded"] = fmt.Sprintf("%+v", *d2.Imports[0])
									c.violation("C10: the account decoded from its own token binds the import differently", inp)
								}
							}
						}
					}
					distinct[fmt.Sprint(pat, signerKind, layout, got)] = true
					if allOK {
						c.count("binding_satisfied")
					} else {
						c.count("binding_violated")
					}
					if rep == 0 || c.Rng.Intn(8) == 0 {
						w.add(vcaseCoq(ac, o), inp)
					}
					if c.sum.Evaluations%53 == 0 {
						s := map[string]interface{}{}
						for k, v := range inp {
							if k != "token" {
								s[k] = v
							}
						}
						c.sample(s)
					}
				}
			}
		}
	}
	// the offending import at the END of a long list whose other entries each raise a (non-blocking) warning - stream
	// imports still using the deprecated To field: however many issues the results object already holds, the binding
	// violation is reported as blocking; likewise into a results object pre-filled with warnings
	for _, crowd := range []int{10, 99, 100, 101, 1000, 16383, 16384, 16385, 40000} {
		exporter, importer, other := newSigner("account"), newSigner("account"), newSigner("account")
		act := jwt.NewActivationClaims(other.pub) // addressed to another account
		act.ImportSubject, act.ImportType = "crowd.bad.>", jwt.Stream
		tok, err := act.Encode(exporter.kp)
		if err != nil {
			panic(err)
		}
		bad := &jwt.Import{Name: "bad", Subject: "crowd.bad.x", Account: exporter.pub, Token: tok, Type: jwt.Stream}
		var imports jwt.Imports
		for i := 0; i < crowd; i++ {
			imports = append(imports, &jwt.Import{Name: "old", Subject: jwt.Subject(fmt.Sprintf("crowd.s%d", i)), Account: exporter.pub, To: jwt.Subject(fmt.Sprintf("crowd.t%d", i)), Type: jwt.Stream})
		}
		imports = append(imports, bad)
		vr := jwt.CreateValidationResults()
		imports.Validate(importer.pub, vr)
		c.sum.Evaluations++
		c.sum.ImplChecks++
		if !vr.IsBlocking(false) {
			c.violation("C10: an import whose token violates the binding validates without a blocking issue at the end of a long list of imports that raise warnings",
				map[string]interface{}{"imports_before_it": crowd, "issues_held": len(vr.Issues), "violated": "addressed to another account"})
		}
		vr = jwt.CreateValidationResults()
		for i := 0; i < crowd; i++ {
			vr.AddWarning("warning %d of a long validation run", i)
		}
		bad.Validate(importer.pub, vr)
		c.sum.ImplChecks++
		if !vr.IsBlocking(false) {
			c.violation("C10: an import whose token violates the binding validates without a blocking issue into a results object that already holds warnings",
				map[string]interface{}{"warnings_held_before": crowd, "issues_held": len(vr.Issues), "violated": "addressed to another account"})
		}
		if crowd <= 1000 {
			ac := jwt.NewAccountClaims(importer.pub)
			ac.Imports = imports
			ac.Limits.Imports = -1
			vr = jwt.CreateValidationResults()
			ac.Validate(vr)
			c.sum.ImplChecks++
			if !vr.IsBlocking(false) {
				c.violation("C10: account-level validation misses the binding violation of the last import of a long list",
					map[string]interface{}{"imports_before_it": crowd, "issues_held": len(vr.Issues)})
			}
		}
		distinct[fmt.Sprint("crowd", crowd)] = true
		c.count("offending_import_after_a_crowd")
	}
	w.flush()
	c.sum.Exhaustive = true
	c.sum.DistinctNontriv = len(distinct)
	c.sum.Rule = "every combination of satisfying / violating each of the five binding conditions (2^5 patterns; undecodable = garbage, a user token, a tampered signature or a spliced payload) x signer {exporter identity, exporter's signing key with issuer account, operator with issuer account} x token layout {v2, v1compat}, random stream/service kind, subject pairs and expired tokens; Import.Validate directly and inside a clean account through AccountClaims.Validate; non-trivial = distinct (pattern, signer, layout, outcome)"
}

func splitTok(t string) []string {
	out := []string{"", "", ""}
	i := 0
	for _, ch := range t {
		if ch == '.' && i < 2 {
			i++
			continue
		}
		out[i] += string(ch)
	}
	return out
}
