package main

// Independent building blocks for forged tokens and for the per-token facts the
// model decides from: base64url and JSON from the standard library, an nkey
// public-key decoder (base32 + CRC16) and crypto/ed25519 written here, none of
// it going through the jwt package's decoding logic.

import (
	"bytes"
	"crypto/ed25519"
	"encoding/base32"
	"encoding/base64"
	"encoding/binary"
	"encoding/json"
	"fmt"
	"math/rand"
	"reflect"
	"strings"

	jwt "github.com/nats-io/jwt/v2"
	"github.com/nats-io/nkeys"
	"verifharness/schema"
)

var b64 = base64.RawURLEncoding
var b32 = base32.StdEncoding.WithPadding(base32.NoPadding)

var crc16tab = func() [256]uint16 {
	var t [256]uint16
	for i := 0; i < 256; i++ {
		crc := uint16(i) << 8
		for j := 0; j < 8; j++ {
			if crc&0x8000 != 0 {
				crc = crc<<1 ^ 0x1021
			} else {
				crc <<= 1
			}
		}
		t[i] = crc
	}
	return t
}()

func crc16(data []byte) uint16 {
	var crc uint16
	for _, b := range data {
		crc = (crc << 8) ^ crc16tab[byte(crc>>8)^b]
	}
	return crc
}

// ownRole decodes a public nkey: role name and the 32 key bytes; "none" when it is not one.
func ownRole(pub string) (string, []byte) {
	raw, err := b32.DecodeString(pub)
	if err != nil || len(raw) < 4 {
		return "none", nil
	}
	body, sum := raw[:len(raw)-2], binary.LittleEndian.Uint16(raw[len(raw)-2:])
	if crc16(body) != sum {
		return "none", nil
	}
	var r string
	switch body[0] {
	case 14 << 3:
		r = "operator"
	case 0:
		r = "account"
	case 20 << 3:
		r = "user"
	case 13 << 3:
		r = "server"
	case 2 << 3:
		r = "cluster"
	case 23 << 3:
		r = "curve"
	default:
		return "none", nil
	}
	return r, body[1:]
}

func roleCoq(r string) string {
	switch r {
	case "operator":
		return "ROperator"
	case "account":
		return "RAccount"
	case "user":
		return "RUser"
	case "server":
		return "RServer"
	case "cluster":
		return "RCluster"
	case "curve":
		return "RCurve"
	}
	return "RNone"
}

// ownVerify: the issuer string is a public nkey and sig is an Ed25519 signature of text under it.
func ownVerify(iss, text string, sig []byte) bool {
	r, key := ownRole(iss)
	if r == "none" || len(key) != ed25519.PublicKeySize {
		return false
	}
	return ed25519.Verify(ed25519.PublicKey(key), []byte(text), sig)
}

type signer struct {
	kp   nkeys.KeyPair
	pub  string
	role string
}

func newSigner(role string) *signer {
	var kp nkeys.KeyPair
	var err error
	switch role {
	case "operator":
		kp, err = nkeys.CreateOperator()
	case "account":
		kp, err = nkeys.CreateAccount()
	case "user":
		kp, err = nkeys.CreateUser()
	case "server":
		kp, err = nkeys.CreateServer()
	case "cluster":
		kp, err = nkeys.CreateCluster()
	case "curve":
		kp, err = nkeys.CreateCurveKeys()
	default:
		panic("role " + role)
	}
	if err != nil {
		panic(err)
	}
	return &signer{kp: kp, pub: mustPub(kp), role: role}
}

// curve keys cannot sign; for forged tokens "issued" by a curve key we sign with
// an Ed25519 key whose public half is re-labelled with the curve prefix.
func relabel(pub string, prefix byte) string {
	raw, _ := b32.DecodeString(pub)
	body := append([]byte{prefix}, raw[1:len(raw)-2]...)
	sum := make([]byte, 2)
	binary.LittleEndian.PutUint16(sum, crc16(body))
	return b32.EncodeToString(append(body, sum...))
}

type forged struct {
	Token  string `json:"token"`
	Header string `json:"header_json"`
	Pay    string `json:"payload_json"`
	Layout string `json:"signed_layout"`
	Note   string `json:"note,omitempty"`
}

// forge builds header.payload.signature with the signature made over the text of the given layout.
func forge(headerJSON, payloadJSON, layout string, s *signer) forged {
	h := b64.EncodeToString([]byte(headerJSON))
	p := b64.EncodeToString([]byte(payloadJSON))
	text := p
	if layout == "v2" {
		text = h + "." + p
	}
	sig, err := s.kp.Sign([]byte(text))
	if err != nil {
		panic(err)
	}
	return forged{Token: h + "." + p + "." + b64.EncodeToString(sig), Header: headerJSON, Pay: payloadJSON, Layout: layout}
}

// ---------- facts ----------

type facts struct {
	NChunks  int
	HdrB64   bool
	HdrJSON  bool
	Typ, Alg string
	PayB64   bool
	IdentOK  bool
	TopType  string
	NatsType string
	NatsVer  int64
	Unm      bool
	GUnm     bool
	Iss      string
	SigB64   bool
	Ver1     bool
	Ver2     bool
	Role     string
	// derived by the harness' own reading of the rules (specification side)
	DeclKind    string
	DeclVersion int64
}

var v1Shadows = jwt.VerifV1Shadows()

func newOf(x interface{}) interface{} {
	return reflect.New(reflect.TypeOf(x).Elem()).Interface()
}

func computeFacts(tok string) facts {
	var f facts
	chunks := strings.Split(tok, ".")
	f.NChunks = len(chunks)
	if len(chunks) != 3 {
		return f
	}
	if hj, err := b64.DecodeString(chunks[0]); err == nil {
		f.HdrB64 = true
		var h struct {
			Typ string `json:"typ"`
			Alg string `json:"alg"`
		}
		if json.Unmarshal(hj, &h) == nil {
			f.HdrJSON = true
			f.Typ, f.Alg = h.Typ, h.Alg
		}
	}
	data, err := b64.DecodeString(chunks[1])
	if err == nil {
		f.PayB64 = true
		id := jwt.VerifIdentifier()
		if json.Unmarshal(data, id) == nil {
			f.IdentOK = true
			v := reflect.ValueOf(id).Elem()
			f.TopType = v.FieldByName("Type").String()
			gf := v.FieldByName("GenericFields")
			f.NatsType = gf.FieldByName("Type").String()
			f.NatsVer = gf.FieldByName("Version").Int()
			f.DeclKind, f.DeclVersion = f.NatsType, f.NatsVer
			if f.TopType != "" {
				f.DeclKind, f.DeclVersion = f.TopType, 1
			}
			var target interface{}
			switch f.DeclKind {
			case "operator", "account", "user", "activation":
				if f.DeclVersion == 1 {
					target = newOf(v1Shadows[f.DeclKind])
					// the loaders preset some fields before unmarshalling; presets do not change success
				} else {
					switch f.DeclKind {
					case "operator":
						target = &jwt.OperatorClaims{}
					case "account":
						ac := &jwt.AccountClaims{}
						ac.SigningKeys = make(jwt.SigningKeys)
						target = ac
					case "user":
						target = &jwt.UserClaims{}
					case "activation":
						target = &jwt.ActivationClaims{}
					}
				}
			case "authorization_request":
				target = &jwt.AuthorizationRequestClaims{}
			case "authorization_response":
				target = &jwt.AuthorizationResponseClaims{}
			default:
				target = &jwt.GenericClaims{}
			}
			f.Unm = json.Unmarshal(data, target) == nil
		}
		g := struct {
			jwt.GenericClaims
			jwt.GenericFields
		}{}
		f.GUnm = json.Unmarshal(data, &g) == nil
		var iss struct {
			Iss string `json:"iss"`
		}
		if json.Unmarshal(data, &iss) == nil {
			f.Iss = iss.Iss
		}
	}
	sig, err := b64.DecodeString(chunks[2])
	if err == nil {
		f.SigB64 = true
		f.Ver1 = ownVerify(f.Iss, chunks[1], sig)
		f.Ver2 = ownVerify(f.Iss, chunks[0]+"."+chunks[1], sig)
	}
	f.Role, _ = ownRole(f.Iss)
	return f
}

// ---------- observations ----------

type decObs struct {
	Accepted bool
	Kind     string // dynamic kind of the returned claims
	Reported int    // the version the returned claims report (typed kinds; -1 for generic claims)
	IssOK    bool
	Typed    map[string]bool
	Generic  bool
	Panicked string
	Again    string // non-empty: decoding the same text again, after the caller edited the first result, gave other claims
}

func dynKind(c jwt.Claims) string {
	switch c.(type) {
	case *jwt.OperatorClaims:
		return "operator"
	case *jwt.AccountClaims:
		return "account"
	case *jwt.UserClaims:
		return "user"
	case *jwt.ActivationClaims:
		return "activation"
	case *jwt.AuthorizationRequestClaims:
		return "authorization_request"
	case *jwt.AuthorizationResponseClaims:
		return "authorization_response"
	case *jwt.GenericClaims:
		return "generic"
	}
	return "?"
}

var typedKinds = []string{"operator", "account", "user", "activation", "authorization_request", "authorization_response"}

// the version the claims themselves report
func reportedVersion(c jwt.Claims) int {
	switch x := c.(type) {
	case *jwt.OperatorClaims:
		return x.Version
	case *jwt.AccountClaims:
		return x.Version
	case *jwt.UserClaims:
		return x.Version
	case *jwt.ActivationClaims:
		return x.Version
	case *jwt.AuthorizationRequestClaims:
		return x.Version
	case *jwt.AuthorizationResponseClaims:
		return x.Version
	}
	return -1
}

// ---------- what a decoder returns is a function of the token text alone ----------

// poison tokens: correctly signed tokens of every kind and layout with rich content whose payload ends in a member of
// the wrong JSON type, so that a decoder refuses them half-way, after it has read everything else
var poisonTokens []string
var poisonAt int

func buildPoison() {
	kr := newKeyring()
	add := func(tok string, signer *signer, layout string) {
		seg := strings.Split(tok, ".")
		if len(seg) != 3 {
			return
		}
		raw, err := b64.DecodeString(seg[1])
		if err != nil || len(raw) < 2 {
			return
		}
		hdr, _ := b64.DecodeString(seg[0])
		for _, tail := range []string{`,"exp":"never"}`, `,"nats":7}`, `,"type":5}`, `,"nats":{"version":"x"}}`, `,"iat":[]}`} {
			poisonTokens = append(poisonTokens, forge(string(hdr), string(raw[:len(raw)-1])+tail, layout, signer).Token)
		}
	}
	g := &valGen{rng: rand.New(rand.NewSource(99)), kr: kr, fill: 95, scopeByValue: true}
	for _, kind := range kindNames {
		for i := 0; i < 2; i++ {
			cl, s := g.newClaims(kind)
			if tok, err := cl.Encode(s.kp); err == nil {
				add(tok, s, "v2")
			}
		}
	}
	for _, kind := range []string{"operator", "account", "user", "activation", "generic"} {
		for i := 0; i < 2; i++ {
			cl, s := v1Random(g, kind)
			if tok, err := cl.Encode(s.kp); err == nil {
				add(tok, s, "v1")
			}
		}
	}
}

// poisonStep hands the next poison token to every decoder (results ignored)
func poisonStep() {
	if poisonTokens == nil {
		buildPoison()
	}
	if len(poisonTokens) == 0 {
		return
	}
	defer func() { recover() }()
	tok := poisonTokens[poisonAt%len(poisonTokens)]
	poisonAt++
	jwt.Decode(tok)
	jwt.DecodeGeneric(tok)
	jwt.DecodeActivationClaims(tok)
	jwt.DecodeUserClaims(tok)
	jwt.DecodeAccountClaims(tok)
	jwt.DecodeOperatorClaims(tok)
}

// scribble overwrites what a caller may overwrite in claims it was handed: text fields, numbers, lists
func scribble(c jwt.Claims) {
	defer func() { recover() }()
	var walk func(v reflect.Value, depth int)
	walk = func(v reflect.Value, depth int) {
		if depth > 3 || !v.IsValid() {
			return
		}
		switch v.Kind() {
		case reflect.Ptr:
			if !v.IsNil() {
				walk(v.Elem(), depth+1)
			}
		case reflect.Struct:
			for i := 0; i < v.NumField(); i++ {
				if v.Type().Field(i).PkgPath == "" {
					walk(v.Field(i), depth+1)
				}
			}
		case reflect.String:
			if v.CanSet() {
				v.SetString("scribbled")
			}
		case reflect.Int64, reflect.Int:
			if v.CanSet() {
				v.SetInt(7)
			}
		case reflect.Slice:
			if v.CanSet() && v.Type().Elem().Kind() == reflect.String {
				v.Set(reflect.Append(v, reflect.ValueOf("scribbled").Convert(v.Type().Elem())))
			}
		}
	}
	walk(reflect.ValueOf(c), 0)
}

// decodeAgain: decode, let the caller edit the result, decode the same text again - the second result must be what
// the first was before the edit, and another object
func decodeAgain(name string, dec func() (jwt.Claims, error)) string {
	defer func() { recover() }()
	c1, err := dec()
	if err != nil || c1 == nil || reflect.ValueOf(c1).IsNil() {
		return ""
	}
	j1, _ := json.Marshal(c1)
	scribble(c1)
	c2, err := dec()
	if err != nil || c2 == nil || reflect.ValueOf(c2).IsNil() {
		return name + ": the same text is refused the second time"
	}
	if reflect.ValueOf(c1).Pointer() == reflect.ValueOf(c2).Pointer() {
		return name + ": the second decode returns the very object the first returned"
	}
	j2, _ := json.Marshal(c2)
	if string(j1) != string(j2) {
		return name + ": after the caller edited the first result, decoding the same text gives " + string(j2)[:min(len(j2), 200)] + " instead of " + string(j1)[:min(len(j1), 200)]
	}
	return ""
}

func observeDecode(tok string, iss string) (o decObs) {
	o.Typed = map[string]bool{}
	defer func() {
		if r := recover(); r != nil {
			o.Panicked = fmt.Sprint(r)
		}
	}()
	poisonStep()
	c, err := jwt.Decode(tok)
	if err == nil && c != nil {
		o.Accepted = true
		o.Kind = dynKind(c)
		o.Reported = reportedVersion(c)
		o.IssOK = c.Claims().Issuer == iss
		for _, d := range []struct {
			name string
			dec  func() (jwt.Claims, error)
		}{
			{"Decode", func() (jwt.Claims, error) { return jwt.Decode(tok) }},
			{"DecodeGeneric", func() (jwt.Claims, error) { return jwt.DecodeGeneric(tok) }},
			{"DecodeOperatorClaims", func() (jwt.Claims, error) { return jwt.DecodeOperatorClaims(tok) }},
			{"DecodeAccountClaims", func() (jwt.Claims, error) { return jwt.DecodeAccountClaims(tok) }},
			{"DecodeUserClaims", func() (jwt.Claims, error) { return jwt.DecodeUserClaims(tok) }},
			{"DecodeActivationClaims", func() (jwt.Claims, error) { return jwt.DecodeActivationClaims(tok) }},
			{"DecodeAuthorizationRequestClaims", func() (jwt.Claims, error) { return jwt.DecodeAuthorizationRequestClaims(tok) }},
			{"DecodeAuthorizationResponseClaims", func() (jwt.Claims, error) { return jwt.DecodeAuthorizationResponseClaims(tok) }},
		} {
			if msg := decodeAgain(d.name, d.dec); msg != "" && o.Again == "" {
				o.Again = msg
			}
		}
	}
	if x, err := jwt.DecodeOperatorClaims(tok); err == nil && x != nil {
		o.Typed["operator"] = true
	}
	if x, err := jwt.DecodeAccountClaims(tok); err == nil && x != nil {
		o.Typed["account"] = true
	}
	if x, err := jwt.DecodeUserClaims(tok); err == nil && x != nil {
		o.Typed["user"] = true
	}
	if x, err := jwt.DecodeActivationClaims(tok); err == nil && x != nil {
		o.Typed["activation"] = true
	}
	if x, err := jwt.DecodeAuthorizationRequestClaims(tok); err == nil && x != nil {
		o.Typed["authorization_request"] = true
	}
	if x, err := jwt.DecodeAuthorizationResponseClaims(tok); err == nil && x != nil {
		o.Typed["authorization_response"] = true
	}
	func() {
		defer func() {
			if r := recover(); r != nil {
				o.Panicked = "DecodeGeneric: " + fmt.Sprint(r)
			}
		}()
		if g, err := jwt.DecodeGeneric(tok); err == nil && g != nil {
			o.Generic = true
		}
	}()
	return o
}

// surrogate replaces every distinct non-empty segment by a short name, keeping the dot structure.
func surrogate(tok string) string {
	chunks := strings.Split(tok, ".")
	names := map[string]string{}
	out := make([]string, len(chunks))
	for i, c := range chunks {
		if c == "" {
			continue
		}
		n, ok := names[c]
		if !ok {
			n = fmt.Sprintf("%c%d", "hpsxyz"[min(i, 5)], len(names))
			names[c] = n
		}
		out[i] = n
	}
	return strings.Join(out, ".")
}

func min(a, b int) int {
	if a < b {
		return a
	}
	return b
}

func dcaseCoq(tok string, f facts, o decObs) string {
	hdr := "None"
	if f.HdrB64 {
		if f.HdrJSON {
			hdr = "(Some (Some (" + coqStr(f.Typ) + ", " + coqStr(f.Alg) + ")))"
		} else {
			hdr = "(Some None)"
		}
	}
	pay := "None"
	if f.PayB64 {
		if f.IdentOK {
			pay = fmt.Sprintf("(Some (Some {| id_top_type := %s; id_nats_type := %s; id_nats_version := %s |}))", coqStr(f.TopType), coqStr(f.NatsType), coqZ(f.NatsVer))
		} else {
			pay = "(Some None)"
		}
	}
	obs := "None"
	if o.Accepted {
		obs = "(Some " + kindCoq[o.Kind] + ")"
	}
	typed := make([]string, len(typedKinds))
	for i, k := range typedKinds {
		typed[i] = "(" + kindCoq[k] + ", " + coqBool(o.Typed[k]) + ")"
	}
	return fmt.Sprintf("{| dc_tok := %s; dc_hdr := %s; dc_pay := %s; dc_unm := %s; dc_gunm := %s; dc_iss := \"I\"; dc_sig := %s; dc_ver1 := %s; dc_ver2 := %s; dc_role := %s; dc_obs_decode := %s; dc_obs_iss_ok := %s; dc_obs_typed := %s; dc_obs_generic := %s |}",
		coqStr(surrogate(tok)), hdr, pay, coqBool(f.Unm), coqBool(f.GUnm), coqBool(f.SigB64), coqBool(f.Ver1), coqBool(f.Ver2), roleCoq(f.Role),
		obs, coqBool(o.IssOK || !o.Accepted), coqList(typed), coqBool(o.Generic))
}

// ---------- specification-side checks shared by C01 / C02 / C05 ----------

func specAllowed(kind, role string) bool {
	switch kind {
	case "operator":
		return role == "operator"
	case "account", "activation":
		return role == "account" || role == "operator"
	case "user", "authorization_response":
		return role == "account"
	case "authorization_request":
		return role == "server"
	case "generic":
		return true
	}
	return false
}

func asciiUpper(s string) string {
	b := []byte(s)
	for i := range b {
		if b[i] >= 'a' && b[i] <= 'z' {
			b[i] -= 32
		}
	}
	return string(b)
}
func asciiLower(s string) string {
	b := []byte(s)
	for i := range b {
		if b[i] >= 'A' && b[i] <= 'Z' {
			b[i] += 32
		}
	}
	return string(b)
}

func isTypedName(k string) bool {
	for _, t := range typedKinds {
		if t == k {
			return true
		}
	}
	return false
}

// checkAccepted applies every "accepted only if" clause of C01, C02 and C05 to one observation.
func checkAccepted(c *Ctx, ft forged, f facts, o decObs) {
	inp := map[string]interface{}{"token": ft.Token, "header_json": ft.Header, "payload_json": ft.Pay, "signed_layout": ft.Layout, "note": ft.Note}
	c.sum.ImplChecks++
	if o.Panicked != "" {
		c.violation("decoder panicked: "+o.Panicked, inp)
		return
	}
	if o.Again != "" {
		c.violation("what a decoder returns is not a function of the token text: "+o.Again, inp)
	}
	hdrOK := f.HdrJSON && asciiUpper(f.Typ) == "JWT" && (asciiLower(f.Alg) == "ed25519" || asciiLower(f.Alg) == "ed25519-nkey")
	segsOK := f.NChunks == 3 && f.HdrB64 && f.PayB64 && f.SigB64
	if o.Accepted {
		declLayout := "v2"
		if isTypedName(f.DeclKind) {
			if f.DeclVersion <= 1 {
				declLayout = "v1"
			}
		} else if f.Alg == "ed25519" {
			declLayout = "v1"
		}
		verdict := f.Ver2
		if declLayout == "v1" {
			verdict = f.Ver1
		}
		switch {
		case !segsOK:
			c.violation("C05: accepted a token that does not have exactly three base64url segments", inp)
		case !hdrOK:
			c.violation("C05: accepted a token whose header is not type JWT with a NATS Ed25519 algorithm name", inp)
		case !verdict:
			c.violation("C01: accepted a token whose signature does not verify, under the payload's issuer, over the text of the declared layout ("+declLayout+")", inp)
		case o.Kind != "generic" && ((o.Reported >= 2 && !f.Ver2) || (o.Reported <= 1 && !f.Ver1)):
			inp["reported_version"] = o.Reported
			c.violation("C01: the accepted claims report a version whose layout text the signature does not verify over (version-2 claims: header.payload; version-1 claims: the payload segment)", inp)
		case !o.IssOK:
			c.violation("C01: accepted claims report an issuer other than the payload's", inp)
		case f.DeclVersion > 2:
			c.violation("C05: accepted a payload declaring a version newer than 2", inp)
		case (f.DeclKind == "operator" || f.DeclKind == "account" || f.DeclKind == "user" || f.DeclKind == "activation") && f.DeclVersion != 1 && f.DeclVersion != 2:
			c.violation("C05: accepted operator/account/user/activation claims declaring a version other than 1 or 2", inp)
		case f.DeclKind == "cluster" || f.DeclKind == "server":
			c.violation("C05: accepted a retired cluster/server claim", inp)
		case !specAllowed(o.Kind, f.Role):
			c.violation("C02: accepted "+o.Kind+" claims issued by a key of role "+f.Role, inp)
		case isTypedName(f.DeclKind) != (o.Kind != "generic") || (o.Kind != "generic" && o.Kind != f.DeclKind):
			c.violation("C02: returned claims of kind "+o.Kind+" for a payload declaring "+f.DeclKind, inp)
		}
	}
	for _, k := range typedKinds {
		if o.Typed[k] && (!o.Accepted || o.Kind != k || f.DeclKind != k) {
			c.violation("C02: typed decoder for "+k+" returned claims for a token declaring "+f.DeclKind, inp)
		}
		if o.Accepted && o.Kind == k && !o.Typed[k] {
			c.violation("C03: the typed decoder refuses a token the general decoder accepts for its kind "+k, inp)
		}
	}
	if o.Generic {
		gl := f.Ver2
		if f.Alg == "ed25519" {
			gl = f.Ver1
		}
		switch {
		case !segsOK:
			c.violation("C05: DecodeGeneric accepted a token without three base64url segments", inp)
		case !hdrOK:
			c.violation("C05: DecodeGeneric accepted an invalid header", inp)
		case !gl:
			c.violation("C01: DecodeGeneric accepted a token whose signature does not verify over the text the header declares", inp)
		}
	}
}

// oracleCases: the JSON-level steps that the end-to-end theorems DEFINE from the codec (Model/Pipeline.v: the identifier
// read, the issuer read, the header read, the kind's loader) against the real json.Unmarshal into the real Go types
var oracleW, oracleHW *CaseWriter
var oracleN int

func oracleCases(c *Ctx, tok string, f facts) {
	if oracleW == nil {
		return
	}
	oracleN++
	if oracleN%5 != 0 {
		return
	}
	chunks := strings.Split(tok, ".")
	if len(chunks) != 3 {
		return
	}
	if hj, err := b64.DecodeString(chunks[0]); err == nil && json.Valid(hj) && !dupKeys(hj) {
		h := "None"
		if f.HdrJSON {
			h = "(Some (" + coqStr(f.Typ) + ", " + coqStr(f.Alg) + "))"
		}
		oracleHW.add("("+schema.JSONTerm(hj)+", "+h+")", map[string]interface{}{"header_json": string(hj)})
	}
	data, err := b64.DecodeString(chunks[1])
	if err != nil || !json.Valid(data) || dupKeys(data) {
		return
	}
	ident := "None"
	unm := "None"
	if f.IdentOK {
		ident = fmt.Sprintf("(Some (%s, %s, %s))", coqStr(f.TopType), coqStr(f.NatsType), coqZ(f.NatsVer))
		k, ok := kindCoq[f.DeclKind]
		if !ok {
			k = "KGeneric"
		}
		if f.DeclKind == "cluster" || f.DeclKind == "server" {
			k = ""
		}
		typed4 := f.DeclKind == "operator" || f.DeclKind == "account" || f.DeclKind == "user" || f.DeclKind == "activation"
		if k != "" && (!typed4 || f.DeclVersion == 1 || f.DeclVersion == 2) {
			unm = fmt.Sprintf("(Some (%s, %s, %s))", k, coqZ(f.DeclVersion), coqBool(f.Unm))
		}
	}
	oracleW.add("("+schema.JSONTerm(data)+", "+ident+", "+coqStr(f.Iss)+", "+unm+")", map[string]interface{}{"payload_json": string(data)})
}

// dupKeys: does some object in the text repeat a member name, exactly or up to ASCII case (outside the model)?
func dupKeys(raw []byte) bool {
	d := json.NewDecoder(bytes.NewReader(raw))
	var walk func() bool
	walk = func() bool {
		tok, err := d.Token()
		if err != nil {
			return true
		}
		if dl, ok := tok.(json.Delim); ok {
			switch dl {
			case '{':
				seen := map[string]bool{}
				for d.More() {
					k, err := d.Token()
					if err != nil {
						return true
					}
					ks := asciiLower(k.(string))
					if seen[ks] {
						return true
					}
					seen[ks] = true
					if walk() {
						return true
					}
				}
				d.Token()
			case '[':
				for d.More() {
					if walk() {
						return true
					}
				}
				d.Token()
			}
		}
		return false
	}
	return walk()
}

// one forged token through facts, observation, spec check and model case
func processToken(c *Ctx, w *CaseWriter, ft forged) (facts, decObs) {
	f := computeFacts(ft.Token)
	oracleCases(c, ft.Token, f)
	o := observeDecode(ft.Token, f.Iss)
	checkAccepted(c, ft, f, o)
	w.add(dcaseCoq(ft.Token, f, o), map[string]interface{}{"token": ft.Token, "header_json": ft.Header, "payload_json": ft.Pay, "signed_layout": ft.Layout, "note": ft.Note})
	c.sum.Evaluations++
	if o.Accepted {
		c.count("accepted_" + o.Kind)
	} else {
		c.count("rejected")
	}
	return f, o
}

const dcaseRequires = "From JWT Require Import Model.Decode.\nOpen Scope Z_scope."
