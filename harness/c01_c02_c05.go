package main

import (
	"bytes"
	"encoding/base64"
	"encoding/json"
	"fmt"
	"reflect"
	"strings"

	jwt "github.com/nats-io/jwt/v2"
	v1 "github.com/nats-io/jwt/v2/v1compat"
	"github.com/nats-io/nkeys"
)

func init() {
	drivers["C01"] = runC01
	drivers["C02"] = runC02
	drivers["C05"] = runC05
}

var allRoles = []string{"operator", "account", "user", "server", "cluster", "curve"}

type keyring struct {
	by map[string]*signer
}

func newKeyring() *keyring {
	k := &keyring{by: map[string]*signer{}}
	for _, r := range allRoles {
		if r == "curve" {
			// a signing-capable stand-in whose public key carries the curve prefix
			u := newSigner("user")
			k.by[r] = &signer{kp: u.kp, pub: relabel(u.pub, 23<<3), role: "curve"}
			continue
		}
		k.by[r] = newSigner(r)
	}
	return k
}

// nonPublicSigners: the base key pair under issuer names that carry a prefix byte no public role has
func nonPublicSigners(base *signer) []*signer {
	var out []*signer
	for _, p := range []struct {
		name   string
		prefix byte
	}{{"private-key prefix", 15 << 3}, {"seed prefix", 18 << 3}, {"unknown prefix", 25 << 3}, {"unassigned prefix 1", 1 << 3}, {"unassigned prefix 31", 31 << 3}} {
		out = append(out, &signer{kp: base.kp, pub: relabel(base.pub, p.prefix), role: p.name})
	}
	return out
}

const hdrV2 = `{"typ":"JWT","alg":"ed25519-nkey"}`
const hdrV1 = `{"typ":"jwt","alg":"ed25519"}`

// payload builds a minimal payload of the kind; placement "top" = version-1 style
// (top-level type), "nats" = version-2 style (type and version inside the nats section).
func payload(kind, placement string, version interface{}, iss, sub string) string {
	m := map[string]interface{}{"iss": iss, "sub": sub, "iat": 1700000000, "jti": "x", "name": "n"}
	nats := map[string]interface{}{}
	if kind != "" {
		if placement == "top" {
			m["type"] = kind
		} else {
			nats["type"] = kind
		}
	}
	if version != nil {
		nats["version"] = version
	}
	if payloadIssuerAccount != "" {
		// (version-2 layout: inside the nats section; version-1 layout: at the top level)
		if placement == "top" {
			m["issuer_account"] = payloadIssuerAccount
		} else {
			nats["issuer_account"] = payloadIssuerAccount
		}
	}
	if payloadRich {
		// (what a claim of the kind really carries: a loader that looks at the content before it looks at the version must
		// still refuse the version)
		switch kind {
		case "account":
			nats["limits"] = map[string]interface{}{"subs": -1, "data": -1, "payload": -1, "imports": -1, "exports": -1, "wildcards": true, "conn": -1, "leaf": -1,
				"mem_storage": 1024, "disk_storage": 1024, "tiered_limits": map[string]interface{}{"R1": map[string]interface{}{"disk_storage": 5}, "R3": map[string]interface{}{"mem_storage": 7}}}
			nats["exports"] = []interface{}{map[string]interface{}{"name": "e", "subject": "e.>", "type": "stream"}}
			nats["signing_keys"] = []interface{}{sub}
			nats["mappings"] = map[string]interface{}{"m.a": []interface{}{map[string]interface{}{"subject": "m.b", "weight": 50}}}
		case "user":
			nats["pub"] = map[string]interface{}{"allow": []string{"a.>"}}
			nats["subs"], nats["data"], nats["payload"] = 5, -1, -1
			nats["src"] = []string{"10.0.0.0/8"}
			nats["bearer_token"] = true
		case "operator":
			nats["signing_keys"] = []string{iss}
			nats["operator_service_urls"] = []string{"nats://localhost:4222"}
			nats["system_account"] = sub
			nats["strict_signing_key_usage"] = true
		case "activation":
			nats["subject"], nats["kind"] = "granted.>", "stream"
		}
		nats["tags"] = []string{"rich"}
	}
	m["nats"] = nats
	b, err := json.Marshal(m)
	if err != nil {
		panic(err)
	}
	return string(b)
}

// payloadRich: when set, payload() fills the nats section with what a claim of the kind carries
var payloadRich bool

// payloadIssuerAccount: when set, payload() names this issuer account
var payloadIssuerAccount string

// ---------------------------------------------------------------- C02

func runC02(c *Ctx) {
	w := c.newCaseWriter("dec", dcaseRequires, "dcase", "dcase_ok")
	we := c.newCaseWriter("enc", dcaseRequires, "ckind * bool * role * role * bool * bool", "ecase_ok")
	kr := newKeyring()
	distinct := map[string]bool{}
	kinds := append([]string{}, kindNames...)
	// kind names in another letter case (and with letters that lower-case into them) are other kinds: generic claims
	respelled := []string{"USER", "Account", "Operator", "ACTIVATION", "act\u0130vat\u0130on", "Authorization_Request", "u\u017fer", "user "}
	// a caller that builds its own list from what ExpectedPrefixes returned (append to the returned slice) must not
	// change the matrix for anybody: done first, and again before the Encode half
	extendPrefixes := func() {
		for _, cl := range []jwt.Claims{&jwt.OperatorClaims{}, &jwt.AccountClaims{}, &jwt.UserClaims{}, &jwt.ActivationClaims{},
			&jwt.AuthorizationRequestClaims{}, &jwt.AuthorizationResponseClaims{}, &jwt.GenericClaims{}} {
			for _, extra := range []nkeys.PrefixByte{nkeys.PrefixByteAccount, nkeys.PrefixByteOperator, nkeys.PrefixByteCluster, nkeys.PrefixByteServer, nkeys.PrefixByteUser} {
				own := append(cl.ExpectedPrefixes(), extra) // (one element: lands in spare capacity when there is some)
				own = append(cl.ExpectedPrefixes(), extra, extra)
				_ = own
			}
			// ... or narrows the list it was handed IN PLACE (it only holds keys of one role): its own business
			handed := cl.ExpectedPrefixes()
			for i := range handed {
				handed[i] = nkeys.PrefixByteUser
			}
		}
	}
	extendPrefixes()
	for _, kind := range append(append([]string{}, kinds...), respelled...) {
		for _, ir := range allRoles {
			for _, sr := range allRoles {
				for _, layout := range []string{"v1", "v2"} {
					for _, placement := range []string{"top", "nats"} {
						s := kr.by[ir]
						var ver interface{} = 2
						hdr := hdrV2
						if placement == "top" {
							ver = nil
						}
						if layout == "v1" {
							hdr = hdrV1
						}
						if placement == "nats" && layout == "v1" {
							ver = 1
						}
						k := kind
						if kind == "generic" && sr == "user" {
							k = "my_custom_kind" // any other name is generic too
						}
						ft := forge(hdr, payload(k, placement, ver, s.pub, kr.by[sr].pub), layout, s)
						ft.Note = fmt.Sprintf("kind=%s issuer=%s subject=%s placement=%s", kind, ir, sr, placement)
						_, o := processToken(c, w, ft)
						distinct[fmt.Sprint(kind, ir, layout, placement, o.Accepted)] = true
						if c.sum.Evaluations%211 == 5 {
							c.sample(map[string]interface{}{"note": ft.Note, "signed_layout": layout, "accepted": o.Accepted, "payload": ft.Pay})
						}
					}
				}
			}
		}
	}
	// claims that name an issuer account - an account key, a key of another role, the issuer itself, junk: what the
	// issuer account says never widens who may issue the kind
	for _, ia := range []string{kr.by["account"].pub, kr.by["user"].pub, kr.by["operator"].pub, kr.by["server"].pub, "junk", " "} {
		payloadIssuerAccount = ia
		for _, kind := range []string{"user", "activation", "authorization_response", "account", "generic"} {
			for _, ir := range allRoles {
				for _, layout := range []string{"v1", "v2"} {
					for _, placement := range []string{"top", "nats"} {
						s := kr.by[ir]
						var ver interface{} = 2
						hdr := hdrV2
						if placement == "top" {
							ver = nil
						}
						if layout == "v1" {
							hdr = hdrV1
						}
						if placement == "nats" && layout == "v1" {
							ver = 1
						}
						ft := forge(hdr, payload(kind, placement, ver, s.pub, kr.by["account"].pub), layout, s)
						ft.Note = fmt.Sprintf("kind=%s issuer=%s placement=%s naming an issuer account", kind, ir, placement)
						_, o := processToken(c, w, ft)
						distinct[fmt.Sprint("ia", kind, ir, layout, placement, ia == kr.by["account"].pub, o.Accepted)] = true
					}
				}
			}
		}
	}
	payloadIssuerAccount = ""
	// issuers that are well-formed nkeys of NO public role - the private-key, seed and unknown prefixes and two unassigned
	// ones around a true Ed25519 public key, every token correctly signed by the matching private key: not a public key
	// of any role, so nobody's claims (generic ones included) are accepted from them
	for _, kind := range kinds {
		for _, s := range nonPublicSigners(kr.by["account"]) {
			for _, layout := range []string{"v1", "v2"} {
				for _, placement := range []string{"top", "nats"} {
					var ver interface{} = 2
					hdr := hdrV2
					if placement == "top" {
						ver = nil
					}
					if layout == "v1" {
						hdr = hdrV1
					}
					if placement == "nats" && layout == "v1" {
						ver = 1
					}
					ft := forge(hdr, payload(kind, placement, ver, s.pub, kr.by["account"].pub), layout, s)
					ft.Note = fmt.Sprintf("kind=%s issuer=%s placement=%s", kind, s.role, placement)
					_, o := processToken(c, w, ft)
					distinct[fmt.Sprint(kind, s.role, layout, placement, o.Accepted)] = true
				}
			}
		}
	}
	// versions at and below zero in the nats section (absent = 0): the issuer-role rule does not depend on the version
	for _, kind := range kinds {
		for _, ir := range allRoles {
			for _, ver := range []interface{}{0, -1, -2, -9223372036854775808} {
				for _, layout := range []string{"v1", "v2"} {
					for _, hdr := range []string{hdrV1, hdrV2} {
						s := kr.by[ir]
						ft := forge(hdr, payload(kind, "nats", ver, s.pub, kr.by["account"].pub), layout, s)
						ft.Note = fmt.Sprintf("kind=%s issuer=%s version=%v in the nats section", kind, ir, ver)
						_, o := processToken(c, w, ft)
						distinct[fmt.Sprint("lowver", kind, ir, ver, layout, hdr == hdrV1, o.Accepted)] = true
					}
				}
			}
		}
	}
	// hybrid payloads: a top-level (version-1 style) kind together with a different kind and a version
	// inside the nats section - kind dispatch, role check, loader and signed layout must all follow one of them
	for _, ktop := range append([]string{}, kinds...) {
		for _, knats := range kinds {
			// (ktop == knats included: the same kind twice, with a version in the nats section that need not be
			// the one a top-level kind implies)
			for _, ver := range []interface{}{nil, 0, 1, 2, -1, -2} {
				for _, layout := range []string{"v1", "v2"} {
					for _, ir := range []string{"operator", "account", "server", "user"} {
						s := kr.by[ir]
						m := map[string]interface{}{"iss": s.pub, "sub": kr.by["account"].pub, "iat": 1700000000, "type": ktop}
						nats := map[string]interface{}{"type": knats}
						if ver != nil {
							nats["version"] = ver
						}
						// (half of them also carry tags inside the nats section, as version-2 tooling writes them)
						if (len(ktop)+len(knats)+len(ir))%2 == 0 {
							nats["tags"] = []string{"tag-in-nats"}
						}
						// (... and, every other one, the members of a version-2 activation body: a granted subject and an import kind)
						if (len(ktop)+len(ir))%2 == 1 {
							nats["kind"], nats["subject"] = []string{"stream", "service"}[len(knats)%2], "granted.subject.>"
						}
						m["nats"] = nats
						pj, _ := json.Marshal(m)
						hdr := hdrV2
						if layout == "v1" {
							hdr = hdrV1
						}
						ft := forge(hdr, string(pj), layout, s)
						ft.Note = fmt.Sprintf("hybrid top=%s nats=%s version=%v issuer=%s", ktop, knats, ver, ir)
						_, o := processToken(c, w, ft)
						c.sum.ImplChecks++
						if o.Accepted && o.Kind != "generic" {
							// the claims returned must declare the kind of the decoder that returned them
							if d, err := jwt.Decode(ft.Token); err == nil && string(d.ClaimType()) != o.Kind {
								c.violation("C02: a decoder returned claims of kind "+o.Kind+" that declare kind "+string(d.ClaimType()),
									map[string]interface{}{"token": ft.Token, "payload_json": ft.Pay, "signed_layout": layout, "note": ft.Note})
							}
						}
						distinct[fmt.Sprint("hyb", ktop, knats, ver, layout, ir, o.Accepted)] = true
					}
				}
			}
		}
	}
	// Encode side: kind x subject role (incl. non-key and empty) x signer role
	signers := map[string]nkeys.KeyPair{}
	for _, r := range []string{"operator", "account", "user", "server", "cluster"} {
		signers[r] = kr.by[r].kp
	}
	cv, err := nkeys.CreateCurveKeys()
	if err == nil {
		signers["curve"] = cv
	}
	extendPrefixes()
	// (what a claim says about its issuer account - nothing, an account, a key of another role, junk - is not part of
	// the gate: rotated over the matrix)
	encIssuerAccounts := []string{"", kr.by["account"].pub, kr.by["user"].pub, "junk", kr.by["operator"].pub}
	subjects := map[string]string{"none": "not-a-key", "empty": ""}
	for _, r := range allRoles {
		subjects[r] = kr.by[r].pub
	}
	if cv != nil {
		subjects["curve"] = mustPub(cv)
	}
	for _, kind := range kinds {
		for sr, sub := range subjects {
			for kr_, kp := range signers {
				// the operator's account server URL: none, one the Encode-side test refuses, well-formed ones (which
				// must not let anything else through)
				for _, asURL := range []string{"", "no-protocol.example.com", "https://accounts.example.com/jwt/v1", "http://localhost:9090/jwt/v1/"} {
					badURL := asURL == "no-protocol.example.com"
					if asURL != "" && kind != "operator" {
						continue
					}
					var cl jwt.Claims
					switch kind {
					case "operator":
						oc := &jwt.OperatorClaims{}
						oc.Subject = sub
						oc.AccountServerURL = asURL
						cl = oc
					case "account":
						ac := &jwt.AccountClaims{}
						ac.Subject = sub
						cl = ac
					case "user":
						uc := &jwt.UserClaims{}
						uc.Subject = sub
						uc.IssuerAccount = encIssuerAccounts[(len(sr)+len(kr_))%len(encIssuerAccounts)]
						cl = uc
					case "activation":
						ac := &jwt.ActivationClaims{}
						ac.Subject = sub
						ac.IssuerAccount = encIssuerAccounts[(len(sr)+len(kr_)+1)%len(encIssuerAccounts)]
						cl = ac
					case "authorization_request":
						ac := &jwt.AuthorizationRequestClaims{}
						ac.Subject = sub
						cl = ac
					case "authorization_response":
						ac := &jwt.AuthorizationResponseClaims{}
						ac.Subject = sub
						ac.IssuerAccount = encIssuerAccounts[(len(sr)+len(kr_)+2)%len(encIssuerAccounts)]
						cl = ac
					default:
						gc := &jwt.GenericClaims{}
						gc.Subject = sub
						cl = gc
					}
					// the gate does not depend on what happened to the object before: fresh, Issuer preset to the signer's
					// key, a first (possibly refused) attempt with the same key, an earlier Encode by a permitted key
					for _, hist := range []string{"fresh", "issuer preset to the signer", "second attempt with the same key", "after an Encode by another key"} {
						if hist != "fresh" {
							cl = reflect.New(reflect.TypeOf(cl).Elem()).Interface().(jwt.Claims)
							cl.Claims().Subject = sub
							if oc, isOp := cl.(*jwt.OperatorClaims); isOp {
								oc.AccountServerURL = asURL
							}
							switch hist {
							case "issuer preset to the signer":
								cl.Claims().Issuer = mustPub(kp)
							case "second attempt with the same key":
								cl.Encode(kp)
							case "after an Encode by another key":
								for _, r := range allRoles {
									if specAllowed(kind, r) {
										cl.Encode(kr.by[r].kp)
										break
									}
								}
							}
						}
						tok, err := cl.Encode(kp)
						ok := err == nil
						c.sum.Evaluations++
						c.sum.ImplChecks++
						inp := map[string]interface{}{"direction": "encode", "kind": kind, "subject_role": sr, "signer_role": kr_, "bad_account_server_url": badURL, "account_server_url": asURL, "success": ok, "history": hist}
						subRole := sr
						if sr == "none" || sr == "empty" {
							subRole = "none"
						}
						subOK := true
						switch kind {
						case "operator":
							subOK = subRole == "operator"
						case "account", "activation":
							subOK = subRole == "account"
						case "user":
							subOK = subRole == "user"
						}
						if ok && (!specAllowed(kind, kr_) || !subOK || sub == "") {
							c.violation("C02: Encode succeeded with a signer or subject of a role not permitted for the kind", inp)
						}
						if !ok && tok != "" {
							c.violation("C02: a failed Encode returned a non-empty token", inp)
						}
						extra := !badURL && kr_ != "curve"
						we.add(fmt.Sprintf("(%s, %s, %s, %s, %s, %s)", kindCoq[kind], coqBool(sub == ""), roleCoq(subRole), roleCoq(kr_), coqBool(extra), coqBool(ok)), inp)
						distinct[fmt.Sprint("e", kind, sr, kr_, ok)] = true
						if ok {
							c.count("encode_ok")
						} else {
							c.count("encode_refused")
						}
					}
				}
			}
		}
	}
	w.flush()
	we.flush()
	c.sum.Exhaustive = true
	c.sum.DistinctNontriv = len(distinct)
	c.sum.Rule = "complete matrix: 7 kinds x 6 issuer roles x 6 subject roles x signed layout {v1,v2} x kind placement {top-level, nats section}, every token forged and correctly signed, through Decode, the 6 typed decoders and DecodeGeneric; Encode: 7 kinds x 8 subject forms x 6 signer roles (+ operator with a bad account server URL); non-trivial = distinct (kind, issuer role, layout, placement, outcome)"
}

// ---------------------------------------------------------------- C05

func runC05(c *Ctx) {
	w := c.newCaseWriter("dec", dcaseRequires, "dcase", "dcase_ok")
	oracleW = c.newCaseWriter("oracle", "From JWT Require Import Model.Pipeline.\nOpen Scope Z_scope.", "json * option (string * string * Z) * string * option (ckind * Z * bool)", "pcase_ok")
	oracleHW = c.newCaseWriter("oracleh", "From JWT Require Import Model.Pipeline.\nOpen Scope Z_scope.", "json * option (string * string)", "hcase_ok")
	defer func() { oracleW.flush(); oracleHW.flush(); oracleW, oracleHW = nil, nil }()
	kr := newKeyring()
	distinct := map[string]bool{}
	typs := []interface{}{"JWT", "jwt", "Jwt", "JWS", "", nil}
	algs := []interface{}{"ed25519", "ED25519", "ed25519-nkey", "Ed25519-NKey", "ed25519-nkey2", "ed25519-", "ed2551", "none", "", nil, "ed25519-nkeY "}
	versions := []interface{}{nil, -1, 0, 1, 2, 3, int64(1) << 40}
	kinds := []string{"operator", "account", "user", "activation", "authorization_request", "authorization_response", "generic", "cluster", "server", "unknown_kind", "",
		"USER", "Account", "OPERATOR", "Activation", "Cluster", "SERVER"}
	signerFor := map[string]string{"operator": "operator", "account": "account", "user": "account", "activation": "account",
		"authorization_request": "server", "authorization_response": "account", "generic": "user", "cluster": "operator", "server": "operator", "unknown_kind": "account", "": "account"}
	for _, k := range kinds {
		if signerFor[k] == "" {
			signerFor[k] = signerFor[strings.ToLower(k)] // a respelled kind, signed by a key the kind it resembles would accept
		}
	}
	// declared versions that are not small integers: beyond int64 / uint64, exponent and fraction forms, quoted,
	// boolean - a payload that "declares a version no newer than 2" declares an integer
	for _, ver := range []interface{}{json.Number("9223372036854775808"), json.Number("18446744073709551618"), json.Number("1e29"),
		json.Number("2.5"), json.Number("2.0"), json.Number("2e0"), json.Number("-0"), "3", "2", true, []interface{}{2}, json.Number("3.0000000000000001"),
		// integers that equal 1 or 2 only after being cut down to 8, 16 or 32 bits: the version is the integer written
		-254, -255, -510, -511, -65534, -65535, int64(-4294967294), int64(-4294967295), -256, 257, 258, 65537, 65538, int64(4294967297), int64(4294967298), -3, -126, -127, -128} {
		for _, kind := range kinds {
			for _, placement := range []string{"top", "nats"} {
				for _, layout := range []string{"v1", "v2"} {
					for _, hdr := range []string{hdrV1, hdrV2} {
						s := kr.by[signerFor[kind]]
						ft := forge(hdr, payload(kind, placement, ver, s.pub, kr.by["account"].pub), layout, s)
						ft.Note = fmt.Sprintf("version literal %v kind=%q placement=%s", ver, kind, placement)
						_, o := processToken(c, w, ft)
						distinct[fmt.Sprint("oddver", ver, kind, placement, layout, hdr == hdrV1, o.Accepted, o.Generic)] = true
					}
				}
			}
		}
	}
	step := 1
	if !c.thorough() {
		step = 1
	}
	n := 0
	for _, typ := range typs {
		for _, alg := range algs {
			hm := map[string]interface{}{}
			if typ != nil {
				hm["typ"] = typ
			}
			if alg != nil {
				hm["alg"] = alg
			}
			hb, _ := json.Marshal(hm)
			for _, ver := range versions {
				for _, kind := range kinds {
					for _, placement := range []string{"top", "nats"} {
						for _, layout := range []string{"v1", "v2"} {
							n++
							if n%step != 0 {
								continue
							}
							s := kr.by[signerFor[kind]]
							ft := forge(string(hb), payload(kind, placement, ver, s.pub, kr.by["account"].pub), layout, s)
							ft.Note = fmt.Sprintf("typ=%v alg=%v version=%v kind=%q placement=%s", typ, alg, ver, kind, placement)
							_, o := processToken(c, w, ft)
							distinct[fmt.Sprint(typ, alg, ver, kind, placement, layout, o.Accepted, o.Generic)] = true
							if c.sum.Evaluations%1777 == 9 {
								c.sample(map[string]interface{}{"note": ft.Note, "signed_layout": layout, "accepted": o.Accepted, "generic_accepted": o.Generic})
							}
						}
					}
				}
			}
		}
	}
	// the same version gate on payloads that carry what a claim of the kind really carries (limits with tiers, exports,
	// permissions, signing keys, a granted subject): content does not excuse a version
	payloadRich = true
	for _, ver := range []interface{}{nil, -1, 0, 1, 2, 3, -2147483648, int64(1) << 40} {
		for _, kind := range []string{"operator", "account", "user", "activation"} {
			for _, placement := range []string{"top", "nats"} {
				for _, layout := range []string{"v1", "v2"} {
					for _, hdr := range []string{hdrV1, hdrV2} {
						s := kr.by[signerFor[kind]]
						ft := forge(hdr, payload(kind, placement, ver, s.pub, kr.by["account"].pub), layout, s)
						ft.Note = fmt.Sprintf("rich payload version=%v kind=%q placement=%s", ver, kind, placement)
						_, o := processToken(c, w, ft)
						distinct[fmt.Sprint("rich", ver, kind, placement, layout, hdr == hdrV1, o.Accepted, o.Generic)] = true
						c.count("rich_payload_version_gate")
					}
				}
			}
		}
	}
	payloadRich = false
	// every single-bit change of every byte of the accepted type and algorithm spellings (control characters,
	// punctuation and digits that differ from the expected byte in one bit, the case bit included)
	for _, field := range []string{"typ", "alg"} {
		goods := []string{"JWT", "jwt"}
		if field == "alg" {
			goods = []string{"ed25519", "ed25519-nkey", "ED25519-NKEY"}
		}
		for _, good := range goods {
			for pos := 0; pos < len(good); pos++ {
				for bit := uint(0); bit < 7; bit++ {
					v := []byte(good)
					v[pos] ^= 1 << bit
					hm := map[string]interface{}{"typ": "JWT", "alg": "ed25519-nkey"}
					hm[field] = string(v)
					hb, _ := json.Marshal(hm)
					for _, kind := range []string{"account", "generic"} {
						for _, layout := range []string{"v1", "v2"} {
							s := kr.by[signerFor[kind]]
							ft := forge(string(hb), payload(kind, "nats", 2, s.pub, kr.by["account"].pub), layout, s)
							ft.Note = fmt.Sprintf("%s=%q (bit %d of byte %d of %q changed) kind=%q", field, string(v), bit, pos, good, kind)
							_, o := processToken(c, w, ft)
							distinct[fmt.Sprint("bit", field, string(v), kind, layout, o.Accepted, o.Generic)] = true
							c.count("header_bit_change")
						}
					}
				}
			}
		}
	}
	// segments written in the STANDARD base64 alphabet (+ and / where base64url has - and _), unpadded, and signed over
	// exactly that text: not base64url, whoever accepts it
	for _, kind := range []string{"user", "account", "generic"} {
		sg := kr.by[signerFor[kind]]
		pj := payload(kind, "nats", 2, sg.pub, kr.by["account"].pub)
		pj = pj[:len(pj)-1] + `,"name":"???>>>~~~\u00ff\u00fe\u00fb"}`
		hj := `{"typ":"JWT","alg":"ed25519-nkey","x":"???>>>"}`
		std := base64.RawStdEncoding.EncodeToString
		for _, which := range []string{"payload", "header", "both"} {
			h, p := b64.EncodeToString([]byte(hj)), b64.EncodeToString([]byte(pj))
			if which != "payload" {
				h = std([]byte(hj))
			}
			if which != "header" {
				p = std([]byte(pj))
			}
			for _, layout := range []string{"v1", "v2"} {
				text := p
				if layout == "v2" {
					text = h + "." + p
				}
				sig, _ := sg.kp.Sign([]byte(text))
				for _, sigEnc := range []func([]byte) string{b64.EncodeToString, std} {
					ft := forged{Token: h + "." + p + "." + sigEnc(sig), Header: hj, Pay: pj, Layout: layout,
						Note: fmt.Sprintf("%s token, %s in the standard base64 alphabet, signed %s over that text", kind, which, layout)}
					_, o := processToken(c, w, ft)
					distinct[fmt.Sprint("stdalpha", kind, which, layout, o.Accepted, o.Generic)] = true
					c.count("standard_alphabet_segment")
				}
			}
		}
	}
	// the kind (and the version) spelled TWICE in one object, the second time as null: a null assigns nothing, the payload
	// declares what it declared - a retired kind is refused, a newer version is refused
	for _, pj := range []string{
		`{"iss":"ISS","sub":"SUB","iat":1700000000,"type":"cluster","type":null}`,
		`{"iss":"ISS","sub":"SUB","iat":1700000000,"type":"server","type":null,"nats":{}}`,
		`{"iss":"ISS","sub":"SUB","iat":1700000000,"nats":{"type":"server","version":2,"type":null}}`,
		`{"iss":"ISS","sub":"SUB","iat":1700000000,"nats":{"type":"cluster","type":null,"version":2}}`,
		`{"iss":"ISS","sub":"SUB","iat":1700000000,"nats":{"type":"user","version":3,"version":null}}`,
		`{"iss":"ISS","sub":"SUB","iat":1700000000,"nats":{"version":7,"type":"generic","version":null}}`,
		`{"iss":"ISS","sub":"SUB","iat":1700000000,"type":null,"type":"cluster"}`,
		`{"iss":"ISS","sub":"SUB","iat":1700000000,"nats":null,"nats":{"type":"server","version":2}}`,
	} {
		s := kr.by["operator"]
		pj = strings.NewReplacer("ISS", s.pub, "SUB", kr.by["account"].pub).Replace(pj)
		for _, layout := range []string{"v1", "v2"} {
			for _, hdr := range []string{hdrV1, hdrV2} {
				ft := forge(hdr, pj, layout, s)
				ft.Note = "a member spelled twice, once as null"
				_, o := processToken(c, w, ft)
				c.sum.ImplChecks++
				if o.Accepted {
					c.violation("C05: accepted a payload that declares a retired kind or a newer version (the member is spelled a second time as null, which assigns nothing)",
						map[string]interface{}{"token": ft.Token, "payload_json": pj, "signed_layout": layout})
				}
				distinct[fmt.Sprint("dupnull", pj[40:], layout, hdr == hdrV1, o.Accepted)] = true
			}
		}
	}
	// segment-count and padding variants of valid tokens
	s := kr.by["account"]
	base := forge(hdrV2, payload("account", "nats", 2, s.pub, s.pub), "v2", s)
	ch := strings.Split(base.Token, ".")
	variants := map[string]string{
		"two segments":             ch[0] + "." + ch[1],
		"four segments":            base.Token + "." + ch[2],
		"empty":                    "",
		"dots only":                "..",
		"trailing dot":             base.Token + ".",
		"leading dot":              "." + base.Token,
		"padded header":            ch[0] + "=" + "." + ch[1] + "." + ch[2],
		"padded payload":           ch[0] + "." + ch[1] + "==" + "." + ch[2],
		"padded signature":         ch[0] + "." + ch[1] + "." + ch[2] + "==",
		"std alphabet in sig":      ch[0] + "." + ch[1] + "." + strings.NewReplacer("-", "+", "_", "/").Replace(ch[2]),
		"newline in signature":     ch[0] + "." + ch[1] + "." + ch[2][:10] + "\n" + ch[2][10:],
		"newline in payload":       ch[0] + "." + ch[1][:10] + "\n" + ch[1][10:] + "." + ch[2],
		"newline in header":        ch[0][:5] + "\r\n" + ch[0][5:] + "." + ch[1] + "." + ch[2],
		"blank in payload":         ch[0] + "." + ch[1][:10] + " " + ch[1][10:] + "." + ch[2],
		"empty signature":          ch[0] + "." + ch[1] + ".",
		"empty header":             "." + ch[1] + "." + ch[2],
		"empty payload":            ch[0] + ".." + ch[2],
		"valid":                    base.Token,
		"header as payload":        ch[0] + "." + ch[0] + "." + ch[2],
		"signature one char short": base.Token[:len(base.Token)-1],
	}
	for note, tok := range variants {
		ft := forged{Token: tok, Header: base.Header, Pay: base.Pay, Layout: "v2", Note: "variant: " + note}
		_, o := processToken(c, w, ft)
		distinct[fmt.Sprint("var", note, o.Accepted)] = true
	}
	// what Encode writes: three unpadded base64url segments, v2 header, version 2
	checkEnvelope(c, kr)
	w.flush()
	c.sum.Exhaustive = true
	c.sum.DistinctNontriv = len(distinct)
	c.sum.Rule = "full grid: header type (6) x algorithm spelling (11) x declared version (7) x declared kind (11) x kind placement (2) x signed layout (2), every token correctly signed, through Decode / typed decoders / DecodeGeneric; segment-count, padding and white-space variants; the envelope of tokens produced by Encode for every kind; non-trivial = distinct grid point and outcome"
}

func isB64URL(s string) bool {
	for i := 0; i < len(s); i++ {
		ch := s[i]
		if !(ch >= 'A' && ch <= 'Z' || ch >= 'a' && ch <= 'z' || ch >= '0' && ch <= '9' || ch == '-' || ch == '_') {
			return false
		}
	}
	return true
}

// validTokens returns one freshly encoded token per v2 kind (real Encode).
func validTokens(kr *keyring) map[string]string {
	out := map[string]string{}
	enc := func(kind string, cl jwt.Claims, s *signer) {
		tok, err := cl.Encode(s.kp)
		if err != nil {
			panic(kind + ": " + err.Error())
		}
		out[kind] = tok
	}
	oc := jwt.NewOperatorClaims(kr.by["operator"].pub)
	enc("operator", oc, kr.by["operator"])
	ac := jwt.NewAccountClaims(kr.by["account"].pub)
	ac.Exports.Add(&jwt.Export{Subject: "foo.>", Type: jwt.Stream})
	enc("account", ac, kr.by["operator"])
	uc := jwt.NewUserClaims(kr.by["user"].pub)
	enc("user", uc, kr.by["account"])
	act := jwt.NewActivationClaims(kr.by["account"].pub)
	act.ImportSubject = "foo.bar"
	act.ImportType = jwt.Stream
	enc("activation", act, kr.by["account"])
	arq := jwt.NewAuthorizationRequestClaims(kr.by["user"].pub)
	arq.UserNkey = kr.by["user"].pub
	enc("authorization_request", arq, kr.by["server"])
	ars := jwt.NewAuthorizationResponseClaims(kr.by["user"].pub)
	ars.Audience = kr.by["server"].pub
	ars.Error = "denied"
	enc("authorization_response", ars, kr.by["account"])
	gc := jwt.NewGenericClaims(kr.by["user"].pub)
	gc.Data["foo"] = "bar"
	enc("generic", gc, kr.by["user"])
	gn := &jwt.GenericClaims{}
	gn.Subject = "anything"
	enc("generic_nil_data", gn, kr.by["cluster"])
	return out
}

// validV1Tokens returns one token per v1compat kind made by the bundled v1 encoder.
func validV1Tokens(kr *keyring) map[string]string {
	out := map[string]string{}
	put := func(k, tok string, err error) {
		if err != nil {
			panic(k + ": " + err.Error())
		}
		out[k] = tok
	}
	oc := v1.NewOperatorClaims(kr.by["operator"].pub)
	t, err := oc.Encode(kr.by["operator"].kp)
	put("v1_operator", t, err)
	ac := v1.NewAccountClaims(kr.by["account"].pub)
	t, err = ac.Encode(kr.by["operator"].kp)
	put("v1_account", t, err)
	uc := v1.NewUserClaims(kr.by["user"].pub)
	t, err = uc.Encode(kr.by["account"].kp)
	put("v1_user", t, err)
	act := v1.NewActivationClaims(kr.by["account"].pub)
	act.ImportSubject = "foo.bar"
	act.ImportType = v1.Stream
	t, err = act.Encode(kr.by["account"].kp)
	put("v1_activation", t, err)
	gc := v1.NewGenericClaims(kr.by["user"].pub)
	gc.Data["foo"] = "bar"
	t, err = gc.Encode(kr.by["user"].kp)
	put("v1_generic", t, err)
	return out
}

func checkEnvelope(c *Ctx, kr *keyring) {
	toks := map[string]string{}
	for kind, tok := range validTokens(kr) {
		toks[kind] = tok
	}
	// "always": also for claims objects with a history - decoded from a version-1 token (they report version 1),
	// decoded from a version-2 token, or carrying any version number set by the application
	signerOf := map[string]string{"operator": "operator", "account": "operator", "user": "account", "activation": "account",
		"authorization_request": "server", "authorization_response": "account", "generic": "user"}
	for name, tok := range validV1Tokens(kr) {
		if d, err := jwt.Decode(tok); err == nil {
			if t2, err := d.Encode(kr.by[signerOf[dynKind(d)]].kp); err == nil {
				toks["reencoded "+name] = t2
			}
		}
	}
	for kind, tok := range validTokens(kr) {
		d, err := jwt.Decode(tok)
		if err != nil {
			continue
		}
		for _, v := range []int{0, 1, 2, 3, 7, -1} {
			setVersion(d, v)
			if x, ok := d.(*jwt.AuthorizationRequestClaims); ok {
				x.Version = v
			}
			if x, ok := d.(*jwt.AuthorizationResponseClaims); ok {
				x.Version = v
			}
			if t2, err := d.Encode(kr.by[signerOf[dynKind(d)]].kp); err == nil {
				toks[fmt.Sprintf("%s with version preset to %d", kind, v)] = t2
			}
		}
	}
	// what DecodeGeneric makes of hand-written version-1 generic tokens with little or nothing in them (no nats section,
	// no kind, no tags; only a kind; only tags): encoded again, it is a version-2 token that says so
	for vi, pj := range []string{
		`{"iss":"` + kr.by["user"].pub + `","sub":"s","iat":1700000000}`,
		`{"iss":"` + kr.by["user"].pub + `","sub":"s","iat":1700000000,"name":"n","jti":"x"}`,
		`{"iss":"` + kr.by["user"].pub + `","sub":"s","iat":1700000000,"type":"generic"}`,
		`{"iss":"` + kr.by["user"].pub + `","sub":"s","iat":1700000000,"tags":["a"]}`,
		`{"iss":"` + kr.by["user"].pub + `","sub":"s","iat":1700000000,"nats":{}}`,
		`{"iss":"` + kr.by["user"].pub + `","sub":"s","iat":1700000000,"nats":null}`,
		`{"iss":"` + kr.by["user"].pub + `","sub":"s","iat":1700000000,"type":"my-kind","nats":{"a":1}}`,
	} {
		ft := forge(hdrV1, pj, "v1", kr.by["user"])
		if d, err := jwt.DecodeGeneric(ft.Token); err == nil && d != nil {
			if t2, err := d.Encode(kr.by["user"].kp); err == nil {
				toks[fmt.Sprintf("version-1 generic token form %d read by DecodeGeneric and encoded again", vi)] = t2
			}
		}
	}
	// generic claims: whatever the data map holds - a nested object named nats, a kind of its own, a stale or ill-typed
	// version left by the application or by a decoder - Encode writes version 2 into the nats section
	for gi, data := range []map[string]interface{}{
		{"nats": map[string]interface{}{"a": 1.0}},
		{"nats": map[string]interface{}{"version": 3.0, "type": "user"}},
		{"nats": map[string]interface{}{}, "version": 3.0},
		{"type": "my-kind", "nats": map[string]interface{}{"x": "y"}},
		{"version": 3.0}, {"version": "1.4.2"}, {"version": 2.5}, {"version": []interface{}{1.0}}, {"version": nil}, {"version": -1.0},
		{"type": "generic", "version": 7.0}, {"Version": 3.0}, {"nats": "text"}, {},
	} {
		gc := jwt.NewGenericClaims(kr.by["user"].pub)
		gc.Data = data
		if t, err := gc.Encode(kr.by["user"].kp); err == nil {
			toks[fmt.Sprintf("generic with data form %d", gi)] = t
			// ... and again for what a decoder makes of that token
			if d, err := jwt.DecodeGeneric(t); err == nil {
				d.Data["version"] = 3.0
				if t2, err := d.Encode(kr.by["user"].kp); err == nil {
					toks[fmt.Sprintf("generic with data form %d, decoded, version raised and encoded again", gi)] = t2
				}
			}
		}
	}
	for kind, tok := range toks {
		c.sum.ImplChecks++
		c.sum.Evaluations++
		inp := map[string]interface{}{"direction": "encode", "kind": kind, "token": tok}
		ch := strings.Split(tok, ".")
		if len(ch) != 3 || !isB64URL(ch[0]) || !isB64URL(ch[1]) || !isB64URL(ch[2]) || ch[0] == "" || ch[1] == "" || ch[2] == "" {
			c.violation("C05: Encode did not produce three unpadded base64url segments", inp)
			continue
		}
		hj, _ := b64.DecodeString(ch[0])
		if string(hj) != hdrV2 {
			c.violation("C05: Encode wrote a header other than the version-2 header", inp)
		}
		pj, _ := b64.DecodeString(ch[1])
		var p struct {
			Type string `json:"type"`
			Nats struct {
				Version int `json:"version"`
			} `json:"nats"`
		}
		json.Unmarshal(pj, &p)
		if !strings.HasPrefix(kind, "generic_nil_data") && (p.Nats.Version != 2 || p.Type != "") {
			c.violation("C05: Encode did not write version 2 inside the nats section", inp)
		}
		c.count("envelope_checked")
	}
}

// ---------------------------------------------------------------- C01

func runC01(c *Ctx) {
	w := c.newCaseWriter("dec", dcaseRequires, "dcase", "dcase_ok")
	kr := newKeyring()
	kr2 := newKeyring() // foreign keys
	distinct := map[string]bool{}
	all := map[string]string{}
	for k, t := range validTokens(kr) {
		all[k] = t
	}
	for k, t := range validV1Tokens(kr) {
		all[k] = t
	}
	// hand-forged valid tokens of every kind in both layouts
	signerFor := map[string]string{"operator": "operator", "account": "account", "user": "account", "activation": "account",
		"authorization_request": "server", "authorization_response": "account", "generic": "user"}
	for _, kind := range kindNames {
		s := kr.by[signerFor[kind]]
		all["forged_v2_"+kind] = forge(hdrV2, payload(kind, "nats", 2, s.pub, s.pub), "v2", s).Token
		all["forged_v1_"+kind] = forge(hdrV1, payload(kind, "top", nil, s.pub, s.pub), "v1", s).Token
	}
	// one kind named twice - at the top level (version-1 style) AND in the nats section - with a version in the nats
	// section that need not be the one the top-level kind implies: whichever version the returned claims report,
	// the signature must have been checked over that version's text
	for _, kind := range kindNames {
		s := kr.by[signerFor[kind]]
		for _, ver := range []interface{}{nil, 0, 1, 2, -1, -2} {
			for _, layout := range []string{"v1", "v2"} {
				for _, hdr := range []string{hdrV1, hdrV2} {
					// the kind in the nats section only, with versions at and below zero: which text is signed follows
					// the version the claims report, never the (unsigned, in the version-1 layout) header
					{
						ft := forge(hdr, payload(kind, "nats", ver, s.pub, s.pub), layout, s)
						ft.Note = fmt.Sprintf("kind %s in the nats section, version %v, signed %s", kind, ver, layout)
						_, o := processToken(c, w, ft)
						distinct[fmt.Sprint("lowver", kind, ver, layout, hdr == hdrV1, o.Accepted)] = true
					}
					m := map[string]interface{}{"iss": s.pub, "sub": s.pub, "iat": 1700000000, "type": kind}
					nats := map[string]interface{}{"type": kind}
					if ver != nil {
						nats["version"] = ver
					}
					m["nats"] = nats
					pj, _ := json.Marshal(m)
					ft := forge(hdr, string(pj), layout, s)
					ft.Note = fmt.Sprintf("kind %s named at both levels, nats version %v, signed %s", kind, ver, layout)
					_, o := processToken(c, w, ft)
					distinct[fmt.Sprint("both", kind, ver, layout, hdr == hdrV1, o.Accepted)] = true
					c.count("kind_at_both_levels")
				}
			}
		}
	}
	// every spelling of the two algorithm names that the header test accepts (it compares case-insensitively):
	// which text is signed must not depend on the spelling in any decoder
	for _, kind := range kindNames {
		s := kr.by[signerFor[kind]]
		for _, alg := range []string{"ED25519-NKEY", "Ed25519-nkey", "ed25519-NKEY", "ED25519", "Ed25519", "eD25519-nKEY"} {
			for _, typ := range []string{"JWT", "jwt"} {
				for _, layout := range []string{"v1", "v2"} {
					for _, placement := range []string{"top", "nats"} {
						var ver interface{} = 2
						if placement == "top" {
							ver = nil
						}
						hdr := fmt.Sprintf(`{"typ":%q,"alg":%q}`, typ, alg)
						ft := forge(hdr, payload(kind, placement, ver, s.pub, s.pub), layout, s)
						ft.Note = fmt.Sprintf("%s, header alg spelled %s, signed %s, kind placed %s", kind, alg, layout, placement)
						_, o := processToken(c, w, ft)
						distinct[fmt.Sprint("spell", kind, alg, typ, layout, placement, o.Accepted, o.Generic)] = true
						c.count("alg_spelling")
					}
				}
			}
		}
	}
	// issuers that are well-formed nkeys (valid prefix byte and CRC16) carrying a key that is not 32 bytes: there is no
	// Ed25519 key under which anything is a valid signature, so no decoder may return claims (the third segment is a
	// real signature by another key, or 64 zero bytes)
	for _, kind := range kindNames {
		s := kr.by[signerFor[kind]]
		for ki, iss := range keyShapedStrings {
			if !c.thorough() && (ki+len(kind))%3 != 0 {
				continue
			}
			for _, layout := range []string{"v1", "v2"} {
				placement, hdr := "nats", hdrV2
				var ver interface{} = 2
				if layout == "v1" {
					placement, hdr, ver = "top", hdrV1, nil
				}
				ft := forge(hdr, payload(kind, placement, ver, iss, s.pub), layout, s)
				ft.Note = fmt.Sprintf("%s, issuer is a well-formed nkey of %d characters, signed %s by another key", kind, len(iss), layout)
				processToken(c, w, ft)
				seg := strings.Split(ft.Token, ".")
				ft.Token = seg[0] + "." + seg[1] + "." + b64.EncodeToString(make([]byte, 64))
				ft.Note = fmt.Sprintf("%s, issuer is a well-formed nkey of %d characters, zero signature", kind, len(iss))
				_, o := processToken(c, w, ft)
				distinct[fmt.Sprint("shortiss", kind, len(iss), layout, o.Accepted)] = true
				c.count("issuer_wrong_length_key")
			}
		}
	}
	// the issuer spelled in another letter case, with look-alike characters that fold to the right letters, or padded,
	// and signed by the key it resembles: the text is not that key, so nothing verifies under "the reported issuer"
	for _, kind := range kindNames {
		s := kr.by[signerFor[kind]]
		variants := []string{strings.ToLower(s.pub), strings.ToLower(s.pub[:20]) + s.pub[20:], s.pub[:1] + strings.ToLower(s.pub[1:]),
			strings.Replace(s.pub, "S", "\u017f", 1), strings.Replace(s.pub, "K", "\u212a", 1), strings.Replace(s.pub, "I", "\u0131", 1),
			" " + s.pub, s.pub + " ", s.pub + "\n", s.pub + "=", s.pub + "\x00"}
		for _, iss := range variants {
			if iss == s.pub {
				continue
			}
			for _, layout := range []string{"v1", "v2"} {
				placement, hdr := "nats", hdrV2
				var ver interface{} = 2
				if layout == "v1" {
					placement, hdr, ver = "top", hdrV1, nil
				}
				ft := forge(hdr, payload(kind, placement, ver, iss, s.pub), layout, s)
				ft.Note = fmt.Sprintf("%s, issuer %q is a respelling of the key that signs, signed %s", kind, iss, layout)
				_, o := processToken(c, w, ft)
				distinct[fmt.Sprint("respelled", kind, layout, o.Accepted)] = true
				c.count("issuer_respelled")
			}
		}
	}
	names := make([]string, 0, len(all))
	for k := range all {
		names = append(names, k)
	}
	sortStrings(names)
	base := map[string]decObs{}
	for _, name := range names {
		ft := forged{Token: all[name], Note: "valid: " + name}
		f, o := processToken(c, w, ft)
		base[name] = o
		c.sum.ImplChecks++
		// authorization claims have no version-1 form: a top-level kind alone does not make one
		noV1Form := strings.HasPrefix(name, "forged_v1_authorization_")
		if !o.Accepted && !noV1Form {
			c.violation("C03: a token produced by the library's own encoder (or a correctly forged one) is refused by Decode", map[string]interface{}{"token": all[name], "note": name, "facts": f})
		}
		distinct["valid"+name] = true
	}
	alphabet := "AZaz09-_=.+/ \n"
	perSeg := 6
	repl := 3
	if c.thorough() {
		perSeg = 40
		repl = 6
	}
	mut := 0
	for _, name := range names {
		tok := all[name]
		ch := strings.Split(tok, ".")
		off := []int{0, len(ch[0]) + 1, len(ch[0]) + len(ch[1]) + 2}
		for seg := 0; seg < 3; seg++ {
			L := len(ch[seg])
			for k := 0; k < perSeg; k++ {
				pos := off[seg] + c.Rng.Intn(L)
				if k == 0 {
					pos = off[seg]
				} else if k == 1 {
					pos = off[seg] + L - 1
				}
				for r := 0; r < repl; r++ {
					chx := alphabet[c.Rng.Intn(len(alphabet))]
					var m string
					var what string
					switch c.Rng.Intn(3) {
					case 0:
						if tok[pos] == chx {
							continue
						}
						m = tok[:pos] + string(chx) + tok[pos+1:]
						what = "substitute"
					case 1:
						m = tok[:pos] + string(chx) + tok[pos:]
						what = "insert"
					default:
						m = tok[:pos] + tok[pos+1:]
						what = "delete"
					}
					ft := forged{Token: m, Note: fmt.Sprintf("%s: %s at %d (segment %d) char %q", name, what, pos, seg, chx)}
					_, o := processToken(c, w, ft)
					mut++
					c.count("mutation_" + what)
					// an accepted alteration must leave the decoded content identical
					if o.Accepted {
						c.sum.ImplChecks++
						if !sameContent(tok, m) {
							c.violation("C01: an altered token is accepted with different content", map[string]interface{}{"original": tok, "token": m, "note": ft.Note})
						}
						c.count("mutation_accepted_same_content")
					}
					distinct[fmt.Sprint(name, seg, what, o.Accepted)] = true
					if mut%1499 == 3 {
						c.sample(map[string]interface{}{"note": ft.Note, "accepted": o.Accepted})
					}
				}
			}
		}
	}
	// other spellings of the same bytes: Go's base64 decoding ignores CR / LF and the unused low bits of a final
	// character, so these edits keep the DECODED segment and change only the text (which is what is signed)
	for _, name := range names {
		tok := all[name]
		ch := strings.Split(tok, ".")
		for seg := 0; seg < 3; seg++ {
			var variants []string
			if L := len(ch[seg]); L > 0 && L%4 != 0 {
				for _, a := range "ABCDEFGHIJKLMNOPQRSTUVWXYZabcdefghijklmnopqrstuvwxyz0123456789-_" {
					if byte(a) != ch[seg][L-1] {
						variants = append(variants, ch[seg][:L-1]+string(a))
					}
				}
			}
			for _, nl := range []string{"\n", "\r", "\r\n"} {
				p := c.Rng.Intn(len(ch[seg]) + 1)
				variants = append(variants, ch[seg][:p]+nl+ch[seg][p:], ch[seg]+nl, nl+ch[seg])
			}
			for _, v := range variants {
				q := append([]string(nil), ch...)
				q[seg] = v
				m := strings.Join(q, ".")
				ft := forged{Token: m, Note: fmt.Sprintf("%s: other base64 spelling of segment %d", name, seg)}
				_, o := processToken(c, w, ft)
				mut++
				c.count("mutation_base64_spelling")
				if o.Accepted {
					c.sum.ImplChecks++
					if !sameContent(tok, m) {
						c.violation("C01: an altered token is accepted with different content", map[string]interface{}{"original": tok, "token": m, "note": ft.Note})
					}
				}
				distinct[fmt.Sprint(name, seg, "spelling", o.Accepted)] = true
			}
		}
	}
	// splices between tokens of different issuers / kinds
	for _, a := range names {
		for _, b := range names {
			if a == b {
				continue
			}
			ca, cb := strings.Split(all[a], "."), strings.Split(all[b], ".")
			for i, m := range []string{
				ca[0] + "." + cb[1] + "." + ca[2], // b's payload under a's signature
				ca[0] + "." + ca[1] + "." + cb[2], // a's payload, b's signature
				cb[0] + "." + ca[1] + "." + ca[2], // b's header on a
			} {
				if !c.thorough() && c.Rng.Intn(4) != 0 {
					continue
				}
				ft := forged{Token: m, Note: fmt.Sprintf("splice %d of %s and %s", i, a, b)}
				_, o := processToken(c, w, ft)
				c.count("splice")
				if o.Accepted && i < 2 {
					c.sum.ImplChecks++
					if !sameContent(all[a], m) && !sameContent(all[b], m) {
						c.violation("C01: a spliced token is accepted with content of neither source", map[string]interface{}{"token": m, "note": ft.Note})
					}
				}
				distinct[fmt.Sprint("splice", i, a, b, o.Accepted)] = true
			}
		}
	}
	// re-signed by a foreign key keeping iss; signed over the wrong layout
	for _, kind := range kindNames {
		s := kr.by[signerFor[kind]]
		foreign := kr2.by[signerFor[kind]]
		for _, placement := range []string{"top", "nats"} {
			for _, layout := range []string{"v1", "v2"} {
				for _, hdr := range []string{hdrV1, hdrV2} {
					var ver interface{} = 2
					if placement == "top" {
						ver = nil
					}
					p := payload(kind, placement, ver, s.pub, s.pub)
					ft := forge(hdr, p, layout, foreign) // iss = s.pub, signature by foreign
					ft.Note = fmt.Sprintf("foreign-signed %s placement=%s", kind, placement)
					_, o := processToken(c, w, ft)
					c.count("foreign_signed")
					distinct[fmt.Sprint("foreign", kind, placement, layout, hdr == hdrV1, o.Accepted)] = true
					ft = forge(hdr, p, layout, s) // right key, each layout against each declaration
					ft.Note = fmt.Sprintf("layout-cross %s placement=%s header=%s", kind, placement, hdr)
					_, o = processToken(c, w, ft)
					c.count("layout_cross")
					distinct[fmt.Sprint("cross", kind, placement, layout, hdr == hdrV1, o.Accepted)] = true
				}
			}
		}
	}
	// RICH version-2 payloads (scoped signing keys, limits, permissions - content a version-1 loader cannot read) that
	// also name their kind at the top level, the version-1 way, signed either way under either header: whichever loader
	// ends up reading them, the version the returned claims report is the version whose text the signature covers
	{
		rg := &valGen{rng: c.Rng, kr: kr, fill: 90, scopeByValue: true}
		for _, kind := range kindNames {
			for b := 0; b < 3; b++ {
				cl, s := rg.newClaims(kind)
				if ac, ok := cl.(*jwt.AccountClaims); ok {
					us := jwt.NewUserScope()
					us.Key, us.Role = kr.by["account"].pub, "rich"
					if ac.SigningKeys == nil {
						ac.SigningKeys = jwt.SigningKeys{}
					}
					ac.SigningKeys.AddScopedSigner(us)
				}
				tok, err := cl.Encode(s.kp)
				if err != nil {
					continue
				}
				pj, _ := b64.DecodeString(strings.Split(tok, ".")[1])
				var m map[string]interface{}
				dec := json.NewDecoder(bytes.NewReader(pj))
				dec.UseNumber()
				if dec.Decode(&m) != nil {
					continue
				}
				for _, topKind := range []string{kind, "generic"} {
					m["type"] = topKind
					pj2, _ := json.Marshal(m)
					for _, layout := range []string{"v1", "v2"} {
						for _, hdr := range []string{hdrV1, hdrV2} {
							ft := forge(hdr, string(pj2), layout, s)
							ft.Note = fmt.Sprintf("rich version-2 %s payload with the top-level kind %s, signed the %s way", kind, topKind, layout)
							_, o := processToken(c, w, ft)
							c.count("rich_hybrid")
							distinct[fmt.Sprint("richhybrid", kind, topKind, layout, hdr == hdrV1, o.Accepted)] = true
						}
					}
				}
			}
		}
	}
	// a key named SOMEWHERE ELSE in the claims - the server an authorization request names, the account a user or an
	// activation names as issuer account, a listed signing key, the operator's system account - signs the token while
	// iss names another key of a permitted role: the signature is checked under iss and under nothing else
	{
		rg := &valGen{rng: c.Rng, kr: kr, fill: 50, scopeByValue: true}
		for _, kind := range kindNames {
			named := []*signer{newSigner("server"), newSigner("account"), newSigner("operator"), newSigner("user")}
			cl, s := rg.newClaims(kind)
			switch x := cl.(type) {
			case *jwt.AuthorizationRequestClaims:
				x.Server.ID, x.UserNkey = named[0].pub, named[3].pub
			case *jwt.AuthorizationResponseClaims:
				x.IssuerAccount = named[1].pub
			case *jwt.UserClaims:
				x.IssuerAccount = named[1].pub
			case *jwt.ActivationClaims:
				x.IssuerAccount = named[1].pub
			case *jwt.AccountClaims:
				if x.SigningKeys == nil {
					x.SigningKeys = jwt.SigningKeys{}
				}
				x.SigningKeys.Add(named[1].pub)
				x.Authorization.AuthUsers.Add(named[3].pub)
			case *jwt.OperatorClaims:
				x.SigningKeys.Add(named[2].pub)
				x.SystemAccount = named[1].pub
			case *jwt.GenericClaims:
				if x.Data == nil {
					x.Data = map[string]interface{}{}
				}
				x.Data["server_id"] = map[string]interface{}{"id": named[0].pub}
				x.Data["issuer_account"] = named[1].pub
			}
			tok, err := cl.Encode(s.kp)
			if err != nil {
				continue
			}
			ch := strings.Split(tok, ".")
			pj, _ := b64.DecodeString(ch[1])
			for _, n := range named {
				for _, layout := range []string{"v1", "v2"} {
					hdr := hdrV2
					if layout == "v1" {
						hdr = hdrV1
					}
					ft := forge(hdr, string(pj), layout, n)
					ft.Note = fmt.Sprintf("%s claims issued (iss) by a %s key, signed by the %s key they name elsewhere", kind, s.role, n.role)
					_, o := processToken(c, w, ft)
					c.count("signed_by_a_key_named_elsewhere")
					distinct[fmt.Sprint("named", kind, n.role, layout, o.Accepted)] = true
				}
			}
		}
	}
	// a token in its file armour is not a token: the output of DecorateJWT / FormatUserConfig, ad-hoc dashed lines around
	// it, white space or line breaks before and after it - no decoder may take the armour off by itself and report the
	// claims of the token inside as those of the string it was handed
	{
		names := make([]string, 0, len(all))
		for k := range all {
			names = append(names, k)
		}
		sortStrings(names)
		for _, name := range names {
			tok := all[name]
			var dressed []string
			if d, err := jwt.DecorateJWT(tok); err == nil {
				dressed = append(dressed, string(d))
			}
			if d, err := jwt.FormatUserConfig(tok, []byte("SUAIBDPBAUTWCWBKIO6XHQNINK5FWJW4OHLXC3HQ2KFE4PEJUA44CNHTC4")); err == nil {
				dressed = append(dressed, string(d))
			}
			dressed = append(dressed,
				"--- token ---\n"+tok+"\n--- end ---\n",
				"-----BEGIN NATS USER JWT-----\n"+tok+"\n------END NATS USER JWT------",
				"---\n"+tok+"\n---",
				" "+tok, tok+" ", tok+"\n", "\n"+tok, "\t"+tok+"\r\n", "\""+tok+"\"", "Bearer "+tok, tok+"\x00",
				// base64 padding: segments are UNPADDED base64url - a padded spelling of a segment is another text
				tok+"=", tok+"==", tok+"===")
			if ch := strings.Split(tok, "."); len(ch) == 3 {
				pad := func(s string) string { return s + strings.Repeat("=", (4-len(s)%4)%4) }
				dressed = append(dressed, pad(ch[0])+"."+ch[1]+"."+ch[2], ch[0]+"."+pad(ch[1])+"."+ch[2], ch[0]+"."+ch[1]+"."+pad(ch[2]),
					pad(ch[0])+"."+pad(ch[1])+"."+pad(ch[2]))
			}
			for i, d := range dressed {
				ft := forged{Token: d, Note: fmt.Sprintf("token %s in armour form %d", name, i)}
				_, o := processToken(c, w, ft)
				c.count("dressed_token")
				distinct[fmt.Sprint("dressed", name, i, o.Accepted, o.Generic)] = true
			}
		}
	}
	// arbitrary strings
	nr := 300
	if c.thorough() {
		nr = 5000
	}
	for i := 0; i < nr; i++ {
		n := c.Rng.Intn(60)
		b := make([]byte, n)
		for j := range b {
			b[j] = "abcXYZ019-_.=. {}\"\n"[c.Rng.Intn(19)]
		}
		processToken(c, w, forged{Token: string(b), Note: "random string"})
		c.count("random_string")
	}
	w.flush()
	c.sum.DistinctNontriv = len(distinct)
	c.sum.Rule = "valid tokens of all kinds from the real v2 and v1 encoders and hand-forged in both layouts; single-character substitutions / insertions / deletions at first, last and random positions of every segment; segment splices between all pairs of tokens; payloads re-signed by a foreign key keeping iss; every layout signed against every declaration; random strings; every token through Decode, 6 typed decoders and DecodeGeneric with independently computed Ed25519 verdicts; non-trivial = distinct (source token, segment, edit kind, outcome)"
}

func sortStrings(s []string) {
	for i := 1; i < len(s); i++ {
		for j := i; j > 0 && s[j] < s[j-1]; j-- {
			s[j], s[j-1] = s[j-1], s[j]
		}
	}
}

// sameContent: both tokens decode (by the library) to claims with identical JSON rendering.
func sameContent(a, b string) bool {
	ca, ea := jwt.Decode(a)
	cb, eb := jwt.Decode(b)
	if ea != nil || eb != nil {
		return false
	}
	return ca.String() == cb.String()
}
