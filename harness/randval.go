package main

// Random Go values by reflection, for the codec properties: every optional
// section present or absent, nil versus empty containers, boundary integers,
// strings with JSON/HTML-special and non-ASCII characters.

import (
	"fmt"
	"math/rand"
	"reflect"
	"strings"

	jwt "github.com/nats-io/jwt/v2"
)

type valGen struct {
	rng *rand.Rand
	kr  *keyring
	// rich > 0 raises the share of populated fields
	fill int // percent of fields populated
	// scopeByValue lets key sets hold UserScope values as well as pointers
	scopeByValue bool
	// bigScopeNumbers allows |template limits| beyond 2^53
	wideInts bool
	depth    int
}

var strPool = []string{"", "a", "foo.bar", "x y", "<html>&amp;\"q\"", "héllo wörld", "日本語", "tab\there", "new\nline", "back\\slash", "q\"uote",
	"foo.*", ">", "a.b.>", "UPPER", "null", "0", "-", " ", "emoji😀", "long-" + "0123456789abcdefghijklmnopqrstuvwxyz0123456789abcdefghijklmnopqrstuvwxyz",
	// unusual but legal content
	"a=b", "50%", "%s%d%v", "--dash--", "dots...", ".", "\x00", "nul\x00inside", "e\u0301 combining", "\u200bzero-width", "\u2028line-sep", "trailing ", " leading",
	"\r\n", "{\"json\":1}", "[1,2]", "\\u0041", "</script>", "\x7f", strings.Repeat("very-long-", 300),
	// a backslash followed by what looks like one of the escapes the JSON encoder writes for & < >; the characters themselves
	"Q\\u0026A", "\\u003c", "x\\u003ey", "\\\\u0026", "a&b<c>d", "\\u0026\\u003c\\u003e&<>", "\\/", "\\\""}

var intPool = []int64{0, 1, -1, 2, 100, 101, 255, 256, 1 << 31, -(1 << 31), 1<<53 - 1, 1 << 53, 1<<53 + 1, -(1<<53 + 1),
	1<<62 + 12345, 9223372036854775807, -9223372036854775808, 1700000000, 42,
	// neither tiny nor at a type's limit
	7, 1000, 65535, 65536, 1<<31 - 1, 1<<32 - 1, 1 << 32, 1<<32 + 1, 999999999, 1000000000, 1<<40 + 3, 123456789012345, -42, -100000, 1<<63 - 2, -(1<<63 - 1), 9007199254740993,
	1500000000000, 20000000000, 86400, 3600000000000}

func (g *valGen) str() string { return strPool[g.rng.Intn(len(strPool))] }

func (g *valGen) int64For(t reflect.Type) int64 {
	for {
		v := intPool[g.rng.Intn(len(intPool))]
		if !g.wideInts && (v > 1<<53 || v < -(1<<53)) && g.rng.Intn(4) != 0 {
			continue
		}
		switch t.Kind() {
		case reflect.Int8:
			if v < -128 || v > 127 {
				continue
			}
		case reflect.Int16:
			if v < -32768 || v > 32767 {
				continue
			}
		case reflect.Int32:
			if v < -(1<<31) || v > 1<<31-1 {
				continue
			}
		}
		return v
	}
}

func (g *valGen) uint64For(t reflect.Type) uint64 {
	pool := []uint64{0, 1, 2, 3, 100, 255, 256, 1 << 32, 1<<53 + 1, 1<<63 + 5, 18446744073709551615}
	for {
		v := pool[g.rng.Intn(len(pool))]
		if t.Bits() < 64 && v >= 1<<uint(t.Bits()) {
			continue
		}
		return v
	}
}

func (g *valGen) anyJSON(depth int) interface{} {
	switch r := g.rng.Intn(10); {
	case r < 3:
		return g.str()
	case r < 5:
		// integers the float64 round trip keeps
		return float64(int64(g.rng.Intn(2000001)-1000000) * int64(1+g.rng.Intn(1000)))
	case r < 6:
		return g.rng.Intn(2) == 0
	case r < 7:
		return nil
	case r < 8 && depth < 3:
		n := g.rng.Intn(4)
		l := make([]interface{}, n)
		for i := range l {
			l[i] = g.anyJSON(depth + 1)
		}
		return l
	case depth < 3:
		n := g.rng.Intn(4)
		m := map[string]interface{}{}
		for i := 0; i < n; i++ {
			m[g.str()] = g.anyJSON(depth + 1)
		}
		return m
	}
	return g.str()
}

var exportTypeT = reflect.TypeOf(jwt.ExportType(0))
var samplingT = reflect.TypeOf(jwt.SamplingRate(0))
var scopeTypeT = reflect.TypeOf(jwt.ScopeType(0))
var signingKeysT = reflect.TypeOf(jwt.SigningKeys{})

// fillValue sets v (addressable) to a random value of its type.
func (g *valGen) fillValue(v reflect.Value) {
	t := v.Type()
	switch t {
	case exportTypeT:
		v.SetInt(int64(1 + g.rng.Intn(2)))
		if g.rng.Intn(12) == 0 {
			v.SetInt(0)
		}
		return
	case samplingT:
		v.SetInt(int64(g.rng.Intn(101)))
		return
	case scopeTypeT:
		v.SetInt(1)
		return
	case signingKeysT:
		switch g.rng.Intn(5) {
		case 0:
			return // nil map
		case 1:
			v.Set(reflect.ValueOf(jwt.SigningKeys{}))
			return
		}
		sk := jwt.SigningKeys{}
		n := 1 + g.rng.Intn(4)
		for i := 0; i < n; i++ {
			k := newSigner("account").pub
			if g.rng.Intn(2) == 0 {
				sk.Add(k)
				continue
			}
			us := jwt.NewUserScope()
			us.Key = k
			us.Role = g.str()
			us.Description = g.str()
			g.fillValue(reflect.ValueOf(&us.Template).Elem())
			if g.scopeByValue && g.rng.Intn(2) == 0 {
				sk.AddScopedSigner(*us)
			} else {
				sk.AddScopedSigner(us)
			}
		}
		v.Set(reflect.ValueOf(sk))
		return
	}
	if t.Name() == "ExportType" && t.Kind() == reflect.Int {
		// the v1compat copy of the export type
		v.SetInt(int64(g.rng.Intn(3)))
		return
	}
	switch t.Kind() {
	case reflect.Bool:
		v.SetBool(g.rng.Intn(2) == 0)
	case reflect.String:
		v.SetString(g.str())
	case reflect.Int, reflect.Int8, reflect.Int16, reflect.Int32, reflect.Int64:
		v.SetInt(g.int64For(t))
	case reflect.Uint, reflect.Uint8, reflect.Uint16, reflect.Uint32, reflect.Uint64:
		v.SetUint(g.uint64For(t))
	case reflect.Slice:
		switch g.rng.Intn(6) {
		case 0:
			v.Set(reflect.Zero(t))
		case 1:
			v.Set(reflect.MakeSlice(t, 0, 0))
		default:
			n := 1 + g.rng.Intn(3)
			s := reflect.MakeSlice(t, n, n)
			for i := 0; i < n; i++ {
				g.fillValue(s.Index(i))
			}
			v.Set(s)
		}
	case reflect.Map:
		switch g.rng.Intn(6) {
		case 0:
			v.Set(reflect.Zero(t))
		case 1:
			v.Set(reflect.MakeMap(t))
		default:
			n := 1 + g.rng.Intn(3)
			m := reflect.MakeMap(t)
			for i := 0; i < n; i++ {
				k := reflect.New(t.Key()).Elem()
				k.SetString(g.str())
				e := reflect.New(t.Elem()).Elem()
				g.fillValue(e)
				m.SetMapIndex(k, e)
			}
			if t.Name() == "RevocationList" && t.Elem().Kind() == reflect.Int64 && g.rng.Intn(2) == 0 {
				// a revoke-all entry next to per-key entries on both sides of it (content a decoder must not "tidy up")
				all := reflect.New(t.Key()).Elem()
				all.SetString("*")
				at := int64(1000 + g.rng.Intn(1000))
				m.SetMapIndex(all, reflect.ValueOf(at).Convert(t.Elem()))
				for i, d := range []int64{-5, 0, 7} {
					k := reflect.New(t.Key()).Elem()
					k.SetString(fmt.Sprintf("UCOVERED%d", i))
					m.SetMapIndex(k, reflect.ValueOf(at+d).Convert(t.Elem()))
				}
			}
			v.Set(m)
		}
	case reflect.Ptr:
		if g.rng.Intn(4) == 0 {
			v.Set(reflect.Zero(t))
			return
		}
		p := reflect.New(t.Elem())
		g.fillValue(p.Elem())
		v.Set(p)
	case reflect.Struct:
		for i := 0; i < t.NumField(); i++ {
			f := t.Field(i)
			if !f.IsExported() && !f.Anonymous {
				continue
			}
			if !v.Field(i).CanSet() {
				continue
			}
			if f.Type.Kind() != reflect.Struct && g.rng.Intn(100) >= g.fill {
				continue // left at its zero value
			}
			g.fillValue(v.Field(i))
		}
	case reflect.Interface:
		x := g.anyJSON(0)
		if x == nil {
			v.Set(reflect.Zero(t))
		} else {
			v.Set(reflect.ValueOf(x))
		}
	default:
		panic(fmt.Sprintf("randval: unsupported kind %s", t))
	}
}

// newClaims builds a random claims object of the kind that Encode accepts with the returned signer.
func (g *valGen) newClaims(kind string) (jwt.Claims, *signer) {
	var cl jwt.Claims
	var s *signer
	pick := func(roles ...string) *signer { return g.kr.by[roles[g.rng.Intn(len(roles))]] }
	switch kind {
	case "operator":
		c := &jwt.OperatorClaims{}
		g.fillValue(reflect.ValueOf(c).Elem())
		c.Subject = g.kr.by["operator"].pub
		// (white space at the end of a URL that still parses belongs to the value like any other character)
		c.AccountServerURL = []string{"", "", "https://example.com/jwt/v1", "https://example.com/jwt/v1", "https://host:9090/jwt/v1 ",
			"https://example.com/jwt/v1\u00a0", "https://example.com/a%20b/?q=1#frag ", "HTTPS://Example.COM/jwt/v1/"}[g.rng.Intn(8)]
		cl, s = c, pick("operator")
	case "account":
		c := &jwt.AccountClaims{}
		g.fillValue(reflect.ValueOf(c).Elem())
		c.Subject = g.kr.by["account"].pub
		cl, s = c, pick("operator", "account")
	case "user":
		c := &jwt.UserClaims{}
		g.fillValue(reflect.ValueOf(c).Elem())
		c.Subject = g.kr.by["user"].pub
		cl, s = c, pick("account")
	case "activation":
		c := &jwt.ActivationClaims{}
		g.fillValue(reflect.ValueOf(c).Elem())
		c.Subject = g.kr.by["account"].pub
		cl, s = c, pick("operator", "account")
	case "authorization_request":
		c := &jwt.AuthorizationRequestClaims{}
		g.fillValue(reflect.ValueOf(c).Elem())
		if c.Subject == "" {
			c.Subject = "sub"
		}
		cl, s = c, pick("server")
	case "authorization_response":
		c := &jwt.AuthorizationResponseClaims{}
		g.fillValue(reflect.ValueOf(c).Elem())
		if c.Subject == "" {
			c.Subject = "sub"
		}
		cl, s = c, pick("account")
	default:
		c := &jwt.GenericClaims{}
		g.fillValue(reflect.ValueOf(c).Elem())
		if c.Subject == "" {
			c.Subject = "sub"
		}
		if c.Data != nil {
			// a data map naming a typed kind would be dispatched to that kind's loader
			delete(c.Data, "type")
			switch g.rng.Intn(6) {
			case 0, 1:
				c.Data["type"] = "my_custom_kind"
			case 2:
				// a kind name in another letter case is not that kind: it is a custom kind like any other
				c.Data["type"] = []string{"Account", "USER", "Operator", "ACTIVATION", "act\u0130vat\u0130on", "Authorization_Response", "Cluster", "User "}[g.rng.Intn(8)]
			}
		}
		cl, s = c, pick("operator", "account", "user", "server", "cluster")
	}
	g.coincide(cl, s.pub, cl.Claims().Subject)
	return cl, s
}

// coincide: now and then a text field of the claims (any depth) holds the very key that signs them, or the subject
// key; and the issuer-account field of the kinds that have one names the signer itself
func (g *valGen) coincide(cl interface{}, signerPub, subject string) {
	if g.rng.Intn(3) == 0 {
		var fields []reflect.Value
		var walk func(v reflect.Value, depth int)
		walk = func(v reflect.Value, depth int) {
			if depth > 4 {
				return
			}
			switch v.Kind() {
			case reflect.Struct:
				for i := 0; i < v.NumField(); i++ {
					f := v.Type().Field(i)
					switch f.Name {
					case "Subject", "Issuer", "ID", "Type", "Version", "IssuedAt":
						if depth <= 1 {
							continue
						}
					}
					if f.PkgPath == "" {
						walk(v.Field(i), depth+1)
					}
				}
			case reflect.String:
				if v.CanSet() && v.Type().Name() == "string" {
					fields = append(fields, v)
				}
			}
		}
		walk(reflect.ValueOf(cl).Elem(), 0)
		if len(fields) > 0 {
			f := fields[g.rng.Intn(len(fields))]
			if g.rng.Intn(4) == 0 {
				f.SetString(subject)
			} else {
				f.SetString(signerPub)
			}
		}
	}
	if f := reflect.ValueOf(cl).Elem().FieldByName("IssuerAccount"); f.IsValid() && f.Kind() == reflect.String && g.rng.Intn(4) == 0 {
		f.SetString(signerPub)
	}
}
