package main

import (
	"bytes"
	"fmt"
	"runtime"
	"strings"
	"sync"

	jwt "github.com/nats-io/jwt/v2"
	v1 "github.com/nats-io/jwt/v2/v1compat"
	"github.com/nats-io/nkeys"
)

func init() { drivers["C15"] = runC15 }

func coqOptStr(ok bool, s string) string {
	if !ok {
		return "None"
	}
	return "(Some " + coqStr(s) + ")"
}

func vnamesSorted(m map[string]string) []string {
	var out []string
	for k := range m {
		out = append(out, k)
	}
	sortStrings(out)
	return out
}

func kindFact(tok string) (string, bool) {
	c, err := jwt.Decode(tok)
	if err != nil || c == nil {
		return "", false
	}
	return string(c.ClaimType()), true
}

func runC15(c *Ctx) {
	w := c.newCaseWriter("creds", "From JWT Require Import Model.Creds.", "crcase", "crcase_ok")
	kr := newKeyring()
	distinct := map[string]bool{}
	valid := validTokens(kr)
	nUsers := 25
	if c.thorough() {
		nUsers = 400
	}
	// every parse is done twice: from one buffer, which the caller then wipes (as one does with secrets), and from a
	// second buffer holding the same text - what is parsed depends on the text handed in, nothing else
	wipe := func(b []byte) {
		for i := range b {
			b[i] = 'x'
		}
	}
	parseSeedCase := func(contents string) {
		b1 := []byte(contents)
		kp1, err1 := jwt.ParseDecoratedNKey(b1)
		var sd1 []byte
		if err1 == nil {
			sd1, _ = kp1.Seed()
			sd1 = append([]byte{}, sd1...)
		}
		wipe(b1)
		kp, err := jwt.ParseDecoratedNKey([]byte(contents))
		if (err == nil) != (err1 == nil) {
			c.violation("C15: parsing the same credentials text a second time (after the first buffer was wiped) gives another outcome", map[string]interface{}{"contents": contents, "op": "ParseDecoratedNKey"})
		} else if err == nil {
			if sd2, _ := kp.Seed(); string(sd2) != string(sd1) {
				c.violation("C15: parsing the same credentials text a second time (after the first buffer was wiped) gives another seed", map[string]interface{}{"contents": contents, "op": "ParseDecoratedNKey"})
			}
		}
		obs := "None"
		if err == nil {
			sd, _ := kp.Seed()
			obs = "(Some (Some " + coqStr(string(sd)) + "))"
		} else if msg := err.Error(); msg != "no nkey seed found" && msg != "doesn't contain a seed nkey" {
			obs = "(Some None)"
		}
		w.add("(CRParseSeed "+coqStr(contents)+" "+obs+")", map[string]interface{}{"contents": contents, "op": "ParseDecoratedNKey"})
	}
	parseJWTCase := func(contents string) string {
		b1 := []byte(contents)
		got1, _ := jwt.ParseDecoratedJWT(b1)
		got1 = string(append([]byte{}, got1...))
		wipe(b1)
		got, _ := jwt.ParseDecoratedJWT([]byte(contents))
		if got != got1 {
			c.violation("C15: parsing the same credentials text a second time (after the first buffer was wiped) gives another token", map[string]interface{}{"contents": contents, "op": "ParseDecoratedJWT", "first": got1, "second": got})
		}
		w.add("(CRParseJWT "+coqStr(contents)+" "+coqStr(got)+")", map[string]interface{}{"contents": contents, "op": "ParseDecoratedJWT"})
		return got
	}
	// user tokens whose own text spells the words the file format is made of (SEED, USER, NKEY, NATS, JWT, END: only a
	// signature can spell them - found by signing, on all cores)
	marked := tokensSpelling(kr.by["account"], kr.by["user"].pub, []string{"SEED", "USER", "NKEY", "NATS", "JWT", "END"}, 1500000)
	// user tokens of varying length and alphabet, user seeds
	for i := 0; i < nUsers+len(marked); i++ {
		ukp, _ := nkeys.CreateUser()
		useed, _ := ukp.Seed()
		upub, _ := ukp.PublicKey()
		uc := jwt.NewUserClaims(upub)
		uc.Name = strings.Repeat("n", c.Rng.Intn(2000)*(i%3))
		for k := c.Rng.Intn(6); k > 0; k-- {
			uc.Pub.Allow.Add(fmt.Sprintf("sub.%d.>~?", c.Rng.Intn(1000)))
		}
		tok, err := uc.Encode(kr.by["account"].kp)
		if err != nil {
			panic(err)
		}
		// a user token written by another implementation: the same claims, the JSON text spelled differently (blanks after
		// colons, an escape inside the kind, member names in another letter case, line breaks) and signed over that text
		if i%4 == 3 {
			raw, _ := b64.DecodeString(strings.Split(tok, ".")[1])
			pj := string(raw)
			switch (i / 4) % 5 {
			case 0:
				pj = strings.ReplaceAll(pj, `":`, `": `)
			case 1:
				pj = strings.Replace(pj, `"type":"user"`, `"type":"\u0075ser"`, 1)
			case 2:
				pj = strings.Replace(pj, `"type":"user"`, `"TYPE":"user"`, 1)
			case 3:
				pj = strings.ReplaceAll(pj, `,"`, ",\n \"")
			default:
				pj = strings.Replace(pj, `"type":"user"`, `"type" :\t"user"`, 1)
			}
			ft := forge(hdrV2, pj, "v2", kr.by["account"])
			if d, derr := jwt.DecodeUserClaims(ft.Token); derr == nil && d != nil {
				tok = ft.Token
				c.count("user_token_spelled_by_another_implementation")
			}
		}
		if i >= nUsers {
			tok = marked[i-nUsers]
			c.count("user_token_spelling_a_word_of_the_format")
		}
		c.sum.Evaluations++
		c.sum.ImplChecks++
		inp := map[string]interface{}{"token": tok, "token_length": len(tok)}
		creds, err := jwt.FormatUserConfig(tok, useed)
		if err != nil {
			inp["error"] = err.Error()
			c.violation("C15: FormatUserConfig refuses a user token and user seed", inp)
			continue
		}
		w.add("(CRFormat (Some \"user\") "+coqStr(tok)+" "+coqStr(string(useed))+" (Some "+coqStr(string(creds))+"))", inp)
		// the seed handed in as a PART of a larger buffer (several seeds kept back to back, a seed followed by a CR or a
		// blank): formatting reads the seed and leaves the buffer, and what lies behind the seed, alone
		for _, tail := range []string{string(useed), "\r\n", " ", "\tX", "S"} {
			buf := append(append(make([]byte, 0, len(useed)+len(tail)+8), useed...), tail...)
			before := string(buf[:cap(buf)])
			c2, err2 := jwt.FormatUserConfig(tok, buf[:len(useed)])
			d2, err3 := jwt.DecorateSeed(buf[:len(useed)])
			c.sum.ImplChecks++
			if string(buf[:cap(buf)]) != before {
				c.violation("C15: formatting wrote into the caller's buffer behind the seed it was handed", map[string]interface{}{"behind_the_seed": tail, "buffer_after": string(buf[len(useed):cap(buf)])})
			}
			if err2 != nil || string(c2) != string(creds) || err3 != nil || !bytes.Contains(creds, d2) {
				c.violation("C15: a seed handed in as part of a larger buffer is formatted differently", map[string]interface{}{"behind_the_seed": tail, "error": fmt.Sprint(err2, err3)})
			}
		}
		renderings := map[string]string{
			"LF":                 string(creds),
			"CRLF":               strings.ReplaceAll(string(creds), "\n", "\r\n"),
			"leading blank line": "\n\n" + string(creds),
			"leading spaces":     "   \t" + string(creds),
			"no trailing lines":  strings.TrimRight(string(creds), "\n*"),
			"trailing blanks":    string(creds) + "\n\n  \n",
		}
		for how, text := range renderings {
			got := parseJWTCase(text)
			c.sum.ImplChecks++
			if got != tok {
				c.violation("C15: the token parsed back from the credentials file differs ("+how+")", map[string]interface{}{"rendering": how, "token": tok, "parsed": got})
			}
			kp, err := jwt.ParseDecoratedNKey([]byte(text))
			kp2, err2 := jwt.ParseDecoratedUserNKey([]byte(text))
			if err != nil || err2 != nil {
				c.violation("C15: the seed does not parse back from the credentials file ("+how+")", map[string]interface{}{"rendering": how, "error": fmt.Sprint(err, err2)})
			} else {
				s1, _ := kp.Seed()
				p1, _ := kp.PublicKey()
				s2, _ := kp2.Seed()
				if !bytes.Equal(s1, useed) || p1 != upub || !bytes.Equal(s2, useed) {
					c.violation("C15: the key pair parsed from the credentials file is not the original one ("+how+")", map[string]interface{}{"rendering": how})
				}
			}
			parseSeedCase(text)
			distinct[how+fmt.Sprint(len(tok)/200)] = true
		}
		// a bare token parses to itself
		if got := parseJWTCase(tok); got != tok {
			c.violation("C15: a bare token does not parse to itself", inp)
		}
		c.count("user_roundtrip")
		if i%7 == 0 {
			c.sample(map[string]interface{}{"token_length": len(tok), "creds_length": len(creds)})
		}
	}
	// bare tokens full of dashes ('-' is a base64url character: runs of three and more can stand anywhere in a token,
	// in a payload segment wherever the claims hold the right bytes): a bare token parses to itself
	{
		ukp := kr.by["account"]
		uc := jwt.NewUserClaims(kr.by["user"].pub)
		// U+FF80 after an 's' on a 3-byte boundary encodes to "c---"; padding moves the boundary
		var dashy []string
		for pad := 0; pad < 3; pad++ {
			uc.Name = strings.Repeat("p", pad) + "s\uff80s\uff80 and s\uff80"
			if t, err := uc.Encode(ukp.kp); err == nil {
				dashy = append(dashy, t)
			}
		}
		for _, tok := range valid {
			ch := strings.Split(tok, ".")
			dashy = append(dashy, ch[0]+"."+ch[1]+"."+"------"+ch[2][6:], ch[0]+"."+ch[1][:8]+"---"+ch[1][11:20]+"---"+ch[1][23:]+"."+ch[2],
				"---"+tok[3:], tok[:len(tok)-3]+"---", ch[0]+"."+ch[1]+"."+ch[2][:10]+"----------"+ch[2][20:])
		}
		dashy = append(dashy, "aaa------bbb.ccc.ddd", "a---b---c.d.e", "------", "---.---.---", "a.b.c---", "x-----y")
		for _, tok := range dashy {
			c.sum.Evaluations++
			c.sum.ImplChecks++
			if got := parseJWTCase(tok); got != tok {
				c.violation("C15: a bare token does not parse to itself", map[string]interface{}{"token": tok, "parsed": got, "dash_runs": strings.Count(tok, "---")})
			}
			c.count("bare_token_with_dash_runs")
		}
	}
	// decoration of every kind
	for kind, tok := range valid {
		d, err := jwt.DecorateJWT(tok)
		c.sum.Evaluations++
		c.sum.ImplChecks++
		k, ok := kindFact(tok)
		if err != nil {
			c.violation("C15: DecorateJWT refuses a decodable token", map[string]interface{}{"kind": kind, "error": err.Error()})
			continue
		}
		w.add("(CRDecorate "+coqOptStr(ok, k)+" "+coqStr(tok)+" (Some "+coqStr(string(d))+"))", map[string]interface{}{"kind": kind, "token": tok})
		if got := parseJWTCase(string(d)); got != tok {
			c.violation("C15: a decorated token does not parse back unchanged", map[string]interface{}{"kind": kind, "token": tok, "parsed": got})
		}
		// formatting is refused for non-user tokens
		useed, _ := kr.by["user"].kp.Seed()
		out, err := jwt.FormatUserConfig(tok, useed)
		isUser := kind == "user"
		if (err == nil) != isUser {
			c.violation("C15: FormatUserConfig accepts a non-user token or refuses a user token", map[string]interface{}{"kind": kind})
		}
		w.add("(CRFormat "+coqOptStr(ok, k)+" "+coqStr(tok)+" "+coqStr(string(useed))+" "+coqOptStr(err == nil, string(out))+")", map[string]interface{}{"kind": kind, "token": tok})
		distinct["decorate"+kind] = true
		c.count("decorated")
	}
	// tokens that are NOT user tokens but whose free-text kind looks like "user" (other case, long s, blanks): refused by
	// both libraries; and the bundled v1 library refuses every non-user kind too
	{
		useed, _ := kr.by["user"].kp.Seed()
		for _, ty := range []string{"USER", "User", "uSeR", "u\u017fer", "user ", " user", "users", "use", "u\u0073er\u200b"} {
			g1 := v1.NewGenericClaims(kr.by["account"].pub)
			g1.Type = v1.ClaimType(ty)
			t1, err := g1.Encode(kr.by["account"].kp)
			if err != nil {
				continue
			}
			c.sum.Evaluations++
			c.sum.ImplChecks++
			if out, err := v1.FormatUserConfig(t1, useed); err == nil {
				c.violation("C15: the bundled v1 FormatUserConfig accepts a token that is not a user token", map[string]interface{}{"kind_text": ty, "output": string(out)})
			}
			if out, err := jwt.FormatUserConfig(t1, useed); err == nil {
				c.violation("C15: FormatUserConfig accepts a (version-1) token that is not a user token", map[string]interface{}{"kind_text": ty, "output": string(out)})
			}
			g2 := jwt.NewGenericClaims(kr.by["account"].pub)
			g2.Data["type"] = ty
			if t2, err := g2.Encode(kr.by["account"].kp); err == nil {
				if out, err := jwt.FormatUserConfig(t2, useed); err == nil {
					c.violation("C15: FormatUserConfig accepts a generic token whose kind text resembles user", map[string]interface{}{"kind_text": ty, "output": string(out)})
				}
			}
			c.count("kind_text_resembling_user")
		}
		// ... and version-1 tokens that ARE user tokens although no UserClaims object wrote them: issued by an account key
		// through the generic claims with the kind set to user - formatted by both libraries, parsing back. (Tokens of
		// kind user issued by a key of another role, or whose members do not fit a user, are not user tokens for the
		// version-2 formatter, which reads them with the user decoder; whether the bundled version-1 formatter takes
		// them is not something the property settles, and nothing is asked of them here.)
		for _, srcForm := range []string{"", "v1 text"} {
			g1 := v1.NewGenericClaims(kr.by["user"].pub)
			g1.Type = v1.UserClaim
			if srcForm == "v1 text" {
				g1.Data["src"] = "192.0.2.0/24,10.0.0.0/8"
			}
			t1, err := g1.Encode(kr.by["account"].kp)
			if err != nil {
				continue
			}
			c.sum.Evaluations++
			c.sum.ImplChecks++
			inp := map[string]interface{}{"token": t1, "source_networks_spelled": srcForm}
			for lib, f := range map[string]func(string, []byte) ([]byte, error){"bundled v1": v1.FormatUserConfig, "v2": jwt.FormatUserConfig} {
				out, err := f(t1, useed)
				if err != nil {
					inp["library"], inp["error"] = lib, err.Error()
					c.violation("C15: FormatUserConfig refuses a (version-1) user token and a user seed", inp)
					continue
				}
				if got, perr := jwt.ParseDecoratedJWT(out); perr != nil || got != t1 {
					inp["library"] = lib
					c.violation("C15: the credentials file formatted for a (version-1) user token does not parse back to the token", inp)
				}
			}
			c.count("v1_user_token_from_generic_claims")
		}
		// decodable tokens whose free-text kind holds characters a formatter reads (%s, %d, %%, %!): decorated by both
		// libraries, the token parses back unchanged
		for _, ty := range []string{"discount-50%-off", "rate%step", "100%d", "%s", "%%", "%v%v", "a%!b(MISSING)", "%[1]s", "%", "line\nbreak", "-----", "dash-----kind"} {
			g1 := v1.NewGenericClaims(kr.by["account"].pub)
			g1.Type = v1.ClaimType(ty)
			t1, err := g1.Encode(kr.by["account"].kp)
			if err != nil {
				continue
			}
			g2 := jwt.NewGenericClaims(kr.by["account"].pub)
			g2.Data["type"] = ty
			t2, err2 := g2.Encode(kr.by["account"].kp)
			for lib, f := range map[string]func(string) ([]byte, error){"bundled v1": v1.DecorateJWT, "v2": jwt.DecorateJWT} {
				for which, tok := range map[string]string{"version-1 token": t1, "version-2 token": t2} {
					if which == "version-2 token" && (err2 != nil || lib == "bundled v1") {
						continue
					}
					out, derr := f(tok)
					c.sum.Evaluations++
					c.sum.ImplChecks++
					inp := map[string]interface{}{"kind_text": ty, "library": lib, "token_is_a": which, "token": tok}
					if derr != nil {
						continue // (whether a library decodes such a token at all is not this check's business)
					}
					if got, perr := jwt.ParseDecoratedJWT(out); perr != nil || got != tok {
						inp["decorated"], inp["parsed"] = string(out), got
						c.violation("C15: a decorated token whose kind text holds formatter characters does not parse back unchanged", inp)
					}
					c.count("decorated_kind_text_with_formatter_characters")
				}
			}
		}
		for kind, tok := range validV1Tokens(kr) {
			c.sum.ImplChecks++
			_, err := v1.FormatUserConfig(tok, useed)
			if (err == nil) != strings.Contains(kind, "user") {
				c.violation("C15: the bundled v1 FormatUserConfig accepts a non-user token or refuses a user token", map[string]interface{}{"kind": kind})
			}
		}
	}
	// outputs must stay what they were after later calls (no shared buffers): decorate everything first, parse afterwards
	type kept struct {
		tok  string
		text []byte
		copy string
	}
	var keep []kept
	for round := 0; round < 3; round++ {
		for _, kind := range vnamesSorted(valid) {
			tok := valid[kind]
			d, err := jwt.DecorateJWT(tok)
			if err == nil {
				keep = append(keep, kept{tok, d, string(d)})
			}
			if kind == "user" {
				useed, _ := kr.by["user"].kp.Seed()
				if f, err := jwt.FormatUserConfig(tok, useed); err == nil {
					keep = append(keep, kept{tok, f, string(f)})
				}
			}
		}
	}
	for _, k := range keep {
		c.sum.ImplChecks++
		got, _ := jwt.ParseDecoratedJWT(k.text)
		if string(k.text) != k.copy || got != k.tok {
			c.violation("C15: a decorated token / credentials text returned earlier changed after later calls (it no longer parses back to its token)",
				map[string]interface{}{"token": k.tok, "parsed": got, "text_changed": string(k.text) != k.copy})
			break
		}
	}
	// seeds of every role, with blanks; user-only parser
	utok := valid["user"]
	for _, role := range []string{"user", "account", "operator", "server", "cluster"} {
		kp := kr.by[role].kp
		seed, _ := kp.Seed()
		for _, pad := range []string{"", " ", "\n", "  \t"} {
			sd := pad + string(seed) + pad
			d, err := jwt.DecorateSeed([]byte(sd))
			c.sum.Evaluations++
			c.sum.ImplChecks++
			wantOK := role == "user" || role == "account" || role == "operator"
			if (err == nil) != wantOK {
				c.violation("C15: DecorateSeed accepts / refuses a seed against the rule (operator, account, user only)", map[string]interface{}{"role": role})
			}
			w.add("(CRSeed "+coqStr(sd)+" "+coqOptStr(err == nil, string(d))+")", map[string]interface{}{"role": role, "seed_padding": pad})
			out, err2 := jwt.FormatUserConfig(utok, []byte(sd))
			if (err2 == nil) != (role == "user") {
				c.violation("C15: FormatUserConfig accepts a non-user seed or refuses a user seed", map[string]interface{}{"role": role})
			}
			w.add("(CRFormat (Some \"user\") "+coqStr(utok)+" "+coqStr(sd)+" "+coqOptStr(err2 == nil, string(out))+")", map[string]interface{}{"role": role})
			if err == nil {
				parseSeedCase(string(d))
				_, e1 := jwt.ParseDecoratedNKey(d)
				_, e2 := jwt.ParseDecoratedUserNKey(d)
				if e1 != nil || (e2 == nil) != (role == "user") {
					c.violation("C15: the user-only key parser accepts an operator/account seed, or a decorated seed does not parse", map[string]interface{}{"role": role, "errors": fmt.Sprint(e1, e2)})
				}
			}
			distinct["seed"+role+pad] = true
		}
	}
	// adversarial texts: the real regexp against the model matcher
	nAdv := 400
	if c.thorough() {
		nAdv = 8000
	}
	frag := []string{"-----BEGIN NATS USER JWT-----", "------END NATS USER JWT------", "---", "----", "--", "-", "\n", "\r\n", "\r", " ", "\t", "abc", "a.b-c_d=", "SUAAAA", "SAXX", "SO", "*****", "tok en", "é", "x", ".", "=", "\x00", "---- x ---", "-----\n", "\n-----"}
	for i := 0; i < nAdv; i++ {
		var sb strings.Builder
		for k := 1 + c.Rng.Intn(12); k > 0; k-- {
			sb.WriteString(frag[c.Rng.Intn(len(frag))])
		}
		text := sb.String()
		parseJWTCase(text)
		parseSeedCase(text)
		c.sum.Evaluations++
		c.count("adversarial_text")
	}
	// three blocks, tokens full of dashes
	ukp, _ := nkeys.CreateUser()
	useed, _ := ukp.Seed()
	for _, text := range []string{
		"-----BEGIN A-----\ntok---en\n------END A------\n\n-----BEGIN B-----\n" + string(useed) + "\n------END B------\n\n-----BEGIN C-----\nthird\n------END C------\n",
		"---\na\n---",
		"---x---\na\n---y---\n---\nb\n---\n",
		"----- ---\n---\n-----\n",
	} {
		parseJWTCase(text)
		parseSeedCase(text)
		c.sum.Evaluations++
	}
	w.flush()
	c.sum.DistinctNontriv = len(distinct)
	c.sum.Rule = fmt.Sprintf("%d user tokens (short to ~3 KB, every base64url character class) with fresh user seeds: FormatUserConfig, then ParseDecoratedJWT / ParseDecoratedNKey / ParseDecoratedUserNKey on LF, CRLF, leading-blank, leading-space, truncated and trailing-blank renderings, key pair compared by seed and public key; DecorateJWT of every kind and parse back; bare tokens; seeds of five roles with blank padding through DecorateSeed, FormatUserConfig and both key parsers; %d adversarial texts (dash runs, CR/LF mixes, three blocks) through the real regexp versus the model matcher in Coq; non-trivial = distinct (rendering, token length class) / (role, padding) / kind", nUsers, nAdv)
}

// tokensSpelling signs user claims (differing in their name only) until, for each word, one token's text contains it,
// or the budget of signatures is spent; the work is spread over all cores
func tokensSpelling(s *signer, userPub string, words []string, budget int) []string {
	uc := jwt.NewUserClaims(userPub)
	uc.Name = "NAME-PLACEHOLDER"
	base, err := uc.Encode(s.kp)
	if err != nil {
		panic(err)
	}
	raw, _ := b64.DecodeString(strings.Split(base, ".")[1])
	parts := strings.SplitN(string(raw), "NAME-PLACEHOLDER", 2)
	h := b64.EncodeToString([]byte(hdrV2))
	workers := runtime.NumCPU()
	var mu sync.Mutex
	found := map[string]string{}
	var wg sync.WaitGroup
	for wk := 0; wk < workers; wk++ {
		wg.Add(1)
		go func(wk int) {
			defer wg.Done()
			for n := wk; n < budget; n += workers {
				if n%(workers*4096) == wk {
					mu.Lock()
					done := len(found) == len(words)
					mu.Unlock()
					if done {
						return
					}
				}
				text := h + "." + b64.EncodeToString([]byte(parts[0]+fmt.Sprintf("user %d", n)+parts[1]))
				sig, err := s.kp.Sign([]byte(text))
				if err != nil {
					return
				}
				es := b64.EncodeToString(sig)
				for _, w := range words {
					if strings.Contains(es, w) {
						mu.Lock()
						if _, have := found[w]; !have {
							found[w] = text + "." + es
						}
						mu.Unlock()
					}
				}
			}
		}(wk)
	}
	wg.Wait()
	var out []string
	for _, w := range words {
		if t, ok := found[w]; ok {
			if d, err := jwt.DecodeUserClaims(t); err == nil && d != nil {
				out = append(out, t)
			}
		}
	}
	return out
}
