package main

import (
	"encoding/json"
	"fmt"
	"reflect"
	"strings"

	v1 "github.com/nats-io/jwt/v2/v1compat"
	"github.com/nats-io/nkeys"
	"verifharness/schema"
)

func init() { drivers["C19"] = runC19 }

var v1Kinds = []string{"operator", "account", "user", "activation", "cluster", "server", "generic"}
var v1KindCoq = map[string]string{"operator": "V1Operator", "account": "V1Account", "user": "V1User", "activation": "V1Activation",
	"cluster": "V1Cluster", "server": "V1Server", "generic": "V1Generic"}

func v1New(kind string) v1.Claims {
	switch kind {
	case "operator":
		return &v1.OperatorClaims{}
	case "account":
		return &v1.AccountClaims{}
	case "user":
		return &v1.UserClaims{}
	case "activation":
		return &v1.ActivationClaims{}
	case "cluster":
		return &v1.ClusterClaims{}
	case "server":
		return &v1.ServerClaims{}
	}
	return &v1.GenericClaims{}
}

func v1DecodeAs(kind, tok string) (v1.Claims, error) {
	switch kind {
	case "operator":
		return v1.DecodeOperatorClaims(tok)
	case "account":
		return v1.DecodeAccountClaims(tok)
	case "user":
		return v1.DecodeUserClaims(tok)
	case "activation":
		return v1.DecodeActivationClaims(tok)
	case "cluster":
		return v1.DecodeClusterClaims(tok)
	case "server":
		return v1.DecodeServerClaims(tok)
	}
	return v1.DecodeGeneric(tok)
}

func v1SpecAllowed(kind, role string) bool {
	switch kind {
	case "operator":
		return role == "operator"
	case "account", "activation":
		return role == "account" || role == "operator"
	case "user":
		return role == "account"
	case "cluster", "server":
		return role == "operator" || role == "cluster"
	}
	return true
}

var v1SubjectRole = map[string]string{"operator": "operator", "account": "account", "user": "user", "activation": "account", "cluster": "cluster", "server": "server"}

func v1Random(g *valGen, kind string) (v1.Claims, *signer) {
	cl := v1New(kind)
	g.fillValue(reflect.ValueOf(cl).Elem())
	cd := cl.Claims()
	if r, ok := v1SubjectRole[kind]; ok {
		cd.Subject = g.kr.by[r].pub
	} else if cd.Subject == "" {
		cd.Subject = "s"
	}
	switch x := cl.(type) {
	case *v1.OperatorClaims:
		x.AccountServerURL = []string{"", "https://example.com/jwt/v1", "https://accounts.example.com:9090/jwt/v1?tenant=blue", "https://example.com/jwt/v1#operator"}[g.rng.Intn(4)]
	case *v1.AccountClaims:
		var ims v1.Imports
		for _, im := range x.Imports {
			if im != nil {
				ims = append(ims, im)
			}
		}
		x.Imports = ims
		var exs v1.Exports
		for _, ex := range x.Exports {
			if ex != nil {
				exs = append(exs, ex)
			}
		}
		x.Exports = exs
	}
	var roles []string
	for _, r := range []string{"operator", "account", "user", "server", "cluster"} {
		if v1SpecAllowed(kind, r) {
			roles = append(roles, r)
		}
	}
	sg := g.kr.by[roles[g.rng.Intn(len(roles))]]
	g.coincide(cl, sg.pub, cd.Subject)
	return cl, sg
}

func runC19(c *Ctx) {
	w := c.newCaseWriter("v1dec", "From JWT Require Import Model.V1.", "v1case", "v1case_ok")
	we := c.newCaseWriter("v1enc", "From JWT Require Import Model.V1.", "v1kind * bool * role * role * bool * bool", "v1ecase_ok")
	wc := c.newCaseWriter("v1codec", "From JWT Require Import Base.Codec Gen.Schema Model.Claims Base.CaseUtil.\nOpen Scope Z_scope.\nDefinition v1codec_ok (c : nat * val * json * val) : bool := let '(n, v, j, d) := c in let t := nth n [sch1_operator; sch1_account; sch1_user; sch1_activation; sch1_cluster; sch1_server; sch1_generic] (TBad \"\") in match enc t v with Some j' => json_eqb j' j | None => false end && match dec t j (zero_val t) with Some d' => obs_eqb d' d | None => false end.",
		"nat * val * json * val", "v1codec_ok")
	kr := newKeyring()
	g := &valGen{rng: c.Rng, kr: kr, fill: 50, wideInts: true}
	em := schema.NewEmitter(schemaV1Builder)
	distinct := map[string]bool{}
	perKind, perKindCoq := 300, 25
	if c.thorough() {
		perKind, perKindCoq = 5000, 200
	}
	process := func(tok, note string) {
		// facts
		chunks := strings.Split(tok, ".")
		hdr, payB64, sigOK, ver := "None", false, false, false
		iss := ""
		unm := map[string]bool{}
		if len(chunks) == 3 {
			if hj, err := b64.DecodeString(chunks[0]); err == nil {
				var h struct {
					Typ string `json:"typ"`
					Alg string `json:"alg"`
				}
				if json.Unmarshal(hj, &h) == nil {
					hdr = "(Some (Some (" + coqStr(h.Typ) + ", " + coqStr(h.Alg) + ")))"
				} else {
					hdr = "(Some None)"
				}
			}
			if data, err := b64.DecodeString(chunks[1]); err == nil {
				payB64 = true
				for _, k := range v1Kinds {
					t := v1New(k)
					unm[k] = json.Unmarshal(data, &t) == nil
				}
				var x struct {
					Iss string `json:"iss"`
				}
				if json.Unmarshal(data, &x) == nil {
					iss = x.Iss
				}
			}
			if sig, err := b64.DecodeString(chunks[2]); err == nil {
				sigOK = true
				ver = ownVerify(iss, chunks[1], sig)
			}
		}
		role, _ := ownRole(iss)
		var unmL, obsL []string
		for _, k := range v1Kinds {
			unmL = append(unmL, "("+v1KindCoq[k]+", "+coqBool(unm[k])+")")
			_, err := v1DecodeAs(k, tok)
			acc := err == nil
			obsL = append(obsL, "("+v1KindCoq[k]+", "+coqBool(acc)+")")
			c.sum.ImplChecks++
			if acc && (!ver || !v1SpecAllowed(k, role)) {
				c.violation("C19: the v1 decoder accepted a token whose signature does not verify over the payload or whose issuer role is not permitted",
					map[string]interface{}{"token": tok, "decoder": k, "issuer_role": role, "signature_valid": ver, "note": note})
			}
			if acc {
				c.count("accepted")
			} else {
				c.count("rejected")
			}
		}
		c.sum.Evaluations++
		w.add(fmt.Sprintf("{| v1_tok := %s; v1_hdr := %s; v1_pay_b64 := %s; v1_unm := %s; v1_sig := %s; v1_ver := %s; v1_role := %s; v1_obs := %s |}",
			coqStr(surrogate(tok)), hdr, coqBool(payB64), coqList(unmL), coqBool(sigOK), coqBool(ver), roleCoq(role), coqList(obsL)),
			map[string]interface{}{"token": tok, "note": note})
	}
	for ki, kind := range v1Kinds {
		ty := schemaV1Builder.Of(reflect.TypeOf(v1New(kind)).Elem())
		for i := 0; i < perKind; i++ {
			g.fill = []int{15, 50, 90}[i%3]
			cl, s := v1Random(g, kind)
			tok, err := cl.Encode(s.kp)
			c.sum.Evaluations++
			if err != nil {
				c.count("v1_encode_error")
				continue
			}
			inp := map[string]interface{}{"kind": kind, "signer_role": s.role, "token": tok}
			d, err := v1DecodeAs(kind, tok)
			c.sum.ImplChecks++
			if err != nil {
				inp["error"] = err.Error()
				c.violation("C19: the v1 decoder refuses a token its own encoder produced", inp)
				continue
			}
			want, got := canonString(reflect.ValueOf(cl).Elem()), canonString(reflect.ValueOf(d).Elem())
			if want != got {
				inp["diff"] = firstDiff(want, got)
				c.violation("C19: v1 decode does not preserve all fields", inp)
				continue
			}
			distinct[got] = true
			c.count("v1_roundtrip_" + kind)
			if i < perKindCoq {
				raw, _ := b64.DecodeString(strings.Split(tok, ".")[1])
				wc.add(fmt.Sprintf("(%d%%nat, %s, %s, %s)", ki, em.Val(ty, reflect.ValueOf(cl).Elem()), schema.JSONTerm(raw), em.Val(ty, reflect.ValueOf(d).Elem())), inp)
			}
			if i < 12 || (c.thorough() && i < 60) {
				process(tok, "valid "+kind)
				// single-character edits of payload and signature
				ch := strings.Split(tok, ".")
				// other base64 spellings of the same bytes (unused low bits of a final character, CR / LF anywhere):
				// the decoded payload is the same, the signed text is not
				for seg := 1; seg <= 2; seg++ {
					var variants []string
					if L := len(ch[seg]); L > 0 && L%4 != 0 {
						for _, a := range "ABCDEFGHIJKLMNOPQRSTUVWXYZabcdefghijklmnopqrstuvwxyz0123456789-_" {
							if byte(a) != ch[seg][L-1] {
								variants = append(variants, ch[seg][:L-1]+string(a))
							}
						}
					}
					p := g.rng.Intn(len(ch[seg]) + 1)
					variants = append(variants, ch[seg][:p]+"\n"+ch[seg][p:], ch[seg]+"\r\n", "\r"+ch[seg])
					for _, v := range variants {
						cc := append([]string{}, ch...)
						cc[seg] = v
						process(strings.Join(cc, "."), fmt.Sprintf("other base64 spelling of segment %d of %s", seg, kind))
					}
				}
				for e := 0; e < 6; e++ {
					seg := 1 + e%2
					pos := g.rng.Intn(len(ch[seg]))
					x := []byte(ch[seg])
					repl := "ABab01-_"[g.rng.Intn(8)]
					if x[pos] == repl {
						continue
					}
					x[pos] = repl
					cc := append([]string{}, ch...)
					cc[seg] = string(x)
					m := strings.Join(cc, ".")
					process(m, fmt.Sprintf("edit segment %d of %s", seg, kind))
					if _, err := v1DecodeAs(kind, m); err == nil {
						// accepted only if the decoded content is unchanged
						d2, _ := v1DecodeAs(kind, m)
						c.sum.ImplChecks++
						if canonString(reflect.ValueOf(d2).Elem()) != got {
							c.violation("C19: an altered v1 token is accepted with different content", map[string]interface{}{"original": tok, "token": m})
						}
					}
				}
				// the version-2 algorithm name in the header
				h2 := b64.EncodeToString([]byte(`{"typ":"jwt","alg":"ed25519-nkey"}`))
				process(h2+"."+ch[1]+"."+ch[2], "v2 algorithm name")
				c.sum.ImplChecks++
				if _, err := v1DecodeAs(kind, h2+"."+ch[1]+"."+ch[2]); err == nil {
					c.violation("C19: the v1 decoder accepted a token written with the version-2 algorithm name", map[string]interface{}{"token": h2 + "." + ch[1] + "." + ch[2]})
				}
			}
		}
		// forged tokens with every issuer role
		for _, ir := range allRoles {
			s := kr.by[ir]
			p := payload(kind, "top", nil, s.pub, kr.by["account"].pub)
			ft := forge(hdrV1, p, "v1", s)
			process(ft.Token, fmt.Sprintf("forged %s issued by %s", kind, ir))
			distinct[fmt.Sprint("forged", kind, ir)] = true
		}
		// ... and with issuers that are well-formed nkeys of no public role (private-key, seed, unknown and unassigned
		// prefixes around a true Ed25519 public key), correctly signed by the matching private key
		for _, s := range nonPublicSigners(kr.by["account"]) {
			p := payload(kind, "top", nil, s.pub, kr.by["account"].pub)
			ft := forge(hdrV1, p, "v1", s)
			process(ft.Token, fmt.Sprintf("forged %s issued by a key with the %s", kind, s.role))
			distinct[fmt.Sprint("forged", kind, s.role)] = true
		}
	}
	// revocation lists with a revoke-all entry among older and newer per-key entries (account level and export level): every
	// entry the object holds is in the token and comes back - which entries still matter is the reader's business
	for _, revs := range []map[string]int64{{"*": 1600000000, "UOLD": 1500000000, "UNEW": 1700000000}, {"*": 5, "UA": 5, "UB": 4}, {"*": 1}, {"UA": 1, "UB": 2}} {
		x := v1.NewAccountClaims(kr.by["account"].pub)
		x.Revocations = v1.RevocationList{}
		ex := &v1.Export{Subject: "rev.x", Type: v1.Stream, Revocations: v1.RevocationList{}}
		for k, t := range revs {
			x.Revocations[k] = t
			ex.Revocations[k] = t + 1
		}
		x.Exports.Add(ex)
		tok, err := x.Encode(kr.by["operator"].kp)
		c.sum.Evaluations++
		c.sum.ImplChecks++
		if err != nil {
			continue
		}
		d, derr := v1.DecodeAccountClaims(tok)
		inp := map[string]interface{}{"kind": "account", "token": tok, "revocations": revs}
		if derr != nil {
			inp["error"] = derr.Error()
			c.violation("C19: the v1 decoder refuses a token its own encoder produced", inp)
			continue
		}
		if want, got := canonString(reflect.ValueOf(x).Elem()), canonString(reflect.ValueOf(d).Elem()); want != got {
			inp["diff"] = firstDiff(want, got)
			c.violation("C19: v1 decode does not preserve all fields", inp)
		}
		c.count("v1_revocations_with_wildcard")
	}
	// values the version-1 encoder has no spelling for (an export / import kind that is neither stream nor service):
	// Encode may refuse them - it must not write a token that its own decoder then refuses
	for _, bad := range []int{3, 7, -1, 255, 1 << 20} {
		for _, where := range []string{"account export", "account import", "activation"} {
			var cl v1.Claims
			var kp *signer
			kind := "account"
			switch where {
			case "account export":
				x := v1.NewAccountClaims(kr.by["account"].pub)
				x.Exports.Add(&v1.Export{Subject: "bad.kind", Type: v1.ExportType(bad)}, &v1.Export{Subject: "good.kind", Type: v1.Stream})
				cl, kp = x, kr.by["operator"]
			case "account import":
				x := v1.NewAccountClaims(kr.by["account"].pub)
				x.Imports.Add(&v1.Import{Subject: "bad.kind", Account: kr.by["account"].pub, Type: v1.ExportType(bad)})
				cl, kp = x, kr.by["operator"]
			default:
				x := v1.NewActivationClaims(kr.by["account"].pub)
				x.ImportSubject, x.ImportType = "bad.kind", v1.ExportType(bad)
				cl, kp, kind = x, kr.by["account"], "activation"
			}
			tok, err := cl.Encode(kp.kp)
			c.sum.Evaluations++
			c.sum.ImplChecks++
			inp := map[string]interface{}{"kind": kind, "where": where, "export_kind_value": bad, "token": tok}
			switch {
			case err != nil && tok != "":
				c.violation("C19: a failed v1 Encode returned a non-empty token", inp)
			case err == nil:
				if _, derr := v1DecodeAs(kind, tok); derr != nil {
					inp["error"] = derr.Error()
					c.violation("C19: the v1 decoder refuses a token its own encoder produced", inp)
				}
			}
			c.count("v1_value_without_a_spelling")
		}
	}
	// Encode side
	signers := map[string]nkeys.KeyPair{}
	for _, r := range []string{"operator", "account", "user", "server", "cluster"} {
		signers[r] = kr.by[r].kp
	}
	subjects := map[string]string{"none": "not-a-key", "empty": ""}
	for _, r := range []string{"operator", "account", "user", "server", "cluster"} {
		subjects[r] = kr.by[r].pub
	}
	for _, kind := range v1Kinds {
		for sr, sub := range subjects {
			for krn, kp := range signers {
				cl := v1New(kind)
				cl.Claims().Subject = sub
				tok, err := cl.Encode(kp)
				ok := err == nil
				c.sum.Evaluations++
				c.sum.ImplChecks++
				subRole := sr
				if sr == "empty" {
					subRole = "none"
				}
				want, hasRule := v1SubjectRole[kind]
				if ok && (!v1SpecAllowed(kind, krn) || (hasRule && subRole != want) || sub == "") {
					c.violation("C19: v1 Encode succeeded with a signer or subject of a role not permitted for the kind", map[string]interface{}{"kind": kind, "subject_role": sr, "signer_role": krn})
				}
				if !ok && tok != "" {
					c.violation("C19: a failed v1 Encode returned a token", map[string]interface{}{"kind": kind})
				}
				we.add(fmt.Sprintf("(%s, %s, %s, %s, true, %s)", v1KindCoq[kind], coqBool(sub == ""), roleCoq(subRole), roleCoq(krn), coqBool(ok)),
					map[string]interface{}{"kind": kind, "subject_role": sr, "signer_role": krn})
			}
		}
	}
	w.flush()
	we.flush()
	wc.flush()
	c.sum.DistinctNontriv = len(distinct)
	c.sum.Rule = fmt.Sprintf("random v1compat claims of the 7 kinds (by reflection), every permitted signer role, %d per kind: v1 Encode -> v1 Decode compared field by field (and enc tree / dec value against the Coq codec model for the first %d); single-character edits of payload and signature, the version-2 algorithm name, forged tokens with every issuer role, through all 7 v1 decoders with independently computed Ed25519 verdicts; the v1 Encode role matrix; non-trivial = distinct decoded content / forged (kind, role)", perKind, perKindCoq)
}
