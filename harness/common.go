package main

import (
	"encoding/json"
	"fmt"
	"math/rand"
	"os"
	"path/filepath"
	"sort"
	"strings"
)

// Ctx is what every property driver gets: tier, one PRNG, the output directory.
type Ctx struct {
	Prop       string
	Tier       string
	Seed       int64
	Out        string
	Rng        *rand.Rand
	Shards     int
	ReplayFile string

	sum Summary
}

// Violation is a concrete input on which the implementation disagrees with the
// property's specification oracle (not merely with the model).
type Violation struct {
	What  string      `json:"what"`
	Input interface{} `json:"input"`
}

// Summary is written to <out>/summary.json and read by check.py.
type Summary struct {
	Property          string                 `json:"property"`
	Tier              string                 `json:"tier"`
	Seed              int64                  `json:"seed"`
	Evaluations       int                    `json:"evaluations"`
	DistinctNontriv   int                    `json:"distinct_nontrivial"`
	Rule              string                 `json:"rule"`
	Exhaustive        bool                   `json:"exhaustive"`
	Samples           []interface{}          `json:"samples"`
	Distribution      map[string]int         `json:"distribution"`
	SpecViolations    []Violation            `json:"spec_violations"`
	CaseFiles         []string               `json:"case_files"`
	CaseIndex         map[string]interface{} `json:"case_index"` // case id -> input, for replay of model mismatches
	ImplChecks        int                    `json:"impl_spec_checks"`
	Notes             []string               `json:"notes"`
	ModelCasesEmitted int                    `json:"model_cases_emitted"`
}

func newCtx(prop, tier string, seed int64, out string) *Ctx {
	c := &Ctx{Prop: prop, Tier: tier, Seed: seed, Out: out, Rng: rand.New(rand.NewSource(seed)), Shards: 16}
	c.sum.Property = prop
	c.sum.Tier = tier
	c.sum.Seed = seed
	c.sum.Distribution = map[string]int{}
	c.sum.CaseIndex = map[string]interface{}{}
	return c
}

func (c *Ctx) thorough() bool { return c.Tier == "thorough" }

func (c *Ctx) count(key string) { c.sum.Distribution[key]++ }

func (c *Ctx) violation(what string, input interface{}) {
	if len(c.sum.SpecViolations) < 200 {
		c.sum.SpecViolations = append(c.sum.SpecViolations, Violation{What: what, Input: input})
	}
}

func (c *Ctx) sample(x interface{}) {
	if len(c.sum.Samples) < 6 {
		c.sum.Samples = append(c.sum.Samples, x)
	}
}

func (c *Ctx) finish() {
	b, err := json.MarshalIndent(&c.sum, "", " ")
	if err != nil {
		panic(err)
	}
	if err := os.WriteFile(filepath.Join(c.Out, "summary.json"), b, 0o644); err != nil {
		panic(err)
	}
}

// ---------- Coq term emission ----------

// coqStr renders a byte string as a Coq term of type string.
func coqStr(s string) string {
	plain := true
	for i := 0; i < len(s); i++ {
		b := s[i]
		if b < 32 && b != '\n' && b != '\t' || b >= 127 {
			plain = false
			break
		}
	}
	if plain {
		return "\"" + strings.ReplaceAll(s, "\"", "\"\"") + "\""
	}
	var sb strings.Builder
	sb.WriteString("(bs [")
	for i := 0; i < len(s); i++ {
		if i > 0 {
			sb.WriteString(";")
		}
		fmt.Fprintf(&sb, "%d", s[i])
	}
	sb.WriteString("]%nat)")
	return sb.String()
}

func coqBool(b bool) string {
	if b {
		return "true"
	}
	return "false"
}

func coqZ(z int64) string {
	if z < 0 {
		return fmt.Sprintf("(%d)%%Z", z)
	}
	return fmt.Sprintf("%d%%Z", z)
}

func coqList(items []string) string {
	return "[" + strings.Join(items, "; ") + "]"
}

func coqStrList(l []string) string {
	it := make([]string, len(l))
	for i, s := range l {
		it[i] = coqStr(s)
	}
	return coqList(it)
}

func coqOpt(present bool, v string) string {
	if !present {
		return "None"
	}
	return "(Some " + v + ")"
}

// CaseWriter spreads cases (Coq terms of one type) over shard files. Every
// shard is a standalone .v file that prints the list of ids of failing cases.
type CaseWriter struct {
	ctx      *Ctx
	name     string // e.g. "c16"
	requires string // e.g. "From JWT Require Import Model.Subject."
	ty       string // Coq type of one case
	okfn     string // Coq function case -> bool
	shards   [][]string
	n        int
}

func (c *Ctx) newCaseWriter(name, requires, ty, okfn string) *CaseWriter {
	return &CaseWriter{ctx: c, name: name, requires: requires, ty: ty, okfn: okfn, shards: make([][]string, c.Shards)}
}

// add registers a case; id is the key under which the input is kept for replay.
func (w *CaseWriter) add(term string, input interface{}) int {
	id := w.n
	w.n++
	sh := id % len(w.shards)
	w.shards[sh] = append(w.shards[sh], fmt.Sprintf("(%d%%N, %s)", id, term))
	if input != nil {
		w.ctx.sum.CaseIndex[fmt.Sprintf("%s:%d", w.name, id)] = input
	}
	return id
}

func (w *CaseWriter) flush() {
	// at most maxPerFile cases per file: coqc's memory grows with the size of the literal list (thorough runs emit
	// hundreds of thousands of cases)
	const maxPerFile = 2500
	var files [][]string
	for _, sh := range w.shards {
		for len(sh) > maxPerFile {
			files = append(files, sh[:maxPerFile])
			sh = sh[maxPerFile:]
		}
		files = append(files, sh)
	}
	for i, sh := range files {
		if len(sh) == 0 {
			continue
		}
		fn := fmt.Sprintf("cases_%s_%s_%02d.v", w.ctx.Prop, w.name, i)
		var sb strings.Builder
		sb.WriteString("(* generated by the correspondence harness; do not edit *)\n")
		sb.WriteString(w.requires + "\n")
		sb.WriteString("From JWT Require Import Base.CaseUtil.\n")
		sb.WriteString("Open Scope string_scope.\n")
		fmt.Fprintf(&sb, "Definition cases : list (N * (%s)) := [\n", w.ty)
		sb.WriteString(strings.Join(sh, ";\n"))
		sb.WriteString("\n].\n")
		fmt.Fprintf(&sb, "Definition bad := Eval vm_compute in failing (%s) cases.\n", w.okfn)
		sb.WriteString("Print bad.\n")
		if err := os.WriteFile(filepath.Join(w.ctx.Out, fn), []byte(sb.String()), 0o644); err != nil {
			panic(err)
		}
		w.ctx.sum.CaseFiles = append(w.ctx.sum.CaseFiles, fn)
	}
	w.ctx.sum.ModelCasesEmitted += w.n
}

func sortedKeys(m map[string]int) []string {
	ks := make([]string, 0, len(m))
	for k := range m {
		ks = append(ks, k)
	}
	sort.Strings(ks)
	return ks
}
