package main

import (
	"crypto/sha256"
	"encoding/binary"
	"encoding/json"
	"fmt"
	"reflect"
	"runtime"
	"sort"
	"strings"
	"sync"
	"time"

	jwt "github.com/nats-io/jwt/v2"
	v1 "github.com/nats-io/jwt/v2/v1compat"
	"github.com/nats-io/nkeys"
	"verifharness/schema"
)

func init() {
	drivers["C13"] = runC13
	drivers["C14"] = runC14
}

// ---------------------------------------------------------------- C13

type kvAny struct {
	k string
	v interface{}
}

func permute(r interface{ Intn(int) int }, n int) []int {
	p := make([]int, n)
	for i := range p {
		p[i] = i
	}
	for i := n - 1; i > 0; i-- {
		j := r.Intn(i + 1)
		p[i], p[j] = p[j], p[i]
	}
	return p
}

func runC13(c *Ctx) {
	w := c.newCaseWriter("codec", "From JWT Require Import Model.Claims.\nOpen Scope Z_scope.", "ckind * val * json * val", "ccase_ok")
	kr := newKeyring()
	contents, orders, repeats := 40, 6, 8
	if c.thorough() {
		contents, orders, repeats = 600, 12, 50
	}
	distinct := map[string]bool{}
	em, ty, elem := emitterFor("account")
	emg, tyg, elemg := emitterFor("generic")
	for n := 0; n < contents; n++ {
		// one content: lists of entries for every unordered collection
		nk := 2 + c.Rng.Intn(5)
		type skEntry struct {
			key   string
			scope *jwt.UserScope
		}
		var sks []skEntry
		for i := 0; i < nk; i++ {
			e := skEntry{key: newSigner("account").pub}
			if c.Rng.Intn(2) == 0 {
				us := jwt.NewUserScope()
				us.Key, us.Role, us.Description = e.key, fmt.Sprintf("role%d", i), "d"
				us.Template.Subs = int64(c.Rng.Intn(100)) + 1
				us.Template.Pub.Allow.Add("a.>", "b")
				e.scope = us
			}
			sks = append(sks, e)
		}
		var revs, tiers, maps, exrevs, data []kvAny
		for i := 0; i < 2+c.Rng.Intn(5); i++ {
			revs = append(revs, kvAny{fmt.Sprintf("UREV%d%s", i, strings.Repeat("x", c.Rng.Intn(3))), int64(1000 + c.Rng.Intn(1000))})
			tiers = append(tiers, kvAny{fmt.Sprintf("R%d", i), jwt.JetStreamLimits{DiskStorage: int64(c.Rng.Intn(100)), Streams: int64(i)}})
			maps = append(maps, kvAny{fmt.Sprintf("m%d.%d", c.Rng.Intn(3), i), []jwt.WeightedMapping{{Subject: jwt.Subject(fmt.Sprintf("t%d", i)), Weight: uint8(1 + c.Rng.Intn(99))}}})
			exrevs = append(exrevs, kvAny{fmt.Sprintf("AREV%d", i), int64(c.Rng.Intn(5000))})
			data = append(data, kvAny{fmt.Sprintf("k%d%s", i, []string{"", "Z", "a"}[c.Rng.Intn(3)]), []interface{}{"s", float64(i), map[string]interface{}{"z": 1.0, "a": "b", "m": nil}}[c.Rng.Intn(3)]})
		}
		// keys that differ only in letter case are different keys (tier names, mapping sources, data members)
		if c.Rng.Intn(2) == 0 {
			tiers = append(tiers, kvAny{"gold", jwt.JetStreamLimits{DiskStorage: 1}}, kvAny{"GOLD", jwt.JetStreamLimits{DiskStorage: 2}}, kvAny{"Gold", jwt.JetStreamLimits{Streams: 3}})
			maps = append(maps, kvAny{"Case.m", []jwt.WeightedMapping{{Subject: "t.a", Weight: 10}}}, kvAny{"case.m", []jwt.WeightedMapping{{Subject: "t.b", Weight: 20}}})
			data = append(data, kvAny{"Key", "upper"}, kvAny{"key", "lower"})
			revs = append(revs, kvAny{"uabc", int64(1100)}, kvAny{"UABC", int64(1200)})
		}
		// a revoke-all entry among the per-key ones, some of them older, some newer: the order in which
		// revocations are entered is not content
		if c.Rng.Intn(2) == 0 {
			revs = append(revs, kvAny{"*", int64(1500)})
			exrevs = append(exrevs, kvAny{"*", int64(2500)})
		}
		acctKp := kr.by["account"]
		opKp := kr.by["operator"]
		buildOp := func() *jwt.OperatorClaims {
			oc := jwt.NewOperatorClaims(opKp.pub)
			oc.AccountServerURL = []string{"https://host:9090/jwt/v1//", "https://host/a/b///", "https://host:9090/jwt/v1", "HTTPS://Host/x/?q=1#f"}[n%4]
			oc.OperatorServiceURLs.Add("nats://localhost:4222", "tls://h:4443")
			oc.SystemAccount = acctKp.pub
			oc.AssertServerVersion = "2.9.1"
			oc.Tags.Add("t1", "t0", "t2")
			oc.SigningKeys.Add(opKp.pub)
			oc.Name, oc.Expires, oc.Audience = fmt.Sprintf("content %d", n), 4102444800+int64(n), "aud"
			if c.Rng.Intn(2) == 0 {
				oc.Encode(opKp.kp) // encoded before: how the object came to its content is not content
			}
			return oc
		}
		build := func() (*jwt.AccountClaims, *jwt.GenericClaims) {
			ac := jwt.NewAccountClaims(acctKp.pub)
			ac.Limits.JetStreamTieredLimits = jwt.JetStreamTieredLimits{}
			ex := &jwt.Export{Subject: "ex.>", Type: jwt.Stream}
			ac.Exports.Add(ex)
			// list entries that the subject ordering of Encode cannot tell apart (same subject, other kind), in one
			// fixed order: encoding one object repeatedly must not shuffle them
			ac.Exports.Add(&jwt.Export{Subject: "same.subject", Type: jwt.Stream}, &jwt.Export{Subject: "same.subject", Type: jwt.Service},
				&jwt.Export{Name: "third", Subject: "same.subject", Type: jwt.Service, ResponseType: jwt.ResponseTypeStream})
			ac.Imports.Add(&jwt.Import{Subject: "same.import", Account: acctKp.pub, Type: jwt.Stream, LocalSubject: "l1"},
				&jwt.Import{Subject: "same.import", Account: acctKp.pub, Type: jwt.Service, LocalSubject: "l2"})
			var filed []*jwt.UserScope
			for _, i := range permute(c.Rng, len(sks)) {
				if sks[i].scope != nil {
					cp := *sks[i].scope
					// (by value or by pointer: how a scope is held is not content - decided afresh in every build, except
					// in the contents whose scopes are edited after filing, below)
					if (n%4 < 2 && c.Rng.Intn(2) == 0) || (n%4 == 2 && n%3 == 1 && len(sks[i].key)%2 == 0) {
						ac.SigningKeys.AddScopedSigner(cp) // held by value
					} else {
						ac.SigningKeys.AddScopedSigner(&cp)
						filed = append(filed, &cp)
					}
				} else {
					ac.SigningKeys.Add(sks[i].key)
				}
			}
			// scopes edited after they were filed: the two with the smallest keys exchange their Key fields (the set still
			// files each under the key it was added with) - the same edit in every build, so the content stays equal
			if n%4 == 2 && len(filed) >= 2 {
				sort.Slice(filed, func(i, j int) bool { return filed[i].Key < filed[j].Key })
				filed[0].Key, filed[1].Key = filed[1].Key, filed[0].Key
			}
			// ... or the scope with the smallest key is re-keyed to a PLAIN key of the same set (two entries of the set then write
			// the same key into the token): the same edit in every build
			if n%4 == 3 && len(filed) >= 1 {
				plain := ""
				for _, e := range sks {
					if e.scope == nil && (plain == "" || e.key < plain) {
						plain = e.key
					}
				}
				if plain != "" {
					sort.Slice(filed, func(i, j int) bool { return filed[i].Key < filed[j].Key })
					filed[0].Key = plain
				}
			}
			for _, i := range permute(c.Rng, len(revs)) {
				ac.RevokeAt(revs[i].k, time.Unix(revs[i].v.(int64), 0))
			}
			for _, i := range permute(c.Rng, len(tiers)) {
				ac.Limits.JetStreamTieredLimits[tiers[i].k] = tiers[i].v.(jwt.JetStreamLimits)
			}
			for _, i := range permute(c.Rng, len(maps)) {
				ac.AddMapping(jwt.Subject(maps[i].k), maps[i].v.([]jwt.WeightedMapping)...)
			}
			for _, i := range permute(c.Rng, len(exrevs)) {
				ex.RevokeAt(exrevs[i].k, time.Unix(exrevs[i].v.(int64), 0))
			}
			gc := jwt.NewGenericClaims("subject")
			for _, i := range permute(c.Rng, len(data)) {
				gc.Data[data[i].k] = data[i].v
			}
			// ordered lists that were filled directly (not through Add) and hold an entry twice, in one fixed order: the
			// order of a list is content and encoding must keep it, repeated entries included
			if n%2 == 0 {
				ac.Tags = jwt.TagList{"alpha", "beta", "gamma", "alpha", "delta", "epsilon", "beta"}
				ac.DefaultPermissions.Pub.Allow = jwt.StringList{"p.x", "p.y", "p.x", "p.z", "p.y"}
				ac.DefaultPermissions.Sub.Deny = jwt.StringList{"s.1", "s.1", "s.2", "s.3"}
				ac.Authorization.AuthUsers = jwt.StringList{kr.by["user"].pub, kr.by["user"].pub}
			}
			// how the object came to its content is not content: some builds have been encoded before (same key, same
			// second, or another key) with OTHER standard fields and carry the stamps of that encoding
			for _, cd := range []*jwt.ClaimsData{&ac.ClaimsData, &gc.ClaimsData} {
				switch c.Rng.Intn(4) {
				case 0:
					cd.Name, cd.Expires, cd.Audience, cd.NotBefore = "earlier name", 4102444800, "earlier", 5
					if cd == &ac.ClaimsData {
						ac.Encode(acctKp.kp)
					} else {
						gc.Encode(acctKp.kp)
					}
				case 1:
					cd.Name = "earlier name"
					if cd == &ac.ClaimsData {
						ac.Encode(kr.by["operator"].kp)
					} else {
						gc.Encode(kr.by["operator"].kp)
					}
				case 2:
					cd.ID, cd.IssuedAt, cd.Issuer = "STALEID", 12345, "someone"
				}
				cd.Name, cd.Expires, cd.Audience, cd.NotBefore = fmt.Sprintf("content %d", n), 4102444800+int64(n), "aud", int64(n%3)
			}
			return ac, gc
		}
		// user and activation claims: the issuer account names nobody, the very account whose key signs, or another
		// account; some builds were encoded before (and carry that encoding's issuer), some come back from a token
		otherAcct := kr.by["operator"].pub
		otherAcct0 := newSigner("account").pub
		buildUA := func() (*jwt.UserClaims, *jwt.ActivationClaims) {
			uc := jwt.NewUserClaims(kr.by["user"].pub)
			uc.IssuerAccount = []string{"", acctKp.pub, otherAcct, acctKp.pub}[n%4]
			uc.Pub.Allow.Add("u.a", "u.b.>")
			uc.Sub.Deny.Add("u.c")
			uc.Tags.Add("ut1", "ut0")
			uc.Src.Set("192.0.2.0/24,198.51.100.7/32")
			uc.Times = []jwt.TimeRange{{Start: "08:00:00", End: "17:00:00"}}
			uc.Locale = "Europe/Berlin"
			uc.BearerToken = n%2 == 0
			uc.Name, uc.Expires, uc.Audience = fmt.Sprintf("content %d", n), 4102444800+int64(n), "aud"
			act := jwt.NewActivationClaims(acctKp.pub)
			act.IssuerAccount = []string{acctKp.pub, "", otherAcct, acctKp.pub}[n%4]
			act.ImportSubject, act.ImportType = "act.>", jwt.Stream
			act.Tags.Add("at1", "at0")
			act.Name, act.Expires, act.Audience = fmt.Sprintf("content %d", n), 4102444800+int64(n), "aud"
			switch c.Rng.Intn(3) {
			case 0:
				uc.Encode(acctKp.kp)
				act.Encode(acctKp.kp)
			case 1:
				if t, err := uc.Encode(acctKp.kp); err == nil {
					if d, err := jwt.DecodeUserClaims(t); err == nil {
						uc = d
					}
				}
				if t, err := act.Encode(acctKp.kp); err == nil {
					if d, err := jwt.DecodeActivationClaims(t); err == nil {
						act = d
					}
				}
			}
			return uc, act
		}
		// an account that comes out of the MIGRATION of a version-1 token (it still reports version 1 until it is encoded):
		// service imports delivered on another subject (the deprecated To), stream imports, exports - encoded again and
		// again it gives one token, the same as a freshly migrated copy gives
		buildMig := func() *jwt.AccountClaims {
			x := v1.NewAccountClaims(acctKp.pub)
			x.Imports.Add(&v1.Import{Subject: "a.requests", To: "z.remote.service", Account: otherAcct0, Type: v1.Service},
				&v1.Import{Subject: "m.events", Account: otherAcct0, Type: v1.Stream},
				&v1.Import{Subject: "b.requests", To: "c.local", Account: otherAcct0, Type: v1.Service},
				&v1.Import{Subject: "zz.last", To: "aa.first", Account: otherAcct0, Type: v1.Stream})
			x.Exports.Add(&v1.Export{Subject: "y.out", Type: v1.Stream}, &v1.Export{Subject: "b.svc", Type: v1.Service})
			x.Name, x.Expires, x.Audience = fmt.Sprintf("content %d", n), 4102444800+int64(n), "aud"
			t1, err := x.Encode(acctKp.kp)
			if err != nil {
				panic(err)
			}
			d, err := jwt.DecodeAccountClaims(t1)
			if err != nil {
				panic(err)
			}
			return d
		}
		tokens := map[string][]string{}
		iats := map[string]int64{}
		for o := 0; o < orders; o++ {
			ac, gc := build()
			oc := buildOp()
			uc, act := buildUA()
			mig := buildMig()
			for r := 0; r < repeats; r++ {
				for name, cl := range map[string]jwt.Claims{"account": ac, "generic": gc, "operator": oc, "user": uc, "activation": act, "migrated account": mig} {
					kp := acctKp.kp
					if name == "operator" {
						kp = opKp.kp
					}
					tok, err := cl.Encode(kp)
					if err != nil {
						panic(err)
					}
					c.sum.Evaluations++
					iat := cl.Claims().IssuedAt
					key := fmt.Sprintf("%s@%d", name, iat)
					tokens[key] = append(tokens[key], tok)
					iats[key] = iat
				}
			}
			if o == 0 && n < 12 {
				tok, _ := ac.Encode(acctKp.kp)
				d, err := jwt.Decode(tok)
				if err == nil {
					raw, _ := b64.DecodeString(strings.Split(tok, ".")[1])
					w.add(fmt.Sprintf("(KAccount, %s, %s, %s)", em.Val(ty, elem(ac)), schema.JSONTerm(raw), em.Val(ty, elem(d))), map[string]interface{}{"token": tok})
				}
				tok, _ = gc.Encode(acctKp.kp)
				d, err = jwt.Decode(tok)
				if err == nil {
					raw, _ := b64.DecodeString(strings.Split(tok, ".")[1])
					w.add(fmt.Sprintf("(KGeneric, %s, %s, %s)", emg.Val(tyg, elemg(gc)), schema.JSONTerm(raw), emg.Val(tyg, elemg(d))), map[string]interface{}{"token": tok})
				}
			}
		}
		for key, toks := range tokens {
			c.sum.ImplChecks++
			for _, t := range toks[1:] {
				if t != toks[0] {
					a, _ := b64.DecodeString(strings.Split(toks[0], ".")[1])
					b, _ := b64.DecodeString(strings.Split(t, ".")[1])
					c.violation("C13: equal content encoded with the same key in the same second gives different tokens",
						map[string]interface{}{"what": key, "payload_a": string(a), "payload_b": string(b), "signing_keys": nk})
					break
				}
			}
			distinct[toks[0]] = true
			c.count(fmt.Sprintf("group_of_%d", len(toks)/10*10))
		}
		if n%9 == 0 {
			c.sample(map[string]interface{}{"signing_keys": nk, "revocations": len(revs), "tiers": len(tiers), "mappings": len(maps), "groups": len(tokens)})
		}
	}
	// SEVERAL callers encoding at once (each its own object, large enough that encoding takes a while): what a caller gets
	// is what its object gives when encoded alone - the tokens of one second are one token, and its id is the hash of
	// that object's own standard fields
	{
		workers, reps := 64, 8
		if c.thorough() {
			reps = 40
		}
		nameBytes := 3 << 19 // a megabyte and a half; every caller's own letters (what one caller encodes must not reach another's token)
		type res struct {
			tok string
			iat int64
			bad string
		}
		out := make([][]res, workers)
		// (several callers per processor, on several processors: they interrupt one another in the middle of an Encode)
		if prev := runtime.GOMAXPROCS(0); prev < 8 {
			runtime.GOMAXPROCS(8)
			defer runtime.GOMAXPROCS(prev)
		}
		var wg sync.WaitGroup
		for wi := 0; wi < workers; wi++ {
			wg.Add(1)
			go func(wi int) {
				defer wg.Done()
				uc := jwt.NewUserClaims(kr.by["user"].pub)
				uc.Name = strings.Repeat(string(rune('a'+wi%26)), nameBytes) + fmt.Sprint("-", wi)
				for r := 0; r < reps; r++ {
					tok, err := uc.Encode(kr.by["account"].kp)
					if err != nil {
						out[wi] = append(out[wi], res{bad: err.Error()})
						continue
					}
					x := res{tok: fmt.Sprintf("%x", sha256.Sum256([]byte(tok))), iat: uc.IssuedAt} // (a digest: the tokens are megabytes each)
					if id, _ := ownID(uc.ClaimsData); id != uc.ID {
						x.bad = fmt.Sprintf("the id stamped is %q, the hash of the object's own standard fields is %q", uc.ID, id)
					}
					out[wi] = append(out[wi], x)
				}
			}(wi)
		}
		wg.Wait()
		for wi := range out {
			first := map[int64]string{}
			for _, x := range out[wi] {
				c.sum.Evaluations++
				c.sum.ImplChecks++
				switch {
				case x.bad != "":
					c.violation("C13: large equal content encoded by several callers at once: "+x.bad, map[string]interface{}{"worker": wi, "name_bytes": nameBytes})
				case first[x.iat] == "":
					first[x.iat] = x.tok
				case first[x.iat] != x.tok:
					c.violation("C13: equal content encoded with the same key in the same second gives different tokens (several callers encoding at once)",
						map[string]interface{}{"worker": wi, "name_bytes": nameBytes, "issued_at": x.iat})
				}
				c.count("large_concurrent_encode")
			}
		}
	}
	w.flush()
	c.sum.DistinctNontriv = len(distinct)
	c.sum.Rule = fmt.Sprintf("%d contents (account with 2-6 plain/scoped signing keys, revocations, tiers, mappings, export revocations; generic data) each built through %d random insertion permutations of every unordered collection (a quarter of the builds each: encoded before with the same key and other standard fields / with another key / carrying stale stamps / fresh) and encoded %d times per build with the same key; all tokens that share a decoded issue time must be byte-identical (pairs straddling a second fall into different groups); non-trivial = distinct token text", contents, orders, repeats)
}

// ---------------------------------------------------------------- C14

// sealedSigner signs and names its public key; its seed and private key stay where they are
type sealedSigner struct{ nkeys.KeyPair }

func (sealedSigner) Seed() ([]byte, error) {
	return nil, fmt.Errorf("the seed does not leave the key store")
}
func (sealedSigner) PrivateKey() ([]byte, error) {
	return nil, fmt.Errorf("the private key does not leave the key store")
}

func uplTerm(em *schema.Emitter, u *jwt.UserPermissionLimits) string {
	t := schemaBuilder.Of(reflect.TypeOf(*u))
	return em.Val(t, reflect.ValueOf(u).Elem())
}

func runC14(c *Ctx) {
	wk := c.newCaseWriter("keys", "From JWT Require Import Model.Claims.\nOpen Scope Z_scope.", "ckind * val * json * val", "ccase_ok")
	ws := c.newCaseWriter("signer", "From JWT Require Import Model.Scope.\nOpen Scope Z_scope.", "string * ckind * string * val * bool", "sscase_ok")
	wi := c.newCaseWriter("issue", "From JWT Require Import Model.Scope.\nOpen Scope Z_scope.", "role * role * role * string * string * string * Z * Z * Z * val * bool * val", "iucase_ok")
	kr := newKeyring()
	g := &valGen{rng: c.Rng, kr: kr, fill: 60, scopeByValue: true, wideInts: true}
	distinct := map[string]bool{}
	em, ty, elem := emitterFor("account")
	nsets := 150
	if c.thorough() {
		nsets = 3000
	}
	// 1. signing-key sets survive encode/decode
	for i := 0; i < nsets; i++ {
		ac := jwt.NewAccountClaims(kr.by["account"].pub)
		g.fillValue(reflect.ValueOf(&ac.SigningKeys).Elem())
		tok, err := ac.Encode(kr.by["operator"].kp)
		c.sum.Evaluations++
		c.sum.ImplChecks++
		if err != nil {
			c.count("keyset_encode_error")
			continue
		}
		inp := map[string]interface{}{"token": tok, "keys": len(ac.SigningKeys)}
		postTerm := ""
		if i < 40 {
			postTerm = em.Val(ty, elem(ac)) // the object as Encode left it (stamped), before any adjustment below
		}
		d, err := jwt.DecodeAccountClaims(tok)
		if err != nil {
			inp["error"] = err.Error()
			c.violation("C14: an account with this signing-key set does not decode", inp)
			continue
		}
		want, got := canonString(reflect.ValueOf(ac.SigningKeys)), canonString(reflect.ValueOf(d.SigningKeys))
		if want != got {
			adj := applyKnownC03(ac)
			if len(adj) > 0 && canonString(reflect.ValueOf(ac.SigningKeys)) == got {
				inp["known"] = adj
				c.violation("C14 known: "+strings.Join(adj, " + "), inp)
			} else {
				inp["diff"] = firstDiff(want, got)
				c.violation("C14: a signing-key set does not survive encode/decode", inp)
				continue
			}
		}
		distinct["ks"+got] = true
		c.count("keyset_roundtrip")
		if i < 40 {
			raw, _ := b64.DecodeString(strings.Split(tok, ".")[1])
			wk.add(fmt.Sprintf("(KAccount, %s, %s, %s)", postTerm, schema.JSONTerm(raw), em.Val(ty, elem(d))), inp)
		}
	}
	// 2. ValidateScopedSigner
	scopeKp := newSigner("account")
	us := jwt.NewUserScope()
	us.Key = scopeKp.pub
	fields := []func(*jwt.UserClaims){
		func(u *jwt.UserClaims) { u.Pub.Allow.Add("a") },
		func(u *jwt.UserClaims) { u.Pub.Deny = jwt.StringList{} }, // present but empty
		func(u *jwt.UserClaims) { u.Sub.Allow.Add("a") },
		func(u *jwt.UserClaims) { u.Sub.Deny.Add("b") },
		func(u *jwt.UserClaims) { u.Resp = &jwt.ResponsePermission{} },
		func(u *jwt.UserClaims) { u.Src = jwt.CIDRList{} }, // present but empty
		func(u *jwt.UserClaims) { u.Src.Add("10.0.0.0/8") },
		func(u *jwt.UserClaims) { u.Times = []jwt.TimeRange{{Start: "08:00:00", End: "09:00:00"}} },
		func(u *jwt.UserClaims) { u.Locale = "UTC" },
		func(u *jwt.UserClaims) { u.Subs = -1 },
		func(u *jwt.UserClaims) { u.Data = 5 },
		func(u *jwt.UserClaims) { u.NatsLimits.Payload = 1 << 60 },
		func(u *jwt.UserClaims) { u.BearerToken = true },
		func(u *jwt.UserClaims) { u.AllowedConnectionTypes.Add("MQTT") },
		func(u *jwt.UserClaims) { u.AllowedConnectionTypes = jwt.StringList{} },
	}
	nsig := 600
	if c.thorough() {
		nsig = 8000
	}
	for i := 0; i < nsig; i++ {
		uc := &jwt.UserClaims{}
		uc.Subject = kr.by["user"].pub
		mask := 0
		if i >= len(fields)+1 { // first the empty one and each single field, then random subsets
			mask = c.Rng.Intn(1 << uint(len(fields)))
			if c.Rng.Intn(3) == 0 {
				mask = 0
			}
		} else if i > 0 {
			mask = 1 << uint(i-1)
		}
		for b, f := range fields {
			if mask&(1<<uint(b)) != 0 {
				f(uc)
			}
		}
		uc.Issuer = scopeKp.pub
		if c.Rng.Intn(4) == 0 {
			uc.Issuer = newSigner("account").pub
		}
		// things that must not matter
		uc.Name, uc.IssuerAccount = "n", kr.by["account"].pub
		uc.Tags.Add("t")
		var cl jwt.Claims = uc
		kind := "user"
		if c.Rng.Intn(8) == 0 {
			kind = []string{"account", "activation", "generic", "operator"}[c.Rng.Intn(4)]
			cl = mkClaim(kind, uc.Issuer, "s", "")
		}
		err := us.ValidateScopedSigner(cl)
		ok := err == nil
		want := kind == "user" && uc.Issuer == scopeKp.pub && mask == 0
		c.sum.Evaluations++
		c.sum.ImplChecks++
		inp := map[string]interface{}{"kind": kind, "issuer_is_scope_key": uc.Issuer == scopeKp.pub, "fields_set_mask": mask, "accepted": ok}
		if ok != want {
			c.violation("C14: a scope accepts / refuses a claim against the rule (user claim, issued by the scope's key, no permissions or limits of its own)", inp)
		}
		ws.add(fmt.Sprintf("(%s, %s, %s, %s, %s)", coqStr(scopeKp.pub), kindCoq[kind], coqStr(uc.Issuer), uplTerm(em, &uc.UserPermissionLimits), coqBool(ok)), inp)
		distinct[fmt.Sprint("ss", kind, uc.Issuer == scopeKp.pub, mask, ok)] = true
		if ok {
			c.count("scoped_accepted")
		} else {
			c.count("scoped_refused")
		}
	}
	// ... and for user claims that ARRIVE AS TOKENS written by another producer: a member spelled out as JSON null (or an
	// object with nothing in it) is a member that is not there - such a user carries no permissions or limits of its own
	{
		uc := jwt.NewUserClaims(kr.by["user"].pub)
		uc.UserPermissionLimits = jwt.UserPermissionLimits{}
		uc.IssuerAccount = kr.by["account"].pub
		base, err := uc.Encode(scopeKp.kp)
		if err != nil {
			panic(err)
		}
		ch := strings.Split(base, ".")
		hj, _ := b64.DecodeString(ch[0])
		pj, _ := b64.DecodeString(ch[1])
		forms := []map[string]interface{}{
			{}, {"src": nil}, {"times": nil}, {"pub": nil}, {"sub": nil}, {"resp": nil}, {"allowed_connection_types": nil}, {"times_location": nil},
			{"subs": nil}, {"data": nil}, {"payload": nil}, {"bearer_token": nil}, {"pub": map[string]interface{}{}}, {"sub": map[string]interface{}{}},
			{"pub": map[string]interface{}{"allow": nil, "deny": nil}}, {"sub": map[string]interface{}{"allow": nil}},
			{"src": nil, "times": nil, "pub": nil, "sub": nil, "resp": nil, "allowed_connection_types": nil, "times_location": nil, "subs": nil, "data": nil, "payload": nil, "bearer_token": nil},
		}
		for fi, form := range forms {
			var m map[string]interface{}
			if err := json.Unmarshal(pj, &m); err != nil {
				panic(err)
			}
			nats := m["nats"].(map[string]interface{})
			for k, v := range form {
				nats[k] = v
			}
			pj2, _ := json.Marshal(m)
			tok := forge(string(hj), string(pj2), "v2", scopeKp).Token
			inp := map[string]interface{}{"kind": "user", "arrived_as": "token", "members_spelled_as_null_or_empty_object": form, "token": tok}
			c.sum.Evaluations++
			c.sum.ImplChecks++
			for _, dec := range []string{"Decode", "DecodeUserClaims"} {
				var cl jwt.Claims
				var err error
				if dec == "Decode" {
					cl, err = jwt.Decode(tok)
				} else {
					cl, err = jwt.DecodeUserClaims(tok)
				}
				if err != nil {
					continue // whether such a token is accepted at all is not this property's business
				}
				if err := us.ValidateScopedSigner(cl); err != nil {
					inp["decoder"], inp["error"] = dec, err.Error()
					c.violation("C14: a scope refuses a user claim issued by its key that carries no permissions or limits of its own (members written as null count as absent)", inp)
				}
				if u, ok := cl.(*jwt.UserClaims); ok && !u.HasEmptyPermissions() {
					inp["decoder"] = dec
					c.violation("C14: a user decoded from a token with no permissions or limits (members written as null) reports permissions of its own", inp)
				}
			}
			distinct[fmt.Sprint("ss-token", fi)] = true
			c.count("scoped_from_token")
		}
		// ... and the other way round: a member that IS there, however little it says - a response permission with no
		// budget and no time (servers read it as "responses allowed, default budget"), a list that is present and
		// empty - is a permission of the user's own: such a user is not one a scope accepts
		for fi, form := range []map[string]interface{}{
			{"resp": map[string]interface{}{}}, {"resp": map[string]interface{}{"max": 0, "ttl": 0}}, {"resp": map[string]interface{}{"max": 0}},
			{"pub": map[string]interface{}{"allow": []string{}}}, {"sub": map[string]interface{}{"deny": []string{}}},
		} {
			var m map[string]interface{}
			if err := json.Unmarshal(pj, &m); err != nil {
				panic(err)
			}
			nats := m["nats"].(map[string]interface{})
			for k, v := range form {
				nats[k] = v
			}
			pj2, _ := json.Marshal(m)
			tok := forge(string(hj), string(pj2), "v2", scopeKp).Token
			inp := map[string]interface{}{"kind": "user", "arrived_as": "token", "members_present_but_minimal": form, "token": tok}
			c.sum.Evaluations++
			c.sum.ImplChecks++
			for _, dec := range []string{"Decode", "DecodeUserClaims"} {
				var cl jwt.Claims
				var err error
				if dec == "Decode" {
					cl, err = jwt.Decode(tok)
				} else {
					cl, err = jwt.DecodeUserClaims(tok)
				}
				if err != nil {
					continue
				}
				if us.ValidateScopedSigner(cl) == nil {
					inp["decoder"] = dec
					c.violation("C14: a scope accepts a user claim that carries a permission of its own (a member that is present, if minimal)", inp)
				}
				if u, ok := cl.(*jwt.UserClaims); ok && u.HasEmptyPermissions() {
					inp["decoder"] = dec
					c.violation("C14: a user decoded from a token that spells out a permission member (present, if minimal) reports no permissions of its own", inp)
				}
			}
			distinct[fmt.Sprint("ss-token-present", fi)] = true
			c.count("scoped_from_token_with_minimal_members")
		}
	}
	// 3. IssueUserJWT
	emu, tyu, elemu := emitterFor("user")
	roleKeys := map[string]string{"garbage": "not-a-key", "empty": ""}
	for _, r := range allRoles {
		roleKeys[r] = kr.by[r].pub
	}
	// keys whose prefix byte carries its role in the upper five bits and something in the lower three: the key predicates
	// the library uses everywhere (nkeys.IsValidPublicAccountKey / ...UserKey) read the upper five bits only - such keys
	// are account / user keys for Encode and Validate, and so they are here
	roleKeys["account (low bits of the prefix byte set)"] = relabel(kr.by["account"].pub, 0|3)
	roleKeys["user (low bits of the prefix byte set)"] = relabel(kr.by["user"].pub, 20<<3|5)
	durs := []time.Duration{0, time.Hour, -time.Hour, 1, 999999999, 90 * 24 * time.Hour}
	for _, sr := range []string{"operator", "account", "user", "server", "cluster"} {
		for ar, acct := range roleKeys {
			for ur, user := range roleKeys {
				reps := 1
				if sr == "account" && ar == "account" && ur == "user" {
					reps = 80
				}
				for rep := 0; rep < reps; rep++ {
					// (a name is taken as given whenever one is given: blank-only, padded, control and non-ASCII names too)
					name := []string{"", "the name", "x", " ", "\t", "  \n ", "\u00a0", " padded ", "\x00", "名前", strings.Repeat("n", 300), "\u0085"}[c.Rng.Intn(12)]
					d := durs[c.Rng.Intn(len(durs))]
					var tags []string
					switch c.Rng.Intn(3) {
					case 1:
						tags = []string{}
					case 2:
						tags = []string{"a", "B", "a"}
					}
					lo := time.Now().UnixNano()
					tagsBefore := append([]string(nil), tags...)
					if tags != nil && c.Rng.Intn(2) == 0 {
						tags = append(make([]string, 0, 8), tags...) // (with spare capacity behind it)
					}
					// (the signer as the nkeys package makes it, or one that signs and names its public key but keeps its seed to
					// itself - a key held by a key-management service: the rule is about roles, which the public key carries)
					var signerKp nkeys.KeyPair = kr.by[sr].kp
					sealed := rep%2 == 1 || (reps == 1 && c.Rng.Intn(3) == 0)
					if sealed {
						signerKp = sealedSigner{signerKp}
					}
					tok, err := jwt.IssueUserJWT(signerKp, acct, user, name, d, tags...)
					hi := time.Now().UnixNano()
					if strings.Join(tags, "\x00") != strings.Join(tagsBefore, "\x00") {
						c.violation("C14: IssueUserJWT rewrote the caller's tag list", map[string]interface{}{"tags_before": tagsBefore, "tags_after": tags})
					}
					ok := err == nil
					c.sum.Evaluations++
					c.sum.ImplChecks++
					inp := map[string]interface{}{"signer_role": sr, "account_role": ar, "user_role": ur, "name": name, "duration": int64(d), "tags": tags, "ok": ok, "signer_keeps_its_seed": sealed}
					wantOK := sr == "account" && strings.HasPrefix(ar, "account") && strings.HasPrefix(ur, "user")
					if ok != wantOK {
						c.violation("C14: IssueUserJWT succeeds / fails against the role rule", inp)
					}
					decTerm := "(VAny None)"
					if ok {
						uc, derr := jwt.DecodeUserClaims(tok)
						if derr != nil {
							c.violation("C14: the token issued by IssueUserJWT does not decode as a user", inp)
							continue
						}
						wname := name
						if wname == "" {
							wname = user
						}
						expOK := uc.Expires == 0
						if d != 0 {
							expOK = uc.Expires >= floorDiv(lo+int64(d), 1e9) && uc.Expires <= floorDiv(hi+int64(d), 1e9)
						}
						switch {
						case uc.Subject != user || uc.IssuerAccount != acct || uc.Name != wname || uc.Issuer != kr.by[sr].pub:
							c.violation("C14: issued user has wrong subject / issuer account / name / issuer", inp)
						case canonString(reflect.ValueOf(uc.Tags)) != canonString(reflect.ValueOf(jwt.TagList(tags))):
							c.violation("C14: issued user has other tags than given", inp)
						case !expOK:
							inp["exp"] = uc.Expires
							c.violation("C14: issued user has the wrong expiry", inp)
						case !uc.HasEmptyPermissions():
							c.violation("C14: issued user carries permissions or limits of its own", inp)
						default:
							sc := jwt.NewUserScope()
							sc.Key = kr.by[sr].pub
							if sc.ValidateScopedSigner(uc) != nil {
								c.violation("C14: issued user is not accepted by a scope for the signing key", inp)
							}
						}
						uc.Issuer, uc.IssuedAt, uc.ID, uc.Type, uc.Version = "", 0, "", "", 0
						decTerm = emu.Val(tyu, elemu(uc))
					}
					r1, r2 := subjectRole(acct), subjectRole(user)
					tagsTerm := "(VList None)"
					if tags != nil {
						tagsTerm = emu.Val(schemaBuilder.Of(reflect.TypeOf(jwt.TagList{})), reflect.ValueOf(jwt.TagList(tags)))
					}
					wi.add(fmt.Sprintf("(%s, %s, %s, %s, %s, %s, %s, %s, %s, %s, %s, %s)", roleCoq(r1), roleCoq(r2), roleCoq(sr), coqStr(acct), coqStr(user), coqStr(name),
						coqZ(lo), coqZ(hi), coqZ(int64(d)), tagsTerm, coqBool(ok), decTerm), inp)
					distinct[fmt.Sprint("iu", sr, ar, ur, name == "", d == 0, ok)] = true
					if ok {
						c.count("issued")
					} else {
						c.count("issue_refused")
					}
					if c.sum.Evaluations%173 == 0 {
						c.sample(inp)
					}
				}
			}
		}
	}
	wk.flush()
	ws.flush()
	wi.flush()
	c.sum.DistinctNontriv = len(distinct)
	c.sum.Rule = fmt.Sprintf("%d random signing-key sets (any mix of plain and scoped keys, scopes by pointer and by value, templates with arbitrary permissions and int64 limits incl. +-2^63 and 2^53+-1) through account Encode/Decode; %d user claims with each permission/limit field set, empty-but-present or absent (each single field, then random subsets), issuer = scope key or another, and non-user claims, through ValidateScopedSigner; every combination of signer / account-id / user-key role (5 x 8 x 8) through IssueUserJWT with names, durations and tags varied, decoded and checked; non-trivial = distinct (decision-relevant coordinates, outcome)", nsets, nsig)
}

func floorDiv(a, b int64) int64 {
	q := a / b
	if (a%b != 0) && ((a < 0) != (b < 0)) {
		q--
	}
	return q
}

// subjectRole: the role of a key as the per-role predicates of nkeys judge it (the upper five bits of the prefix byte)
func subjectRole(pub string) string {
	raw, err := b32.DecodeString(pub)
	if err != nil || len(raw) < 4 {
		return "none"
	}
	body, sum := raw[:len(raw)-2], binary.LittleEndian.Uint16(raw[len(raw)-2:])
	if crc16(body) != sum {
		return "none"
	}
	switch body[0] & 248 {
	case 14 << 3:
		return "operator"
	case 0:
		return "account"
	case 20 << 3:
		return "user"
	case 13 << 3:
		return "server"
	case 2 << 3:
		return "cluster"
	case 23 << 3:
		return "curve"
	}
	return "none"
}
