package main

import (
	"encoding/json"
	"fmt"
	"strings"

	jwt "github.com/nats-io/jwt/v2"
	v1 "github.com/nats-io/jwt/v2/v1compat"
	"github.com/nats-io/nkeys"
)

func init() { drivers["C08"] = runC08 }

func mustPub(kp nkeys.KeyPair) string {
	p, err := kp.PublicKey()
	if err != nil {
		panic(err)
	}
	return p
}

var kindNames = []string{"operator", "account", "user", "activation", "authorization_request", "authorization_response", "generic"}
var kindCoq = map[string]string{"operator": "KOperator", "account": "KAccount", "user": "KUser", "activation": "KActivation",
	"authorization_request": "KAuthRequest", "authorization_response": "KAuthResponse", "generic": "KGeneric"}

// mkClaim builds an in-memory claims object of the kind with the given standard fields.
func mkClaim(kind, iss, sub, issAcct string) jwt.Claims {
	switch kind {
	case "operator":
		c := &jwt.OperatorClaims{}
		c.Issuer, c.Subject = iss, sub
		return c
	case "account":
		c := &jwt.AccountClaims{}
		c.Issuer, c.Subject = iss, sub
		return c
	case "user":
		c := &jwt.UserClaims{}
		c.Issuer, c.Subject, c.IssuerAccount = iss, sub, issAcct
		return c
	case "activation":
		c := &jwt.ActivationClaims{}
		c.Issuer, c.Subject, c.IssuerAccount = iss, sub, issAcct
		return c
	case "authorization_request":
		c := &jwt.AuthorizationRequestClaims{}
		c.Issuer, c.Subject = iss, sub
		return c
	case "authorization_response":
		c := &jwt.AuthorizationResponseClaims{}
		c.Issuer, c.Subject, c.IssuerAccount = iss, sub, issAcct
		return c
	}
	c := &jwt.GenericClaims{}
	c.Issuer, c.Subject = iss, sub
	return c
}

func contains(l []string, s string) bool {
	for _, x := range l {
		if x == s {
			return true
		}
	}
	return false
}

func runC08(c *Ctx) {
	wo := c.newCaseWriter("op", "From JWT Require Import Model.DidSign.", "string * bool * list string * option sclaim * bool", "opcase_ok")
	wa := c.newCaseWriter("acct", "From JWT Require Import Model.DidSign.", "string * list string * option sclaim * bool", "accase_ok")
	okp, _ := nkeys.CreateOperator()
	o2kp, _ := nkeys.CreateOperator()
	skp, _ := nkeys.CreateOperator()
	xkp, _ := nkeys.CreateOperator()
	akp, _ := nkeys.CreateAccount()
	bkp, _ := nkeys.CreateAccount()
	k1kp, _ := nkeys.CreateAccount()
	k2kp, _ := nkeys.CreateAccount()
	axkp, _ := nkeys.CreateAccount()
	O, O2, S, X := mustPub(okp), mustPub(o2kp), mustPub(skp), mustPub(xkp)
	A, B, K1, K2, AX := mustPub(akp), mustPub(bkp), mustPub(k1kp), mustPub(k2kp), mustPub(axkp)
	ukp, _ := nkeys.CreateUser()
	U := mustPub(ukp)
	distinct := map[string]bool{}
	claimCoq := func(kind, iss, sub, ia string) string {
		return fmt.Sprintf("(Some {| sc_kind := %s; sc_iss := %s; sc_sub := %s; sc_issuer_account := %s |})", kindCoq[kind], coqStr(iss), coqStr(sub), coqStr(ia))
	}
	// ---------- operator ----------
	for _, strict := range []bool{false, true} {
		for _, idListed := range []bool{false, true} {
			for _, withKeys := range []bool{false, true} {
				for _, roundTrip := range []bool{false, true} {
					oc := jwt.NewOperatorClaims(O)
					oc.StrictSigningKeyUsage = strict
					if withKeys {
						oc.SigningKeys.Add(S)
					}
					if idListed {
						oc.SigningKeys.Add(O)
					}
					if roundTrip {
						tok, err := oc.Encode(okp)
						if err != nil {
							panic(err)
						}
						oc, err = jwt.DecodeOperatorClaims(tok)
						if err != nil {
							panic(err)
						}
					}
					keys := append([]string{}, oc.SigningKeys...)
					// nil claim
					c.sum.Evaluations++
					c.sum.ImplChecks++
					if oc.DidSign(nil) {
						c.violation("operator DidSign(nil) answered yes", map[string]interface{}{"strict": strict})
					}
					wo.add(fmt.Sprintf("(%s, %s, %s, None, %s)", coqStr(O), coqBool(strict), coqStrList(keys), coqBool(oc.DidSign(nil))), map[string]interface{}{"claim": nil})
					for _, iss := range []string{O, S, X, O2, A} {
						for _, kind := range kindNames {
							for _, sub := range []string{O, A} {
								for _, ia := range []string{"", A} {
									cl := mkClaim(kind, iss, sub, ia)
									got := oc.DidSign(cl)
									want := (iss == O && (!strict || sub == O)) || contains(keys, iss)
									inp := map[string]interface{}{"entity": "operator", "id": "O", "strict": strict, "identity_listed": idListed,
										"keys_nonempty": withKeys, "round_trip": roundTrip, "kind": kind, "issuer": nameOf(iss, O, S, X, O2, A), "subject_is_self": sub == O,
										"iss_is_id": iss == O, "sub_is_id": sub == O, "id_in_keys": contains(keys, O), "impl": got, "spec": want}
									c.sum.Evaluations++
									c.sum.ImplChecks++
									if got != want {
										c.violation("operator DidSign differs from the trust rule", inp)
									}
									wo.add(fmt.Sprintf("(%s, %s, %s, %s, %s)", coqStr(O), coqBool(strict), coqStrList(keys), claimCoq(kind, iss, sub, ia), coqBool(got)), inp)
									distinct[fmt.Sprint("o", strict, idListed, withKeys, iss == O, iss == S, kind, sub == O, got)] = true
									if got {
										c.count("operator_yes")
									} else {
										c.count("operator_no")
									}
									if c.sum.Evaluations%997 == 3 {
										c.sample(inp)
									}
								}
							}
						}
					}
				}
			}
		}
	}
	// ---------- account ----------
	for _, dress := range []string{"plain", "external authorization enabled", "revocations, exports and limits"} {
		for _, withKeys := range []bool{false, true} {
			for _, roundTrip := range []bool{false, true} {
				ac := jwt.NewAccountClaims(A)
				if withKeys {
					ac.SigningKeys.Add(K1)
					us := jwt.NewUserScope()
					us.Key = K2
					us.Role = "r"
					if dress == "plain" {
						ac.SigningKeys.AddScopedSigner(us)
					} else {
						ac.SigningKeys.AddScopedSigner(*us) // held by value: a UserScope value is a Scope too
					}
				}
				// nothing else the account holds changes the answer
				switch dress {
				case "external authorization enabled":
					ac.Authorization.AuthUsers.Add(U)
					ac.Authorization.AllowedAccounts.Add(B)
				case "revocations, exports and limits":
					ac.Revocations = jwt.RevocationList{K1: 1700000000, K2: 1700000000, jwt.All: 1}
					ac.Exports.Add(&jwt.Export{Subject: "x.>", Type: jwt.Stream, TokenReq: true, Revocations: jwt.RevocationList{B: 1700000000}})
					ac.Limits.Conn, ac.Limits.Exports = 5, 3
					ac.Tags.Add("t")
				}
				keysBefore := ac.SigningKeys.Keys()
				if roundTrip {
					tok, err := ac.Encode(akp)
					if err != nil {
						panic(err)
					}
					ac, err = jwt.DecodeAccountClaims(tok)
					if err != nil {
						panic(err)
					}
				}
				keys := ac.SigningKeys.Keys()
				// the account that comes back from its own token signs with the same keys
				sortStrings(keysBefore)
				ks := append([]string{}, keys...)
				sortStrings(ks)
				if strings.Join(ks, ",") != strings.Join(keysBefore, ",") {
					c.violation("an account's signing keys differ after an encode/decode round trip (so what it reports having signed differs)",
						map[string]interface{}{"entity": "account", "account_also_holds": dress, "keys_before": len(keysBefore), "keys_after": len(ks)})
				}
				c.sum.Evaluations++
				c.sum.ImplChecks++
				if ac.DidSign(nil) {
					c.violation("account DidSign(nil) answered yes", map[string]interface{}{})
				}
				wa.add(fmt.Sprintf("(%s, %s, None, %s)", coqStr(A), coqStrList(keys), coqBool(ac.DidSign(nil))), map[string]interface{}{"claim": nil})
				for _, iss := range []string{A, K1, K2, AX, B, O} {
					for _, kind := range kindNames {
						for _, ia := range []string{"", A, B} {
							for _, sub := range []string{A, U} {
								cl := mkClaim(kind, iss, sub, ia)
								got := ac.DidSign(cl)
								hasIA := kind == "user" || kind == "activation"
								want := iss == A || (hasIA && ia == A && contains(keys, iss))
								inp := map[string]interface{}{"entity": "account", "account_also_holds": dress, "keys_nonempty": withKeys, "round_trip": roundTrip, "kind": kind,
									"issuer": nameOf(iss, A, K1, K2, AX, B), "issuer_account": nameOf(ia, A, B), "impl": got, "spec": want}
								c.sum.Evaluations++
								c.sum.ImplChecks++
								if got != want {
									c.violation("account DidSign differs from the trust rule", inp)
								}
								wa.add(fmt.Sprintf("(%s, %s, %s, %s)", coqStr(A), coqStrList(keys), claimCoq(kind, iss, sub, ia), coqBool(got)), inp)
								distinct[fmt.Sprint("a", withKeys, iss == A, iss == K1, iss == K2, kind, ia == A, ia == "", got)] = true
								if got {
									c.count("account_yes")
								} else {
									c.count("account_no")
								}
								if c.sum.Evaluations%997 == 3 {
									c.sample(inp)
								}
							}
						}
					}
				}
			}
		}
	}
	// ---------- the claim itself arrives as a token: user / activation claims issued by the identity key, a plain
	// and a scoped signing key, another account's key; issuer account empty / this / another account; encoded by
	// the v2 encoder and by the bundled v1 encoder, decoded by the v2 decoder, then handed to the account
	{
		ac := jwt.NewAccountClaims(A)
		ac.SigningKeys.Add(K1)
		us := jwt.NewUserScope()
		us.Key = K2
		ac.SigningKeys.AddScopedSigner(us)
		keys := ac.SigningKeys.Keys()
		signers := map[string]nkeys.KeyPair{A: akp, K1: k1kp, K2: k2kp, AX: axkp, B: bkp}
		for iss, kp := range signers {
			for _, ia := range []string{"", A, B} {
				for _, kind := range []string{"user", "activation"} {
					// "v2 hybrid": a version-2 token whose payload also carries, at its top level, the issuer_account member of
					// the version-1 layout (naming this account): in a version-2 token that member means nothing
					for _, enc := range []string{"v2", "v1", "v2 hybrid"} {
						sub := U
						if kind == "activation" {
							sub = B
						}
						var tok string
						var err error
						switch {
						case enc != "v1" && kind == "user":
							x := jwt.NewUserClaims(sub)
							x.IssuerAccount = ia
							tok, err = x.Encode(kp)
						case enc != "v1":
							x := jwt.NewActivationClaims(sub)
							x.IssuerAccount, x.ImportSubject, x.ImportType = ia, "a.b", jwt.Stream
							tok, err = x.Encode(kp)
						case kind == "user":
							x := v1.NewUserClaims(sub)
							x.IssuerAccount = ia
							tok, err = x.Encode(kp)
						default:
							x := v1.NewActivationClaims(sub)
							x.IssuerAccount, x.ImportSubject, x.ImportType = ia, "a.b", v1.Stream
							tok, err = x.Encode(kp)
						}
						if err != nil {
							panic(err)
						}
						if enc == "v2 hybrid" {
							ch := strings.Split(tok, ".")
							pj, _ := b64.DecodeString(ch[1])
							var m map[string]interface{}
							if err := json.Unmarshal(pj, &m); err != nil {
								panic(err)
							}
							m["issuer_account"] = A
							pj, _ = json.Marshal(m)
							hj, _ := b64.DecodeString(ch[0])
							tok = forge(string(hj), string(pj), "v2", &signer{kp: kp}).Token
						}
						cl, err := jwt.Decode(tok)
						if err != nil {
							panic(err)
						}
						got := ac.DidSign(cl)
						want := iss == A || (ia == A && contains(keys, iss))
						inp := map[string]interface{}{"entity": "account", "claim_arrived_as": enc + " token", "token": tok, "kind": kind,
							"issuer": nameOf(iss, A, K1, K2, AX, B), "issuer_account": nameOf(ia, A, B), "impl": got, "spec": want}
						c.sum.Evaluations++
						c.sum.ImplChecks++
						if got != want {
							c.violation("account DidSign differs from the trust rule for a claim decoded from a "+enc+" token", inp)
						}
						wa.add(fmt.Sprintf("(%s, %s, %s, %s)", coqStr(A), coqStrList(keys), claimCoq(kind, cl.Claims().Issuer, cl.Claims().Subject, ia), coqBool(got)), inp)
						c.count("claim_from_" + enc + "_token")
					}
				}
			}
		}
	}
	// ---------- the account itself arrives as a VERSION-1 token and is migrated: every key its signing_keys list names,
	// wherever in the list it stands (before or after the account's own key, which some tools list as well), signs for
	// the migrated account exactly as it does for the version-1 account - also after the migrated account is re-encoded
	for li, list := range [][]string{{K1}, {A, K1}, {K1, A, K2}, {A, K2, K1}, {K2, A}, {K1, K2}, {A}, {}, {K1, K1, A, A, K2}} {
		va := v1.NewAccountClaims(A)
		va.SigningKeys = append(v1.StringList{}, list...)
		vtok, err := va.Encode(okp)
		if err != nil {
			panic(err)
		}
		mig, err := jwt.DecodeAccountClaims(vtok)
		if err != nil {
			c.violation("C04: a version-1 account token does not migrate", map[string]interface{}{"token": vtok, "error": err.Error()})
			continue
		}
		again := mig
		if t2, err := mig.Encode(okp); err == nil {
			if a2, err := jwt.DecodeAccountClaims(t2); err == nil {
				again = a2
			}
		}
		for iss, kp := range map[string]nkeys.KeyPair{A: akp, K1: k1kp, K2: k2kp, AX: axkp} {
			for _, ia := range []string{"", A, B} {
				x := jwt.NewUserClaims(U)
				x.IssuerAccount = ia
				tok, err := x.Encode(kp)
				if err != nil {
					panic(err)
				}
				cl, err := jwt.Decode(tok)
				if err != nil {
					panic(err)
				}
				vx := v1.NewUserClaims(U)
				vx.IssuerAccount, vx.Issuer = ia, iss
				want := iss == A || (ia == A && contains(list, iss))
				got, got2, gotV1 := mig.DidSign(cl), again.DidSign(cl), va.DidSign(vx)
				inp := map[string]interface{}{"entity": "account migrated from a version-1 token", "v1_signing_keys": nameList(list, A, K1, K2), "list": li,
					"issuer": nameOf(iss, A, K1, K2, AX, B), "issuer_account": nameOf(ia, A, B), "impl": got, "impl_after_reencoding": got2, "v1_library": gotV1, "spec": want}
				c.sum.Evaluations++
				c.sum.ImplChecks++
				if got != want || got2 != want || gotV1 != want {
					c.violation("account DidSign of an account migrated from a version-1 token differs from the trust rule", inp)
				}
				c.count("account_migrated_from_v1")
			}
		}
	}
	// ---------- the account arrives as a token written by another implementation: member names of a scope object in
	// another letter case (encoding/json reads them all the same; the "kind" member, which the library itself looks
	// up, stays as it is) - the scoped key signs for the account like any other
	{
		ac := jwt.NewAccountClaims(A)
		ac.SigningKeys.Add(K1)
		us := jwt.NewUserScope()
		us.Key, us.Role = K2, "r"
		ac.SigningKeys.AddScopedSigner(us)
		tok, err := ac.Encode(akp)
		if err != nil {
			panic(err)
		}
		seg := strings.Split(tok, ".")
		raw, _ := b64.DecodeString(seg[1])
		for _, respell := range [][2]string{{`"key":`, `"Key":`}, {`"key":`, `"KEY":`}, {`"role":`, `"Role":`}, {`"template":`, `"TEMPLATE":`}, {`"signing_keys":`, `"Signing_Keys":`}} {
			if !strings.Contains(string(raw), respell[0]) {
				continue
			}
			pj := strings.Replace(string(raw), respell[0], respell[1], -1)
			ft := forge(hdrV2, pj, "v2", &signer{kp: akp, pub: A, role: "account"})
			dac, err := jwt.DecodeAccountClaims(ft.Token)
			c.sum.Evaluations++
			c.sum.ImplChecks++
			inp := map[string]interface{}{"entity": "account", "payload": pj, "respelled": respell[1]}
			if err != nil {
				inp["error"] = err.Error()
				c.violation("an account token whose scope members are spelled in another letter case is refused", inp)
				continue
			}
			for _, iss := range []string{K1, K2} {
				if got := dac.DidSign(mkClaim("user", iss, U, A)); !got {
					inp["issuer"] = nameOf(iss, A, K1, K2, AX, B)
					c.violation("account DidSign differs from the trust rule for an account decoded from a token with respelled member names", inp)
				}
			}
			c.count("account_token_with_respelled_members")
		}
	}
	// ---------- ... or whose signing_keys list holds entries that are no keys (a JSON null - the library's own encoder
	// writes one for a scope variable that holds a nil pointer -, an empty object): they name no key, and a claim that
	// names no issuer (built, not yet encoded) is signed by nobody
	for _, listJSON := range []string{`[K1,null]`, `[null,K1]`, `[null]`, `[K1,null,null]`, `[K1,{"kind":"user_scope","key":K2,"role":"r","template":{}},null]`, `[]`, `[K1]`} {
		lj := strings.NewReplacer("K1", `"`+K1+`"`, "K2", `"`+K2+`"`).Replace(listJSON)
		pj := fmt.Sprintf(`{"iat":1700000000,"iss":%q,"jti":"x","sub":%q,"nats":{"signing_keys":%s,"type":"account","version":2}}`, A, A, lj)
		ft := forge(hdrV2, pj, "v2", &signer{kp: akp, pub: A, role: "account"})
		dac, err := jwt.DecodeAccountClaims(ft.Token)
		c.sum.Evaluations++
		c.sum.ImplChecks++
		inp := map[string]interface{}{"entity": "account", "signing_keys_json": listJSON}
		if err != nil {
			c.count("account_token_with_null_key_entries_refused")
			continue
		}
		var listed []string
		if strings.Contains(listJSON, "K1") {
			listed = append(listed, K1)
		}
		if strings.Contains(listJSON, "K2") {
			listed = append(listed, K2)
		}
		for _, iss := range []string{"", K1, K2, AX, "null"} {
			for _, kind := range []string{"user", "activation"} {
				got, want := dac.DidSign(mkClaim(kind, iss, U, A)), contains(listed, iss)
				if got != want {
					inp["issuer"], inp["kind"], inp["impl"], inp["spec"], inp["keys"] = nameOf(iss, A, K1, K2, AX, B), kind, got, want, dac.SigningKeys.Keys()
					c.violation("account DidSign differs from the trust rule for an account decoded from a token whose signing_keys list holds entries that are no keys", inp)
				}
			}
		}
		if dac.SigningKeys.Contains("") {
			inp["keys"] = dac.SigningKeys.Keys()
			c.violation("an account decoded from a token whose signing_keys list holds a null lists the empty text as a signing key", inp)
		}
		c.count("account_token_with_null_key_entries")
	}
	// ---------- the answer follows the key lists AS THEY ARE NOW: query, rotate keys (same number of keys), query again
	{
		oc := jwt.NewOperatorClaims(O)
		oc.SigningKeys.Add(S, X)
		ac := jwt.NewAccountClaims(A)
		ac.SigningKeys.Add(K1)
		us := jwt.NewUserScope()
		us.Key = K2
		ac.SigningKeys.AddScopedSigner(us)
		pool := []string{S, X, O2, A, K1, K2, AX, B}
		for step := 0; step < 40; step++ {
			for _, iss := range pool {
				oclaim := mkClaim("account", iss, A, "")
				gotO, wantO := oc.DidSign(oclaim), iss == O || contains(oc.SigningKeys, iss)
				uclaim := mkClaim("user", iss, U, A)
				gotA, wantA := ac.DidSign(uclaim), iss == A || contains(ac.SigningKeys.Keys(), iss)
				c.sum.Evaluations++
				c.sum.ImplChecks++
				if gotO != wantO {
					c.violation("operator DidSign does not follow the signing keys as they are now (after keys were rotated)",
						map[string]interface{}{"entity": "operator", "step": step, "issuer": nameOf(iss, S, X, O2, A, K1, K2, AX, B), "impl": gotO, "spec": wantO, "keys_now": len(oc.SigningKeys)})
				}
				if gotA != wantA {
					c.violation("account DidSign does not follow the signing keys as they are now (after keys were rotated)",
						map[string]interface{}{"entity": "account", "step": step, "issuer": nameOf(iss, S, X, O2, A, K1, K2, AX, B), "impl": gotA, "spec": wantA, "keys_now": len(ac.SigningKeys)})
				}
				wo.add(fmt.Sprintf("(%s, false, %s, %s, %s)", coqStr(O), coqStrList(oc.SigningKeys), claimCoq("account", iss, A, ""), coqBool(gotO)), map[string]interface{}{"step": step})
				wa.add(fmt.Sprintf("(%s, %s, %s, %s)", coqStr(A), coqStrList(ac.SigningKeys.Keys()), claimCoq("user", iss, U, A), coqBool(gotA)), map[string]interface{}{"step": step})
			}
			// rotate: one key out, another in (the number of keys stays the same); sometimes overwrite in place
			switch c.Rng.Intn(3) {
			case 0:
				if len(oc.SigningKeys) > 0 {
					out := oc.SigningKeys[c.Rng.Intn(len(oc.SigningKeys))]
					oc.SigningKeys.Remove(out)
					oc.SigningKeys.Add(pool[c.Rng.Intn(3)])
				}
			case 1:
				if len(oc.SigningKeys) > 0 {
					oc.SigningKeys[c.Rng.Intn(len(oc.SigningKeys))] = pool[c.Rng.Intn(3)]
				}
			default:
				ks := ac.SigningKeys.Keys()
				if len(ks) > 0 {
					ac.SigningKeys.Remove(ks[c.Rng.Intn(len(ks))])
					ac.SigningKeys.Add(pool[4+c.Rng.Intn(3)])
				}
			}
			c.count("key_rotation_steps")
		}
	}
	wo.flush()
	wa.flush()
	c.sum.Exhaustive = true
	c.sum.DistinctNontriv = len(distinct)
	c.sum.Rule = "full cross product: operator {strict} x {identity key also listed} x {signing keys or none} x {before/after encode-decode} x issuer {identity, listed key, unlisted operator key, other operator, account key} x 7 claim kinds x subject {self, other} x issuer-account {empty, set}; account {keys or none} x {round trip} x issuer {identity, plain key, scoped key, unlisted, other account, operator} x 7 kinds x issuer-account {empty, this, other} x subject; real nkeys and claims objects; one operator and one account queried again and again while their signing keys are rotated (same count) or overwritten in place; user / activation claims additionally arriving as v2 and as v1 tokens (all signer x issuer-account combinations); non-trivial = distinct combination of the decision-relevant coordinates and answer"
}

func nameOf(v string, names ...string) string {
	for i, n := range names {
		if v == n {
			return fmt.Sprintf("key%d", i)
		}
	}
	if v == "" {
		return "empty"
	}
	return "other"
}

func nameList(l []string, names ...string) []string {
	var out []string
	for _, x := range l {
		out = append(out, nameOf(x, names...))
	}
	return out
}
