package main

import (
	"flag"
	"fmt"
	"os"
)

var drivers = map[string]func(*Ctx){}

func main() {
	if len(os.Args) < 2 {
		fmt.Fprintln(os.Stderr, "usage: harness <property> -tier quick|thorough -seed N -out DIR")
		os.Exit(2)
	}
	prop := os.Args[1]
	if prop == "gen" {
		fs := flag.NewFlagSet("gen", flag.ExitOnError)
		out := fs.String("out", "", "output directory")
		fs.String("repo", "", "unused (the packages are linked in)")
		fs.Parse(os.Args[2:])
		if err := os.MkdirAll(*out, 0o755); err != nil {
			panic(err)
		}
		runGen(*out)
		return
	}
	fs := flag.NewFlagSet("harness", flag.ExitOnError)
	tier := fs.String("tier", "quick", "quick or thorough")
	seed := fs.Int64("seed", 1, "PRNG seed")
	out := fs.String("out", "", "output directory")
	replay := fs.String("replay", "", "replay file (json) to re-run against the implementation")
	fs.Parse(os.Args[2:])
	d, ok := drivers[prop]
	if !ok {
		fmt.Fprintln(os.Stderr, "unknown property", prop)
		os.Exit(2)
	}
	if *out == "" {
		fmt.Fprintln(os.Stderr, "-out required")
		os.Exit(2)
	}
	if err := os.MkdirAll(*out, 0o755); err != nil {
		panic(err)
	}
	c := newCtx(prop, *tier, *seed, *out)
	c.ReplayFile = *replay
	d(c)
	c.finish()
}
