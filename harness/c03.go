package main

import (
	"encoding/json"
	"fmt"
	"reflect"
	"sort"
	"strings"
	"time"

	jwt "github.com/nats-io/jwt/v2"
	"verifharness/schema"
)

func init() { drivers["C03"] = runC03 }

// canonString renders a Go value field by field with nil and empty containers
// identified, maps sorted, interface values by their JSON form, pointers followed.
func canonString(v reflect.Value) string {
	var sb strings.Builder
	canonWrite(&sb, v)
	return sb.String()
}

func canonWrite(sb *strings.Builder, v reflect.Value) {
	switch v.Kind() {
	case reflect.Bool:
		fmt.Fprintf(sb, "%v", v.Bool())
	case reflect.String:
		fmt.Fprintf(sb, "%q", v.String())
	case reflect.Int, reflect.Int8, reflect.Int16, reflect.Int32, reflect.Int64:
		fmt.Fprintf(sb, "%d", v.Int())
	case reflect.Uint, reflect.Uint8, reflect.Uint16, reflect.Uint32, reflect.Uint64:
		fmt.Fprintf(sb, "%d", v.Uint())
	case reflect.Float64, reflect.Float32:
		fmt.Fprintf(sb, "%v", v.Float())
	case reflect.Slice:
		if v.Len() == 0 {
			sb.WriteString("[]")
			return
		}
		sb.WriteString("[")
		for i := 0; i < v.Len(); i++ {
			if i > 0 {
				sb.WriteString(",")
			}
			canonWrite(sb, v.Index(i))
		}
		sb.WriteString("]")
	case reflect.Map:
		if v.Len() == 0 {
			sb.WriteString("{}")
			return
		}
		keys := v.MapKeys()
		sort.Slice(keys, func(i, j int) bool { return keys[i].String() < keys[j].String() })
		sb.WriteString("{")
		for i, k := range keys {
			if i > 0 {
				sb.WriteString(",")
			}
			fmt.Fprintf(sb, "%q:", k.String())
			canonWrite(sb, v.MapIndex(k))
		}
		sb.WriteString("}")
	case reflect.Ptr:
		if v.IsNil() {
			sb.WriteString("nil")
			return
		}
		sb.WriteString("&")
		canonWrite(sb, v.Elem())
	case reflect.Interface:
		if v.IsNil() {
			sb.WriteString("nil")
			return
		}
		x := v.Elem()
		// scopes: pointer and value forms are the same content
		if x.Kind() == reflect.Ptr && x.Elem().Kind() == reflect.Struct {
			sb.WriteString("scope")
			canonWrite(sb, x.Elem())
			return
		}
		if x.Kind() == reflect.Struct {
			sb.WriteString("scope")
			canonWrite(sb, x)
			return
		}
		b, err := json.Marshal(v.Interface())
		if err != nil {
			sb.WriteString("<unmarshalable>")
			return
		}
		// re-parse and re-print so that e.g. TagList and []interface{} compare alike
		var t interface{}
		json.Unmarshal(b, &t)
		if t == nil {
			sb.WriteString("nil")
			return
		}
		b, _ = json.Marshal(t)
		sb.Write(b)
	case reflect.Struct:
		sb.WriteString("(")
		t := v.Type()
		for i := 0; i < v.NumField(); i++ {
			if !t.Field(i).IsExported() && !t.Field(i).Anonymous {
				continue
			}
			fmt.Fprintf(sb, "%s=", t.Field(i).Name)
			canonWrite(sb, v.Field(i))
			sb.WriteString(";")
		}
		sb.WriteString(")")
	default:
		fmt.Fprintf(sb, "<%s>", v.Kind())
	}
}

// firstDiff locates where two canonical strings part, for the replay record.
func firstDiff(a, b string) string {
	i := 0
	for i < len(a) && i < len(b) && a[i] == b[i] {
		i++
	}
	lo := i - 60
	if lo < 0 {
		lo = 0
	}
	end := func(s string) string {
		hi := i + 60
		if hi > len(s) {
			hi = len(s)
		}
		return s[lo:hi]
	}
	return fmt.Sprintf("encoded: ...%s... decoded: ...%s...", end(a), end(b))
}

func emitterFor(kind string) (*schema.Emitter, *schema.Ty, func(jwt.Claims) reflect.Value) {
	em := schema.NewEmitter(schemaBuilder)
	var z interface{}
	switch kind {
	case "operator":
		z = &jwt.OperatorClaims{}
	case "account":
		z = &jwt.AccountClaims{}
	case "user":
		z = &jwt.UserClaims{}
	case "activation":
		z = &jwt.ActivationClaims{}
	case "authorization_request":
		z = &jwt.AuthorizationRequestClaims{}
	case "authorization_response":
		z = &jwt.AuthorizationResponseClaims{}
	default:
		z = &jwt.GenericClaims{}
	}
	t := schemaBuilder.Of(reflect.TypeOf(z).Elem())
	return em, t, func(c jwt.Claims) reflect.Value { return reflect.ValueOf(c).Elem() }
}

// entries planted into free-form generic data under the names the decoder's kind / version probe reads
var reservedPlants = []struct {
	key string
	val interface{}
}{{"type", 5.0}, {"type", "user"}, {"type", "my_kind"}, {"tags", "x"}, {"tags", []interface{}{"a", "b"}}, {"tags", []interface{}{1.0}},
	{"version", "a"}, {"version", 7.0}, {"Type", true}, {"type", nil}, {"type", "cluster"}, {"type", "account"}, {"TAGS", map[string]interface{}{"a": 1.0}},
	{"type", "generic"}, {"tags", nil}, {"tags", []interface{}{}}}

// reservedBreaks: is this the shape recorded as finding K4 (a "type" that is not a string or names a kind with a
// loader of its own or a retired kind; "tags" that is not a list of strings)?  Names match as encoding/json matches them.
func reservedBreaks(v interface{}, key string) bool {
	switch strings.ToLower(key) {
	case "type":
		switch x := v.(type) {
		case nil:
			return false
		case string:
			switch x {
			case "operator", "account", "user", "activation", "authorization_request", "authorization_response", "cluster", "server":
				return true
			}
			return false
		}
		return true
	case "tags":
		switch x := v.(type) {
		case nil:
			return false
		case []interface{}:
			for _, e := range x {
				if _, ok := e.(string); !ok && e != nil {
					return true
				}
			}
			return false
		}
		return true
	}
	return false
}

// features of a claims object that select known findings (narrow matchers in props.py)
func claimFeatures(cl jwt.Claims) map[string]interface{} {
	f := map[string]interface{}{}
	if ac, ok := cl.(*jwt.AccountClaims); ok {
		f["tiers_and_flat_js"] = len(ac.Limits.JetStreamTieredLimits) > 0 && ac.Limits.JetStreamLimits != (jwt.JetStreamLimits{})
		zeroLimit := false
		for _, s := range ac.SigningKeys {
			var us *jwt.UserScope
			switch x := s.(type) {
			case *jwt.UserScope:
				us = x
			case jwt.UserScope:
				us = &x
			}
			if us != nil && (us.Template.Subs == 0 || us.Template.Data == 0 || us.Template.Payload == 0) {
				zeroLimit = true
			}
		}
		f["scope_template_zero_limit"] = zeroLimit
	}
	return f
}

// applyKnownC03 rewrites the encoded object the way the two recorded findings
// change it on decoding and says which applied: K1 flat JetStream limits are
// cleared when tiered limits exist; K2 a scope template's zero subs/data/payload
// limit comes back as -1.
func applyKnownC03(cl jwt.Claims) []string {
	ac, ok := cl.(*jwt.AccountClaims)
	if !ok {
		return nil
	}
	var out []string
	if len(ac.Limits.JetStreamTieredLimits) > 0 && ac.Limits.JetStreamLimits != (jwt.JetStreamLimits{}) {
		ac.Limits.JetStreamLimits = jwt.JetStreamLimits{}
		out = append(out, "K1")
	}
	k2 := false
	for k, s := range ac.SigningKeys {
		var us *jwt.UserScope
		switch x := s.(type) {
		case *jwt.UserScope:
			us = x
		case jwt.UserScope:
			y := x
			us = &y
			ac.SigningKeys[k] = us
		}
		if us == nil {
			continue
		}
		if us.Template.Subs == 0 {
			us.Template.Subs, k2 = -1, true
		}
		if us.Template.Data == 0 {
			us.Template.Data, k2 = -1, true
		}
		if us.Template.Payload == 0 {
			us.Template.Payload, k2 = -1, true
		}
	}
	if k2 {
		out = append(out, "K2")
	}
	return out
}

func runC03(c *Ctx) {
	w := c.newCaseWriter("codec", "From JWT Require Import Model.Claims.\nOpen Scope Z_scope.", "ckind * val * json * val", "ccase_ok")
	wp := c.newCaseWriter("probe", "From JWT Require Import Model.Pipeline.\nOpen Scope Z_scope.", "ckind * json * string", "prich_ok")
	defer wp.flush()
	kr := newKeyring()
	g := &valGen{rng: c.Rng, kr: kr, fill: 50, scopeByValue: true, wideInts: true}
	perKind := 40
	perKindSpec := 400
	if c.thorough() {
		perKind, perKindSpec = 300, 6000
	}
	distinct := map[string]bool{}
	for _, kind := range kindNames {
		em, ty, elem := emitterFor(kind)
		for i := 0; i < perKindSpec; i++ {
			g.fill = []int{15, 50, 90}[i%3]
			cl, s := g.newClaims(kind)
			reserved := ""
			if gc, ok := cl.(*jwt.GenericClaims); ok && gc.Data != nil && i%4 == 3 {
				// free-form data that uses the names the decoder's kind/version probe reads ("type", "tags", "version")
				pl := reservedPlants[(i/4)%len(reservedPlants)]
				gc.Data[pl.key] = pl.val
				reserved = pl.key
			}
			// very large claims (a megabyte and more of payload: a long name, tens of thousands of revocations): what Encode
			// writes, the decoders read - there is no size at which that stops (these do not go to the Coq evaluation)
			if i == perKind || i == perKind+1 {
				cl.Claims().Name = strings.Repeat("n", (1<<20)*(1+2*(i-perKind))+17)
				if ac, ok := cl.(*jwt.AccountClaims); ok && i == perKind+1 {
					cl.Claims().Name = "many revocations"
					for r := 0; r < 30000; r++ {
						ac.RevokeAt(fmt.Sprintf("UREVOKED%dXXXXXXXXXXXXXXXXXXXXXXXXXXXXXXXXXXXXXXXXXXXX", r), time.Unix(int64(1000+r), 0))
					}
				}
				c.count("very_large_claims")
			}
			// a scope put together by hand, its kind left at the zero value: if Encode takes it, the decoders give it back as it was
			if ac, ok := cl.(*jwt.AccountClaims); ok && i > perKind+1 && i%8 == 5 {
				if ac.SigningKeys == nil {
					ac.SigningKeys = jwt.SigningKeys{}
				}
				k := newSigner("account").pub
				ac.SigningKeys[k] = &jwt.UserScope{Key: k, Role: "kind left at zero"}
				c.count("hand_built_scope_kind_zero")
			}
			tok, err := cl.Encode(s.kp)
			c.sum.Evaluations++
			if err != nil {
				c.count("encode_error_" + kind)
				c.sum.ImplChecks++
				if tok != "" {
					c.violation("C12: a failed Encode returned a non-empty token", map[string]interface{}{"kind": kind, "error": err.Error()})
				}
				continue
			}
			c.count("encoded_" + kind)
			feat := claimFeatures(cl)
			inp := map[string]interface{}{"kind": kind, "signer_role": s.role, "token": tok, "features": feat}
			poisonStep() // (what came before must not matter)
			d, err := jwt.Decode(tok)
			c.sum.ImplChecks++
			if err != nil || dynKind(d) != kind {
				if err != nil {
					inp["error"] = err.Error()
				} else {
					inp["decoded_kind"] = dynKind(d)
				}
				if gc, ok := cl.(*jwt.GenericClaims); ok && reserved != "" && reservedBreaks(gc.Data[reserved], reserved) {
					// the recorded finding K4, and nothing else: without the planted entry the same claims round-trip
					delete(gc.Data, reserved)
					if t2, e2 := gc.Encode(s.kp); e2 == nil {
						if d2, e3 := jwt.Decode(t2); e3 == nil && dynKind(d2) == kind && canonString(elem(d2)) == canonString(elem(gc)) {
							inp["known"], inp["reserved_name"] = []string{"K4"}, reserved
							c.violation("C03 known: K4", inp)
							continue
						}
					}
				}
				if err != nil {
					c.violation("C03: Decode refuses a token the library's own Encode produced", inp)
				} else {
					c.violation("C03: Decode returns claims of another kind than encoded", inp)
				}
				continue
			}
			want := canonString(elem(cl))
			vterm := ""
			if i < perKind {
				vterm = em.Val(ty, elem(cl))
			}
			got := canonString(elem(d))
			if want != got {
				// the two recorded findings, and nothing else, may explain a difference
				adj := applyKnownC03(cl)
				if len(adj) > 0 && canonString(elem(cl)) == got {
					inp["known"] = adj
					c.violation("C03 known: "+strings.Join(adj, " + "), inp)
					want = got
				} else {
					inp["diff"] = firstDiff(want, got)
					c.violation("C03: decoded claims differ from the encoded claims", inp)
					continue
				}
			}
			// the typed decoder returns the same
			typed := func() (jwt.Claims, error) {
				switch kind {
				case "operator":
					return jwt.DecodeOperatorClaims(tok)
				case "account":
					return jwt.DecodeAccountClaims(tok)
				case "user":
					return jwt.DecodeUserClaims(tok)
				case "activation":
					return jwt.DecodeActivationClaims(tok)
				case "authorization_request":
					return jwt.DecodeAuthorizationRequestClaims(tok)
				case "authorization_response":
					return jwt.DecodeAuthorizationResponseClaims(tok)
				}
				return jwt.DecodeGeneric(tok)
			}
			td, err := typed()
			if err != nil || canonString(elem(td)) != got {
				inp["error"] = fmt.Sprint(err)
				c.violation("C03: the decoder for the kind disagrees with the general decoder", inp)
				continue
			}
			// ... and again, after the caller has written all over what it was handed the first time: the content comes
			// from the token, not from an object handed out before
			scribble(td)
			if td2, err2 := typed(); err2 != nil || canonString(elem(td2)) != got {
				inp["error"] = fmt.Sprint(err2)
				c.violation("C03: decoding the same token again, after the first result was edited, does not give the encoded content", inp)
				continue
			}
			scribble(td)
			if d2, err2 := jwt.Decode(tok); err2 != nil || canonString(elem(d2)) != got {
				c.violation("C03: decoding the same token again, after a typed decoder's result was edited, does not give the encoded content", inp)
				continue
			}
			dterm := ""
			if i < perKind {
				dterm = em.Val(ty, elem(d))
			}
			// decode -> re-encode -> decode gives the same content (stamps aside)
			tok2, err := d.Encode(s.kp)
			if err != nil {
				inp["error"] = err.Error()
				c.violation("C03: re-encoding decoded claims fails", inp)
				continue
			}
			poisonStep() // (what came before must not matter)
			d2, err := jwt.Decode(tok2)
			if err != nil {
				inp["error"] = err.Error()
				c.violation("C03: the re-encoded token does not decode", inp)
				continue
			}
			blank := func(x jwt.Claims) string {
				cd := x.Claims()
				iat, jti := cd.IssuedAt, cd.ID
				cd.IssuedAt, cd.ID = 0, ""
				s := canonString(elem(x))
				cd.IssuedAt, cd.ID = iat, jti
				return s
			}
			if a, b := blank(d), blank(d2); a != b {
				inp["diff"] = firstDiff(a, b)
				c.violation("C03: decode, re-encode, decode changes the content", inp)
				continue
			}
			distinct[got] = true
			if i < perKind {
				ch := strings.Split(tok, ".")
				raw, _ := b64.DecodeString(ch[1])
				term := fmt.Sprintf("(%s, %s, %s, %s)", kindCoq[kind], vterm, schema.JSONTerm(raw), dterm)
				w.add(term, inp)
				// the decoder's JSON-level steps as the end-to-end theorem defines them, on this real payload
				wp.add(fmt.Sprintf("(%s, %s, %s)", kindCoq[kind], schema.JSONTerm(raw), coqStr(d.Claims().Issuer)), inp)
			}
			if i%131 == 0 {
				c.sample(map[string]interface{}{"kind": kind, "signer_role": s.role, "payload": string(func() []byte { r, _ := b64.DecodeString(strings.Split(tok, ".")[1]); return r }())})
			}
		}
	}
	w.flush()
	c.sum.DistinctNontriv = len(distinct)
	c.sum.Rule = fmt.Sprintf("random claims values of each of the 7 kinds generated by reflection from the Go types (fields populated with probability 15/50/90%%, nil vs empty containers, boundary integers up to +-2^63, JSON/HTML-special and non-ASCII strings, plain and scoped signing keys by pointer and by value, free-form generic data), %d per kind against the round-trip specification and the first %d per kind also through the Coq model (enc tree and dec value); non-trivial = distinct decoded content", perKindSpec, perKind)
}
