package main

import (
	"crypto/sha256"
	"encoding/base32"
	"fmt"
	"strings"

	jwt "github.com/nats-io/jwt/v2"
	v1 "github.com/nats-io/jwt/v2/v1compat"
	"github.com/nats-io/nkeys"
)

func init() { drivers["C18"] = runC18 }

// independent oracle for the hashed text
func oracleClean(s string) string {
	toks := strings.Split(s, ".")
	for i, t := range toks {
		if t == "*" || t == ">" {
			if i == 0 {
				return "_"
			}
			c := strings.Join(toks[:i], ".")
			if c == "" {
				return s
			}
			return c
		}
	}
	return s
}

func oracleHash(pre string) string {
	h := sha256.Sum256([]byte(pre))
	return base32.StdEncoding.EncodeToString(h[:])
}

func runC18(c *Ctx) {
	w := c.newCaseWriter("hash", "From JWT Require Import Model.HashID.", "string * string * string * string * string * option string", "hcase_ok")
	var accts []nkeys.KeyPair
	for i := 0; i < 4; i++ {
		kp, _ := nkeys.CreateAccount()
		accts = append(accts, kp)
	}
	okp, _ := nkeys.CreateOperator()
	signers := append([]nkeys.KeyPair{okp}, accts...)
	toksA := []string{"a", "b", "foo", "*", ">", "x1", "_", "A", "a*b", "x>y", "*foo", "bar>", "**", "cpu%", "%s", "$1", "%", "a\\b"}
	genSubj := func() string {
		n := 1 + c.Rng.Intn(5)
		t := make([]string, n)
		for i := range t {
			t[i] = toksA[c.Rng.Intn(len(toksA))]
			if t[i] == ">" && i != n-1 {
				t[i] = "*"
			}
		}
		return strings.Join(t, ".")
	}
	shapes := []string{"foo.a*b.>", "foo.a*b", "*foo.bar", "x>y.bar.*", "a", "a.b", "a.b.c", "*", ">", "*.a", "a.*", "a.>", "a.*.b", "a.b.*.>", "*.*", "_", "_.a", "a.b.*", "foo.*.bar.>"}
	// characters that do not show (zero-width space, no-break space, byte-order mark, soft hyphen) are characters
	shapes = append(shapes, "orders\u200b.eu.*", "a\u00a0b.c.>", "\ufeffx.y", "so\u00adft.*", "x.\u200b.*", "tab\tbed.*")
	// characters that mean something to a formatter, a template or a shell mean nothing in a subject
	shapes = append(shapes, "metrics.cpu%.*", "load.100%", "fmt.%s.>", "%d", "%v.%v.*", "a.%!s(MISSING)", "a.%s", "100%%.>", "%[1]s.x", "back\\slash.*",
		"$1.x.*", "{{.}}.>", "${HOME}.*", "q\"uote.*", "semi;colon", "a b.c.*", "new\nline.*", "%x%x%x%n")
	// subjects with empty tokens (a doubled, leading or trailing dot) - validation objects to them, the identity is
	// computed from the text as it is, before and after migration and re-encoding
	shapes = append(shapes, "orders..eu.*", "orders.eu.", "orders..>", ".a.*", "a..b", "..", "a.b..*.c", "orders.eu..*", ".", "a.*.", "x..y..>")
	// deep subjects: many literal tokens before the first wildcard (and none at all), several tails on the same prefix
	for _, depth := range []int{7, 8, 9, 15, 16, 17, 20, 31, 32, 33, 64, 100} {
		var lit []string
		for i := 0; i < depth; i++ {
			lit = append(lit, fmt.Sprintf("t%d", i%10))
		}
		pre := strings.Join(lit, ".")
		for _, tail := range []string{"", ".*", ".>", ".*.x", ".*.x.>", ".x.*"} {
			shapes = append(shapes, pre+tail)
		}
	}
	distinct := map[string]bool{}
	emit := func(iss, sub, imp string, got string, refused bool, inp map[string]interface{}) {
		pre := iss + "." + sub + "." + oracleClean(imp)
		want := oracleHash(pre)
		wantRefused := iss == "" || sub == "" || imp == ""
		c.sum.Evaluations++
		c.sum.ImplChecks++
		inp["issuer"], inp["subject"], inp["import_subject"] = iss, sub, imp
		if refused != wantRefused || (!refused && got != want) {
			inp["impl"], inp["spec"], inp["impl_refused"], inp["spec_refused"] = got, want, refused, wantRefused
			c.violation("HashID differs from base32(sha256(issuer.subject.cleaned-subject)) / refusal rule", inp)
		}
		obs := "None"
		if !refused {
			obs = "(Some " + coqStr(got) + ")"
		}
		w.add(fmt.Sprintf("(%s, %s, %s, %s, %s, %s)", coqStr(iss), coqStr(sub), coqStr(imp), coqStr(pre), coqStr(want), obs), inp)
	}
	n := 250
	if c.thorough() {
		n = 4000
	}
	for i := 0; i < n+len(shapes); i++ {
		var imp string
		if i < len(shapes) {
			imp = shapes[i]
		} else if i%29 == 7 {
			imp = "" // an activation without a granted subject: no identity, in either library, before or after migration
		} else {
			imp = genSubj()
		}
		signer := signers[c.Rng.Intn(len(signers))]
		subKp := accts[c.Rng.Intn(len(accts))]
		sub := mustPub(subKp)
		// two v1 activations with the same (issuer, subject, granted subject), everything else different
		var hashes []string
		for variant := 0; variant < 2; variant++ {
			a1 := v1.NewActivationClaims(sub)
			a1.ImportSubject = v1.Subject(imp)
			a1.ImportType = v1.Stream
			if c.Rng.Intn(2) == 0 {
				a1.ImportType = v1.Service
			}
			a1.Name = fmt.Sprintf("n%d", c.Rng.Intn(1000))
			a1.Expires = int64(c.Rng.Intn(3)) * (4102444800 + int64(c.Rng.Intn(1000)))
			a1.NotBefore = int64(c.Rng.Intn(2)) * int64(c.Rng.Intn(1000))
			a1.Tags.Add(fmt.Sprintf("t%d", c.Rng.Intn(10)))
			a1.Max = int64(c.Rng.Intn(100))
			if c.Rng.Intn(2) == 0 {
				a1.IssuerAccount = mustPub(accts[c.Rng.Intn(len(accts))])
			}
			tok1, err := a1.Encode(signer)
			if err != nil {
				panic(err)
			}
			d1, err := v1.DecodeActivationClaims(tok1)
			if err != nil {
				panic(err)
			}
			iss := mustPub(signer)
			h1, e1 := d1.HashID()
			emit(iss, sub, imp, h1, e1 != nil, map[string]interface{}{"stage": "v1 encode -> v1 decode -> v1 HashID"})
			poisonStep() // (what came before must not matter)
			d2, err := jwt.DecodeActivationClaims(tok1)
			if err != nil {
				panic(err)
			}
			h2, e2 := d2.HashID()
			emit(d2.Issuer, d2.Subject, string(d2.ImportSubject), h2, e2 != nil, map[string]interface{}{"stage": "v1 token -> v2 decode (migration) -> v2 HashID"})
			tok3, err := d2.Encode(signer)
			if err != nil {
				panic(err)
			}
			poisonStep() // (what came before must not matter)
			d3, err := jwt.DecodeActivationClaims(tok3)
			if err != nil {
				panic(err)
			}
			h3, e3 := d3.HashID()
			emit(d3.Issuer, d3.Subject, string(d3.ImportSubject), h3, e3 != nil, map[string]interface{}{"stage": "v2 re-encode -> v2 decode -> v2 HashID"})
			c.sum.ImplChecks++
			if imp == "" {
				// nothing granted: every stage refuses
				if e1 == nil || e2 == nil || e3 == nil {
					c.violation("an activation without a granted subject gets a hash identity at some stage", map[string]interface{}{"v1_refused": e1 != nil, "v2_migrated_refused": e2 != nil, "v2_reencoded_refused": e3 != nil})
				}
			} else if h1 != h2 || h2 != h3 || e1 != nil || e2 != nil || e3 != nil {
				c.violation("hash identity changes across v1 / migration / re-encoding", map[string]interface{}{"import_subject": imp, "v1": h1, "v2_migrated": h2, "v2_reencoded": h3})
			}
			hashes = append(hashes, h1)
		}
		c.sum.ImplChecks++
		if hashes[0] != hashes[1] {
			c.violation("hash identity depends on a field other than issuer, subject and granted-subject prefix", map[string]interface{}{"import_subject": imp})
		}
		distinct[imp] = true
		if strings.ContainsAny(imp, "*>") {
			c.count("wildcard_subject")
		} else {
			c.count("literal_subject")
		}
		if i%97 == 0 {
			c.sample(map[string]interface{}{"import_subject": imp, "hash": hashes[0]})
		}
	}
	// refusals and odd in-memory values (no token involved)
	for _, iss := range []string{"", "ISS"} {
		for _, sub := range []string{"", "SUB"} {
			for _, imp := range []string{"", "a.*", ".*", "a..b", "*"} {
				a2 := &jwt.ActivationClaims{}
				a2.Issuer, a2.Subject, a2.ImportSubject = iss, sub, jwt.Subject(imp)
				h, err := a2.HashID()
				emit(iss, sub, imp, h, err != nil, map[string]interface{}{"stage": "v2 in-memory"})
				a1 := &v1.ActivationClaims{}
				a1.Issuer, a1.Subject, a1.ImportSubject = iss, sub, v1.Subject(imp)
				h, err = a1.HashID()
				emit(iss, sub, imp, h, err != nil, map[string]interface{}{"stage": "v1 in-memory"})
				c.count("in_memory")
			}
		}
	}
	// the id is a function of the three fields AS THEY ARE NOW: edit one object between calls (v2 and v1 objects alike)
	steps := n / 2
	a2 := jwt.NewActivationClaims(mustPub(accts[0]))
	a1 := v1.NewActivationClaims(mustPub(accts[0]))
	issPool := []string{"", mustPub(signers[0]), mustPub(signers[len(signers)-1])}
	subPool := []string{"", mustPub(accts[0]), mustPub(accts[len(accts)-1])}
	for i := 0; i < steps; i++ {
		switch c.Rng.Intn(4) {
		case 0:
			x := issPool[c.Rng.Intn(len(issPool))]
			a2.Issuer, a1.Issuer = x, x
		case 1:
			x := subPool[c.Rng.Intn(len(subPool))]
			a2.Subject, a1.Subject = x, x
		case 2:
			x := shapes[c.Rng.Intn(len(shapes))]
			if c.Rng.Intn(6) == 0 {
				x = ""
			}
			a2.ImportSubject, a1.ImportSubject = jwt.Subject(x), v1.Subject(x)
		default:
			a2.Name, a1.Name = fmt.Sprint("n", i), fmt.Sprint("n", i) // a field the id must not depend on
		}
		h, err := a2.HashID()
		emit(a2.Issuer, a2.Subject, string(a2.ImportSubject), h, err != nil, map[string]interface{}{"stage": "v2 same object, after edit step", "step": i})
		h, err = a1.HashID()
		emit(a1.Issuer, a1.Subject, string(a1.ImportSubject), h, err != nil, map[string]interface{}{"stage": "v1 same object, after edit step", "step": i})
		c.count("same_object_edit_steps")
	}
	w.flush()
	c.sum.DistinctNontriv = len(distinct)
	c.sum.Rule = "one v2 and one v1 object edited field by field with HashID after every step; activations with every granted-subject shape (literal, inner/trailing/leading wildcard, '>' alone, '_' tokens) and random other fields, two per shape differing in everything but (issuer, subject, granted subject): v1 encode -> v1 HashID, v2 decode -> v2 HashID, v2 re-encode -> HashID; in-memory empty-field refusals; non-trivial = distinct granted subject"
}
