package main

// Rendering claims as the typed records of Model/Validate.v, computing the fact
// tables (key roles, URL / CIDR / clock / time-zone judgements, embedded
// activation tokens) and observing Validate.

import (
	"fmt"
	"net"
	"net/url"
	"sort"
	"strings"
	"time"

	jwt "github.com/nats-io/jwt/v2"
)

type factSet struct {
	roles, urls, cidrs, clocks, zones, acts map[string]bool
}

func newFactSet() *factSet {
	return &factSet{map[string]bool{}, map[string]bool{}, map[string]bool{}, map[string]bool{}, map[string]bool{}, map[string]bool{}}
}

func coqCD(cd *jwt.ClaimsData) string {
	return fmt.Sprintf("{| cd_aud := %s; cd_exp := %s; cd_iat := %s; cd_iss := %s; cd_name := %s; cd_nbf := %s; cd_sub := %s |}",
		coqStr(cd.Audience), coqZ(cd.Expires), coqZ(cd.IssuedAt), coqStr(cd.Issuer), coqStr(cd.Name), coqZ(cd.NotBefore), coqStr(cd.Subject))
}

func (f *factSet) cd(cd *jwt.ClaimsData) {
	f.roles[cd.Issuer], f.roles[cd.Subject], f.roles[cd.Audience] = true, true, true
}

func coqPermission(p jwt.Permission) string {
	return fmt.Sprintf("{| p_allow := %s; p_deny := %s |}", coqStrList(p.Allow), coqStrList(p.Deny))
}
func coqPermissions(p jwt.Permissions) string {
	return fmt.Sprintf("{| perm_pub := %s; perm_sub := %s |}", coqPermission(p.Pub), coqPermission(p.Sub))
}

func coqActivation(a *jwt.Activation, f *factSet) string {
	f.roles[a.IssuerAccount] = true
	return fmt.Sprintf("{| at_subject := %s; at_type := %s; at_issuer_account := %s |}", coqStr(string(a.ImportSubject)), coqZ(int64(a.ImportType)), coqStr(a.IssuerAccount))
}

func coqJS(j jwt.JetStreamLimits) string {
	return fmt.Sprintf("{| js_ints := [%s; %s; %s; %s; %s; %s; %s]; js_flag := %s |}", coqZ(j.MemoryStorage), coqZ(j.DiskStorage), coqZ(j.Streams),
		coqZ(j.Consumer), coqZ(j.MaxAckPending), coqZ(j.MemoryMaxStreamBytes), coqZ(j.DiskMaxStreamBytes), coqBool(j.MaxBytesRequired))
}

func coqAccount(a *jwt.Account, f *factSet) string {
	ims := make([]string, len(a.Imports))
	for i, im := range a.Imports {
		if im == nil {
			ims[i] = "None"
			continue
		}
		if im.Token != "" {
			f.acts[im.Token] = true
		}
		ims[i] = fmt.Sprintf("(Some {| im_subject := %s; im_account := %s; im_token := %s; im_to := %s; im_local := %s; im_type := %s; im_share := %s; im_allow_trace := %s |})",
			coqStr(string(im.Subject)), coqStr(im.Account), coqStr(im.Token), coqStr(string(im.To)), coqStr(string(im.LocalSubject)), coqZ(int64(im.Type)), coqBool(im.Share), coqBool(im.AllowTrace))
	}
	exs := make([]string, len(a.Exports))
	for i, ex := range a.Exports {
		if ex == nil {
			exs[i] = "None"
			continue
		}
		lat := "None"
		if ex.Latency != nil {
			lat = fmt.Sprintf("(Some {| lat_sampling := %s; lat_results := %s |})", coqZ(int64(ex.Latency.Sampling)), coqStr(string(ex.Latency.Results)))
		}
		if ex.InfoURL != "" {
			f.urls[ex.InfoURL] = true
		}
		atp := int64(ex.AccountTokenPosition)
		if ex.AccountTokenPosition > 1<<62 {
			atp = 1 << 62
		}
		exs[i] = fmt.Sprintf("(Some {| ex_subject := %s; ex_type := %s; ex_response_type := %s; ex_threshold := %s; ex_latency := %s; ex_atp := %s; ex_allow_trace := %s; ex_desc := %s; ex_url := %s |})",
			coqStr(string(ex.Subject)), coqZ(int64(ex.Type)), coqStr(string(ex.ResponseType)), coqZ(int64(ex.ResponseThreshold)), lat, coqZ(atp), coqBool(ex.AllowTrace), coqStr(ex.Description), coqStr(ex.InfoURL))
	}
	l := a.Limits
	var tnames []string
	for k := range l.JetStreamTieredLimits {
		tnames = append(tnames, k)
	}
	sort.Strings(tnames)
	tiers := make([]string, len(tnames))
	for i, k := range tnames {
		tiers[i] = "(" + coqStr(k) + ", " + coqJS(l.JetStreamTieredLimits[k]) + ")"
	}
	lim := fmt.Sprintf("{| ol_nats := [%s; %s; %s]; ol_imports := %s; ol_exports := %s; ol_wildcards := %s; ol_disallow_bearer := %s; ol_conn := %s; ol_leaf := %s; ol_js := %s; ol_tiers := %s |}",
		coqZ(l.Subs), coqZ(l.Data), coqZ(l.Payload), coqZ(l.Imports), coqZ(l.Exports), coqBool(l.WildcardExports), coqBool(l.DisallowBearer), coqZ(l.Conn), coqZ(l.LeafNodeConn), coqJS(l.JetStreamLimits), coqList(tiers))
	var sk []string
	for _, k := range sortedScopeKeys(a.SigningKeys) {
		s := a.SigningKeys[k]
		f.roles[k] = true
		if s == nil {
			sk = append(sk, "("+coqStr(k)+", None)")
			continue
		}
		f.roles[s.SigningKey()] = true
		sk = append(sk, "("+coqStr(k)+", Some "+coqStr(s.SigningKey())+")")
	}
	var mk []string
	for k := range a.Mappings {
		mk = append(mk, string(k))
	}
	sort.Strings(mk)
	maps := make([]string, len(mk))
	for i, k := range mk {
		ws := a.Mappings[jwt.Subject(k)]
		it := make([]string, len(ws))
		for j, w := range ws {
			it[j] = fmt.Sprintf("{| wm_subject := %s; wm_weight := %s |}", coqStr(string(w.Subject)), coqZ(int64(w.Weight)))
		}
		maps[i] = "(" + coqStr(k) + ", " + coqList(it) + ")"
	}
	for _, u := range a.Authorization.AuthUsers {
		f.roles[u] = true
	}
	for _, u := range a.Authorization.AllowedAccounts {
		f.roles[u] = true
	}
	f.roles[a.Authorization.XKey] = true
	auth := fmt.Sprintf("{| ea_users := %s; ea_accounts := %s; ea_xkey := %s |}", coqStrList(a.Authorization.AuthUsers), coqStrList(a.Authorization.AllowedAccounts), coqStr(a.Authorization.XKey))
	tr := "None"
	if a.Trace != nil {
		tr = fmt.Sprintf("(Some {| tr_dest := %s; tr_sampling := %s |})", coqStr(string(a.Trace.Destination)), coqZ(int64(a.Trace.Sampling)))
	}
	if a.InfoURL != "" {
		f.urls[a.InfoURL] = true
	}
	return fmt.Sprintf("{| ac_imports := %s; ac_exports := %s; ac_limits := %s; ac_signing_keys := %s; ac_default_perms := %s; ac_mappings := %s; ac_auth := %s; ac_trace := %s; ac_desc := %s; ac_url := %s |}",
		coqList(ims), coqList(exs), lim, coqList(sk), coqPermissions(a.DefaultPermissions), coqList(maps), auth, tr, coqStr(a.Description), coqStr(a.InfoURL))
}

func sortedScopeKeys(sk jwt.SigningKeys) []string {
	var ks []string
	for k := range sk {
		ks = append(ks, k)
	}
	sort.Strings(ks)
	return ks
}

func coqVClaims(c jwt.Claims, f *factSet) string {
	f.cd(c.Claims())
	switch x := c.(type) {
	case *jwt.AccountClaims:
		return "(VCAccount " + coqCD(&x.ClaimsData) + " " + coqAccount(&x.Account, f) + ")"
	case *jwt.OperatorClaims:
		for _, k := range x.SigningKeys {
			f.roles[k] = true
		}
		f.roles[x.SystemAccount] = true
		if x.AccountServerURL != "" {
			f.urls[x.AccountServerURL] = true
		}
		for _, u := range x.OperatorServiceURLs {
			f.urls[u] = true
		}
		return fmt.Sprintf("(VCOperator %s {| op_signing_keys := %s; op_account_server_url := %s; op_service_urls := %s; op_system_account := %s; op_assert_version := %s |})",
			coqCD(&x.ClaimsData), coqStrList(x.SigningKeys), coqStr(x.AccountServerURL), coqStrList(x.OperatorServiceURLs), coqStr(x.SystemAccount), coqStr(x.AssertServerVersion))
	case *jwt.UserClaims:
		f.roles[x.IssuerAccount] = true
		trs := make([]string, len(x.Times))
		for i, t := range x.Times {
			f.clocks[t.Start], f.clocks[t.End] = true, true
			trs[i] = fmt.Sprintf("{| tr_start := %s; tr_end := %s |}", coqStr(t.Start), coqStr(t.End))
		}
		for _, s := range x.Src {
			f.cidrs[s] = true
		}
		f.zones[x.Locale] = true
		return fmt.Sprintf("(VCUser %s {| us_perms := %s; us_limits := {| ul_src := %s; ul_times := %s; ul_locale := %s |}; us_issuer_account := %s |})",
			coqCD(&x.ClaimsData), coqPermissions(x.Permissions), coqStrList(x.Src), coqList(trs), coqStr(x.Locale), coqStr(x.IssuerAccount))
	case *jwt.ActivationClaims:
		return "(VCActivation " + coqCD(&x.ClaimsData) + " " + coqActivation(&x.Activation, f) + ")"
	case *jwt.AuthorizationRequestClaims:
		f.roles[x.UserNkey] = true
		return "(VCAuthRequest " + coqCD(&x.ClaimsData) + " " + coqStr(x.UserNkey) + ")"
	case *jwt.AuthorizationResponseClaims:
		f.roles[x.IssuerAccount] = true
		return fmt.Sprintf("(VCAuthResponse %s {| ar_jwt := %s; ar_error := %s; ar_issuer_account := %s |})", coqCD(&x.ClaimsData), coqStr(x.Jwt), coqStr(x.Error), coqStr(x.IssuerAccount))
	}
	return "(VCGeneric " + coqCD(c.Claims()) + ")"
}

func sortedSet(m map[string]bool) []string {
	var ks []string
	for k := range m {
		ks = append(ks, k)
	}
	sort.Strings(ks)
	return ks
}

func (f *factSet) coq() string {
	// activation tokens first: their own fields add role facts
	var acts []string
	for _, tok := range sortedSet(f.acts) {
		ac, err := jwt.DecodeActivationClaims(tok)
		if err != nil || ac == nil {
			acts = append(acts, "("+coqStr(tok)+", None)")
			continue
		}
		f.cd(&ac.ClaimsData)
		acts = append(acts, fmt.Sprintf("(%s, Some {| av_cd := %s; av_act := %s |})", coqStr(tok), coqCD(&ac.ClaimsData), coqActivation(&ac.Activation, f)))
	}
	var roles []string
	for _, k := range sortedSet(f.roles) {
		r, _ := ownRole(k)
		if r != "none" {
			roles = append(roles, "("+coqStr(k)+", "+roleCoq(r)+")")
		}
	}
	var urls []string
	for _, s := range sortedSet(f.urls) {
		u, err := url.Parse(s)
		if err != nil {
			urls = append(urls, "("+coqStr(s)+", no_url)")
			continue
		}
		urls = append(urls, fmt.Sprintf("(%s, {| u_err := false; u_scheme := %s; u_host_empty := %s; u_user := %s; u_path := %s |})",
			coqStr(s), coqStr(u.Scheme), coqBool(u.Hostname() == ""), coqBool(u.User != nil), coqStr(u.Path)))
	}
	boolTable := func(m map[string]bool, ok func(string) bool) string {
		var it []string
		for _, s := range sortedSet(m) {
			it = append(it, "("+coqStr(s)+", "+coqBool(ok(s))+")")
		}
		return coqList(it)
	}
	cidr := boolTable(f.cidrs, func(s string) bool { _, n, err := net.ParseCIDR(s); return err == nil && n != nil })
	clock := boolTable(f.clocks, func(s string) bool { _, err := time.Parse("15:04:05", s); return err == nil })
	zone := boolTable(f.zones, func(s string) bool { _, err := time.LoadLocation(s); return err == nil })
	return fmt.Sprintf("{| f_roles := %s; f_urls := %s; f_cidr := %s; f_hhmmss := %s; f_tz := %s; f_acts := %s |}",
		coqList(roles), coqList(urls), cidr, clock, zone, coqList(acts))
}

type vobs struct {
	Now       int64
	Blocking  bool
	BlockingT bool
	Time      int
	Panic     string
}

// observeValidate runs Validate inside one wall-clock second.
func observeValidate(c jwt.Claims) (o vobs) {
	defer func() {
		if r := recover(); r != nil {
			o.Panic = fmt.Sprint(r)
		}
	}()
	for {
		t0 := time.Now().UTC().Unix()
		vr := jwt.CreateValidationResults()
		c.Validate(vr)
		t1 := time.Now().UTC().Unix()
		if t0 != t1 {
			continue
		}
		o.Now = t0
		o.Blocking = vr.IsBlocking(false)
		o.BlockingT = vr.IsBlocking(true)
		for _, i := range vr.Issues {
			if i.TimeCheck {
				o.Time++
			}
		}
		return o
	}
}

func vcaseCoq(c jwt.Claims, o vobs) string {
	f := newFactSet()
	cl := coqVClaims(c, f)
	return fmt.Sprintf("{| vc_now := %s; vc_facts := %s; vc_claims := %s; vc_blocking := %s; vc_blocking_t := %s; vc_time := %d%%nat |}",
		coqZ(o.Now), f.coq(), cl, coqBool(o.Blocking), coqBool(o.BlockingT), o.Time)
}

const vcaseRequires = "From JWT Require Import Model.ValidateCase.\nOpen Scope Z_scope."

func claimsSummary(c jwt.Claims) string {
	s := c.String()
	if len(s) > 1500 {
		s = s[:1500] + "..."
	}
	return strings.ReplaceAll(s, "\n", "")
}
