package main

import (
	"fmt"
	"reflect"
	"strings"
	"time"

	jwt "github.com/nats-io/jwt/v2"
)

// sweepMethods calls every exported method reachable from a decoded claims object (the claims, their nested
// sections, list entries, map values) whose parameters can be synthesised - strings, integers, booleans, times,
// durations, validation results, claims, variadic strings - with a few hostile argument choices, each call under
// recover.  It is a net for rarely used entry points; what the calls return is not looked at.
func sweepMethods(root interface{}, report func(op, panic string)) {
	seen := map[uintptr]bool{}
	budget := 4000
	var walk func(v reflect.Value, path string, depth int)
	call := func(recv reflect.Value, path string) {
		t := recv.Type()
		for i := 0; i < t.NumMethod() && budget > 0; i++ {
			m := t.Method(i)
			switch m.Name {
			case "Encode", "String", "MarshalJSON", "UnmarshalJSON":
				continue // exercised elsewhere (Encode last: it sorts and stamps)
			case "Less", "Swap":
				continue // sort.Interface: the indices are the caller's (sort's) responsibility, not untrusted input
			}
			mt := m.Type
			variadic := mt.IsVariadic()
			for variant := 0; variant < 3 && budget > 0; variant++ {
				args := []reflect.Value{recv}
				ok := true
				for a := 1; a < mt.NumIn(); a++ {
					at := mt.In(a)
					if variadic && a == mt.NumIn()-1 {
						if at.Elem().Kind() == reflect.String {
							for _, sv := range [][]string{{}, {"a", "A", " a "}, {"", "x", "x"}}[variant] {
								args = append(args, reflect.ValueOf(sv).Convert(at.Elem()))
							}
							continue
						}
						ok = false
						break
					}
					v, can := synthArg(at, variant, m.Name)
					if !can {
						ok = false
						break
					}
					args = append(args, v)
				}
				if !ok {
					break
				}
				budget--
				name := path + "." + m.Name
				if p := guard(func() { m.Func.Call(args) }); p != "" {
					report(fmt.Sprintf("%s (argument set %d)", name, variant), p)
				}
				if mt.NumIn() == 1 {
					break // no arguments: one call is enough
				}
			}
		}
	}
	walk = func(v reflect.Value, path string, depth int) {
		if depth > 7 || budget <= 0 {
			return
		}
		switch v.Kind() {
		case reflect.Ptr:
			if v.IsNil() {
				return
			}
			if seen[v.Pointer()] {
				return
			}
			seen[v.Pointer()] = true
			if strings.HasPrefix(v.Type().Elem().PkgPath(), "github.com/nats-io/jwt") {
				call(v, path)
			}
			walk(v.Elem(), path, depth+1)
		case reflect.Interface:
			if !v.IsNil() {
				walk(v.Elem(), path, depth+1)
			}
		case reflect.Struct:
			if v.CanAddr() && strings.HasPrefix(v.Type().PkgPath(), "github.com/nats-io/jwt") {
				if !seen[v.Addr().Pointer()] {
					seen[v.Addr().Pointer()] = true
					call(v.Addr(), path)
				}
			}
			for i := 0; i < v.NumField(); i++ {
				if v.Type().Field(i).IsExported() {
					walk(v.Field(i), path+"."+v.Type().Field(i).Name, depth+1)
				}
			}
		case reflect.Slice:
			if v.CanAddr() && strings.HasPrefix(v.Type().PkgPath(), "github.com/nats-io/jwt") {
				call(v.Addr(), path)
			}
			for i := 0; i < v.Len() && i < 4; i++ {
				walk(v.Index(i), fmt.Sprintf("%s[%d]", path, i), depth+1)
			}
		case reflect.Map:
			if strings.HasPrefix(v.Type().PkgPath(), "github.com/nats-io/jwt") {
				call(v, path) // map types have value receivers
			}
			for n, k := range v.MapKeys() {
				if n >= 3 {
					break
				}
				e := v.MapIndex(k)
				if e.Kind() == reflect.Ptr || e.Kind() == reflect.Interface {
					walk(e, path+"[key]", depth+1)
				}
			}
		}
	}
	walk(reflect.ValueOf(root), reflect.TypeOf(root).String(), 0)
}

var (
	tClaims = reflect.TypeOf((*jwt.Claims)(nil)).Elem()
	tVR     = reflect.TypeOf(&jwt.ValidationResults{})
	tTime   = reflect.TypeOf(time.Time{})
	tDur    = reflect.TypeOf(time.Duration(0))
)

func synthArg(t reflect.Type, variant int, method string) (reflect.Value, bool) {
	switch {
	case t == tVR:
		return reflect.ValueOf(jwt.CreateValidationResults()), true
	case t == tTime:
		return reflect.ValueOf([]time.Time{time.Unix(5, 0), {}, time.Unix(1<<40, 0)}[variant]), true
	case t == tDur:
		return reflect.ValueOf([]time.Duration{0, -1, 1 << 62}[variant]), true
	case t == tClaims:
		switch variant {
		case 0:
			if method == "DidSign" || method == "IsClaimRevoked" {
				return reflect.Zero(t), true // a missing claim: the statements say what the answer is
			}
			return reflect.ValueOf(jwt.NewGenericClaims("s")).Convert(t), true
		case 1:
			return reflect.ValueOf(jwt.NewUserClaims("UX")).Convert(t), true
		}
		return reflect.ValueOf(jwt.NewActivationClaims("AX")).Convert(t), true
	}
	switch t.Kind() {
	case reflect.String:
		return reflect.ValueOf([]string{"", "a.*.>", "$1..x "}[variant]).Convert(t), true
	case reflect.Bool:
		return reflect.ValueOf(variant == 1).Convert(t), true
	case reflect.Int, reflect.Int8, reflect.Int16, reflect.Int32, reflect.Int64:
		return reflect.ValueOf([]int64{0, -1, 100}[variant]).Convert(t), true
	case reflect.Uint, reflect.Uint8, reflect.Uint16, reflect.Uint32, reflect.Uint64:
		return reflect.ValueOf([]uint64{0, 1, 200}[variant]).Convert(t), true
	case reflect.Ptr:
		if strings.HasPrefix(t.Elem().PkgPath(), "github.com/nats-io/jwt") && t.Elem().Kind() == reflect.Struct {
			return reflect.New(t.Elem()), true // (a nil argument is the caller's doing, not untrusted input)
		}
	case reflect.Struct:
		if strings.HasPrefix(t.PkgPath(), "github.com/nats-io/jwt") {
			return reflect.Zero(t), true
		}
	case reflect.Slice:
		if t.Elem().Kind() == reflect.String {
			return reflect.ValueOf([]string{"a", ""}).Convert(t), true
		}
	}
	return reflect.Value{}, false
}
