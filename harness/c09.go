package main

import (
	"encoding/json"
	"fmt"
	"math"
	"sort"
	"strings"
	"time"

	jwt "github.com/nats-io/jwt/v2"
	"github.com/nats-io/nkeys"
)

func init() { drivers["C09"] = runC09 }

type rop struct {
	Kind string `json:"op"` // revoke | clear | compact | codec
	Key  string `json:"key,omitempty"`
	T    int64  `json:"t,omitempty"`
}

func (o rop) coq() string {
	switch o.Kind {
	case "revoke":
		return fmt.Sprintf("Plain (Revoke %s %s)", coqStr(o.Key), coqZ(o.T))
	case "clear":
		return fmt.Sprintf("Plain (Clear %s)", coqStr(o.Key))
	case "compact":
		return "Plain Compact"
	}
	return "Codec"
}

type kv struct {
	K string
	V int64
}

func sortedEntries(m map[string]int64) []kv {
	var out []kv
	for k, v := range m {
		out = append(out, kv{k, v})
	}
	sort.Slice(out, func(i, j int) bool { return out[i].K < out[j].K })
	return out
}

func coqEntries(e []kv) string {
	it := make([]string, len(e))
	for i, x := range e {
		it[i] = "(" + coqStr(x.K) + ", " + coqZ(x.V) + ")"
	}
	return coqList(it)
}

// the specification oracle: surviving time per key, three one-line rules
type specState map[string]int64

func (s specState) apply(o rop) {
	switch o.Kind {
	case "revoke":
		if old, ok := s[o.Key]; !ok || o.T > old {
			s[o.Key] = o.T
		}
	case "clear":
		delete(s, o.Key)
	case "compact":
		if a, ok := s["*"]; ok {
			for k, v := range s {
				if k != "*" && v <= a {
					delete(s, k)
				}
			}
		}
	}
}

func (s specState) answer(k string, t int64) bool {
	if a, ok := s["*"]; ok && t <= a {
		return true
	}
	v, ok := s[k]
	return ok && t <= v
}

type revObs struct {
	Leak    string // a list that was not operated on changed (which one, what it holds now)
	Nil     bool
	Final   []kv
	Deleted [][]kv
	Queries []struct {
		K string
		T int64
		A bool
	}
	Claims []struct {
		Present bool
		Sub     string
		Iat     int64
		A       bool
	}
}

func (o *revObs) coq(ops []rop) string {
	opsS := make([]string, len(ops))
	for i, x := range ops {
		opsS[i] = x.coq()
	}
	del := make([]string, len(o.Deleted))
	for i, d := range o.Deleted {
		del[i] = coqEntries(d)
	}
	qs := make([]string, len(o.Queries))
	for i, q := range o.Queries {
		qs[i] = "(" + coqStr(q.K) + ", " + coqZ(q.T) + ", " + coqBool(q.A) + ")"
	}
	cs := make([]string, len(o.Claims))
	for i, q := range o.Claims {
		cs[i] = "(" + coqOpt(q.Present, "("+coqStr(q.Sub)+", "+coqZ(q.Iat)+")") + ", " + coqBool(q.A) + ")"
	}
	return fmt.Sprintf("{| rc_ops := %s; rc_final_nil := %s; rc_final := %s; rc_deleted := %s; rc_queries := %s; rc_claims := %s |}",
		coqList(opsS), coqBool(o.Nil), coqEntries(o.Final), coqList(del), coqList(qs), coqList(cs))
}

func (o *revObs) key() string {
	var sb strings.Builder
	fmt.Fprintf(&sb, "%v|%v|%v|", o.Nil, o.Final, o.Deleted)
	for _, q := range o.Queries {
		fmt.Fprintf(&sb, "%v", q.A)
	}
	for _, q := range o.Claims {
		fmt.Fprintf(&sb, "%v", q.A)
	}
	return sb.String()
}

var c09Keys = []string{"a", "b", "*"}
var c09Times = []int64{1, 2, 3}

type revTarget interface {
	apply(o rop) []kv // returns deleted (sorted) for compact
	revs() jwt.RevocationList
	isRevoked(k string, t int64) bool
	claimRevoked(present bool, sub string, iat int64) bool
	bystanders() map[string]jwt.RevocationList // the other revocation lists of the same account, by name
}

// the lists a history is not applied to: the exports "y.quiet" (no revocations) and "z.busy" (one entry of its own), and,
// for an export target, the account's own list
func addBystanders(ac *jwt.AccountClaims) {
	ac.Exports.Add(&jwt.Export{Subject: "y.quiet", Type: jwt.Stream}, &jwt.Export{Subject: "y.silent", Type: jwt.Service})
	busy := &jwt.Export{Subject: "z.busy", Type: jwt.Stream}
	busy.RevokeAt("zz", time.Unix(9, 0))
	ac.Exports.Add(busy)
}
func exportBystanders(ac *jwt.AccountClaims, skip string) map[string]jwt.RevocationList {
	out := map[string]jwt.RevocationList{}
	for _, e := range ac.Exports {
		if e != nil && string(e.Subject) != skip {
			out["export "+string(e.Subject)] = e.Revocations
		}
	}
	return out
}
func (a *acctTarget) bystanders() map[string]jwt.RevocationList { return exportBystanders(a.ac, "") }
func (e *expTarget) bystanders() map[string]jwt.RevocationList {
	out := exportBystanders(e.ac, "x.y")
	out["the account's own list"] = e.ac.Revocations
	return out
}

type acctTarget struct {
	ac *jwt.AccountClaims
	kp nkeys.KeyPair
}

func delSorted(d []jwt.RevocationEntry) []kv {
	out := []kv{}
	for _, e := range d {
		out = append(out, kv{e.PublicKey, e.TimeStamp})
	}
	sort.Slice(out, func(i, j int) bool { return out[i].K < out[j].K })
	return out
}

func (a *acctTarget) apply(o rop) []kv {
	switch o.Kind {
	case "revoke":
		a.ac.RevokeAt(o.Key, time.Unix(o.T, 0))
	case "clear":
		a.ac.ClearRevocation(o.Key)
	case "compact":
		return delSorted(a.ac.Revocations.MaybeCompact())
	case "codec":
		tok, err := a.ac.Encode(a.kp)
		if err != nil {
			panic(err)
		}
		ac2, err := jwt.DecodeAccountClaims(tok)
		if err != nil {
			panic(err)
		}
		a.ac = ac2
	}
	return nil
}
func (a *acctTarget) revs() jwt.RevocationList { return a.ac.Revocations }
func (a *acctTarget) isRevoked(k string, t int64) bool {
	return a.ac.Revocations.IsRevoked(k, time.Unix(t, 0))
}
func (a *acctTarget) claimRevoked(present bool, sub string, iat int64) bool {
	if !present {
		return a.ac.IsClaimRevoked(nil)
	}
	uc := &jwt.UserClaims{}
	uc.Subject = sub
	uc.IssuedAt = iat
	plain := a.ac.IsClaimRevoked(uc)
	// a claim that ARRIVES AS A TOKEN without an issue time (the member absent, 0 or null; a not-before or expiry time
	// may be there) or without a subject is such a claim too
	if iat == 0 || sub == "" {
		for _, d := range tokenBorneUsers(sub, iat) {
			if !a.ac.IsClaimRevoked(d) {
				c09Dressed = fmt.Sprintf("a user token decoded without %s (iat=%d sub=%q nbf=%d as decoded) is not reported as revoked", map[bool]string{true: "an issue time", false: "a subject"}[iat == 0], d.IssuedAt, d.Subject, d.NotBefore)
				return !plain
			}
		}
	}
	// nothing else the claim holds matters: the same question with every other key of the histories (and the
	// wildcard name) in the issuer, issuer-account, name, audience and id fields
	for _, other := range []string{"a", "b", "*"} {
		if other == sub {
			continue
		}
		d := &jwt.UserClaims{}
		d.Subject, d.IssuedAt = sub, iat
		d.Issuer, d.IssuerAccount, d.Name, d.Audience, d.ID = other, other, other, other, other
		d.Tags.Add(other)
		if a.ac.IsClaimRevoked(d) != plain {
			c09Dressed = fmt.Sprintf("the answer for subject %q issued at %d changes when issuer, issuer account, name, audience and id are %q", sub, iat, other)
			return !plain // reported as a wrong answer for this (subject, issue time)
		}
	}
	return plain
}

// set when a claim's other fields changed an IsClaimRevoked answer (the replay names the fields)
var c09Dressed string

type expTarget struct {
	ac *jwt.AccountClaims // the export lives in an account so that it can go through the codec
	kp nkeys.KeyPair
}

func (e *expTarget) ex() *jwt.Export { return e.ac.Exports[0] }
func (e *expTarget) apply(o rop) []kv {
	switch o.Kind {
	case "revoke":
		e.ex().RevokeAt(o.Key, time.Unix(o.T, 0))
	case "clear":
		e.ex().ClearRevocation(o.Key)
	case "compact":
		return delSorted(e.ex().Revocations.MaybeCompact())
	case "codec":
		tok, err := e.ac.Encode(e.kp)
		if err != nil {
			panic(err)
		}
		ac2, err := jwt.DecodeAccountClaims(tok)
		if err != nil {
			panic(err)
		}
		e.ac = ac2
	}
	return nil
}
func (e *expTarget) revs() jwt.RevocationList { return e.ex().Revocations }
func (e *expTarget) isRevoked(k string, t int64) bool {
	return e.ex().Revocations.IsRevoked(k, time.Unix(t, 0))
}
func (e *expTarget) claimRevoked(present bool, sub string, iat int64) bool {
	if !present {
		return e.ex().IsClaimRevoked(nil)
	}
	ac := &jwt.ActivationClaims{}
	ac.Subject = sub
	ac.IssuedAt = iat
	plain := e.ex().IsClaimRevoked(ac)
	for _, other := range []string{"a", "b", "*"} {
		if other == sub {
			continue
		}
		d := &jwt.ActivationClaims{}
		d.Subject, d.IssuedAt = sub, iat
		d.Issuer, d.IssuerAccount, d.Name, d.Audience, d.ID = other, other, other, other, other
		d.ImportSubject = jwt.Subject(other)
		if e.ex().IsClaimRevoked(d) != plain {
			c09Dressed = fmt.Sprintf("the answer for subject %q issued at %d changes when issuer, issuer account, name, audience and id are %q", sub, iat, other)
			return !plain
		}
	}
	return plain
}

func observe(t revTarget, ops []rop) *revObs {
	o := &revObs{Deleted: [][]kv{}}
	for _, op := range ops {
		d := t.apply(op)
		if op.Kind == "compact" {
			o.Deleted = append(o.Deleted, d)
		}
	}
	o.Nil = t.revs() == nil
	o.Final = sortedEntries(t.revs())
	for name, l := range t.bystanders() {
		want := "[]"
		if name == "export z.busy" {
			want = fmt.Sprint([]kv{{"zz", 9}})
		}
		if got := fmt.Sprint(sortedEntries(l)); got != want && o.Leak == "" {
			o.Leak = name + " now holds " + got
		}
	}
	for _, k := range c09Keys {
		for _, tt := range c09Times {
			o.Queries = append(o.Queries, struct {
				K string
				T int64
				A bool
			}{k, tt, t.isRevoked(k, tt)})
		}
	}
	o.Queries = append(o.Queries, struct {
		K string
		T int64
		A bool
	}{"zz", 2, t.isRevoked("zz", 2)})
	type cq struct {
		p   bool
		sub string
		iat int64
	}
	for _, q := range []cq{{false, "", 0}, {true, "a", 0}, {true, "", 2}, {true, "a", 2}, {true, "b", 3}, {true, "zz", 1}} {
		o.Claims = append(o.Claims, struct {
			Present bool
			Sub     string
			Iat     int64
			A       bool
		}{q.p, q.sub, q.iat, t.claimRevoked(q.p, q.sub, q.iat)})
	}
	return o
}

func runC09(c *Ctx) {
	w := c.newCaseWriter("rev", "From JWT Require Import Model.Revocation.\nOpen Scope Z_scope.", "rcase", "rcase_ok")
	akp, _ := nkeys.CreateAccount()
	apub, _ := akp.PublicKey()
	newAcct := func() *acctTarget {
		ac := jwt.NewAccountClaims(apub)
		addBystanders(ac)
		return &acctTarget{ac: ac, kp: akp}
	}
	newExp := func() *expTarget {
		ac := jwt.NewAccountClaims(apub)
		ac.Exports.Add(&jwt.Export{Subject: "x.y", Type: jwt.Stream}) // (sorts first: Encode orders exports by subject)
		addBystanders(ac)
		return &expTarget{ac: ac, kp: akp}
	}
	var alphabet []rop
	for _, k := range c09Keys {
		for _, t := range c09Times {
			alphabet = append(alphabet, rop{Kind: "revoke", Key: k, T: t})
		}
		alphabet = append(alphabet, rop{Kind: "clear", Key: k})
	}
	alphabet = append(alphabet, rop{Kind: "compact"})
	distinct := map[string]bool{}
	one := func(ops []rop) {
		c.sum.Evaluations++
		oa := observe(newAcct(), ops)
		oe := observe(newExp(), ops)
		// specification oracle
		sp := specState{}
		for _, op := range ops {
			sp.apply(op)
		}
		chk := func(o *revObs, who string) {
			c.sum.ImplChecks++
			for _, q := range o.Queries {
				if q.A != sp.answer(q.K, q.T) {
					c.violation(who+": IsRevoked answer differs from the surviving-time rule",
						map[string]interface{}{"history": ops, "key": q.K, "time": q.T, "impl": q.A, "spec": sp.answer(q.K, q.T), "target": who})
					return
				}
			}
			for _, q := range o.Claims {
				want := !q.Present || q.Iat == 0 || q.Sub == "" || sp.answer(q.Sub, q.Iat)
				if q.A != want {
					c.violation(who+": IsClaimRevoked differs from the fail-closed rule",
						map[string]interface{}{"history": ops, "claim_present": q.Present, "sub": q.Sub, "iat": q.Iat, "impl": q.A, "spec": want, "target": who, "note": c09Dressed})
					return
				}
			}
			// map contents = surviving times
			fin := map[string]int64{}
			for _, e := range o.Final {
				fin[e.K] = e.V
			}
			if len(fin) != len(sp) {
				c.violation(who+": stored entries differ from the surviving entries", map[string]interface{}{"history": ops, "impl": o.Final, "spec": sortedEntries(sp), "target": who})
				return
			}
			for k, v := range sp {
				if fin[k] != v {
					c.violation(who+": stored entries differ from the surviving entries", map[string]interface{}{"history": ops, "impl": o.Final, "spec": sortedEntries(sp), "target": who})
					return
				}
			}
		}
		chk(oa, "account")
		chk(oe, "export")
		for who, o := range map[string]*revObs{"account": oa, "export": oe} {
			c.sum.ImplChecks++
			if o.Leak != "" {
				c.violation("C09: a history applied to one revocation list changed another list of the same account: "+o.Leak,
					map[string]interface{}{"history": ops, "target": who, "changed": o.Leak})
			}
		}
		// compaction returns precisely the covered entries: replay the spec step by step
		sp2 := specState{}
		ci := 0
		for _, op := range ops {
			if op.Kind == "compact" {
				var want []kv
				if a, ok := sp2["*"]; ok {
					for k, v := range sp2 {
						if k != "*" && v <= a {
							want = append(want, kv{k, v})
						}
					}
				}
				sort.Slice(want, func(i, j int) bool { return want[i].K < want[j].K })
				for _, o := range []*revObs{oa, oe} {
					if fmt.Sprint(o.Deleted[ci]) != fmt.Sprint(append([]kv{}, want...)) {
						c.violation("MaybeCompact did not return precisely the entries covered by the wildcard",
							map[string]interface{}{"history": ops, "compact_index": ci, "impl": o.Deleted[ci], "spec": want})
					}
				}
				ci++
			}
			sp2.apply(op)
		}
		w.add(oa.coq(ops), map[string]interface{}{"history": ops, "target": "account"})
		if oe.key() != oa.key() {
			w.add(oe.coq(ops), map[string]interface{}{"history": ops, "target": "export"})
		}
		k := oa.key()
		if len(oa.Final) > 0 || len(ops) > 1 {
			distinct[k] = true
		}
		c.count(fmt.Sprintf("len_%d", len(ops)))
		if c.sum.Evaluations%4999 == 7 {
			c.sample(map[string]interface{}{"history": ops, "final": oa.Final, "deleted": oa.Deleted})
		}
	}
	maxLen := 4
	if c.thorough() {
		maxLen = 5
	}
	var rec func(cur []rop)
	rec = func(cur []rop) {
		one(cur)
		if len(cur) == maxLen {
			return
		}
		for _, a := range alphabet {
			rec(append(append([]rop(nil), cur...), a))
		}
	}
	rec(nil)
	c.sum.Exhaustive = true
	// answers survive decoding whoever wrote the token: an account token in the version-1 layout whose exports carry,
	// next to their revocations, members only the version-2 layout knows (another implementation upgrading in place) -
	// the export's list, the sibling export's list and the account's list come back entry by entry
	{
		opKp := newSigner("operator")
		for _, extra := range []string{``, `"description":"d"`, `"advertise":true`, `"allow_trace":true`, `"response_threshold":5000000`, `"info_url":"https://example.com/i"`,
			`"description":"d","advertise":true,"info_url":"https://example.com/i"`, `"account_token_position":0`} {
			for _, revs := range []map[string]int64{{"a": 1}, {"*": 2, "a": 1, "b": 3}, {"*": 3}, {"UABC": 1700000000, "*": 5}} {
				rj, _ := json.Marshal(revs)
				ex := `{"name":"e","subject":"x.y","type":"stream","revocations":` + string(rj)
				if extra != "" {
					ex += "," + extra
				}
				ex += "}"
				pj := `{"type":"account","iss":"` + opKp.pub + `","sub":"` + apub + `","iat":1700000000,"jti":"x","nats":{"exports":[` + ex +
					`,{"name":"plain","subject":"x.z","type":"service","revocations":` + string(rj) + `}],"revocations":` + string(rj) + `}}`
				ft := forge(hdrV1, pj, "v1", opKp)
				d, err := jwt.DecodeAccountClaims(ft.Token)
				c.sum.Evaluations++
				c.sum.ImplChecks++
				if err != nil || d == nil || len(d.Exports) != 2 {
					continue // (whether such a token is accepted is not this property's business)
				}
				want := fmt.Sprint(sortedEntries(revs))
				for name, l := range map[string]jwt.RevocationList{"the export with version-2 members": d.Exports[0].Revocations, "its plain sibling": d.Exports[1].Revocations, "the account": d.Revocations} {
					if got := fmt.Sprint(sortedEntries(l)); got != want {
						c.violation("C09: a revocation list does not survive decoding a version-1-layout account token: "+name+" holds "+got,
							map[string]interface{}{"token": ft.Token, "payload_json": pj, "extra_members": extra, "list": name, "decoded": got, "written": want})
					}
				}
				c.count("v1_layout_with_v2_members")
			}
		}
	}
	// random longer histories with encode/decode steps and a wider alphabet
	nrand := 1500
	if c.thorough() {
		nrand = 20000
	}
	keys := []string{"a", "b", "*", "c", "UABC", ""}
	for i := 0; i < nrand; i++ {
		n := 5 + c.Rng.Intn(36)
		ops := make([]rop, n)
		for j := range ops {
			switch r := c.Rng.Intn(20); {
			case r < 11:
				ops[j] = rop{Kind: "revoke", Key: keys[c.Rng.Intn(len(keys))], T: int64(c.Rng.Intn(7)) - 1}
			case r < 15:
				ops[j] = rop{Kind: "clear", Key: keys[c.Rng.Intn(len(keys))]}
			case r < 18:
				ops[j] = rop{Kind: "compact"}
			default:
				ops[j] = rop{Kind: "codec"}
			}
		}
		one(ops)
		c.count("random")
	}
	// times over the whole range of the field, with encode/decode steps in between: what is stored is the integer
	wide := []int64{1<<53 + 1, 1<<53 - 1, 1 << 53, 1<<62 + 12345, math.MaxInt64, math.MaxInt64 - 1, 1000000000000000007, 1<<31 + 1, 1 << 32,
		time.Now().Unix(), 4102444800, 253402300799, 253402300800, 999999999999999999,
		// the second whose time.Time is the zero Time (year 1): a time like any other, not "now"
		-62135596800, -62135596799, -62135596801, 0, -1}
	for i := 0; i < len(wide)*6; i++ {
		var ops []rop
		for j := 0; j < 2+c.Rng.Intn(4); j++ {
			ops = append(ops, rop{Kind: "revoke", Key: keys[c.Rng.Intn(3)], T: wide[(i+j*5)%len(wide)]})
			if c.Rng.Intn(2) == 0 {
				ops = append(ops, rop{Kind: "codec"})
			}
		}
		ops = append(ops, rop{Kind: "codec"})
		one(ops)
		c.count("wide_times")
	}
	// the "as of now" entry points (AccountClaims.Revoke, Export.Revoke) are revoke-at with the clock's second:
	// with stored times in the past AND in the future they must follow the same rule (a later stored time stays)
	nnow := 300
	if c.thorough() {
		nnow = 5000
	}
	for i := 0; i < nnow; i++ {
		ac := jwt.NewAccountClaims("AX")
		ex := &jwt.Export{Subject: "x", Type: jwt.Stream}
		ac.Exports.Add(ex)
		spec := map[string]int64{}
		nowLo := time.Now().Unix()
		for j := 0; j < 1+c.Rng.Intn(6); j++ {
			k := []string{"a", "b", "*"}[c.Rng.Intn(3)]
			onExport := i%2 == 1
			if c.Rng.Intn(3) == 0 {
				// as of now
				before, had := spec[k]
				if onExport {
					ex.Revoke(k)
				} else {
					ac.Revoke(k)
				}
				nowHi := time.Now().Unix()
				var got int64
				if onExport {
					got = ex.Revocations[k]
				} else {
					got = ac.Revocations[k]
				}
				c.sum.ImplChecks++
				okv := got >= nowLo && got <= nowHi
				if had && before > nowHi {
					okv = got == before
				} else if had && before >= nowLo {
					okv = got >= before && got <= nowHi || got == before
				}
				if !okv {
					c.violation("C09: revoking as of now lowered a stored time or stored another time than the clock's second",
						map[string]interface{}{"key": k, "stored_before": before, "had_entry": had, "stored_after": got, "now_between": []int64{nowLo, nowHi}, "on_export": onExport})
				}
				spec[k] = got
			} else {
				t := nowLo + int64(c.Rng.Intn(7)-3)*1000
				if onExport {
					ex.RevokeAt(k, time.Unix(t, 0))
				} else {
					ac.RevokeAt(k, time.Unix(t, 0))
				}
				if old, ok := spec[k]; !ok || old < t {
					spec[k] = t
				}
			}
			c.sum.Evaluations++
		}
		var m jwt.RevocationList
		if i%2 == 1 {
			m = ex.Revocations
		} else {
			m = ac.Revocations
		}
		c.sum.ImplChecks++
		if len(m) != len(spec) {
			c.violation("C09: revocation map has other entries than the history implies", map[string]interface{}{"map": fmt.Sprint(m), "spec": fmt.Sprint(spec)})
		}
		for k, t := range spec {
			if m[k] != t {
				c.violation("C09: stored time differs from the surviving time of the history (with as-of-now revocations)", map[string]interface{}{"key": k, "stored": m[k], "spec": t})
			}
		}
		c.count("as_of_now_history")
	}
	w.flush()
	c.sum.DistinctNontriv = len(distinct)
	c.sum.Rule = fmt.Sprintf("histories mixing RevokeAt (past and future times) with the as-of-now entry points on account and export, the clock bracketed; all histories over revoke{a,b,*}x{1,2,3}, clear{a,b,*}, compact up to length %d (exhaustive), each on AccountClaims and on an Export, followed by 10 IsRevoked and 6 IsClaimRevoked queries, map contents and MaybeCompact results; plus random histories of length 5-40 with encode/decode steps; non-trivial = distinct observation (final map, deleted sets, answers) with a non-empty map or more than one operation", maxLen)
}

// tokenBorneUsers: user claims decoded from hand-written version-2 tokens that lack the issue time (iat == 0) or the
// subject (sub == ""): the member absent, zero / empty, or null, with and without not-before and expiry times. Decoded
// once per (sub, iat) and kept.
var tokenBorneCache = map[string][]*jwt.UserClaims{}
var tokenBorneSigner *signer

func tokenBorneUsers(sub string, iat int64) []*jwt.UserClaims {
	key := fmt.Sprint(sub, "|", iat)
	if l, ok := tokenBorneCache[key]; ok {
		return l
	}
	if tokenBorneSigner == nil {
		tokenBorneSigner = newSigner("account")
	}
	var out []*jwt.UserClaims
	for _, iatForm := range []string{"absent", "zero", "null"} {
		for _, nbf := range []int64{0, 1, 2, 3, 5, 4102444800} {
			m := map[string]interface{}{"iss": tokenBorneSigner.pub, "jti": "x", "name": "token-borne", "nats": map[string]interface{}{"type": "user", "version": 2}}
			if sub != "" {
				m["sub"] = sub
			} else if iatForm == "null" {
				m["sub"] = nil
			} else if iatForm == "zero" {
				m["sub"] = ""
			}
			if iat != 0 {
				m["iat"] = iat
			} else if iatForm == "zero" {
				m["iat"] = 0
			} else if iatForm == "null" {
				m["iat"] = nil
			}
			if nbf != 0 {
				m["nbf"] = nbf
				m["exp"] = nbf + 1000
			}
			pj, _ := json.Marshal(m)
			ft := forge(hdrV2, string(pj), "v2", tokenBorneSigner)
			if d, err := jwt.DecodeUserClaims(ft.Token); err == nil && d != nil {
				out = append(out, d)
			}
		}
	}
	tokenBorneCache[key] = out
	return out
}
