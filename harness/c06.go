package main

import (
	"fmt"
	"math/rand"
	"strings"
	"time"

	jwt "github.com/nats-io/jwt/v2"
)

func init() { drivers["C06"] = runC06 }

// ---------- clean claims, built only from valid constructs ----------

type cleanGen struct {
	rng *rand.Rand
	kr  *keyring
}

func (g *cleanGen) pick(s ...string) string { return s[g.rng.Intn(len(s))] }

func (g *cleanGen) acctKey() string { return newSigner("account").pub }
func (g *cleanGen) userKey() string { return newSigner("user").pub }

func (g *cleanGen) std(cd *jwt.ClaimsData) {
	cd.Name = g.pick("", "n", "some name")
	if g.rng.Intn(3) == 0 {
		cd.Expires = time.Now().Unix() + 100000 + int64(g.rng.Intn(1000))
	}
	if g.rng.Intn(3) == 0 {
		cd.NotBefore = time.Now().Unix() - 100000 - int64(g.rng.Intn(1000))
	}
}

func (g *cleanGen) info() jwt.Info {
	desc := g.pick("", "a description")
	if g.rng.Intn(25) == 0 {
		desc = strings.Repeat("d", 8192) // the longest description that is still allowed
	}
	return jwt.Info{Description: desc, InfoURL: g.pick("", "https://example.com/info", "http://host.example:8080/a/b?q=1")}
}

func (g *cleanGen) export(i int) *jwt.Export {
	e := &jwt.Export{Name: fmt.Sprintf("ex%d", i), Info: g.info()}
	base := fmt.Sprintf("e%d", i)
	switch g.rng.Intn(5) {
	case 0:
		e.Subject = jwt.Subject(base + ".lit")
	case 1:
		e.Subject = jwt.Subject(base + ".*")
		if g.rng.Intn(2) == 0 {
			e.AccountTokenPosition = 2
		}
	case 2:
		e.Subject = jwt.Subject(base + ".x.>")
	case 3:
		e.Subject = jwt.Subject(base + ".*.y.*")
		e.AccountTokenPosition = uint([]int{0, 2, 4}[g.rng.Intn(3)])
	default:
		e.Subject = jwt.Subject(base)
	}
	if g.rng.Intn(2) == 0 {
		e.Type = jwt.Service
		e.ResponseType = jwt.ResponseType(g.pick("", jwt.ResponseTypeSingleton, jwt.ResponseTypeStream, jwt.ResponseTypeChunked))
		e.ResponseThreshold = time.Duration(g.rng.Intn(3)) * time.Second
		e.AllowTrace = g.rng.Intn(2) == 0
		if g.rng.Intn(2) == 0 {
			e.Latency = &jwt.ServiceLatency{Sampling: jwt.SamplingRate(g.rng.Intn(101)), Results: jwt.Subject(fmt.Sprintf("lat.%d", i))}
		}
	} else {
		e.Type = jwt.Stream
	}
	e.TokenReq = g.rng.Intn(2) == 0
	e.Advertise = g.rng.Intn(2) == 0
	return e
}

// activation token from exporter (or its signing key / operator) to importer
func (g *cleanGen) activation(exporter *signer, importer string, subject string, kind jwt.ExportType) string {
	ac := jwt.NewActivationClaims(importer)
	ac.ImportSubject = jwt.Subject(subject)
	ac.ImportType = kind
	signerKp := exporter
	if g.rng.Intn(3) == 0 {
		// issued through a signing key of the exporter
		sk := newSigner("account")
		ac.IssuerAccount = exporter.pub
		signerKp = sk
	}
	tok, err := ac.Encode(signerKp.kp)
	if err != nil {
		panic(err)
	}
	return tok
}

func (g *cleanGen) imprt(i int, importer string) *jwt.Import {
	exporter := newSigner("account")
	im := &jwt.Import{Name: fmt.Sprintf("im%d", i), Account: exporter.pub}
	base := fmt.Sprintf("i%d", i)
	grant := ""
	if g.rng.Intn(2) == 0 {
		im.Type = jwt.Stream
		im.AllowTrace = g.rng.Intn(2) == 0
		switch g.rng.Intn(3) {
		case 0:
			im.Subject, grant = jwt.Subject(base+".foo"), base+".>"
		case 1:
			im.Subject, grant = jwt.Subject(base+".*.bar"), base+".*.bar"
			switch g.rng.Intn(4) {
			case 0:
				im.LocalSubject = jwt.RenamingSubject("loc" + base + ".$1.x")
			case 1:
				// (literal tokens that merely CONTAIN a star or a dollar sign are plain text: only whole tokens count)
				im.LocalSubject = jwt.RenamingSubject("lo*c" + base + ".$1.x*.$$")
			}
		default:
			im.Subject, grant = jwt.Subject(base+".a.>"), base+".>"
			if g.rng.Intn(2) == 0 {
				im.LocalSubject = jwt.RenamingSubject("loc" + base + ".>")
			}
		}
	} else {
		im.Type = jwt.Service
		im.Share = g.rng.Intn(2) == 0
		switch g.rng.Intn(3) {
		case 0:
			im.Subject, grant = jwt.Subject(base+".req"), base+".req"
		case 1:
			im.Subject, grant = jwt.Subject(base+".req.*"), base+".req.*"
			if g.rng.Intn(2) == 0 {
				im.LocalSubject = jwt.RenamingSubject("svc" + base + ".*")
			}
		default:
			im.Subject, grant = jwt.Subject(base+".q"), base+".*"
		}
	}
	if g.rng.Intn(2) == 0 {
		im.Token = g.activation(exporter, importer, grant, im.Type)
	}
	return im
}

func validSubject2(r *rand.Rand) string {
	return []string{"a", "foo.bar", "x.*", "y.>", "*", ">", "$SYS.REQ.>", "q1.q2.q3"}[r.Intn(8)]
}

func (g *cleanGen) permission(queue bool) jwt.Permission {
	var p jwt.Permission
	for i := g.rng.Intn(3); i > 0; i-- {
		s := validSubject2(g.rng)
		if queue && g.rng.Intn(3) == 0 {
			s += " q" + fmt.Sprint(i)
		}
		if g.rng.Intn(2) == 0 {
			p.Allow.Add(s)
		} else {
			p.Deny.Add(s)
		}
	}
	return p
}

func (g *cleanGen) account() (*jwt.AccountClaims, *signer) {
	self := newSigner("account")
	ac := jwt.NewAccountClaims(self.pub)
	g.std(&ac.ClaimsData)
	ne, ni := g.rng.Intn(4), g.rng.Intn(4)
	wild := false
	for i := 0; i < ne; i++ {
		e := g.export(i)
		ac.Exports.Add(e)
		wild = wild || e.Subject.HasWildCards()
	}
	for i := 0; i < ni; i++ {
		ac.Imports.Add(g.imprt(i, self.pub))
	}
	l := &ac.Limits
	l.Subs, l.Data, l.Payload = int64(g.rng.Intn(5))-1, int64(g.rng.Intn(5))-1, -1
	l.Imports = []int64{-1, int64(ni), int64(ni) + 3}[g.rng.Intn(3)]
	l.Exports = []int64{-1, int64(ne), int64(ne) + 3}[g.rng.Intn(3)]
	l.WildcardExports = wild || g.rng.Intn(2) == 0
	l.Conn, l.LeafNodeConn = int64(g.rng.Intn(100))-1, -1
	switch g.rng.Intn(3) {
	case 0:
		l.JetStreamLimits = jwt.JetStreamLimits{MemoryStorage: 1024, DiskStorage: -1, Streams: 5}
	case 1:
		l.JetStreamTieredLimits = jwt.JetStreamTieredLimits{"R1": {DiskStorage: 100}, "R3": {MemoryStorage: -1, MaxBytesRequired: true}}
	}
	for i := g.rng.Intn(3); i > 0; i-- {
		if g.rng.Intn(2) == 0 {
			ac.SigningKeys.Add(g.acctKey())
		} else {
			us := jwt.NewUserScope()
			us.Key = g.acctKey()
			us.Role = "r"
			ac.SigningKeys.AddScopedSigner(us)
		}
	}
	ac.DefaultPermissions.Sub = g.permission(true)
	ac.DefaultPermissions.Pub = g.permission(false)
	if g.rng.Intn(2) == 0 {
		ac.DefaultPermissions.Resp = &jwt.ResponsePermission{MaxMsgs: g.rng.Intn(3), Expires: time.Second}
	}
	for i := g.rng.Intn(3); i > 0; i-- {
		var ws []jwt.WeightedMapping
		switch g.rng.Intn(3) {
		case 0:
			ws = []jwt.WeightedMapping{{Subject: "to.a"}} // weight 0 counts as 100
		case 1:
			ws = []jwt.WeightedMapping{{Subject: "to.a", Weight: 30}, {Subject: "to.b", Weight: 70}}
		default:
			ws = []jwt.WeightedMapping{{Subject: "to.*", Weight: 1, Cluster: "c1"}, {Subject: "to.b", Weight: 50}, {Subject: "to.c", Weight: 49}}
		}
		ac.Mappings[jwt.Subject(fmt.Sprintf("map%d.x", i))] = ws
	}
	if g.rng.Intn(2) == 0 {
		ac.Authorization.AuthUsers.Add(g.userKey(), g.userKey())
		switch g.rng.Intn(3) {
		case 0:
			ac.Authorization.AllowedAccounts.Add("*")
		case 1:
			ac.Authorization.AllowedAccounts.Add(g.acctKey(), g.acctKey())
		}
		if g.rng.Intn(2) == 0 {
			ac.Authorization.XKey = g.kr.by["curve"].pub
		}
	}
	if g.rng.Intn(2) == 0 {
		// (a token that merely CONTAINS a wildcard character is a literal token: such a destination has no wildcards)
		ac.Trace = &jwt.MsgTrace{Destination: jwt.Subject(g.pick("trace.dest", "t", "trace.a*b.dest", "trace.dest>", "*trace.dest", "t.>x", "a**.b")), Sampling: g.rng.Intn(101)}
	}
	ac.Info = g.info()
	issuer := g.kr.by["operator"]
	ac.Issuer = issuer.pub
	return ac, issuer
}

func (g *cleanGen) operator() *jwt.OperatorClaims {
	self := g.kr.by["operator"]
	oc := jwt.NewOperatorClaims(self.pub)
	g.std(&oc.ClaimsData)
	for i := g.rng.Intn(3); i > 0; i-- {
		oc.SigningKeys.Add(newSigner("operator").pub)
	}
	oc.AccountServerURL = g.pick("", "https://as.example.com/jwt/v1", "nats://localhost:4222")
	for i := g.rng.Intn(3); i > 0; i-- {
		oc.OperatorServiceURLs.Add(g.pick("nats://h1:4222", "tls://h2:4443", "ws://h3", "WSS://h4:443", "nats://[::1]:4222"))
	}
	if g.rng.Intn(2) == 0 {
		oc.SystemAccount = g.acctKey()
	}
	oc.AssertServerVersion = g.pick("", "2.9.0", "1.2.3", "0.0.0", "10.20.30")
	oc.StrictSigningKeyUsage = g.rng.Intn(2) == 0
	return oc
}

func (g *cleanGen) user() *jwt.UserClaims {
	uc := jwt.NewUserClaims(g.userKey())
	g.std(&uc.ClaimsData)
	uc.Issuer = g.kr.by["account"].pub
	uc.Permissions.Sub = g.permission(true)
	uc.Permissions.Pub = g.permission(false)
	for i := g.rng.Intn(3); i > 0; i-- {
		uc.Src.Add(g.pick("10.0.0.0/8", "192.168.1.0/24", "::1/128", "fe80::/10"))
	}
	for i := g.rng.Intn(3); i > 0; i-- {
		uc.Times = append(uc.Times, jwt.TimeRange{Start: g.pick("00:00:00", "08:30:00", "23:59:59"), End: g.pick("09:00:00", "17:00:00", "23:59:59")})
	}
	uc.Locale = g.pick("", "UTC", "America/New_York", "Europe/Berlin", "Local")
	if g.rng.Intn(2) == 0 {
		uc.IssuerAccount = g.acctKey()
	}
	return uc
}

func (g *cleanGen) activationClaims() *jwt.ActivationClaims {
	ac := jwt.NewActivationClaims(g.acctKey())
	g.std(&ac.ClaimsData)
	ac.Issuer = g.kr.by["account"].pub
	ac.ImportSubject = jwt.Subject(validSubject2(g.rng))
	ac.ImportType = jwt.ExportType(1 + g.rng.Intn(2))
	if g.rng.Intn(2) == 0 {
		ac.IssuerAccount = g.acctKey()
	}
	return ac
}

func (g *cleanGen) authRequest() *jwt.AuthorizationRequestClaims {
	ar := jwt.NewAuthorizationRequestClaims(g.userKey())
	g.std(&ar.ClaimsData)
	ar.UserNkey = g.userKey()
	ar.Server.Name, ar.Server.Host, ar.Server.ID = "srv", "localhost", g.kr.by["server"].pub
	return ar
}

func (g *cleanGen) authResponse() *jwt.AuthorizationResponseClaims {
	ar := jwt.NewAuthorizationResponseClaims(g.userKey())
	g.std(&ar.ClaimsData)
	ar.Audience = g.kr.by["server"].pub
	if g.rng.Intn(2) == 0 {
		ar.Error = "denied"
	} else {
		ar.Jwt = "some.user.jwt"
	}
	if g.rng.Intn(2) == 0 {
		ar.IssuerAccount = g.acctKey()
	}
	return ar
}

// ---------- the catalogue as injections: each makes a clean claim violate one rule ----------

type injection struct {
	rule  string
	kind  string
	apply func(g *cleanGen, c jwt.Claims) bool // false: not applicable to this particular claim
}

func badSubject(r *rand.Rand) string {
	return []string{"", "a b", ".a", "a.", "a..b", " ", "x. .y", ".", ".."}[r.Intn(9)]
}

func anyExport(g *cleanGen, ac *jwt.AccountClaims, pred func(*jwt.Export) bool) *jwt.Export {
	var c []*jwt.Export
	for _, e := range ac.Exports {
		if e != nil && pred(e) {
			c = append(c, e)
		}
	}
	if len(c) == 0 {
		// add one at a random position
		e := g.export(50 + g.rng.Intn(40))
		for k := 0; k < 20 && !pred(e); k++ {
			e = g.export(50 + g.rng.Intn(40))
		}
		if !pred(e) {
			return nil
		}
		pos := g.rng.Intn(len(ac.Exports) + 1)
		ac.Exports = append(ac.Exports[:pos], append(jwt.Exports{e}, ac.Exports[pos:]...)...)
		if ac.Limits.Exports != -1 {
			ac.Limits.Exports++
		}
		if e.Subject.HasWildCards() {
			ac.Limits.WildcardExports = true
		}
		return e
	}
	return c[g.rng.Intn(len(c))]
}

func anyImport(g *cleanGen, ac *jwt.AccountClaims, pred func(*jwt.Import) bool) *jwt.Import {
	var c []*jwt.Import
	for _, e := range ac.Imports {
		if e != nil && pred(e) {
			c = append(c, e)
		}
	}
	if len(c) == 0 {
		e := g.imprt(50+g.rng.Intn(40), ac.Subject)
		for k := 0; k < 30 && !pred(e); k++ {
			e = g.imprt(50+g.rng.Intn(40), ac.Subject)
		}
		if !pred(e) {
			return nil
		}
		pos := g.rng.Intn(len(ac.Imports) + 1)
		ac.Imports = append(ac.Imports[:pos], append(jwt.Imports{e}, ac.Imports[pos:]...)...)
		if ac.Limits.Imports != -1 {
			ac.Limits.Imports++
		}
		return e
	}
	return c[g.rng.Intn(len(c))]
}

func acctInj(rule string, f func(g *cleanGen, ac *jwt.AccountClaims) bool) injection {
	return injection{rule, "account", func(g *cleanGen, c jwt.Claims) bool { return f(g, c.(*jwt.AccountClaims)) }}
}

func allInjections() []injection {
	anyE := func(*jwt.Export) bool { return true }
	svcE := func(e *jwt.Export) bool { return e.Type == jwt.Service }
	strE := func(e *jwt.Export) bool { return e.Type == jwt.Stream }
	anyI := func(*jwt.Import) bool { return true }
	svcI := func(i *jwt.Import) bool { return i.Type == jwt.Service }
	strI := func(i *jwt.Import) bool { return i.Type == jwt.Stream }
	tokI := func(i *jwt.Import) bool { return i.Token != "" }
	inj := []injection{
		acctInj("I0 null import", func(g *cleanGen, ac *jwt.AccountClaims) bool {
			pos := g.rng.Intn(len(ac.Imports) + 1)
			ac.Imports = append(ac.Imports[:pos], append(jwt.Imports{nil}, ac.Imports[pos:]...)...)
			return true
		}),
		acctInj("I1 import kind", func(g *cleanGen, ac *jwt.AccountClaims) bool {
			i := anyImport(g, ac, anyI)
			i.Type = jwt.ExportType([]int{0, 3, 7, -1}[g.rng.Intn(4)])
			return true
		}),
		acctInj("I2 service import allow-trace", func(g *cleanGen, ac *jwt.AccountClaims) bool {
			i := anyImport(g, ac, svcI)
			if i == nil {
				return false
			}
			i.AllowTrace = true
			return true
		}),
		acctInj("I3 import without account", func(g *cleanGen, ac *jwt.AccountClaims) bool {
			anyImport(g, ac, anyI).Account = ""
			return true
		}),
		acctInj("I4 import subject", func(g *cleanGen, ac *jwt.AccountClaims) bool {
			anyImport(g, ac, anyI).Subject = jwt.Subject(badSubject(g.rng))
			return true
		}),
		acctInj("I5 local subject", func(g *cleanGen, ac *jwt.AccountClaims) bool {
			i := anyImport(g, ac, func(i *jwt.Import) bool { return i.To == "" })
			if i == nil {
				return false
			}
			switch g.rng.Intn(7) {
			case 5: // a star inside a literal token does not make up for a missing wildcard
				i.Subject = "w.*.z"
				i.LocalSubject = jwt.RenamingSubject([]string{"loc.x*", "loc.*x", "loc.a*b"}[g.rng.Intn(3)])
				i.Token = ""
			case 6:
				i.Subject = "w.*.*.z"
				i.LocalSubject = jwt.RenamingSubject([]string{"loc.**", "loc.$1.x*", "l*c.*.y"}[g.rng.Intn(3)])
				i.Token = ""
			case 0:
				i.LocalSubject = "has space"
				if strings.Contains(string(i.Subject), "*") || strings.HasSuffix(string(i.Subject), ">") {
					i.LocalSubject = "has space.x"
				}
			case 1: // > suffix status differs
				if strings.HasSuffix(string(i.Subject), ">") {
					i.LocalSubject = "loc.x"
				} else {
					i.LocalSubject = "loc.>"
				}
			case 2: // reference beyond the number of wildcards
				i.LocalSubject = jwt.RenamingSubject(fmt.Sprintf("loc.$%d", 5+g.rng.Intn(100)))
			case 3: // not enough references
				i.Subject = "w.*.*.z"
				i.LocalSubject = "loc.$1"
				i.Token = ""
			default: // too many wildcards
				i.LocalSubject = "loc.*.*.*.*"
			}
			return true
		}),
		acctInj("I6 local subject and to", func(g *cleanGen, ac *jwt.AccountClaims) bool {
			i := anyImport(g, ac, func(i *jwt.Import) bool { return i.LocalSubject != "" })
			if i == nil {
				return false
			}
			i.To = "some.to"
			return true
		}),
		acctInj("I7 share on non-service", func(g *cleanGen, ac *jwt.AccountClaims) bool {
			i := anyImport(g, ac, strI)
			if i == nil {
				return false
			}
			i.Share = true
			return true
		}),
		acctInj("I8 undecodable token", func(g *cleanGen, ac *jwt.AccountClaims) bool {
			i := anyImport(g, ac, anyI)
			switch g.rng.Intn(3) {
			case 0:
				i.Token = "not.a.token"
			case 1: // a user token instead of an activation
				uc := jwt.NewUserClaims(g.userKey())
				i.Token, _ = uc.Encode(g.kr.by["account"].kp)
			default: // a tampered activation
				exp := newSigner("account")
				t := g.activation(exp, ac.Subject, ">", i.Type)
				i.Account = exp.pub
				b := []byte(t)
				p := len(b) - 5 - g.rng.Intn(20)
				if b[p] == 'A' {
					b[p] = 'B'
				} else {
					b[p] = 'A'
				}
				i.Token = string(b)
			}
			return true
		}),
		acctInj("I9 token binding", func(g *cleanGen, ac *jwt.AccountClaims) bool {
			i := anyImport(g, ac, tokI)
			if i == nil {
				return false
			}
			exp := newSigner("account")
			switch g.rng.Intn(4) {
			case 0: // issued by another account
				i.Token = g.activation(newSigner("account"), ac.Subject, ">", i.Type)
			case 1: // addressed to another account
				i.Account = exp.pub
				i.Token = g.activation(exp, g.acctKey(), ">", i.Type)
			case 2: // other kind
				i.Account = exp.pub
				i.Token = g.activation(exp, ac.Subject, ">", 3-i.Type)
			default: // grants something else
				i.Account = exp.pub
				i.Token = g.activation(exp, ac.Subject, "other.subject", i.Type)
			}
			return true
		}),
		acctInj("I11 embedded token invalid in itself", func(g *cleanGen, ac *jwt.AccountClaims) bool {
			// a token bound to this import in every respect (issuer, subject, kind, grant) whose own claims break a
			// rule of activation claims: issuer_account that is not an account key (V3)
			i := anyImport(g, ac, anyI)
			exp := newSigner("account")
			act := jwt.NewActivationClaims(ac.Subject)
			act.ImportSubject, act.ImportType = ">", i.Type
			act.IssuerAccount = g.pick(g.userKey(), "junk", g.kr.by["operator"].pub)
			tok, err := act.Encode(exp.kp)
			if err != nil {
				return false
			}
			i.Account, i.Token = exp.pub, tok
			return true
		}),
		acctInj("I10 overlapping service imports", func(g *cleanGen, ac *jwt.AccountClaims) bool {
			a := anyImport(g, ac, func(i *jwt.Import) bool { return i.Type == jwt.Service && i.Token == "" && i.LocalSubject == "" })
			if a == nil {
				return false
			}
			b := &jwt.Import{Name: "dup", Account: g.acctKey(), Type: jwt.Service}
			switch g.rng.Intn(8) {
			case 6: // references beyond the ninth wildcard
				a.Subject, a.LocalSubject = "ovl.*.*.*.*.*.*.*.*.*.*", "svc.$1.$2.$3.$4.$5.$6.$7.$8.$9.$10"
				b.Subject, b.LocalSubject = "oth.*.*.*.*.*.*.*.*.*", "svc.$1.$2.$3.$4.$5.$6.$7.$8.$9.status"
			case 7:
				a.Subject, a.LocalSubject = "ovl.*.*.*.*.*.*.*.*.*.*.*.*", "$12.x.$11.$10.$9.$8.$7.$6.$5.$4.$3.$2.$1"
				b.Subject = "z.x.c.d.e.f.g.h.i.j.k.l.m"
			case 0:
				b.Subject = a.Subject
			case 1:
				b.Subject = "ovl.>"
				a.Subject = "ovl.x"
			case 2:
				a.Subject = "ovl.*"
				b.Subject = "ovl.y"
			case 3: // the local subject counts, with its references read as wildcards - also a leading one
				a.Subject, a.LocalSubject = "ovl.*", "$1.foo"
				b.Subject = "zz.foo"
			case 4:
				a.Subject, a.LocalSubject = "ovl.*.*", "$2.mid.$1"
				b.Subject = "k.mid.j"
			default:
				a.Subject, a.LocalSubject = "ovl.*", "lo.$1"
				b.Subject, b.LocalSubject = "other.*", "$1.q"
				b.Subject, b.LocalSubject = "other.*", "lo.$1"
			}
			switch g.rng.Intn(3) {
			case 0:
				// the two far apart, an unrelated literal service import between them and next to the second: every
				// pair of the list is compared, not only neighbours or the most recent entry
				sp := &jwt.Import{Name: "spacer", Subject: "spacer.literal.subject", Account: g.acctKey(), Type: jwt.Service}
				if g.rng.Intn(2) == 0 {
					ac.Imports = append(ac.Imports, sp, b)
				} else {
					ac.Imports = append(jwt.Imports{b, sp}, ac.Imports...)
				}
				if ac.Limits.Imports != -1 {
					ac.Limits.Imports++
				}
			default:
				pos := g.rng.Intn(len(ac.Imports) + 1)
				ac.Imports = append(ac.Imports[:pos], append(jwt.Imports{b}, ac.Imports[pos:]...)...)
			}
			if ac.Limits.Imports != -1 {
				ac.Limits.Imports++
			}
			return true
		}),
		acctInj("E0 null export", func(g *cleanGen, ac *jwt.AccountClaims) bool {
			pos := g.rng.Intn(len(ac.Exports) + 1)
			ac.Exports = append(ac.Exports[:pos], append(jwt.Exports{nil}, ac.Exports[pos:]...)...)
			if ac.Limits.Exports != -1 {
				ac.Limits.Exports++
			}
			return true
		}),
		acctInj("E1 export kind", func(g *cleanGen, ac *jwt.AccountClaims) bool {
			e := anyExport(g, ac, anyE)
			e.Type = jwt.ExportType([]int{0, 3, 9}[g.rng.Intn(3)])
			return true
		}),
		acctInj("E2 service response type", func(g *cleanGen, ac *jwt.AccountClaims) bool {
			e := anyExport(g, ac, svcE)
			if e == nil {
				return false
			}
			e.ResponseType = jwt.ResponseType(g.pick("singleton", "Bogus", "STREAM", " "))
			return true
		}),
		acctInj("E3 stream response type", func(g *cleanGen, ac *jwt.AccountClaims) bool {
			e := anyExport(g, ac, strE)
			if e == nil {
				return false
			}
			e.ResponseType = jwt.ResponseType(g.pick(jwt.ResponseTypeSingleton, jwt.ResponseTypeStream, "x"))
			return true
		}),
		acctInj("E4 stream allow-trace", func(g *cleanGen, ac *jwt.AccountClaims) bool {
			e := anyExport(g, ac, strE)
			if e == nil {
				return false
			}
			e.AllowTrace = true
			return true
		}),
		acctInj("E5 latency on non-service", func(g *cleanGen, ac *jwt.AccountClaims) bool {
			e := anyExport(g, ac, strE)
			if e == nil {
				return false
			}
			e.Latency = &jwt.ServiceLatency{Sampling: 50, Results: "lat.r"}
			return true
		}),
		acctInj("E6 latency sampling", func(g *cleanGen, ac *jwt.AccountClaims) bool {
			e := anyExport(g, ac, svcE)
			if e == nil {
				return false
			}
			e.Latency = &jwt.ServiceLatency{Sampling: jwt.SamplingRate([]int{-1, 101, 1000, -100}[g.rng.Intn(4)]), Results: "lat.r"}
			return true
		}),
		acctInj("E7 latency results subject", func(g *cleanGen, ac *jwt.AccountClaims) bool {
			e := anyExport(g, ac, svcE)
			if e == nil {
				return false
			}
			e.Latency = &jwt.ServiceLatency{Sampling: 10, Results: jwt.Subject(g.pick("", "a b", "lat.*", "lat.>", ".x"))}
			return true
		}),
		acctInj("E8 negative threshold", func(g *cleanGen, ac *jwt.AccountClaims) bool {
			anyExport(g, ac, anyE).ResponseThreshold = -time.Duration(1 + g.rng.Intn(1000))
			return true
		}),
		acctInj("E9 threshold on non-service", func(g *cleanGen, ac *jwt.AccountClaims) bool {
			e := anyExport(g, ac, strE)
			if e == nil {
				return false
			}
			e.ResponseThreshold = time.Duration(1 + g.rng.Intn(1000))
			return true
		}),
		acctInj("E10 export subject", func(g *cleanGen, ac *jwt.AccountClaims) bool {
			e := anyExport(g, ac, anyE)
			e.Subject = jwt.Subject(badSubject(g.rng))
			e.AccountTokenPosition = 0
			return true
		}),
		acctInj("E11 account token position", func(g *cleanGen, ac *jwt.AccountClaims) bool {
			e := anyExport(g, ac, anyE)
			switch g.rng.Intn(3) {
			case 0:
				e.Subject, e.AccountTokenPosition = "lit.only", uint(1+g.rng.Intn(3))
			case 1:
				e.Subject, e.AccountTokenPosition = "p.*.q", uint(4+g.rng.Intn(100))
				ac.Limits.WildcardExports = true
			default:
				e.Subject, e.AccountTokenPosition = "p.*.q", uint([]int{1, 3}[g.rng.Intn(2)])
				ac.Limits.WildcardExports = true
			}
			return true
		}),
		acctInj("E12 export info", func(g *cleanGen, ac *jwt.AccountClaims) bool {
			e := anyExport(g, ac, anyE)
			switch g.rng.Intn(4) {
			case 0:
				e.Description = strings.Repeat("x", 8193+g.rng.Intn(100))
			case 1:
				e.InfoURL = "https://example.com/" + strings.Repeat("u", 8192)
			case 2:
				e.InfoURL = g.pick("no-scheme.example.com/x", "/just/a/path", "https://", "mailto:someone", "://bad",
					// an authority that names no host: only a port, only a colon, only credentials
					"https://:8443/docs", "http://:80", "https://:/x", "https://user@:9/x", "https://user:pw@/x")
			default:
				e.InfoURL = "http://bad host/%zz"
			}
			return true
		}),
		acctInj("E13 overlapping exports", func(g *cleanGen, ac *jwt.AccountClaims) bool {
			a := anyExport(g, ac, anyE)
			b := g.export(70)
			b.Type, b.ResponseType, b.Latency, b.ResponseThreshold, b.AllowTrace, b.AccountTokenPosition = a.Type, "", nil, 0, false, 0
			a.AccountTokenPosition = 0
			switch g.rng.Intn(8) {
			case 0:
				b.Subject = a.Subject
			case 1:
				a.Subject, b.Subject = "ovl.x.y", "ovl.>"
			case 2:
				a.Subject, b.Subject = "ovl.*", "ovl.z"
			// a subject with MORE wildcard tokens contained in one with fewer: a trailing > swallows them
			case 3:
				a.Subject, b.Subject = "ovl.*", "ovl.>"
			case 4:
				a.Subject, b.Subject = "*.ovl", ">"
			case 5:
				a.Subject, b.Subject = "ovl.*.*", "ovl.>"
			case 6:
				a.Subject, b.Subject = "ovl.*.*.b", "ovl.*.>"
			default:
				a.Subject, b.Subject = "ovl.>", "ovl.*.*.*"
			}
			if g.rng.Intn(2) == 0 {
				a.Subject, b.Subject = b.Subject, a.Subject
			}
			ac.Limits.WildcardExports = true
			pos := g.rng.Intn(len(ac.Exports) + 1)
			ac.Exports = append(ac.Exports[:pos], append(jwt.Exports{b}, ac.Exports[pos:]...)...)
			if ac.Limits.Exports != -1 {
				ac.Limits.Exports++
			}
			return true
		}),
		acctInj("L1 tiered and flat JetStream limits", func(g *cleanGen, ac *jwt.AccountClaims) bool {
			ac.Limits.JetStreamTieredLimits = jwt.JetStreamTieredLimits{"R1": {DiskStorage: 5}}
			switch g.rng.Intn(6) {
			case 0:
				ac.Limits.JetStreamLimits = jwt.JetStreamLimits{MemoryStorage: 1}
			case 1:
				ac.Limits.JetStreamLimits = jwt.JetStreamLimits{MaxBytesRequired: true}
			case 2:
				ac.Limits.JetStreamLimits = jwt.JetStreamLimits{DiskMaxStreamBytes: -1}
			// flat limits that say "no limit" everywhere are flat limits too (anything but all zeros conflicts with tiers)
			case 3:
				ac.Limits.JetStreamLimits = jwt.JetStreamLimits{MemoryStorage: -1, DiskStorage: -1, Streams: -1, Consumer: -1}
			case 4:
				ac.Limits.JetStreamLimits = jwt.JetStreamLimits{MemoryStorage: -1, DiskStorage: -1, Streams: -1, Consumer: -1, MaxAckPending: -1, MemoryMaxStreamBytes: -1, DiskMaxStreamBytes: -1}
			default:
				ac.Limits.JetStreamLimits = jwt.JetStreamLimits{MemoryStorage: -1, DiskStorage: -1, Streams: -1, Consumer: -1, MaxAckPending: 0, MemoryMaxStreamBytes: -5}
			}
			return true
		}),
		acctInj("L2 blank tier name", func(g *cleanGen, ac *jwt.AccountClaims) bool {
			ac.Limits.JetStreamLimits = jwt.JetStreamLimits{}
			ac.Limits.JetStreamTieredLimits = jwt.JetStreamTieredLimits{"": {DiskStorage: 5}, "R3": {}}
			return true
		}),
		acctInj("L3 import limit exceeded", func(g *cleanGen, ac *jwt.AccountClaims) bool {
			anyImport(g, ac, anyI)
			ac.Limits.Imports = int64(g.rng.Intn(len(ac.Imports)))
			if g.rng.Intn(4) == 0 {
				ac.Limits.Imports = -2 - int64(g.rng.Intn(5)) // any value but -1 is a limit
			}
			return true
		}),
		acctInj("L4 export limit exceeded", func(g *cleanGen, ac *jwt.AccountClaims) bool {
			anyExport(g, ac, anyE)
			ac.Limits.Exports = int64(g.rng.Intn(len(ac.Exports)))
			return true
		}),
		acctInj("L5 wildcard export not allowed", func(g *cleanGen, ac *jwt.AccountClaims) bool {
			e := anyExport(g, ac, func(e *jwt.Export) bool { return e.Subject.HasWildCards() })
			if e == nil {
				return false
			}
			ac.Limits.WildcardExports = false
			ac.Limits.Exports = int64(len(ac.Exports)) + int64(g.rng.Intn(3))
			return true
		}),
		acctInj("P default permissions", func(g *cleanGen, ac *jwt.AccountClaims) bool {
			switch g.rng.Intn(6) {
			case 4: // blanks at the edges or doubled: the blank-split has an empty part
				ac.DefaultPermissions.Sub.Allow.Add(g.pick("orders.> ", " orders.>", "orders.>  work", "a ", " a q"))
			case 5:
				ac.DefaultPermissions.Pub.Deny.Add(g.pick("foo ", " foo", "  ", " "))
			case 0:
				ac.DefaultPermissions.Pub.Allow.Add("pub.with queue") // queues only on subscribe
			case 1:
				ac.DefaultPermissions.Sub.Deny.Add("a b c")
			case 2:
				ac.DefaultPermissions.Sub.Allow.Add(g.pick(".x", "x.", "a..b"))
			default:
				ac.DefaultPermissions.Pub.Deny.Add(g.pick(".x q", "a..b"))
			}
			return true
		}),
		acctInj("M1 mapping source", func(g *cleanGen, ac *jwt.AccountClaims) bool {
			ac.Mappings[jwt.Subject(g.pick("a b", ".m", "m.", "m..n"))] = []jwt.WeightedMapping{{Subject: "to.a"}}
			return true
		}),
		acctInj("M2 mapping target", func(g *cleanGen, ac *jwt.AccountClaims) bool {
			ac.Mappings["m2.src"] = []jwt.WeightedMapping{{Subject: "ok.t", Weight: 10}, {Subject: jwt.Subject(badSubject(g.rng)), Weight: 10}}
			return true
		}),
		acctInj("M3 mapping weights above 100", func(g *cleanGen, ac *jwt.AccountClaims) bool {
			// any multiset of weights whose true sum exceeds 100, including sums crossing 256 and 512
			var ws []jwt.WeightedMapping
			sum := 0
			target := []int{101, 150, 257, 300, 356, 513, 600}[g.rng.Intn(7)]
			for k := 0; sum < target; k++ {
				w := 1 + g.rng.Intn(100)
				if g.rng.Intn(5) == 0 {
					w = 0 // counts as 100
				}
				// the limit is on the source's total, whatever cluster each target names
				cl := []string{"", "", "east", "west", fmt.Sprintf("c%d", k)}[g.rng.Intn(5)]
				ws = append(ws, jwt.WeightedMapping{Subject: jwt.Subject(fmt.Sprintf("t.%d", k)), Weight: uint8(w), Cluster: cl})
				if w == 0 {
					sum += 100
				} else {
					sum += w
				}
			}
			ac.Mappings["m3.src"] = ws
			return true
		}),
		acctInj("A1 allowed accounts without users", func(g *cleanGen, ac *jwt.AccountClaims) bool {
			ac.Authorization = jwt.ExternalAuthorization{AllowedAccounts: jwt.StringList{g.acctKey()}}
			return true
		}),
		acctInj("A2 auth user not a user key", func(g *cleanGen, ac *jwt.AccountClaims) bool {
			ac.Authorization.AuthUsers.Add(g.userKey(), g.pick(g.acctKey(), "not-a-key", g.kr.by["operator"].pub))
			return true
		}),
		acctInj("A3 allowed account", func(g *cleanGen, ac *jwt.AccountClaims) bool {
			ac.Authorization.AuthUsers.Add(g.userKey())
			if g.rng.Intn(2) == 0 {
				ac.Authorization.AllowedAccounts = jwt.StringList{g.acctKey(), "*"}
			} else {
				ac.Authorization.AllowedAccounts = jwt.StringList{g.userKey()}
			}
			return true
		}),
		acctInj("A4 xkey", func(g *cleanGen, ac *jwt.AccountClaims) bool {
			ac.Authorization.AuthUsers.Add(g.userKey())
			ac.Authorization.XKey = g.pick(g.acctKey(), "XNOTAKEY", g.userKey())
			return true
		}),
		acctInj("T1 trace destination subject", func(g *cleanGen, ac *jwt.AccountClaims) bool {
			ac.Trace = &jwt.MsgTrace{Destination: jwt.Subject(badSubject(g.rng)), Sampling: 10}
			return true
		}),
		acctInj("T2 trace destination wildcard", func(g *cleanGen, ac *jwt.AccountClaims) bool {
			ac.Trace = &jwt.MsgTrace{Destination: jwt.Subject(g.pick("t.*", "t.>", "*", ">", "*.x")), Sampling: 10}
			return true
		}),
		acctInj("T3 trace sampling", func(g *cleanGen, ac *jwt.AccountClaims) bool {
			ac.Trace = &jwt.MsgTrace{Destination: "t.d", Sampling: []int{-1, 101, 1 << 20, -100}[g.rng.Intn(4)]}
			return true
		}),
		acctInj("K1 plain signing key role", func(g *cleanGen, ac *jwt.AccountClaims) bool {
			ac.SigningKeys.Add(g.pick(g.userKey(), "garbage", g.kr.by["operator"].pub))
			return true
		}),
		acctInj("K2 scope key role", func(g *cleanGen, ac *jwt.AccountClaims) bool {
			us := jwt.NewUserScope()
			us.Key = g.pick(g.userKey(), "garbage")
			switch g.rng.Intn(3) {
			case 0: // the scope held by value (UserScope has value receivers: a value is a Scope too)
				ac.SigningKeys.AddScopedSigner(*us)
			case 1: // filed directly, by value
				if ac.SigningKeys == nil {
					ac.SigningKeys = jwt.SigningKeys{}
				}
				ac.SigningKeys[us.Key] = *us
			default:
				ac.SigningKeys.AddScopedSigner(us)
			}
			return true
		}),
		acctInj("account info", func(g *cleanGen, ac *jwt.AccountClaims) bool {
			if g.rng.Intn(2) == 0 {
				ac.Description = strings.Repeat("y", 9000)
			} else {
				ac.InfoURL = g.pick("nohost", "http://", "example.com/x", "https://:8443/docs", "http://:80", "https://:/x", "https://user@:9/x")
			}
			return true
		}),
		{"O1 account server url", "operator", func(g *cleanGen, c jwt.Claims) bool {
			c.(*jwt.OperatorClaims).AccountServerURL = g.pick("no-protocol.example.com", "/path/only", "http://bad host/", "::::")
			return true
		}},
		{"O2 operator service url", "operator", func(g *cleanGen, c jwt.Claims) bool {
			oc := c.(*jwt.OperatorClaims)
			oc.OperatorServiceURLs = append(oc.OperatorServiceURLs, g.pick("http://h:80", "nats://user:pw@h:4222", "nats://h:4222/path", "h:4222", "nats://bad host", "tlss://h", "nats://h:4222/", "tls://h/", "wss://h:443//", "nats://:pw@h", "NATS://h:4222/x", "ws://u@h"))
			return true
		}},
		{"O3 operator signing key", "operator", func(g *cleanGen, c jwt.Claims) bool {
			oc := c.(*jwt.OperatorClaims)
			oc.SigningKeys = append(oc.SigningKeys, g.pick(g.acctKey(), "junk", g.userKey()))
			return true
		}},
		{"O4 system account", "operator", func(g *cleanGen, c jwt.Claims) bool {
			c.(*jwt.OperatorClaims).SystemAccount = g.pick(g.userKey(), "junk", g.kr.by["operator"].pub)
			return true
		}},
		{"O5 asserted server version", "operator", func(g *cleanGen, c jwt.Claims) bool {
			c.(*jwt.OperatorClaims).AssertServerVersion = g.pick("1.2", "1.2.3.4", "a.b.c", "1.2.-3", "v1.2.3", "1..3", "1.2.x", " ")
			return true
		}},
		{"U1 user permissions", "user", func(g *cleanGen, c jwt.Claims) bool {
			uc := c.(*jwt.UserClaims)
			switch g.rng.Intn(5) {
			case 3: // blanks at the edges or doubled: the blank-split has an empty part
				uc.Sub.Allow.Add(g.pick("orders.> ", " orders.>", "orders.>  work", "x.y ", " x q"))
			case 4:
				uc.Pub.Allow.Add(g.pick("foo ", " foo", " "))
			case 0:
				uc.Pub.Allow.Add("p q")
			case 1:
				uc.Sub.Allow.Add("a b c")
			default:
				uc.Sub.Deny.Add(g.pick(".x", "y.", "a..b q"))
			}
			return true
		}},
		{"U2 source not a CIDR", "user", func(g *cleanGen, c jwt.Claims) bool {
			c.(*jwt.UserClaims).Src.Add(g.pick("10.0.0.1", "not-a-cidr", "10.0.0.0/33", "::/129"))
			return true
		}},
		{"U3 time range", "user", func(g *cleanGen, c jwt.Claims) bool {
			uc := c.(*jwt.UserClaims)
			uc.Times = append(uc.Times, []jwt.TimeRange{{Start: "", End: "10:00:00"}, {Start: "08:00:00", End: ""}, {Start: "8am", End: "10:00:00"},
				{Start: "08:00:00", End: "25:00:00"}, {Start: "08:00", End: "10:00:00"}}[g.rng.Intn(5)])
			return true
		}},
		{"U4 time zone", "user", func(g *cleanGen, c jwt.Claims) bool {
			// unknown names, and names that differ from a zone the clean claims use (validated earlier in this
			// process) only by case or a blank - whether those load is for the time-zone database to say
			z := g.pick("Mars/Olympus", "not a zone", "America/Nowhere", "america/new_york", "AMERICA/NEW_YORK",
				"europe/berlin", "utc ", " UTC", "America/New_york", "Europe/Berlin/")
			if _, err := time.LoadLocation(z); err == nil {
				return false // this database knows the name: not a violation here
			}
			c.(*jwt.UserClaims).Locale = z
			return true
		}},
		{"U5 user issuer account", "user", func(g *cleanGen, c jwt.Claims) bool {
			c.(*jwt.UserClaims).IssuerAccount = g.pick(g.userKey(), "junk", g.kr.by["operator"].pub)
			return true
		}},
		{"V1 activation kind", "activation", func(g *cleanGen, c jwt.Claims) bool {
			c.(*jwt.ActivationClaims).ImportType = jwt.ExportType([]int{0, 3, -2}[g.rng.Intn(3)])
			return true
		}},
		{"V2 activation subject", "activation", func(g *cleanGen, c jwt.Claims) bool {
			c.(*jwt.ActivationClaims).ImportSubject = jwt.Subject(badSubject(g.rng))
			return true
		}},
		{"V3 activation issuer account", "activation", func(g *cleanGen, c jwt.Claims) bool {
			c.(*jwt.ActivationClaims).IssuerAccount = g.pick(g.userKey(), "junk")
			return true
		}},
		{"R1 user nkey", "authorization_request", func(g *cleanGen, c jwt.Claims) bool {
			c.(*jwt.AuthorizationRequestClaims).UserNkey = g.pick("", g.acctKey(), "junk")
			return true
		}},
		{"X1 response subject", "authorization_response", func(g *cleanGen, c jwt.Claims) bool {
			c.(*jwt.AuthorizationResponseClaims).Subject = g.pick(g.acctKey(), "junk")
			return true
		}},
		{"X2 response audience", "authorization_response", func(g *cleanGen, c jwt.Claims) bool {
			c.(*jwt.AuthorizationResponseClaims).Audience = g.pick("", g.acctKey(), "junk")
			return true
		}},
		{"X3 neither error nor token", "authorization_response", func(g *cleanGen, c jwt.Claims) bool {
			ar := c.(*jwt.AuthorizationResponseClaims)
			ar.Error, ar.Jwt = "", ""
			return true
		}},
		{"X4 both error and token", "authorization_response", func(g *cleanGen, c jwt.Claims) bool {
			ar := c.(*jwt.AuthorizationResponseClaims)
			ar.Error, ar.Jwt = "e", "t"
			return true
		}},
		{"X5 response issuer account", "authorization_response", func(g *cleanGen, c jwt.Claims) bool {
			c.(*jwt.AuthorizationResponseClaims).IssuerAccount = g.pick(g.userKey(), "junk")
			return true
		}},
	}
	return inj
}

func (g *cleanGen) clean(kind string) jwt.Claims {
	switch kind {
	case "account":
		ac, _ := g.account()
		return ac
	case "operator":
		return g.operator()
	case "user":
		return g.user()
	case "activation":
		return g.activationClaims()
	case "authorization_request":
		return g.authRequest()
	case "authorization_response":
		return g.authResponse()
	}
	gc := jwt.NewGenericClaims("s")
	g.std(&gc.ClaimsData)
	return gc
}

func runC06(c *Ctx) {
	w := c.newCaseWriter("val", vcaseRequires, "vcase", "vcase_ok")
	g := &cleanGen{rng: c.Rng, kr: newKeyring()}
	nClean, perRule, coqEvery := 60, 40, 4
	if c.thorough() {
		nClean, perRule, coqEvery = 1500, 800, 8
	}
	distinct := map[string]bool{}
	n := 0
	emit := func(cl jwt.Claims, o vobs, inp map[string]interface{}) {
		n++
		if n%coqEvery == 0 {
			w.add(vcaseCoq(cl, o), inp)
		}
	}
	for _, kind := range kindNames {
		for i := 0; i < nClean; i++ {
			cl := g.clean(kind)
			o := observeValidate(cl)
			c.sum.Evaluations++
			c.sum.ImplChecks++
			inp := map[string]interface{}{"kind": kind, "rule": "clean", "claims": claimsSummary(cl)}
			if o.Panic != "" {
				c.violation("C11: Validate panicked: "+o.Panic, inp)
				continue
			}
			if o.Blocking {
				c.violation("C06: clean claims (only valid constructs) produce a blocking issue", inp)
			}
			c.count("clean_" + kind)
			emit(cl, o, inp)
		}
	}
	for _, in := range allInjections() {
		hits := 0
		for tries := 0; hits < perRule && tries < perRule*5; tries++ {
			cl := g.clean(in.kind)
			if !in.apply(g, cl) {
				continue
			}
			hits++
			// (a quarter of them on claims that are also expired, or not valid yet: a rule violation blocks whatever the times say)
			switch hits % 8 {
			case 3:
				cl.Claims().Expires = time.Now().Unix() - 1000 - int64(g.rng.Intn(100000))
				c.count("violation_on_expired_claims")
			case 7:
				cl.Claims().NotBefore = time.Now().Unix() + 1000 + int64(g.rng.Intn(100000))
				c.count("violation_on_not_yet_valid_claims")
			}
			o := observeValidate(cl)
			c.sum.Evaluations++
			c.sum.ImplChecks++
			inp := map[string]interface{}{"kind": in.kind, "rule": in.rule, "claims": claimsSummary(cl)}
			if o.Panic != "" {
				c.violation("C11: Validate panicked: "+o.Panic, inp)
				continue
			}
			if !o.Blocking {
				c.violation("C06: a catalogued violation ("+in.rule+") is not flagged as blocking", inp)
			}
			distinct[in.rule+fmt.Sprint(hits%7)] = true
			emit(cl, o, inp)
			if hits == 1 && len(c.sum.Samples) < 6 && c.Rng.Intn(10) == 0 {
				c.sample(inp)
			}
		}
		c.sum.Distribution["rule: "+in.rule] = hits
		if hits < 30 && hits < perRule {
			c.sum.Notes = append(c.sum.Notes, fmt.Sprintf("rule %s exercised only %d times", in.rule, hits))
		}
	}
	w.flush()
	c.sum.DistinctNontriv = len(distinct)
	c.sum.Rule = fmt.Sprintf("clean claims of every kind from a constructive generator (%d per kind) and, for each of the %d catalogued rules, %d clean claims with one injected violation (random element, list position and magnitude; mapping weights as arbitrary multisets with true sum > 100 incl. sums crossing 256 and 512); observed IsBlocking(false) only; every %dth case also evaluated by the Coq model; non-trivial = distinct (rule, variant)", nClean, len(allInjections()), perRule, coqEvery)
}
