package main

import (
	"bytes"
	"compress/gzip"
	"encoding/json"
	"fmt"
	"net"
	"net/http"
	"strings"
	"time"

	jwt "github.com/nats-io/jwt/v2"
	v1 "github.com/nats-io/jwt/v2/v1compat"
)

// every public operation on a claims object decoded by the bundled version-1 library, each under recover
func exerciseV1Claims(c v1.Claims, s *signer, report func(op, panic string)) {
	try := func(op string, f func()) {
		if p := guard(f); p != "" {
			report("v1compat "+op, p)
		}
	}
	try("Validate", func() {
		vr := v1.CreateValidationResults()
		c.Validate(vr)
		vr.IsBlocking(true)
		vr.Errors()
		vr.Warnings()
	})
	try("String", func() { _ = c.String() })
	try("Payload", func() { _ = c.Payload() })
	try("Claims", func() { _ = c.Claims().IsSelfSigned() })
	try("ExpectedPrefixes", func() { _ = c.ExpectedPrefixes() })
	uc := v1.NewUserClaims("UX")
	uc.IssuedAt = 5
	act := v1.NewActivationClaims("AX")
	act.IssuedAt = 5
	switch x := c.(type) {
	case *v1.AccountClaims:
		try("AccountClaims.DidSign", func() { x.DidSign(x); x.DidSign(nil); x.DidSign(uc) })
		try("AccountClaims.IsRevoked", func() {
			x.IsRevoked("UX")
			x.IsRevokedAt("UX", time.Unix(5, 0))
			x.IsClaimRevoked(uc)
			x.IsClaimRevoked(nil)
		})
		try("HasExportContainingSubject", func() { x.Exports.HasExportContainingSubject("a.b"); x.Exports.HasExportContainingSubject("") })
		try("Limits queries", func() { x.Limits.IsEmpty(); x.Limits.IsUnlimited() })
		for i, e := range x.Exports {
			e := e
			try(fmt.Sprintf("Export[%d] queries", i), func() {
				if e != nil {
					e.IsRevoked("k")
					e.IsRevokedAt("k", time.Unix(5, 0))
					e.IsService()
					e.IsStream()
					e.IsSingleResponse()
					e.IsChunkedResponse()
					e.IsStreamResponse()
					vr := v1.CreateValidationResults()
					e.Validate(vr)
				}
			})
			try(fmt.Sprintf("Export[%d] mutation helpers", i), func() {
				if e != nil {
					e.RevokeAt("k", time.Unix(1, 0))
					e.Revoke("k2")
					e.ClearRevocation("k")
				}
			})
		}
		for i, im := range x.Imports {
			im := im
			try(fmt.Sprintf("Import[%d] queries", i), func() {
				if im != nil {
					im.IsService()
					im.IsStream()
					vr := v1.CreateValidationResults()
					im.Validate(x.Subject, vr)
				}
			})
		}
		try("mutation helpers", func() {
			x.RevokeAt("k", time.Unix(1, 0))
			x.Revoke("k2")
			x.ClearRevocation("k")
			x.SigningKeys.Add("AK")
			x.SigningKeys.Remove("AK")
			x.Tags.Add("t")
			x.Tags.Remove("t")
			x.Exports.Add(&v1.Export{Subject: "zz", Type: v1.Stream})
			x.Imports.Add(&v1.Import{Subject: "zz", Type: v1.Stream, Account: "A"})
		})
	case *v1.OperatorClaims:
		try("OperatorClaims.DidSign", func() { x.DidSign(x); x.DidSign(nil); x.DidSign(uc) })
		try("mutation helpers", func() { x.AddSigningKey("k"); x.SigningKeys.Remove("k") })
	case *v1.UserClaims:
		try("UserClaims queries", func() { x.IsBearerToken() })
	case *v1.ActivationClaims:
		try("HashID", func() { x.HashID() })
	}
	try("Encode", func() { c.Encode(s.kp) })
}

func exerciseV1Token(tok string, s *signer, seed []byte, report func(op, panic string)) {
	try := func(op string, f func()) {
		if p := guard(f); p != "" {
			report("v1compat "+op, p)
		}
	}
	for _, kind := range v1Kinds {
		kind := kind
		var c v1.Claims
		try("Decode as "+kind, func() {
			var err error
			c, err = v1DecodeAs(kind, tok)
			if err != nil {
				c = nil
			}
		})
		if c != nil {
			exerciseV1Claims(c, s, report)
		}
	}
	try("DecorateJWT", func() { v1.DecorateJWT(tok) })
	try("FormatUserConfig", func() { v1.FormatUserConfig(tok, seed) })
}

// v1 payload mutations: rich version-1 claims of each kind, every single-node mutation, signed payload-only
// c11TokenServer: the bundled version-1 library fetches an import's token when it is a URL; whoever signs the account
// token chooses the URL and therefore the server.  A loopback server that answers in every way HTTP allows: a body
// with and without announced length, chunked, close-delimited, compressed, empty, huge announced length, errors.
func c11TokenServer(body string) (base string, paths []string, stop func()) {
	ln, err := net.Listen("tcp", "127.0.0.1:0")
	if err != nil {
		return "", nil, func() {}
	}
	mux := http.NewServeMux()
	mux.HandleFunc("/plain", func(w http.ResponseWriter, r *http.Request) { w.Write([]byte(body)) })
	mux.HandleFunc("/chunked", func(w http.ResponseWriter, r *http.Request) {
		w.Write([]byte(body[:len(body)/2]))
		if f, ok := w.(http.Flusher); ok {
			f.Flush()
		}
		w.Write([]byte(body[len(body)/2:]))
	})
	mux.HandleFunc("/gzip", func(w http.ResponseWriter, r *http.Request) {
		w.Header().Set("Content-Encoding", "gzip")
		zw := gzip.NewWriter(w)
		zw.Write([]byte(body))
		zw.Close()
	})
	mux.HandleFunc("/empty", func(w http.ResponseWriter, r *http.Request) {})
	mux.HandleFunc("/nocontent", func(w http.ResponseWriter, r *http.Request) { w.WriteHeader(204) })
	mux.HandleFunc("/error", func(w http.ResponseWriter, r *http.Request) { http.Error(w, "no", 500) })
	mux.HandleFunc("/garbage", func(w http.ResponseWriter, r *http.Request) { w.Write([]byte("\x00\xff not a token \n..")) })
	mux.HandleFunc("/big", func(w http.ResponseWriter, r *http.Request) { w.Write([]byte(strings.Repeat("A", 3<<20))) })
	mux.HandleFunc("/shortbody", func(w http.ResponseWriter, r *http.Request) {
		// announces more than it sends, then the connection is cut
		if hj, ok := w.(http.Hijacker); ok {
			conn, buf, err := hj.Hijack()
			if err == nil {
				buf.WriteString("HTTP/1.1 200 OK\r\nContent-Length: 100000\r\n\r\nshort")
				buf.Flush()
				conn.Close()
			}
		}
	})
	mux.HandleFunc("/http10", func(w http.ResponseWriter, r *http.Request) {
		if hj, ok := w.(http.Hijacker); ok {
			conn, buf, err := hj.Hijack()
			if err == nil {
				buf.WriteString("HTTP/1.0 200 OK\r\n\r\n" + body)
				buf.Flush()
				conn.Close()
			}
		}
	})
	mux.HandleFunc("/redirect", func(w http.ResponseWriter, r *http.Request) { http.Redirect(w, r, "/redirect", 302) })
	srv := &http.Server{Handler: mux}
	go srv.Serve(ln)
	return "http://" + ln.Addr().String(), []string{"/plain", "/chunked", "/gzip", "/empty", "/nocontent", "/error", "/garbage", "/big", "/shortbody", "/http10", "/redirect", "/missing"},
		func() { srv.Close() }
}

func runC11V1(c *Ctx, g *valGen, seedU []byte, replacements []interface{}, report func(tok, note string) func(op, p string)) {
	// import tokens given as URLs of a server under the signer's control
	{
		exporter, importer := newSigner("account"), newSigner("account")
		act := v1.NewActivationClaims(importer.pub)
		act.ImportSubject, act.ImportType = "i1", v1.Stream
		body, _ := act.Encode(exporter.kp)
		base, paths, stop := c11TokenServer(body)
		if base == "" {
			c.count("loopback_server_unavailable")
		}
		for _, p := range paths {
			ac := v1.NewAccountClaims(importer.pub)
			ac.Imports.Add(&v1.Import{Subject: "i1", Account: exporter.pub, Type: v1.Stream, Token: base + p})
			tok, err := ac.Encode(importer.kp)
			if err != nil {
				continue
			}
			exerciseV1Token(tok, importer, seedU, report(tok, "v1 account whose import token is the URL "+p+" of a loopback server"))
			c.sum.Evaluations++
			c.sum.ImplChecks++
			c.count("v1compat_import_token_url")
		}
		stop()
	}
	bases := 2
	if c.thorough() {
		bases = 8
	}
	vn := 0
	for _, kind := range v1Kinds {
		for b := 0; b < bases; b++ {
			cl, s := v1Random(g, kind)
			if ac, ok := cl.(*v1.AccountClaims); ok {
				// limits under which Validate walks the export list
				ac.Exports.Add(&v1.Export{Subject: "e1.>", Type: v1.Stream}, &v1.Export{Subject: "e2", Type: v1.Service})
				ac.Imports.Add(&v1.Import{Subject: "i1", Account: "A", Type: v1.Stream}, &v1.Import{Subject: "i2", Account: "A", Type: v1.Service})
				ac.Limits.Exports, ac.Limits.WildcardExports, ac.Limits.Imports = 10, false, 10
			}
			tok, err := cl.Encode(s.kp)
			if err != nil {
				continue
			}
			raw, _ := b64.DecodeString(strings.Split(tok, ".")[1])
			var tree interface{}
			// (numbers kept as written: a float64 would round the 64-bit values of the base and make every mutated
			// token undecodable)
			treeDec := json.NewDecoder(bytes.NewReader(raw))
			treeDec.UseNumber()
			treeDec.Decode(&tree)
			var paths []jpath
			collectPaths(tree, nil, &paths)
			for _, p := range paths {
				muts := []struct {
					how  string
					repl interface{}
				}{{"drop", nil}, {"dup", nil}}
				for _, r := range replacements {
					muts = append(muts, struct {
						how  string
						repl interface{}
					}{"replace", r})
				}
				if _, isStr := nodeAt(tree, p).(string); isStr {
					for _, hs := range hostileStrings {
						muts = append(muts, struct {
							how  string
							repl interface{}
						}{"replace", hs})
					}
				}
				for _, m := range muts {
					mt := mutateAt(deepCopy(tree), p, m.how, m.repl)
					pj, err := json.Marshal(mt)
					if err != nil {
						continue
					}
					ft := forge(hdrV1, string(pj), "v1", s)
					exerciseV1Token(ft.Token, s, seedU, report(ft.Token, fmt.Sprintf("v1 %s payload, %s at %v", kind, m.how, p)))
					// the same token through the version-2 library: its version-1 loaders and the migration behind them
					exerciseToken(ft.Token, s, seedU, report(ft.Token, fmt.Sprintf("v1 %s payload through the v2 library, %s at %v", kind, m.how, p)))
					c.sum.Evaluations++
					c.sum.ImplChecks++
					c.count("v1compat_mutation_" + m.how)
					vn++
					if vn%16 == 0 {
						if d, err := jwt.Decode(ft.Token); err == nil && d != nil {
							c.count("sampled_mutated_v1_token_migrates")
						} else {
							c.count("sampled_mutated_v1_token_refused_by_v2")
						}
					}
				}
			}
		}
	}
}
