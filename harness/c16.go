package main

import (
	"strconv"
	"strings"

	jwt "github.com/nats-io/jwt/v2"
	v1 "github.com/nats-io/jwt/v2/v1compat"
)

func init() { drivers["C16"] = runC16 }

// ---- independent specification oracle (NATS matching semantics), bounded ----

func specMatches(pat, lit []string) bool {
	for i, p := range pat {
		if i >= len(lit) {
			return false
		}
		if p == ">" && i == len(pat)-1 {
			return true
		}
		if p != "*" && p != lit[i] {
			return false
		}
	}
	return len(pat) == len(lit)
}

func allLiterals(alpha []string, maxLen int) [][]string {
	var out [][]string
	var rec func(cur []string)
	rec = func(cur []string) {
		if len(cur) > 0 {
			out = append(out, append([]string(nil), cur...))
		}
		if len(cur) == maxLen {
			return
		}
		for _, a := range alpha {
			rec(append(cur, a))
		}
	}
	rec(nil)
	return out
}

func allPatterns(alpha []string, maxLen int) []string {
	var out []string
	var rec func(cur []string)
	rec = func(cur []string) {
		if len(cur) > 0 {
			out = append(out, strings.Join(cur, "."))
		}
		if len(cur) == maxLen || (len(cur) > 0 && cur[len(cur)-1] == ">") {
			return
		}
		for _, a := range alpha {
			rec(append(cur, a))
		}
	}
	rec(nil)
	return out
}

func validSubject(s string) bool {
	toks := strings.Split(s, ".")
	for i, t := range toks {
		if t == "" || (t == ">" && i != len(toks)-1) {
			return false
		}
	}
	return true
}

func runC16(c *Ctx) {
	w := c.newCaseWriter("subj", "From JWT Require Import Model.Subject.", "string * string * bool * bool", "case_ok")
	maxTok := 4
	litLen := 5
	pats := allPatterns([]string{"a", "b", "*", ">"}, maxTok)
	lits := allLiterals([]string{"a", "b", "c"}, litLen)
	// match sets as bit vectors over lits
	type bits []uint64
	mk := func(p string) bits {
		b := make(bits, (len(lits)+63)/64)
		pt := strings.Split(p, ".")
		for i, l := range lits {
			if specMatches(pt, l) {
				b[i/64] |= 1 << (i % 64)
			}
		}
		return b
	}
	sets := make([]bits, len(pats))
	cnt := make([]int, len(pats))
	for i, p := range pats {
		sets[i] = mk(p)
		for _, x := range sets[i] {
			for ; x != 0; x &= x - 1 {
				cnt[i]++
			}
		}
	}
	subset := func(a, b bits) bool {
		for i := range a {
			if a[i]&^b[i] != 0 {
				return false
			}
		}
		return true
	}
	distinct := map[string]bool{}
	one := func(s, o string, haveSpec bool, specIn, specWc bool) {
		c.sum.Evaluations++
		in2 := jwt.Subject(s).IsContainedIn(jwt.Subject(o))
		wc2 := jwt.Subject(s).HasWildCards()
		in1 := v1.Subject(s).IsContainedIn(v1.Subject(o))
		wc1 := v1.Subject(s).HasWildCards()
		inp := map[string]interface{}{"subject": s, "other": o}
		if in1 != in2 || wc1 != wc2 {
			// the bundled v1 copy is specified to behave identically
			c.sum.Notes = append(c.sum.Notes, "v1compat and v2 disagree on "+s+" / "+o)
		}
		if haveSpec {
			c.sum.ImplChecks++
			if in2 != specIn {
				c.violation("v2 IsContainedIn differs from NATS matching semantics", map[string]interface{}{"subject": s, "other": o, "impl": in2, "spec": specIn, "lib": "v2"})
			}
			if in1 != specIn {
				c.violation("v1compat IsContainedIn differs from NATS matching semantics", map[string]interface{}{"subject": s, "other": o, "impl": in1, "spec": specIn, "lib": "v1compat"})
			}
			// the list-level query built on containment: is the subject contained in some export of the list (a null
			// entry, an unrelated export and the export in question)
			exs := jwt.Exports{nil, &jwt.Export{Subject: "zz.unrelated.literal", Type: jwt.Stream}, &jwt.Export{Subject: jwt.Subject(o), Type: jwt.Service}}
			if has := exs.HasExportContainingSubject(jwt.Subject(s)); has != specIn {
				c.violation("v2 Exports.HasExportContainingSubject differs from containment in the export's subject", map[string]interface{}{"subject": s, "export": o, "impl": has, "spec": specIn, "lib": "v2"})
			}
			ex1 := v1.Exports{&v1.Export{Subject: "zz.unrelated.literal", Type: v1.Stream}, &v1.Export{Subject: v1.Subject(o), Type: v1.Service}}
			if has := ex1.HasExportContainingSubject(v1.Subject(s)); has != specIn {
				c.violation("v1compat Exports.HasExportContainingSubject differs from containment in the export's subject", map[string]interface{}{"subject": s, "export": o, "impl": has, "spec": specIn, "lib": "v1compat"})
			}
			if wc2 != specWc {
				c.violation("v2 HasWildCards differs from 'matches more than one subject'", map[string]interface{}{"subject": s, "impl": wc2, "spec": specWc, "lib": "v2"})
			}
			if wc1 != specWc {
				c.violation("v1compat HasWildCards differs from 'matches more than one subject'", map[string]interface{}{"subject": s, "impl": wc1, "spec": specWc, "lib": "v1compat"})
			}
		}
		w.add("("+coqStr(s)+", "+coqStr(o)+", "+coqBool(in2)+", "+coqBool(wc2)+")", inp)
		if in1 != in2 || wc1 != wc2 {
			w.add("("+coqStr(s)+", "+coqStr(o)+", "+coqBool(in1)+", "+coqBool(wc1)+")", map[string]interface{}{"subject": s, "other": o, "lib": "v1compat"})
		}
		if s != o && (in2 || wc2) {
			distinct[s+"|"+o] = true
		}
		if in2 {
			c.count("contained")
		} else {
			c.count("not_contained")
		}
		if c.sum.Evaluations%5003 == 1 {
			c.sample(map[string]interface{}{"subject": s, "other": o, "contained": in2, "wildcards": wc2})
		}
	}
	for i, s := range pats {
		for j, o := range pats {
			one(s, o, true, subset(sets[i], sets[j]), cnt[i] > 1)
		}
	}
	c.sum.Exhaustive = true
	// random part: longer subjects, a larger alphabet, and malformed subjects
	// (model correspondence only: the semantics is defined for valid subjects)
	nrand := 3000
	if c.thorough() {
		nrand = 40000
	}
	// tokens that extend or truncate one another character-wise, and literal tokens that merely contain or end in a
	// wildcard character: only a WHOLE token "*" or ">" is a wildcard, and tokens are compared whole
	alpha := []string{"a", "b", "c", "foo", "*", ">", "*", "x1", "A", "$1", " ", "ab", "abc", "fo", "foobar", "order", "orders", "eu>", ">>", "a*", "*a", "**", "*>", "a>b"}
	gen := func() string {
		n := 1 + c.Rng.Intn(7)
		toks := make([]string, n)
		for i := range toks {
			toks[i] = alpha[c.Rng.Intn(len(alpha))]
			if toks[i] == ">" && i != n-1 && c.Rng.Intn(10) != 0 {
				toks[i] = "d"
			}
			if c.Rng.Intn(40) == 0 {
				toks[i] = ""
			}
		}
		return strings.Join(toks, ".")
	}
	semLits := allLiterals([]string{"a", "b", "c", "foo", "x1", "A", "$1", "zz"}, 0) // unused for long ones
	_ = semLits
	for k := 0; k < nrand; k++ {
		s := gen()
		var o string
		switch c.Rng.Intn(3) {
		case 0:
			o = gen()
		default:
			// derive o from s so that containment is frequently true
			toks := strings.Split(s, ".")
			ot := append([]string(nil), toks...)
			for i := range ot {
				switch c.Rng.Intn(6) {
				case 0, 1:
					ot[i] = "*"
				case 2:
					// a character-wise neighbour of the token: one character fewer, one more, or a wildcard character appended
					switch t := ot[i]; c.Rng.Intn(4) {
					case 0:
						if len(t) > 1 {
							ot[i] = t[:len(t)-1]
						}
					case 1:
						ot[i] = t + "x"
					case 2:
						ot[i] = t + ">"
					default:
						if len(t) > 1 {
							ot[i] = t[1:]
						}
					}
				}
			}
			if c.Rng.Intn(3) == 0 {
				cut := c.Rng.Intn(len(ot))
				ot = append(ot[:cut], ">")
			}
			o = strings.Join(ot, ".")
		}
		if validSubject(s) && validSubject(o) && !strings.Contains(s+o, " ") {
			// exact semantic decision for valid patterns of any length (independent
			// recursive characterisation, not the library's loop)
			one(s, o, true, specContained(strings.Split(s, "."), strings.Split(o, ".")), specHasWild(strings.Split(s, ".")))
			c.count("random_valid")
		} else {
			one(s, o, false, false, false)
			c.count("random_malformed")
		}
	}
	// the subject a renaming subject stands for (what the overlap rules compare): a token that is a reference - a dollar sign
	// followed by an integer, nothing else - reads as the wildcard *, every other token stays as written; so a subject
	// without reference tokens has no more wildcards than it spells
	{
		toks := []string{"a", "req", "*", ">", "$1", "$12", "$", "$$1", "$$", "$x", "$1x", "x$1", "$-1", "$+1", "$01", "$$$12", "$ 1", "$1$"}
		isRef := func(tk string) bool {
			if len(tk) < 2 || tk[0] != '$' {
				return false
			}
			_, err := strconv.Atoi(tk[1:])
			return err == nil
		}
		for _, a := range toks {
			for _, b := range append([]string{""}, toks...) {
				for _, cc := range append([]string{""}, toks[:6]...) {
					var in, want []string
					for _, tk := range []string{a, b, cc} {
						if tk == "" {
							continue
						}
						in = append(in, tk)
						if isRef(tk) {
							want = append(want, "*")
						} else {
							want = append(want, tk)
						}
					}
					rs := jwt.RenamingSubject(strings.Join(in, "."))
					got := string(rs.ToSubject())
					c.sum.Evaluations++
					c.sum.ImplChecks++
					if got != strings.Join(want, ".") {
						c.violation("RenamingSubject.ToSubject: a token that is no reference was rewritten (or a reference was not)",
							map[string]interface{}{"renaming_subject": string(rs), "impl": got, "spec": strings.Join(want, ".")})
					}
					c.count("renaming_to_subject")
				}
			}
		}
	}
	w.flush()
	c.sum.DistinctNontriv = len(distinct)
	c.sum.Rule = "all ordered pairs of the 160 valid patterns over {a,b,*,>} up to 4 tokens (exhaustive), each decided against the match sets over all 363 literals over {a,b,c} up to 5 tokens; plus random longer/malformed pairs; non-trivial = distinct pair with subject != other where containment or wildcard detection answered true"
}

// specContained decides semantic containment of valid patterns over an infinite
// token alphabet, by structural recursion on the two patterns.
func specContained(s, o []string) bool {
	if len(o) == 0 {
		return len(s) == 0
	}
	if len(s) == 0 {
		return false
	}
	if o[0] == ">" && len(o) == 1 {
		return true // s is non-empty: everything it matches has >= 1 token
	}
	if s[0] == ">" && len(s) == 1 {
		return false // s matches arbitrarily long subjects, o (no trailing > here) does not
	}
	if o[0] != "*" && o[0] != s[0] {
		return false
	}
	return specContained(s[1:], o[1:])
}

func specHasWild(s []string) bool {
	for _, t := range s {
		if t == "*" || t == ">" {
			return true
		}
	}
	return false
}
