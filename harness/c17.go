package main

import (
	"fmt"
	"os"
	"path/filepath"
	"reflect"
	"runtime"
	"sort"
	"strings"
	"sync"
	"sync/atomic"
	"time"

	jwt "github.com/nats-io/jwt/v2"
	"github.com/nats-io/nkeys"
)

func init() { drivers["C17"] = runC17 }

// one worker's pass over the library on objects of its own, decoded from shared token TEXT
// a tag list and a user key all workers share (read-only)
var c17SharedTags []string
var c17UserPub string

func c17Work(tokens map[string]string, names []string, seedUser []byte, userTok string) []string {
	var out []string
	add := func(format string, a ...interface{}) { out = append(out, fmt.Sprintf(format, a...)) }
	akp, _ := nkeys.CreateAccount()
	// one list of tags that every worker hands to the one-call issuer (as an application's configuration would): the
	// library reads it and leaves it alone
	if c17SharedTags != nil {
		apub, _ := akp.PublicKey()
		tok, err := jwt.IssueUserJWT(akp, apub, c17UserPub, "issued", 0, c17SharedTags...)
		if err != nil {
			add("issue error %v", err)
		} else if d, err := jwt.DecodeUserClaims(tok); err == nil {
			add("issued tags=%v", d.Tags)
		}
		add("shared tags=%q", c17SharedTags)
	}
	for _, n := range names {
		tok := tokens[n]
		c, err := jwt.Decode(tok)
		if err != nil {
			add("%s decode error", n)
			continue
		}
		add("%s kind=%s iss=%s", n, dynKind(c), c.Claims().Issuer)
		vr := jwt.CreateValidationResults()
		c.Validate(vr)
		add("%s blocking=%v issues=%d", n, vr.IsBlocking(false), len(vr.Issues))
		add("%s string=%d", n, len(c.String()))
		add("%s type=%s prefixes=%v", n, c.ClaimType(), c.ExpectedPrefixes())
		// what a claims object hands out belongs to whoever asked: writing it over (with the values it holds) touches
		// nothing another goroutine reads
		if pfx := c.ExpectedPrefixes(); len(pfx) > 0 {
			for i := range pfx {
				pfx[i] = pfx[i] + 0
			}
			pfx[len(pfx)-1] = pfx[0]
			add("%s prefixes again=%v", n, c.ExpectedPrefixes())
		}
		if g, err := jwt.DecodeGeneric(tok); err == nil {
			add("%s generic=%d", n, len(g.Data))
		}
		switch x := c.(type) {
		case *jwt.AccountClaims:
			x.RevokeAt("UABC", time.Unix(100, 0))
			x.RevokeAt("*", time.Unix(50, 0))
			add("%s revoked=%v compact=%d", n, x.Revocations.IsRevoked("UABC", time.Unix(60, 0)), len(x.Revocations.MaybeCompact()))
			add("%s has=%v didsign=%v", n, x.Exports.HasExportContainingSubject("foo.bar"), x.DidSign(x))
			x.Tags.Add("A", " b ")
			x.Tags.Remove("a")
			add("%s tags=%v", n, x.Tags)
			x.AddMapping("m.x", jwt.WeightedMapping{Subject: "t", Weight: 10})
			// re-encode with a key of this worker's own and decode again
			x.Issuer = ""
			t2, err := x.Encode(akp)
			if err == nil {
				d, err := jwt.DecodeAccountClaims(t2)
				add("%s reencode=%v maps=%d", n, err == nil, len(d.Mappings))
			}
		case *jwt.ActivationClaims:
			h, _ := x.HashID()
			add("%s hash=%s", n, h)
		case *jwt.OperatorClaims:
			add("%s didsign=%v", n, x.DidSign(x))
		case *jwt.UserClaims:
			add("%s empty=%v bearer=%v", n, x.HasEmptyPermissions(), x.IsBearerToken())
		}
	}
	// work whose right answer differs from worker to worker (so that a value computed for one and handed to another
	// shows): each worker's own activation hashed, each worker's own claims encoded, again and again, against the
	// harness's own computation of the hash identity and of the token id; an account with scopes of its own decoded
	{
		apub, _ := akp.PublicKey()
		own := fmt.Sprintf("w%x", apub[len(apub)-6:])
		act := jwt.NewActivationClaims(apub)
		act.ImportSubject, act.ImportType = jwt.Subject("own."+own+".*"), jwt.Stream
		act.Issuer = apub
		wantHash := oracleHash(apub + "." + apub + "." + oracleClean("own."+own+".*"))
		uc := jwt.NewUserClaims(c17UserPub)
		uc.Name = "claims of " + own
		ac := jwt.NewAccountClaims(apub)
		for k := 0; k < 4; k++ {
			us := jwt.NewUserScope()
			us.Key, us.Role, us.Description = newSigner("account").pub, fmt.Sprintf("role-%s-%d", own, k), strings.Repeat(own, 40)
			us.Template.Pub.Allow.Add("scope." + own + ".>")
			ac.SigningKeys.AddScopedSigner(us)
		}
		acTok, _ := ac.Encode(akp)
		bad := ""
		for rep := 0; rep < 40 && bad == ""; rep++ {
			if h, err := act.HashID(); err != nil || h != wantHash {
				bad = fmt.Sprintf("HashID gave %q (%v), the activation's own is %q", h, err, wantHash)
			}
			if _, err := uc.Encode(akp); err != nil {
				bad = "Encode failed: " + err.Error()
			} else if id, _ := ownID(uc.ClaimsData); uc.ID != id {
				bad = fmt.Sprintf("Encode stamped the id %q, the hash of these claims' own standard fields is %q", uc.ID, id)
			}
			if d, err := jwt.DecodeAccountClaims(acTok); err != nil {
				bad = "an account token with scopes does not decode: " + err.Error()
			} else {
				for _, k := range ac.SigningKeys.Keys() {
					s1, _ := ac.SigningKeys.GetScope(k)
					s2, ok := d.SigningKeys.GetScope(k)
					if !ok || s2 == nil || canonString(reflect.ValueOf(s1)) != canonString(reflect.ValueOf(s2)) {
						bad = "a scope decoded from this worker's own account token is not the scope encoded"
					}
				}
			}
		}
		add("own work: %s", bad)
	}
	// the only package-level variable: the credentials regular expression
	creds, err := jwt.FormatUserConfig(userTok, seedUser)
	if err == nil {
		j, _ := jwt.ParseDecoratedJWT(creds)
		kp, err2 := jwt.ParseDecoratedUserNKey(creds)
		pub := ""
		if err2 == nil {
			pub, _ = kp.PublicKey()
		}
		add("creds jwt=%v key=%s", j == userTok, pub)
	}
	d, _ := jwt.DecorateJWT(userTok)
	add("decorate=%d", len(d))
	add("contained=%v wild=%v", jwt.Subject("a.b").IsContainedIn("a.*"), jwt.Subject("a.>").HasWildCards())
	return out
}

// pokeMaps inserts one zero-valued entry under a fixed key into every non-nil map reachable from v
// (through structs, pointers and slices) - what an application that owns the object is free to do.
func pokeMaps(v reflect.Value, depth int) {
	if depth > 8 {
		return
	}
	switch v.Kind() {
	case reflect.Ptr, reflect.Interface:
		if !v.IsNil() {
			pokeMaps(v.Elem(), depth+1)
		}
	case reflect.Struct:
		for i := 0; i < v.NumField(); i++ {
			if v.Field(i).CanSet() {
				pokeMaps(v.Field(i), depth+1)
			}
		}
	case reflect.Slice:
		for i := 0; i < v.Len(); i++ {
			pokeMaps(v.Index(i), depth+1)
		}
	case reflect.Map:
		if !v.IsNil() && v.Type().Key().Kind() == reflect.String {
			k := reflect.New(v.Type().Key()).Elem()
			k.SetString("zz-c17-own-entry")
			v.SetMapIndex(k, reflect.Zero(v.Type().Elem()))
		}
	}
}

// objects built by the library's constructors belong to whoever built them: a fresh object looks the same
// whatever other goroutines did to THEIR fresh objects, and filling its maps / lists touches nothing shared
func c17Fresh(kr *keyring) []string {
	var out []string
	add := func(format string, a ...interface{}) { out = append(out, fmt.Sprintf(format, a...)) }
	apub, opub, upub := kr.by["account"].pub, kr.by["operator"].pub, kr.by["user"].pub
	mk := func() []interface{} {
		return []interface{}{jwt.NewAccountClaims(apub), jwt.NewOperatorClaims(opub), jwt.NewUserClaims(upub),
			jwt.NewActivationClaims(apub), jwt.NewGenericClaims(apub), jwt.NewAuthorizationRequestClaims(upub),
			jwt.NewAuthorizationResponseClaims(upub), jwt.NewUserScope(), jwt.CreateValidationResults()}
	}
	objs := mk()
	for _, o := range objs {
		add("fresh %T %s", o, canonString(reflect.ValueOf(o).Elem()))
	}
	for _, o := range objs {
		pokeMaps(reflect.ValueOf(o), 0)
		switch x := o.(type) {
		case *jwt.AccountClaims:
			if x.Limits.JetStreamTieredLimits == nil {
				x.Limits.JetStreamTieredLimits = jwt.JetStreamTieredLimits{}
			}
			x.Limits.JetStreamTieredLimits["R1"] = jwt.JetStreamLimits{DiskStorage: 7}
			x.SigningKeys.Add(opub)
			x.RevokeAt("*", time.Unix(5, 0))
			x.AddMapping("own.m", jwt.WeightedMapping{Subject: "own.t", Weight: 3})
			x.Tags.Add("own")
			x.Exports.Add(&jwt.Export{Subject: "own.e", Type: jwt.Stream})
			x.DefaultPermissions.Pub.Allow.Add("own.p")
		case *jwt.OperatorClaims:
			x.SigningKeys.Add(opub)
			x.OperatorServiceURLs.Add("nats://own:4222")
			x.Tags.Add("own")
		case *jwt.UserClaims:
			x.Pub.Allow.Add("own.p")
			x.Src.Add("10.0.0.0/8")
			x.Tags.Add("own")
			x.AllowedConnectionTypes.Add("WEBSOCKET")
		case *jwt.GenericClaims:
			x.Data["own"] = "entry"
			_ = x
		case *jwt.UserScope:
			x.Template.Pub.Allow.Add("own.p")
		case *jwt.ValidationResults:
			x.AddError("own %d", 1)
		}
		add("filled %T %s", o, canonString(reflect.ValueOf(o).Elem()))
	}
	for _, o := range mk() {
		add("fresh again %T %s", o, canonString(reflect.ValueOf(o).Elem()))
	}
	return out
}

var sharedOp *jwt.OperatorClaims

// a shared account whose key set holds scopes an application put together by hand (no constructor: the kind, or the
// scope's own key, left at the zero value)
var sharedHand *jwt.AccountClaims

// shared generic claims that wrap another claim: no top-level type, a nats section of their own that has one
var sharedGen *jwt.GenericClaims

// read-only queries on one shared object
func c17Shared(ac *jwt.AccountClaims, uc *jwt.UserClaims, act *jwt.ActivationClaims) []string {
	var out []string
	add := func(format string, a ...interface{}) { out = append(out, fmt.Sprintf(format, a...)) }
	if sharedOp != nil {
		// an operator whose key list has spare capacity (three keys in a backing array of four)
		add("op didsign=%v %v %v", sharedOp.DidSign(sharedOp), sharedOp.DidSign(ac), sharedOp.DidSign(uc))
		add("op tags=%v type=%s", sharedOp.GetTags(), sharedOp.ClaimType())
		add("op spare=%q", sharedOp.SigningKeys[:cap(sharedOp.SigningKeys)][len(sharedOp.SigningKeys):])
	}
	add("string=%d", len(ac.String()))
	if sharedGen != nil {
		add("gen type=%s prefixes=%v subject=%s payload=%v", sharedGen.ClaimType(), sharedGen.ExpectedPrefixes(), sharedGen.Claims().Subject, reflect.TypeOf(sharedGen.Payload()))
		add("gen string=%d", len(sharedGen.String()))
	}
	if sharedHand != nil {
		add("hand string=%d payload=%v", len(sharedHand.String()), reflect.TypeOf(sharedHand.Payload()))
		hk := sharedHand.SigningKeys.Keys() // (in map order: sorted here)
		sort.Strings(hk)
		for _, k := range hk {
			sc, ok := sharedHand.SigningKeys.GetScope(k)
			add("hand scope %v %v contains=%v", ok, sc != nil, sharedHand.SigningKeys.Contains(k))
		}
		add("hand didsign=%v", sharedHand.DidSign(uc))
	}
	add("didsign=%v %v", ac.DidSign(uc), ac.DidSign(act))
	add("revoked=%v", ac.IsClaimRevoked(uc))
	add("has=%v", ac.Exports.HasExportContainingSubject("foo.bar"))
	add("claims=%s type=%s prefixes=%v", ac.Claims().Subject, ac.ClaimType(), ac.ExpectedPrefixes())
	add("tags=%v contains=%v", ac.GetTags(), ac.Tags.Contains("X"))
	add("keys=%d contains=%v", len(ac.SigningKeys.Keys()), ac.SigningKeys.Contains("zz"))
	add("limits=%v %v %v", ac.Limits.IsUnlimited(), ac.Limits.IsEmpty(), ac.Limits.IsJSEnabled())
	add("limit parts=%v %v %v", ac.Limits.JetStreamLimits.IsUnlimited(), ac.Limits.NatsLimits.IsUnlimited(), ac.Limits.AccountLimits.IsUnlimited())
	for _, tn := range []string{"R1", "R3"} {
		if t, ok := ac.Limits.JetStreamTieredLimits[tn]; ok {
			add("tier %s=%v", tn, t.IsUnlimited())
		}
	}
	for i, e := range ac.Exports {
		if e != nil && i < 4 {
			add("export %d=%v %v %v %v", i, e.IsService(), e.IsStream(), e.IsClaimRevoked(act), e.Revocations.IsRevoked("UX", time.Unix(5, 0)))
		}
	}
	for i, im := range ac.Imports {
		if im != nil && i < 4 {
			add("import %d=%v %v %s", i, im.IsService(), im.IsStream(), im.GetTo())
		}
	}
	add("revs=%v", ac.Revocations.IsRevoked("UX", time.Unix(5, 0)))
	for _, k := range ac.SigningKeys.Keys() {
		sc, ok := ac.SigningKeys.GetScope(k)
		add("scope %v %v", ok, sc != nil)
	}
	add("user=%v %v %v", uc.IsBearerToken(), uc.Limits.IsUnlimited(), uc.UserLimits.Empty())
	add("selfsigned=%v", ac.IsSelfSigned())
	h, _ := act.HashID()
	add("hash=%s payload=%v", h, reflect.TypeOf(act.Payload()))
	add("user empty=%v", uc.HasEmptyPermissions())
	return out
}

func runC17(c *Ctx) {
	kr := newKeyring()
	tokens := validTokens(kr)
	for k, v := range validV1Tokens(kr) {
		tokens[k] = v
	}
	// a richer account
	g := &cleanGen{rng: c.Rng, kr: kr}
	rich, _ := g.account()
	rich.Subject = kr.by["account"].pub
	for _, im := range rich.Imports {
		im.Token = ""
	}
	rtok, err := rich.Encode(kr.by["operator"].kp)
	if err != nil {
		panic(err)
	}
	tokens["rich_account"] = rtok
	var names []string
	for k := range tokens {
		names = append(names, k)
	}
	sortStrings(names)
	ukp, _ := nkeys.CreateUser()
	useed, _ := ukp.Seed()
	upub, _ := ukp.PublicKey()
	uc := jwt.NewUserClaims(upub)
	userTok, _ := uc.Encode(kr.by["account"].kp)

	c17SharedTags = append(make([]string, 0, 8), "Region-EU", "region-eu", " Tier-Gold ", "plain", "PLAIN")
	c17UserPub = upub
	// sequential baseline (results that do not depend on per-worker keys)
	norm := func(l []string) string { return strings.Join(l, "\n") }
	baseFresh := norm(c17Fresh(kr))
	tagsLent := strings.Join(c17SharedTags, "\x00")
	base := norm(c17Work(tokens, names, useed, userTok))
	c.sum.ImplChecks++
	if strings.Join(c17SharedTags, "\x00") != tagsLent {
		c.violation("C17: a library call wrote into a list the caller only handed it to read (workers that share the list then write to shared memory)",
			map[string]interface{}{"operation": "IssueUserJWT(..., tags...)", "list_before": strings.Split(tagsLent, "\x00"), "list_after": append([]string{}, c17SharedTags...)})
	}
	shared, sherr := jwt.DecodeAccountClaims(rtok)
	if sherr != nil || shared == nil {
		// (a token that decoded a moment ago: something the run so far did to objects of its own has reached shared state)
		c.violation("C17: after one sequential pass over objects of its own, a token the library encoded no longer decodes: "+fmt.Sprint(sherr),
			map[string]interface{}{"token": rtok, "error": fmt.Sprint(sherr)})
		c.sum.Rule = "aborted: shared state was modified during the sequential baseline"
		return
	}
	// a shared object as an application may hold it: built in memory, lists in no particular order
	for i := 9; i >= 0; i-- {
		shared.Exports.Add(&jwt.Export{Subject: jwt.Subject(fmt.Sprintf("zz.shared.%d", i)), Type: jwt.Stream})
		shared.Imports.Add(&jwt.Import{Subject: jwt.Subject(fmt.Sprintf("zz.imp.%d", i)), Account: kr.by["account"].pub, Type: jwt.Stream})
	}
	// limits spelled with the "no limit" value, as claims built by applications carry them
	shared.Limits.JetStreamLimits = jwt.JetStreamLimits{MemoryStorage: -1, DiskStorage: -1, Streams: -1, Consumer: -1,
		MaxAckPending: -1, MemoryMaxStreamBytes: -1, DiskMaxStreamBytes: -1}
	shared.Limits.JetStreamTieredLimits = nil
	sharedBefore := canonString(reflect.ValueOf(shared).Elem())
	sharedOp = jwt.NewOperatorClaims(kr.by["operator"].pub)
	sharedOp.SigningKeys = make(jwt.StringList, 0, 4)
	for i := 0; i < 3; i++ {
		sharedOp.SigningKeys = append(sharedOp.SigningKeys, newSigner("operator").pub)
	}
	sharedOp.Tags.Add("x", "y", "z")
	sharedHand = jwt.NewAccountClaims(kr.by["account"].pub)
	{
		k1, k2 := newSigner("account").pub, newSigner("account").pub
		sharedHand.SigningKeys[k1] = &jwt.UserScope{Key: k1, Role: "kind left at zero"}
		sharedHand.SigningKeys[k2] = &jwt.UserScope{Kind: jwt.UserScopeType, Role: "filed without a key of its own"}
		sharedHand.SigningKeys.Add(newSigner("account").pub)
	}
	handBefore := canonString(reflect.ValueOf(sharedHand).Elem())
	sharedGen = jwt.NewGenericClaims(kr.by["account"].pub)
	sharedGen.Data["nats"] = map[string]interface{}{"type": "wrapped_kind", "tags": []interface{}{"t"}, "version": float64(1)}
	sharedGen.Data["other"] = "entry"
	genBefore := fmt.Sprint(sharedGen.Data)
	sharedU, _ := jwt.DecodeUserClaims(userTok)
	sharedA, _ := jwt.DecodeActivationClaims(tokens["activation"])
	baseShared := norm(c17Shared(shared, sharedU, sharedA))

	workers, rounds := 16, 6
	if c.thorough() {
		workers, rounds = 32, 60
	}
	// accounts filled from one list the caller owns (Add(list...)): each account has its own list afterwards - adding
	// to one, or encoding one (which sorts in place), changes neither the caller's list nor another account's
	{
		mkE := func() []*jwt.Export {
			l := make([]*jwt.Export, 0, 8)
			for _, sub := range []string{"zz.tmpl", "mm.tmpl", "aa.tmpl"} {
				l = append(l, &jwt.Export{Subject: jwt.Subject(sub), Type: jwt.Stream})
			}
			return l
		}
		mkI := func() []*jwt.Import {
			l := make([]*jwt.Import, 0, 8)
			for _, sub := range []string{"zz.imp", "mm.imp", "aa.imp"} {
				l = append(l, &jwt.Import{Subject: jwt.Subject(sub), Account: kr.by["account"].pub, Type: jwt.Stream})
			}
			return l
		}
		subjE := func(l []*jwt.Export) string {
			var out []string
			for _, e := range l {
				if e == nil {
					out = append(out, "<nil>")
					continue
				}
				out = append(out, string(e.Subject))
			}
			return strings.Join(out, ",")
		}
		subjI := func(l []*jwt.Import) string {
			var out []string
			for _, e := range l {
				out = append(out, string(e.Subject))
			}
			return strings.Join(out, ",")
		}
		te, ti := mkE(), mkI()
		var acs []*jwt.AccountClaims
		for i := 0; i < workers; i++ {
			ac := jwt.NewAccountClaims(kr.by["account"].pub)
			ac.Exports.Add(te...)
			ac.Imports.Add(ti...)
			acs = append(acs, ac)
		}
		beforeT := subjE(te) + "|" + subjI(ti) + "|" + subjE(te[:cap(te)][:4]) + "|" + subjE(acs[1].Exports)
		acs[0].Exports.Add(&jwt.Export{Subject: "private.zero", Type: jwt.Stream})
		acs[0].Imports.Add(&jwt.Import{Subject: "private.imp", Account: kr.by["account"].pub, Type: jwt.Stream})
		acs[0].Encode(kr.by["operator"].kp)
		func() {
			defer func() { recover() }()
			afterT := subjE(te) + "|" + subjI(ti) + "|" + subjE(te[:cap(te)][:4]) + "|" + subjE(acs[1].Exports)
			c.sum.ImplChecks++
			if afterT != beforeT {
				c.violation("C17: adding to / encoding one account changed the list the caller filled it from, or another account's list (objects filled with Add(list...) share memory)",
					map[string]interface{}{"before": beforeT, "after": afterT})
			}
		}()
		// and all of them encoded at once (race detector)
		var wg sync.WaitGroup
		for i := 1; i < len(acs); i++ {
			wg.Add(1)
			go func(ac *jwt.AccountClaims, i int) {
				defer wg.Done()
				ac.Exports.Add(&jwt.Export{Subject: jwt.Subject(fmt.Sprintf("private.%d", i)), Type: jwt.Stream})
				ac.Encode(kr.by["operator"].kp)
			}(acs[i], i)
		}
		wg.Wait()
		for i := 1; i < len(acs); i++ {
			c.sum.ImplChecks++
			if n := len(acs[i].Exports); n != 4 || !strings.Contains(subjE(acs[i].Exports), fmt.Sprintf("private.%d", i)) {
				c.violation("C17: accounts filled from one caller-owned list and then used concurrently hold one another's entries",
					map[string]interface{}{"account": i, "exports": subjE(acs[i].Exports)})
			}
		}
		c.count("accounts_filled_from_one_list")
	}
	// time-zone names of this machine's database, handed out one by one: every name is looked up for the first time
	// during the concurrent phase (a name resolved before would hide a cache that is filled without synchronisation)
	var zoneNames []string
	filepath.Walk("/usr/share/zoneinfo", func(p string, info os.FileInfo, err error) error {
		if err != nil || info.IsDir() {
			return nil
		}
		rel := strings.TrimPrefix(p, "/usr/share/zoneinfo/")
		if strings.HasPrefix(rel, "posix/") || strings.HasPrefix(rel, "right/") || !strings.Contains(rel, "/") || strings.Contains(rel, ".") {
			return nil
		}
		zoneNames = append(zoneNames, rel)
		return nil
	})
	sort.Strings(zoneNames)
	var zoneNext int64
	zoneWork := func() string {
		var out []string
		for k := 0; k < 3 && len(zoneNames) > 0; k++ {
			z := zoneNames[int(atomic.AddInt64(&zoneNext, 1))%len(zoneNames)]
			if _, err := time.LoadLocation(z); err != nil {
				continue // not a zone this Go runtime can load
			}
			uc := jwt.NewUserClaims(kr.by["user"].pub)
			uc.Locale = z
			uc.Times = []jwt.TimeRange{{Start: "08:00:00", End: "17:00:00"}}
			vr := jwt.CreateValidationResults()
			uc.Validate(vr)
			if !vr.IsEmpty() {
				out = append(out, fmt.Sprintf("%s: %d issues", z, len(vr.Issues)))
			}
		}
		return strings.Join(out, "; ")
	}
	distinct := map[string]bool{}
	for _, procs := range []int{1, 2, 4, 16} {
		old := runtime.GOMAXPROCS(procs)
		for r := 0; r < rounds; r++ {
			var wg sync.WaitGroup
			res := make([]string, workers)
			resS := make([]string, workers)
			resF := make([]string, workers)
			resZ := make([]string, workers)
			start := make(chan struct{})
			for w := 0; w < workers; w++ {
				wg.Add(1)
				go func(w int) {
					defer wg.Done()
					<-start
					if z := zoneWork(); z != "" {
						resZ[w] = z
					}
					res[w] = norm(c17Work(tokens, names, useed, userTok))
					resS[w] = norm(c17Shared(shared, sharedU, sharedA))
					resF[w] = norm(c17Fresh(kr))
				}(w)
			}
			close(start)
			wg.Wait()
			for w := 0; w < workers; w++ {
				c.sum.Evaluations++
				c.sum.ImplChecks++
				if resZ[w] != "" {
					c.violation("C17: a user claim with a valid time zone validated concurrently raises issues", map[string]interface{}{"gomaxprocs": procs, "round": r, "worker": w, "issues": resZ[w]})
				}
				if res[w] != base {
					c.violation("C17: a concurrent run on the worker's own objects gives other results than the sequential run",
						map[string]interface{}{"gomaxprocs": procs, "round": r, "worker": w, "diff": firstDiff(base, res[w])})
				}
				if resF[w] != baseFresh {
					c.violation("C17: objects built by the library's constructors are not independent (a fresh object, or one whose own maps / lists were filled, looks different after other objects were used)",
						map[string]interface{}{"gomaxprocs": procs, "round": r, "worker": w, "diff": firstDiff(baseFresh, resF[w])})
				}
				if resS[w] != baseShared {
					c.violation("C17: read-only queries on a shared object give other results under concurrency",
						map[string]interface{}{"gomaxprocs": procs, "round": r, "worker": w, "diff": firstDiff(baseShared, resS[w])})
				}
			}
			distinct[fmt.Sprint(procs, r)] = true
			c.count(fmt.Sprintf("gomaxprocs_%d", procs))
		}
		runtime.GOMAXPROCS(old)
	}
	c.sum.ImplChecks++
	if after := canonString(reflect.ValueOf(shared).Elem()); after != sharedBefore {
		c.violation("C17: read-only queries changed the shared claims object", map[string]interface{}{"diff": firstDiff(sharedBefore, after)})
	}
	c.sum.ImplChecks++
	if after := fmt.Sprint(sharedGen.Data); after != genBefore {
		c.violation("C17: read-only queries (the claim type among them) changed the shared generic claims object", map[string]interface{}{"before": genBefore, "after": after})
	}
	c.sum.ImplChecks++
	if after := canonString(reflect.ValueOf(sharedHand).Elem()); after != handBefore {
		c.violation("C17: read-only queries (printing among them) changed the shared claims object whose scopes were built by hand", map[string]interface{}{"diff": firstDiff(handBefore, after)})
	}
	c.sample(map[string]interface{}{"worker_results_lines": len(strings.Split(base, "\n")), "first_lines": strings.Split(base, "\n")[:4], "shared_queries": strings.Split(baseShared, "\n")[:3]})
	c.sum.DistinctNontriv = len(distinct)
	c.sum.Rule = fmt.Sprintf("%d goroutines x %d rounds at GOMAXPROCS 1, 2, 4, 16, built with the race detector: every worker decodes the same token texts (all kinds, v1 and v2) into objects of its own and validates, prints, queries, mutates, re-encodes them and round-trips a credentials file through the package-level regular expression; every worker also builds fresh objects with every constructor, fills their maps and lists and compares fresh/filled/fresh-again dumps with the first sequential run; every worker also runs the read-only queries on one shared account / user / activation; results compared with a sequential run; a race report fails the check; non-trivial = distinct (GOMAXPROCS, round)", workers, rounds)
}
