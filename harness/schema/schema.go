// Package schema reads the JSON shape of Go types by reflection, the way
// encoding/json sees them (effective field list with embedding and dominance,
// omitempty, custom marshalers recognised and probed), and renders types,
// values and JSON trees as terms of the Coq model (Base/Codec.v, Base/Json.v).
package schema

import (
	"bytes"
	"encoding/json"
	"fmt"
	"io"
	"math/big"
	"reflect"
	"regexp"
	"sort"
	"strings"
	"unicode"
)

type Field struct {
	Name  string
	Omit  bool
	Index []int
	T     *Ty
}

type EnumEntry struct {
	Z    int64
	Name string
}

type Ty struct {
	Kind   string // bool int str list map ptr struct any enum sampling cidr keyset bad
	Lo, Hi *big.Int
	Elem   *Ty
	Fields []Field
	Table  []EnumEntry
	Why    string
	GoType reflect.Type
	// keyset
	Scope  *Ty
	Preset reflect.Value
	KeyIdx int
	// noticed while computing the effective field list: names with several
	// candidates resolved by depth/tag (Shadowed) or dropped as ambiguous (Dropped)
	Shadowed []string
	Dropped  []string
}

var marshalerT = reflect.TypeOf((*json.Marshaler)(nil)).Elem()
var unmarshalerT = reflect.TypeOf((*json.Unmarshaler)(nil)).Elem()

func hasCustom(t reflect.Type) (m, u bool) {
	pt := reflect.PtrTo(t)
	return t.Implements(marshalerT) || pt.Implements(marshalerT), t.Implements(unmarshalerT) || pt.Implements(unmarshalerT)
}

// Hooks supplied by the caller: how to make a preset scope (jwt.NewUserScope) etc.
type Options struct {
	// ScopePreset returns a pointer to a fresh preset scope value for key sets.
	ScopePreset func() interface{}
}

type Builder struct {
	opt   Options
	cache map[reflect.Type]*Ty
}

func NewBuilder(o Options) *Builder { return &Builder{opt: o, cache: map[reflect.Type]*Ty{}} }

func bigOf(i int64) *big.Int { return big.NewInt(i) }

func intRange(t reflect.Type) (*big.Int, *big.Int) {
	bits := t.Bits()
	switch t.Kind() {
	case reflect.Int, reflect.Int8, reflect.Int16, reflect.Int32, reflect.Int64:
		hi := new(big.Int).Lsh(big.NewInt(1), uint(bits-1))
		lo := new(big.Int).Neg(hi)
		return lo, hi.Sub(hi, big.NewInt(1))
	default:
		hi := new(big.Int).Lsh(big.NewInt(1), uint(bits))
		return big.NewInt(0), hi.Sub(hi, big.NewInt(1))
	}
}

func isIntKind(k reflect.Kind) bool {
	switch k {
	case reflect.Int, reflect.Int8, reflect.Int16, reflect.Int32, reflect.Int64,
		reflect.Uint, reflect.Uint8, reflect.Uint16, reflect.Uint32, reflect.Uint64, reflect.Uintptr:
		return true
	}
	return false
}

// probeEnum builds the integer <-> name table of an int type with custom (un)marshalers by calling them.
func probeEnum(t reflect.Type) ([]EnumEntry, bool) {
	var tbl []EnumEntry
	for z := int64(-1); z <= 16; z++ {
		p := reflect.New(t)
		if t.Kind() >= reflect.Uint && t.Kind() <= reflect.Uintptr {
			if z < 0 {
				continue
			}
			p.Elem().SetUint(uint64(z))
		} else {
			p.Elem().SetInt(z)
		}
		m, ok := p.Interface().(json.Marshaler)
		if !ok {
			return nil, false
		}
		b, err := m.MarshalJSON()
		if err != nil {
			continue
		}
		var s string
		if json.Unmarshal(b, &s) != nil {
			return nil, false // marshals to something that is not a string: not an enum
		}
		// the unmarshaler must invert it
		q := reflect.New(t)
		u, ok := q.Interface().(json.Unmarshaler)
		if !ok || u.UnmarshalJSON(b) != nil || !reflect.DeepEqual(q.Elem().Interface(), p.Elem().Interface()) {
			return nil, false
		}
		tbl = append(tbl, EnumEntry{z, s})
	}
	// names outside the table must be rejected
	q := reflect.New(t)
	if u, ok := q.Interface().(json.Unmarshaler); !ok || u.UnmarshalJSON([]byte(`"__no_such_name__"`)) == nil {
		return nil, false
	}
	return tbl, len(tbl) > 0
}

func probeSampling(t reflect.Type) bool {
	try := func(z int64) (string, bool) {
		p := reflect.New(t)
		p.Elem().SetInt(z)
		b, err := p.Interface().(json.Marshaler).MarshalJSON()
		return string(b), err == nil
	}
	if s, ok := try(0); !ok || s != `"headers"` {
		return false
	}
	for _, z := range []int64{1, 50, 100} {
		if s, ok := try(z); !ok || s != fmt.Sprint(z) {
			return false
		}
	}
	for _, z := range []int64{-1, 101, 1000} {
		if _, ok := try(z); ok {
			return false
		}
	}
	un := func(in string) (int64, bool) {
		p := reflect.New(t)
		err := p.Interface().(json.Unmarshaler).UnmarshalJSON([]byte(in))
		return p.Elem().Int(), err == nil
	}
	if z, ok := un(`"headers"`); !ok || z != 0 {
		return false
	}
	if z, ok := un(`"HEADERS"`); !ok || z != 0 {
		return false
	}
	if z, ok := un(`37`); !ok || z != 37 {
		return false
	}
	if z, ok := un(`1000`); !ok || z != 1000 {
		return false
	}
	if _, ok := un(`"x"`); ok {
		return false
	}
	return true
}

func (b *Builder) Of(t reflect.Type) *Ty {
	if ty, ok := b.cache[t]; ok {
		return ty
	}
	ty := &Ty{GoType: t}
	b.cache[t] = ty
	m, u := hasCustom(t)
	switch {
	case (m || u) && isIntKind(t.Kind()):
		if m && u {
			if tbl, ok := probeEnum(t); ok {
				ty.Kind, ty.Table = "enum", tbl
				return ty
			}
			if t.Kind() == reflect.Int && probeSampling(t) {
				ty.Kind = "sampling"
				return ty
			}
		}
		ty.Kind, ty.Why = "bad", "unrecognised custom integer codec "+t.String()
		return ty
	case u && !m && t.Kind() == reflect.Slice && t.Elem().Kind() == reflect.String:
		// array-or-comma-string list (CIDRList); behaviour compared by the correspondence runs
		ty.Kind = "cidr"
		return ty
	case m && u && t.Kind() == reflect.Map && t.Key().Kind() == reflect.String && t.Elem().Kind() == reflect.Interface && b.opt.ScopePreset != nil:
		pre := reflect.ValueOf(b.opt.ScopePreset())
		ty.Kind = "keyset"
		ty.Scope = b.Of(pre.Type().Elem())
		ty.Preset = pre.Elem()
		ty.KeyIdx = -1
		for i, f := range ty.Scope.Fields {
			if f.Name == "key" {
				ty.KeyIdx = i
			}
		}
		if ty.KeyIdx < 0 {
			ty.Kind, ty.Why = "bad", "key set scope without a key field"
		}
		return ty
	case m || u:
		ty.Kind, ty.Why = "bad", "unrecognised custom codec "+t.String()
		return ty
	}
	switch t.Kind() {
	case reflect.Bool:
		ty.Kind = "bool"
	case reflect.String:
		ty.Kind = "str"
	case reflect.Slice:
		ty.Kind = "list"
		ty.Elem = b.Of(t.Elem())
	case reflect.Map:
		if t.Key().Kind() != reflect.String {
			ty.Kind, ty.Why = "bad", "map with non-string key "+t.String()
			break
		}
		if km, _ := hasCustom(t.Key()); km || reflect.PtrTo(t.Key()).Implements(reflect.TypeOf((*interface{ MarshalText() ([]byte, error) })(nil)).Elem()) {
			ty.Kind, ty.Why = "bad", "map key with text marshaler "+t.String()
			break
		}
		ty.Kind = "map"
		ty.Elem = b.Of(t.Elem())
	case reflect.Ptr:
		ty.Kind = "ptr"
		ty.Elem = b.Of(t.Elem())
	case reflect.Interface:
		ty.Kind = "any"
	case reflect.Struct:
		ty.Kind = "struct"
		ty.Fields, ty.Shadowed, ty.Dropped = b.typeFields(t)
	default:
		if isIntKind(t.Kind()) {
			ty.Kind = "int"
			ty.Lo, ty.Hi = intRange(t)
		} else {
			ty.Kind, ty.Why = "bad", "unsupported kind "+t.Kind().String()+" "+t.String()
		}
	}
	return ty
}

// ---- encoding/json's effective field list (typeFields), ported ----

type rawField struct {
	name   string
	tagged bool
	omit   bool
	index  []int
	typ    reflect.Type
	quoted bool
}

func isValidTag(s string) bool {
	if s == "" {
		return false
	}
	for _, c := range s {
		switch {
		case strings.ContainsRune("!#$%&()*+-./:;<=>?@[]^_{|}~ ", c):
		case !unicode.IsLetter(c) && !unicode.IsDigit(c):
			return false
		}
	}
	return true
}

func (b *Builder) typeFields(t reflect.Type) ([]Field, []string, []string) {
	type todo struct {
		typ   reflect.Type
		index []int
	}
	current := []todo{}
	next := []todo{{typ: t}}
	var count, nextCount map[reflect.Type]int
	visited := map[reflect.Type]bool{}
	var fields []rawField
	for len(next) > 0 {
		current, next = next, current[:0]
		count, nextCount = nextCount, map[reflect.Type]int{}
		for _, f := range current {
			if visited[f.typ] {
				continue
			}
			visited[f.typ] = true
			for i := 0; i < f.typ.NumField(); i++ {
				sf := f.typ.Field(i)
				if sf.Anonymous {
					ft := sf.Type
					if ft.Kind() == reflect.Ptr {
						ft = ft.Elem()
					}
					if !sf.IsExported() && ft.Kind() != reflect.Struct {
						continue
					}
				} else if !sf.IsExported() {
					continue
				}
				tag := sf.Tag.Get("json")
				if tag == "-" {
					continue
				}
				name, opts, _ := strings.Cut(tag, ",")
				if !isValidTag(name) {
					name = ""
				}
				index := append(append([]int{}, f.index...), i)
				ft := sf.Type
				if ft.Name() == "" && ft.Kind() == reflect.Ptr {
					ft = ft.Elem()
				}
				quoted := false
				for _, o := range strings.Split(opts, ",") {
					if o == "string" {
						quoted = true
					}
				}
				omit := false
				for _, o := range strings.Split(opts, ",") {
					if o == "omitempty" {
						omit = true
					}
				}
				if name != "" || !sf.Anonymous || ft.Kind() != reflect.Struct {
					tagged := name != ""
					if name == "" {
						name = sf.Name
					}
					fields = append(fields, rawField{name: name, tagged: tagged, omit: omit, index: index, typ: sf.Type, quoted: quoted})
					if count[f.typ] > 1 {
						fields = append(fields, fields[len(fields)-1])
					}
					continue
				}
				nextCount[ft]++
				if nextCount[ft] == 1 {
					next = append(next, todo{typ: ft, index: index})
				}
			}
		}
	}
	sort.SliceStable(fields, func(i, j int) bool {
		x := fields
		if x[i].name != x[j].name {
			return x[i].name < x[j].name
		}
		if len(x[i].index) != len(x[j].index) {
			return len(x[i].index) < len(x[j].index)
		}
		if x[i].tagged != x[j].tagged {
			return x[i].tagged
		}
		return lessIndex(x[i].index, x[j].index)
	})
	var out []rawField
	var dominated, dropped []string
	for advance, i := 0, 0; i < len(fields); i += advance {
		fi := fields[i]
		name := fi.name
		for advance = 1; i+advance < len(fields); advance++ {
			if fields[i+advance].name != name {
				break
			}
		}
		if advance == 1 {
			out = append(out, fi)
			continue
		}
		group := fields[i : i+advance]
		if len(group) > 1 && len(group[0].index) == len(group[1].index) && group[0].tagged == group[1].tagged {
			dropped = append(dropped, fmt.Sprintf("%s.%s (%d candidates)", t.String(), name, advance))
			continue // ambiguous: dropped entirely
		}
		dominated = append(dominated, fmt.Sprintf("%s.%s (%d candidates)", t.String(), name, advance))
		out = append(out, group[0])
	}
	sort.Slice(out, func(i, j int) bool { return lessIndex(out[i].index, out[j].index) })
	res := make([]Field, len(out))
	for i, f := range out {
		ft := b.Of(f.typ)
		if f.quoted {
			ft = &Ty{Kind: "bad", Why: "json string option on " + t.String() + "." + f.name}
		}
		res[i] = Field{Name: f.name, Omit: f.omit, Index: f.index, T: ft}
	}
	return res, dominated, dropped
}

func lessIndex(a, b []int) bool {
	for k := range a {
		if k >= len(b) {
			return false
		}
		if a[k] != b[k] {
			return a[k] < b[k]
		}
	}
	return len(a) < len(b)
}

// ---- Coq rendering ----

func CoqStr(s string) string {
	for i := 0; i < len(s); i++ {
		if s[i] < 32 && s[i] != '\n' && s[i] != '\t' || s[i] >= 127 {
			var sb strings.Builder
			sb.WriteString("(bs [")
			for j := 0; j < len(s); j++ {
				if j > 0 {
					sb.WriteString(";")
				}
				fmt.Fprintf(&sb, "%d", s[j])
			}
			sb.WriteString("]%nat)")
			return sb.String()
		}
	}
	return "\"" + strings.ReplaceAll(s, "\"", "\"\"") + "\""
}

func coqZ(z *big.Int) string {
	if z.Sign() < 0 {
		return "(" + z.String() + ")"
	}
	return z.String()
}

func CoqZ64(z int64) string {
	if z < 0 {
		return fmt.Sprintf("(%d)", z)
	}
	return fmt.Sprint(z)
}

// named definitions: every struct type gets its own Definition so terms stay small
type Emitter struct {
	b     *Builder
	names map[*Ty]string
	order []*Ty
	used  map[string]bool
	// Prefix distinguishes the definitions of several emitters in one file
	Prefix string
}

func NewEmitter(b *Builder) *Emitter {
	return &Emitter{b: b, names: map[*Ty]string{}, used: map[string]bool{}}
}

var nonIdent = regexp.MustCompile(`[^A-Za-z0-9_]`)

func (e *Emitter) nameFor(t *Ty, prefix string) string {
	if n, ok := e.names[t]; ok {
		return n
	}
	base := "ty" + e.Prefix + "_" + prefix + nonIdent.ReplaceAllString(t.GoType.String(), "_")
	n := base
	for i := 2; e.used[n]; i++ {
		n = fmt.Sprintf("%s_%d", base, i)
	}
	e.used[n] = true
	e.names[t] = n
	return n
}

// Ref returns a Coq term for the type, registering struct definitions as needed.
func (e *Emitter) Ref(t *Ty) string {
	switch t.Kind {
	case "bool":
		return "TBool"
	case "int":
		return fmt.Sprintf("(TInt %s %s)", coqZ(t.Lo), coqZ(t.Hi))
	case "str":
		return "TStr"
	case "list":
		return "(TList " + e.Ref(t.Elem) + ")"
	case "map":
		return "(TMap " + e.Ref(t.Elem) + ")"
	case "ptr":
		return "(TPtr " + e.Ref(t.Elem) + ")"
	case "any":
		return "TAny"
	case "enum":
		it := make([]string, len(t.Table))
		for i, x := range t.Table {
			it[i] = fmt.Sprintf("(%s, %s)", CoqZ64(x.Z), CoqStr(x.Name))
		}
		return "(TEnum [" + strings.Join(it, "; ") + "])"
	case "sampling":
		return "TSampling"
	case "cidr":
		return "TCidr"
	case "keyset":
		return fmt.Sprintf("(TKeySet %s %s %d)", e.Ref(t.Scope), e.Val(t.Scope, t.Preset), t.KeyIdx)
	case "struct":
		if _, ok := e.names[t]; !ok {
			e.nameFor(t, "")
			// dependencies first
			for _, f := range t.Fields {
				e.Ref(f.T)
			}
			e.order = append(e.order, t)
		}
		return e.names[t]
	}
	return "(TBad " + CoqStr(t.Why) + ")"
}

// Definitions renders all struct definitions registered so far, dependencies first.
func (e *Emitter) Definitions() string {
	var sb strings.Builder
	for _, t := range e.order {
		fmt.Fprintf(&sb, "(* %s *)\nDefinition %s : ty := TStruct [\n", t.GoType.String(), e.names[t])
		for i, f := range t.Fields {
			sep := ";"
			if i == len(t.Fields)-1 {
				sep = ""
			}
			fmt.Fprintf(&sb, "  (%s, %v, %s)%s\n", CoqStr(f.Name), f.Omit, e.Ref(f.T), sep)
		}
		sb.WriteString("].\n\n")
	}
	return sb.String()
}

func (e *Emitter) AllShadowed() []string {
	var out []string
	for _, t := range e.order {
		out = append(out, t.Shadowed...)
	}
	return out
}

func (e *Emitter) AllDropped() []string {
	var out []string
	for _, t := range e.order {
		out = append(out, t.Dropped...)
	}
	return out
}

// ---- value rendering ----

func (e *Emitter) Val(t *Ty, v reflect.Value) string {
	switch t.Kind {
	case "bool":
		return fmt.Sprintf("(VBool %v)", v.Bool())
	case "int", "enum", "sampling":
		if v.Kind() >= reflect.Uint && v.Kind() <= reflect.Uintptr {
			return fmt.Sprintf("(VInt %d)", v.Uint())
		}
		return "(VInt " + CoqZ64(v.Int()) + ")"
	case "str":
		return "(VStr " + CoqStr(v.String()) + ")"
	case "list", "cidr":
		if v.IsNil() {
			return "(VList None)"
		}
		it := make([]string, v.Len())
		for i := range it {
			if t.Kind == "cidr" {
				it[i] = "(VStr " + CoqStr(v.Index(i).String()) + ")"
			} else {
				it[i] = e.Val(t.Elem, v.Index(i))
			}
		}
		return "(VList (Some [" + strings.Join(it, "; ") + "]))"
	case "map":
		if v.IsNil() {
			return "(VMap None)"
		}
		keys := v.MapKeys()
		sort.Slice(keys, func(i, j int) bool { return keys[i].String() < keys[j].String() })
		it := make([]string, len(keys))
		for i, k := range keys {
			it[i] = "(" + CoqStr(k.String()) + ", " + e.Val(t.Elem, v.MapIndex(k)) + ")"
		}
		return "(VMap (Some [" + strings.Join(it, "; ") + "]))"
	case "ptr":
		if v.IsNil() {
			return "(VPtr None)"
		}
		return "(VPtr (Some " + e.Val(t.Elem, v.Elem()) + "))"
	case "struct":
		it := make([]string, len(t.Fields))
		for i, f := range t.Fields {
			fv, ok := fieldByIndex(v, f.Index)
			if !ok {
				it[i] = e.zeroVal(f.T)
			} else {
				it[i] = e.Val(f.T, fv)
			}
		}
		return "(VStruct [" + strings.Join(it, "; ") + "])"
	case "any":
		if v.Kind() == reflect.Interface && v.IsNil() {
			return "(VAny None)"
		}
		raw, err := json.Marshal(v.Interface())
		if err != nil {
			return "(VAny (Some (JStr \"<unmarshalable>\")))"
		}
		return "(VAny (Some " + JSONTerm(raw) + "))"
	case "keyset":
		if v.IsNil() {
			return "(VMap None)"
		}
		keys := v.MapKeys()
		sort.Slice(keys, func(i, j int) bool { return keys[i].String() < keys[j].String() })
		it := make([]string, len(keys))
		for i, k := range keys {
			sv := v.MapIndex(k)
			if sv.IsNil() {
				it[i] = "(" + CoqStr(k.String()) + ", VPtr None)"
				continue
			}
			x := sv.Elem()
			if x.Kind() == reflect.Ptr {
				x = x.Elem()
			}
			it[i] = "(" + CoqStr(k.String()) + ", VPtr (Some " + e.Val(t.Scope, x) + "))"
		}
		return "(VMap (Some [" + strings.Join(it, "; ") + "]))"
	}
	return "(VAny None)"
}

func (e *Emitter) zeroVal(t *Ty) string { return e.Val(t, reflect.Zero(t.GoType)) }

func fieldByIndex(v reflect.Value, index []int) (reflect.Value, bool) {
	for _, i := range index {
		if v.Kind() == reflect.Ptr {
			if v.IsNil() {
				return reflect.Value{}, false
			}
			v = v.Elem()
		}
		v = v.Field(i)
	}
	return v, true
}

// ---- JSON text -> Coq json term, members in textual order ----

var intLit = regexp.MustCompile(`^-?(0|[1-9][0-9]*)$`)

func JSONTerm(raw []byte) string {
	d := json.NewDecoder(bytes.NewReader(raw))
	d.UseNumber()
	s, err := jsonValue(d)
	if err != nil {
		return "(JStr \"<bad json>\")"
	}
	return s
}

func jsonValue(d *json.Decoder) (string, error) {
	tok, err := d.Token()
	if err != nil {
		return "", err
	}
	switch x := tok.(type) {
	case json.Delim:
		switch x {
		case '[':
			var it []string
			for d.More() {
				s, err := jsonValue(d)
				if err != nil {
					return "", err
				}
				it = append(it, s)
			}
			if _, err := d.Token(); err != nil {
				return "", err
			}
			return "(JArr [" + strings.Join(it, "; ") + "])", nil
		case '{':
			var it []string
			for d.More() {
				k, err := d.Token()
				if err != nil {
					return "", err
				}
				s, err := jsonValue(d)
				if err != nil {
					return "", err
				}
				it = append(it, "("+CoqStr(k.(string))+", "+s+")")
			}
			if _, err := d.Token(); err != nil {
				return "", err
			}
			return "(JObj [" + strings.Join(it, "; ") + "])", nil
		}
		return "", io.ErrUnexpectedEOF
	case bool:
		return fmt.Sprintf("(JBool %v)", x), nil
	case nil:
		return "JNull", nil
	case json.Number:
		if intLit.MatchString(string(x)) {
			z, _ := new(big.Int).SetString(string(x), 10)
			return "(JInt " + coqZ(z) + ")", nil
		}
		return "(JNum " + CoqStr(string(x)) + ")", nil
	case string:
		return "(JStr " + CoqStr(x) + ")", nil
	}
	return "", io.ErrUnexpectedEOF
}
