#!/bin/sh
# setup_cmd: build the Coq development and the Go tools from files on disk only (offline).
set -e
cd "$(dirname "$0")"
export GOFLAGS=-mod=mod GOPROXY=off GOSUMDB=off GOTOOLCHAIN=local
mkdir -p work/bin evidence
python3 - <<'PY'
import check
log = open(check.os.path.join(check.WORK, "setup.log"), "w")
notes = check.regen(log)
check.ensure_makefile()
print("regen notes:", notes)
PY
(cd coq && timeout 3000 make -f Makefile.coq -j16 >../work/setup-coq.log 2>&1) || { tail -30 work/setup-coq.log; exit 1; }
(cd harness && go build -tags verif -o ../work/bin/harness .)
echo "setup ok"
