#!/bin/sh
# setup_cmd: build the Coq development and the Go tools from files on disk only (offline).
set -e
cd "$(dirname "$0")"
export GOFLAGS=-mod=mod GOPROXY=off GOSUMDB=off GOTOOLCHAIN=local
mkdir -p work/bin evidence
python3 - <<'PY'
import check
log = open(check.os.path.join(check.WORK, "setup.log"), "w")
notes = check.regen(log)
check.ensure_makefile()
print("regen notes:", notes)
PY
(cd coq && timeout 3000 make -k -f Makefile.coq -j16 >../work/setup-coq.log 2>&1) || { echo "some Coq files did not build (the per-property checks report which):"; grep -B2 -A6 "^Error" work/setup-coq.log | head -40; }
(cd harness && go build -tags verif -o ../work/bin/harness .)
echo "setup ok"
