"""Per-property configuration for check.py / gen_manifest.py and the narrow matchers of known findings."""

NOTE_COMMON = ("Trusted: Coq kernel + vm_compute; the hand-written Gallina model is tied to the Go code by the "
               "correspondence run (every case evaluated by both); Go runtime/stdlib/nkeys modelled, not verified. ")

PROPS = {
    "C16": {
        "level_text": "Theorems (Properties/C16.v, closed under the global context): for all valid subjects of any length over an infinite token alphabet, IsContainedIn answers true iff every literal matched by the first is matched by the second, and HasWildCards iff the subject matches more than one literal. Tie: the model mirrors the Go loop; all 25,600 ordered pairs of the bounded domain plus random long/malformed pairs are run on v2 and v1compat and evaluated by the model inside Coq, and against an independent semantic oracle.",
        "level_note": NOTE_COMMON + "Semantics quantifies over valid subjects (no empty token, '>' only last); malformed subjects are compared model-vs-code only.",
        "assumptions": ["token alphabet of the semantics: all non-empty dot-free strings; subjects valid (no empty token, '>' only last)"],
    },
    "C09": {
        "level_text": "Theorems (Properties/C09.v): for every revoke/clear/compact history from any starting map and every map iteration order, stored times equal the three-rule 'surviving time' specification, IsRevoked follows the answer rule, revoke never lowers, clear frames, compaction preserves all answers and returns exactly the covered entries, fail-closed guards. Tie: all histories up to length 4 (5 thorough) over {a,b,*}x{1,2,3} on AccountClaims and Export plus random histories with encode/decode steps, each evaluated by the model in Coq.",
        "level_note": NOTE_COMMON + "A Go map is an association list with distinct keys; time.Time is its Unix second.",
        "assumptions": ["a Go map is an association list with distinct keys, order = iteration order (theorems quantify over it)"],
    },
    "C20": {
        "level_text": "Theorems (Properties/C20.v): for every add/remove history and any idempotent normaliser, the visible slice (backing array + length model, in-place deletion and append into spare capacity) equals the insertion-ordered-set specification, with NoDup / normalised / non-empty invariants, Contains = membership of the normalised probe; the comma-string and array JSON forms of a source-network list agree on lower-case trimmed distinct entries. Tie: exhaustive histories over a 7-string alphabet (TagList to length 4, StringList to 3) plus random per-step-observed histories and both CIDR forms, evaluated by the model in Coq.",
        "level_note": NOTE_COMMON + "ASCII case folding and white space only; non-ASCII tags are outside the model.",
        "assumptions": ["ASCII case folding / white space only (non-ASCII is outside the model)"],
    },
}

NOT_APPLICABLE = {}

# finding id -> predicate on a violation record (dict with 'what' and 'input')
KNOWN_MATCHERS = {}
