import re
"""Per-property configuration for check.py / gen_manifest.py and the narrow matchers of known findings."""

NOTE_COMMON = ("Trusted: Coq kernel + vm_compute; the hand-written Gallina model is tied to the Go code by the "
               "correspondence run (every case evaluated by both); Go runtime/stdlib/nkeys modelled, not verified. ")

PROPS = {
    "C16": {
        "level_text": "Theorems (Properties/C16.v, closed under the global context): for all valid subjects of any length over an infinite token alphabet, IsContainedIn answers true iff every literal matched by the first is matched by the second, and HasWildCards iff the subject matches more than one literal. Tie: the model mirrors the Go loop; all 25,600 ordered pairs of the bounded domain plus random long/malformed pairs are run on v2 and v1compat and evaluated by the model inside Coq, and against an independent semantic oracle.",
        "level_note": NOTE_COMMON + "Semantics quantifies over valid subjects (no empty token, '>' only last); malformed subjects are compared model-vs-code only.",
        "assumptions": ["token alphabet of the semantics: all non-empty dot-free strings; subjects valid (no empty token, '>' only last)"],
    },
    "C09": {
        "level_text": "Theorems (Properties/C09.v): for every revoke/clear/compact history from any starting map and every map iteration order, stored times equal the three-rule 'surviving time' specification, IsRevoked follows the answer rule, revoke never lowers, clear frames, compaction preserves all answers and returns exactly the covered entries, fail-closed guards. Tie: all histories up to length 4 (5 thorough) over {a,b,*}x{1,2,3} on AccountClaims and Export plus random histories with encode/decode steps, each evaluated by the model in Coq.",
        "level_note": NOTE_COMMON + "A Go map is an association list with distinct keys; time.Time is its Unix second.",
        "assumptions": ["a Go map is an association list with distinct keys, order = iteration order (theorems quantify over it)"],
    },
    "C20": {
        "level_text": "Theorems (Properties/C20.v): for every add/remove history and any idempotent normaliser, the visible slice (backing array + length model, in-place deletion and append into spare capacity) equals the insertion-ordered-set specification, with NoDup / normalised / non-empty invariants, Contains = membership of the normalised probe; the comma-string and array JSON forms of a source-network list agree on lower-case trimmed distinct entries. Tie: exhaustive histories over a 7-string alphabet (TagList to length 4, StringList to 3) plus random per-step-observed histories and both CIDR forms, evaluated by the model in Coq.",
        "level_note": NOTE_COMMON + "ASCII case folding and white space only; non-ASCII tags are outside the model.",
        "assumptions": ["ASCII case folding / white space only (non-ASCII is outside the model)"],
    },
}

PROPS["C08"] = {
    "level_text": "Theorems (Properties/C08.v): AccountClaims.DidSign is exactly the statement's rule for every claim and key set; OperatorClaims.DidSign is exactly the rule outside one corner (strict usage, issuer = identity key, foreign subject, identity key also listed as signing key), where the full statement is refuted by a witness (known finding K3) and the code's answer (no) is proved; nil claim -> no. Tie: the complete cross product of the quantifier with real keys and claims objects, before and after encode/decode, evaluated by the model in Coq and against the statement's rule.",
    "level_note": NOTE_COMMON + "Claims are projected to (kind, issuer, subject, issuer account); signing keys to their key list.",
    "assumptions": ["claims enter DidSign only through kind, issuer, subject and issuer account"],
}

PROPS["C18"] = {
    "level_text": "Theorems (Properties/C18.v): for every valid granted subject the cleaned part is the token prefix before the first wildcard ('_' for a leading wildcard, the subject itself without wildcards); the id is H(issuer.subject.cleaned) for every H, so it depends on nothing else; for dot-free issuer and subject the hashed text determines the triple (different triples => different pre-images); refused iff one of the three is empty. Tie: activations of every shape through v1 encode/HashID, v2 migration/HashID and v2 re-encode/HashID, all compared with the model in Coq (hash facts from the harness's own SHA-256/base32) and with each other.",
    "level_note": NOTE_COMMON + "SHA-256 and base32 are an uninterpreted function H; 'differs' is proved on the hash pre-image (collision resistance assumed). v1 and v2 HashID are the same code and share one model, each compared with it.",
    "assumptions": ["SHA-256 collision resistance for the 'differs' clause"],
}

DEC_NOTE = NOTE_COMMON + ("base64, JSON parsing, Ed25519 verification and key-role tests are Section variables (theorems hold for all of them); "
    "in the correspondence run they are instantiated per token by facts the harness computes with the standard library, its own nkey decoder and crypto/ed25519. "
    "That no second valid signature exists without the key is EUF-CMA of Ed25519 (assumed). ")
PROPS["C01"] = {
    "level_text": "Theorems (Properties/C01.v, for every token string and all base64/JSON/Ed25519 functions): the Go slice expression is header-dot-payload; Decode, each typed decoder and DecodeGeneric accept only if the third segment verifies, under the issuer the returned claims report (= the payload's), over exactly the text of the layout the token declares (typed kinds: payload version; generic: header algorithm); a signature not valid for the declared layout is refused whatever else it verifies; decoded content is a function of the payload segment. Tie: valid tokens of all kinds from both encoders, single-character edits of every segment, splices, foreign-key and wrong-layout signatures, random strings, through all 8 decoders, compared with the model in Coq and with independently computed Ed25519 verdicts.",
    "level_note": DEC_NOTE,
    "assumptions": ["EUF-CMA of Ed25519 turns 'carries a valid signature' into 'alterations are rejected'"],
}
PROPS["C02"] = {
    "level_text": "Theorems (Properties/C02.v): the ExpectedPrefixes tables read from the code on every run equal the statement's role matrix (finite check on the generated table); accepted => issuer role allowed for the kind returned; typed decoders return only their own kind; the kind returned is the kind declared; Encode's gate succeeds only for an allowed signer role and fitting subject role and refuses otherwise. Tie: the complete matrix kind x issuer role x subject role x layout x placement of forged, correctly signed tokens through all decoders, and the Encode matrix, evaluated by the model in Coq.",
    "level_note": DEC_NOTE,
    "assumptions": [],
}
PROPS["C05"] = {
    "extra_property_files": ["C03_pipeline"],
    "level_text": "Theorems (Properties/C05.v): Header.Valid holds iff type upper-cases to JWT and the algorithm lower-cases to one of the two names (so 'none', empty, prefixes and extensions are refused); accepted => exactly three segments each base64-decodable, valid header, declared version <= 2 (library version read from the code), operator/account/user/activation only versions 1 and 2, never cluster/server; same segment/header gate for DecodeGeneric. Tie: the full grid header type x algorithm x version x kind x placement x layout (20k correctly signed tokens) plus segment/padding variants and the envelope of real Encode output. The Encode-envelope half is checked on real tokens; its theorem (base64url model) is in Properties/C05_encode.v when present.",
    "level_note": DEC_NOTE,
    "assumptions": ["ASCII case mapping (non-ASCII header strings are outside the model)"],
}

PROPS["C03"] = {
    "extra_property_files": ["C03_pipeline"],
    "level_text": "Theorems (Properties/C03.v): a META-THEOREM proved once for every schema and value - marshal then unmarshal into a compatible preset gives the value back up to nil=empty - instantiated on the schemas GENERATED from the code's struct tags by reflection on every run (well-formedness re-established by vm_compute: distinct JSON names, known custom codecs, no ambiguously dropped field); per-kind corollary through the version-2 loaders (presets, JetStream clearing) with the two recorded findings K1/K2 as visible guards and a refutation witness. Tie: random claims of all 7 kinds generated by reflection (all optional sections, int64 extremes, nil vs empty, special/non-ASCII strings, scopes by pointer and by value): real Encode/Decode/typed decoder/re-encode compared field by field (400 per kind) and the model's enc tree / dec value compared with the real payload tree and decoded object in Coq (40 per kind).",
    "level_note": NOTE_COMMON + "encoding/json's text layer (escaping, number syntax, key case folding beyond ASCII, duplicate keys) is outside the model; free-form generic data is restricted to float64-exact integers.",
    "assumptions": ["JSON text layer: parse(print(tree)) = tree", "generic data numbers are float64-exact"],
}
PROPS["C04"] = {
    "level_text": "Theorems (Properties/C04.v): (1) FROM THE V1 ENCODER TO THE V2 CLAIMS - the schema of each v1compat claims type (writer) and of the shadow struct the v2 decoder reads it with (reader), both generated from the code, satisfy a decidable reader/writer relation (members found by exact JSON name, Go's case-folding fallback cannot pick another, equal or structurally related member types, an integer read as a sampling rate, a comma string read as a network list); a general cross-decode theorem (any such reader, writer and preset): decoding what the writer encoded succeeds and agrees with the written value member by member, element by element, a member the writer lacks or omitted as empty keeps the preset; hence for EVERY v1 claims value of the four migratable kinds the v2 loader accepts the payload, and every field of the expected mapping table (written from the statement) holds in the v2 claims either the preset (-1 for the legacy limits the v1 types cannot express, or an omitted empty member) or a value agreeing with the v1 field; and AT TOKEN LEVEL the text the v1 encoder writes (v1 header, that payload, signature over the payload segment, concrete base64url) is accepted by the v2 decoder model whose JSON steps are the codec on the generated schemas: kind = the v1 top-level type, version 1, signature checked over the payload segment under the payload's issuer, claims = migration of the agreeing shadow value. (2) on the shadow value: every listed field is copied to its v2 place, version 1 reported, signing-key list -> key set, result well typed (so C03 applies to re-encoding), absent member keeps preset, unknown members ignored. Tie: random v1compat claims of the five kinds encoded by the real v1 encoder, decoded by v2 Decode and DecodeGeneric, compared with an independently written expected mapping (400 per kind), re-encoded; the v1 enc tree and shadow-decode+migrate compared with the model in Coq (40 per kind).",
    "level_note": NOTE_COMMON + "Source-network strings are kept ASCII (Unicode white space / case folding outside the model). At leaves of equal type the agreement is up to nil = empty (canon), as in C03. Generic v1 claims go through the generic loader (C03) and DecodeGeneric's re-homing (model decode_generic_val), tied by the correspondence run.",
    "assumptions": ["JSON text layer: parse(print(tree)) = tree"],
}

PROPS["C04"]["extra_property_files"] = list(PROPS["C04"].get("extra_property_files", [])) + ["C04_k5"]
PROPS["C04"]["level_text"] += " Recorded finding K5 (Properties/C04_k5.v, a refutation witness): a version-1 generic token whose data holds a non-integer \"version\" is refused by the version-2 decoder's kind/version probe."

PROPS["C17"] = {
    "race": True,
    "level_text": "PARTIAL. Theorems (Properties/C17.v): for any number of threads, any programs and EVERY schedule, if no operation writes the shared store then each thread gets exactly the results and final object of running alone and the store is unchanged; steps of different threads never conflict. The hypothesis is discharged on the inventory GENERATED from the code by go/ssa on every run: no package variable of the two packages - and no package variable of any OTHER package (standard library, nkeys) - is stored to or through outside initialisation, its value reaches only regexp methods documented concurrency-safe, and the public read-only queries do not store through receiver or arguments. What the model cannot exhibit (races inside the Go runtime, the standard library and nkeys; writes invisible to SSA such as unsafe/reflection) is only exercised: N goroutines on own objects decoded from the same token text and read-only queries on shared objects under the race detector at GOMAXPROCS 1/2/4/16, results compared with a sequential run.",
    "level_note": "Trusted: Coq kernel + vm_compute; the go/ssa-based translator tools/globalsgen; the Go race detector and memory model; regexp.Regexp / encoding/json / crypto being safe for concurrent use as documented. A new written package variable breaks the generated obligation; a race or a differing result is a concrete failing schedule.",
    "assumptions": ["standard library and nkeys are safe for concurrent use as documented", "SSA summary sees all stores (no unsafe / reflection / cgo writes)"],
    "technique": "Coq theorem over all schedules + obligation on a go/ssa-generated inventory; race-detector runs as search support",
}

PROPS["C12"] = {
    "level_text": "Theorems (Properties/C12.v, for every hash and printer function): after the stamping of Encode the issuer is the given key, the issue time the given second, kind and version 2 are set, the id is H(print(marshal(standard fields with empty id))); the id is a function of aud/exp/name/nbf/sub (plus issuer and second) only - equal for claims that differ in previous id, kind or payload; the marshalled standard fields determine them (so different fields => different hash pre-image); every other field (by JSON path, read off the generated schema) is unchanged; account imports/exports are a sorted permutation; a failed gate returns no token. Tie: random claims of all kinds with arbitrary pre-existing stamps, before/after Encode (first and repeated), id recomputed with the harness's own SHA-512/256, decoded token; stamping compared with the model in Coq.",
    "level_note": NOTE_COMMON + "SHA-512/256+base32 and the JSON printer are uninterpreted functions; 'changing a field changes the id' is proved on the pre-image (collision resistance assumed). The clock second is observed by bracketing.",
    "assumptions": ["SHA-512/256 collision resistance for 'changing any of them changes the id'"],
}
PROPS["C13"] = {
    "level_text": "Theorems (Properties/C13.v): for every schema and value, marshalling is invariant under reordering of every map's entries (enc t (norm_maps v) = enc t v; values with the same sorted representative marshal to the same tree; every permutation of a key-distinct entry list has the same representative) - signing keys included, whose keys the serialiser sorts explicitly; the token is a function of that tree, the printer and the (deterministic) signature function. Tie: equal content built through random insertion permutations of signing keys, revocations, tiers, mappings, export revocations and generic data, encoded repeatedly with the same key: all tokens sharing a decoded issue time are byte-identical; payload trees compared with the model in Coq.",
    "level_note": NOTE_COMMON + "The Go runtime's randomised map iteration is sampled; the theorem covers all orders. Ed25519 signatures are deterministic (a function in the model).",
    "assumptions": ["Ed25519 signing is deterministic"],
}
PROPS["C14"] = {
    "level_text": "Theorems (Properties/C14.v): the signing-key set type generated from the code round-trips through marshal/unmarshal for any mix of plain and scoped keys with key, role, description and full template intact (instance of the codec meta-theorem; guard K2 visible); a scope accepts a claim iff it is a user claim issued by the scope's key whose permissions and limits are exactly the zero value; IssueUserJWT's gate holds iff account id / user key / signing key have the right roles, and the claims it encodes carry the given subject, issuer account, name (subject when empty), tags, expiry 0 or the whole second of now+d, and empty permissions. Tie: random key sets (pointer/value scopes, int64 extremes) through real Encode/Decode, user claims with each field set / empty-but-present / absent through ValidateScopedSigner, the full role cube through IssueUserJWT; all compared with the model in Coq.",
    "level_note": NOTE_COMMON,
    "assumptions": ["expiry arithmetic within the int64 range"],
}
PROPS["C19"] = {
    "level_text": "Theorems (Properties/C19.v): the v1 role tables generated from the code equal the v1 matrix (incl. cluster/server); the v1 header test holds iff type lower-cases to jwt and the algorithm to ed25519 (the version-2 name is refused); accepted => the signature verifies under the payload's issuer over the payload segment, issuer role permitted, header valid; a signature that does not verify is refused; Encode's gate implies permitted signer and subject roles; the codec meta-theorem instantiated on the seven v1compat schemas generated by reflection (all fields preserved); AT TOKEN LEVEL, for every claims value of the seven v1 kinds the text the v1 encoder writes (v1 header, marshalled payload, signature over the payload segment, concrete base64url) is accepted by the v1 decoder model whose JSON steps are the codec on the generated schemas, under the payload's issuer, and reads back the encoded claims. Tie: random v1 claims of all 7 kinds through v1 Encode/Decode (300 per kind), single-character edits, v2-algorithm headers, forged wrong-role issuers through all 7 decoders with independent Ed25519 verdicts, Encode matrix; compared with the model in Coq.",
    "level_note": DEC_NOTE,
    "assumptions": ["EUF-CMA of Ed25519"],
}
PROPS["C11"] = {
    "level_text": "PARTIAL. Theorems (Properties/C11.v): every place where the library indexes a slice or string, dereferences a list entry, or stores into a map that decoding may have left nil (IsContainedIn, Subject/RenamingSubject.Validate, Export token position, cleanSubject, Exports/Imports.Validate, the wildcard loop, Less in Encode's sort, HasExportContainingSubject, DecodeGeneric re-homing, AddMapping, RevokeAt/ClearRevocation, DecorateSeed, ParseDecorated*, DidSign/IsClaimRevoked on nil claims) is modelled with partial primitives and proved never to reach a Panic for any input. Not in the model (named): panics inside encoding/json, base64, regexp, sort, fmt, net/url, time, nkeys; stack exhaustion; out-of-memory - these are exercised only. Tie: every single-node structural mutation of rich payloads of each kind (plus double mutations), correctly signed in both layouts, through every decoder and ~25 public operations under recover(); arbitrary byte strings into every parser; the modelled sites on the same inputs in Coq.",
    "level_note": NOTE_COMMON + "The site inventory is hand-made from the code (a new unguarded dereference elsewhere is caught only by the mutation stream).",
    "assumptions": ["standard library and nkeys do not panic on hostile input"],
    "technique": "Coq theorems over partial-primitive models of the index/deref/nil-map sites + exhaustive single-node payload mutation under recover()",
}

PROPS["C15"] = {
    "level_text": "Theorems (Properties/C15.v): the expression generated from the code lies in the modelled fragment and the v1 copy is identical; for EVERY non-empty token and user seed over [A-Za-z0-9_-.=], LF or CRLF line endings and any leading white space, the formatted credentials parse back to exactly the token and the second dashed block is exactly the trimmed seed (also through the user-only parser); decorating a token of any kind and parsing gives the token back; a token without line feed parses to itself; formatting is refused for non-user kinds and non-SU seeds; the user-only parser refuses operator and account seeds. The matcher (Base/Regex.v) is proved sound and complete for a declarative reading of the fragment. Tie: user tokens of varying length with fresh seeds through FormatUserConfig and all three parsers on six renderings (key pair compared by seed and public key), DecorateJWT of every kind, seeds of five roles, and adversarial texts through the REAL regexp versus the model matcher in Coq.",
    "level_note": NOTE_COMMON + "Go's regexp engine is modelled by the backtracking matcher (leftmost-first); the expression itself is translated from regexp/syntax on every run. That the parsed key pair equals the original is nkeys.FromSeed on the same seed text (fact, checked by the harness).",
    "assumptions": ["Go regexp = leftmost-first backtracking semantics on this fragment", "byte-level classes (the expression's classes are ASCII)"],
}

VAL_NOTE = NOTE_COMMON + ("Key-role tests, url.Parse, net.ParseCIDR, time.Parse, time.LoadLocation and the decoding of embedded activation tokens are Section variables "
    "(theorems hold for all of them); in the correspondence run they are fact tables computed by the harness. strconv.Atoi is modelled concretely. ")
PROPS["C06"] = {
    "level_text": "Theorems (Properties/C06.v, catalogue in Model/Catalogue.v = DESIGN.md 5.6): for each kind, IsBlocking(false) after Validate EQUALS 'some catalogued rule fires', for every claims value and every judgement of the external functions - so each violation is flagged wherever it sits and whatever else the claims contain, and claims on which no rule fires are never flagged (mapping weights summed in Z). Tie: clean claims from a constructive generator and one injected violation per catalogued rule (64 rules, random element/position/magnitude), IsBlocking(false) observed and compared with the model in Coq and with the injection oracle.",
    "level_note": VAL_NOTE,
    "assumptions": ["claims enter validation through the typed views of Model/Validate.v (fields Validate does not read are not represented)"],
}
PROPS["C07"] = {
    "level_text": "Theorems (Properties/C07.v): for each of the 7 kinds the number of TimeCheck issues is exactly [0 < exp < now] + [0 < nbf and now < nbf] over all of Z (zero/negative = unset), whatever else the claims contain; IsBlocking(true) = IsBlocking(false) or a time issue exists; time issues alone never block. Tie: 7 kinds x the 9x9 (exp, nbf) grid incl. int64 extremes plus random pairs on clean claims, outside a 2-second band, compared with the model in Coq.",
    "level_note": VAL_NOTE + "The clock is read once per Validate; the harness brackets it to one second.",
    "assumptions": ["now = the Unix second observed around the call"],
}
PROPS["C10"] = {
    "level_text": "Theorems (Properties/C10.v): the token part of Import.Validate is non-blocking iff the token decodes as an activation and issuer-or-issuer-account = exporter, subject = containing account, kinds equal, activation valid, and the imported subject (or 'to' for services) is contained in the granted one (containment = NATS semantics by C16); it never contributes a time-check issue; the same at import and account level for an import at any position. Tie: all 2^5 satisfy/violate patterns x signer kinds x v1/v2 token layout, directly and inside a clean account, compared with the model in Coq.",
    "level_note": VAL_NOTE + "'Authentic and decodable' is DecodeActivationClaims, whose gate is C01/C02/C05.",
    "assumptions": [],
}

# the source translator's part of the tie: per property, the extra property file whose theorems state that the
# Go functions translated on this run (coq/Gen/Src*.v, by tools/globalsgen srcgen.go) equal the model's functions
SOURCE_TIE = {
    "C01": ("C01_source", "jwt.Decode with loadClaims and parseHeaders (accepts exactly what the model's decode accepts, same kind and issuer), jwt.DecodeGeneric (accepts exactly what the model's decode_generic accepts - the layout the header's algorithm names, verified by the translated ClaimsData.verify - and hands back the payload with the version-1 kind and tags re-homed in the version-1 layout only), ClaimsData.verify, identifier.Version; the two authorization loaders (accepted claims report the version that was dispatched on and are what was unmarshalled); the unknown functions they consult pinned by name"),
    "C04": (["C04_source", "C01_source"], "the four version-1 migrations v1OperatorClaims / v1AccountClaims / v1UserClaims / v1ActivationClaims .migrateV1 (Properties/C04_source.v: which field of the version-2 claims receives what, in order, and that nothing else is written - the opaque type instantiated by the log of the stores); jwt.DecodeGeneric's re-homing (Properties/C01_source.v, C01_source_decode_generic: in the version-1 layout, and only there, a data map is made if the payload had none and the top-level kind and tags are stored into it when there are any; nothing else of the unmarshalled payload is touched)"),
    "C02": (["C02_source", "C02_source_encode", "C02_source_prefixes"], "ExpectedPrefixes() of the seven kinds (a fresh list of constants, equal to the generated role table); the six typed decoders (each against the model's decode_typed), identifier.Kind; on the Encode side ClaimsData.doEncode's role rule and every kind's Encode (refusing whenever the model's encode_gate refuses)"),
    "C05": (["C05_source", "C05_source_encode", "C05_source_codec", "C01_source"], "loadOperator / loadAccount / loadUser / loadActivation (any version but 1 and 2 refused before the payload is looked at, whatever json.Unmarshal and Migrate are; what is done for versions 1 and 2, in order; the functions consulted pinned); jwt.DecodeGeneric (three segments, valid header, no other gate: Properties/C01_source.v); decodeString / encodeToString / serialize of both packages (the unpadded base64url codec and json.Marshal, nothing around them) and the updateVersion of the six typed kinds; Header.Valid, parseHeaders, loadClaims; on the Encode side ClaimsData.doEncode (version-2 algorithm only, three segments, signature over header-dot-claims)"),
    "C06": (["C06_source", "C06_source_imports", "C06_source_exports", "C06_source_limits", "C06_source_account", "C07_source_results"], "RenamingSubject.Validate (an import's local subject against the subject it renames: the model's v_renaming, whole tokens counted); AccountClaims.Validate and Account.Validate themselves (the whole walk: imports, exports, limits, default permissions, mappings, external authorization, trace, the import / export / wildcard limits, signing keys with UserScope.Validate, Info.Validate with url.Parse as an oracle, OperatorLimits.IsEmpty; the one store Validate makes - a trace sampling of zero becomes 100 - returned as an effect log) against the model's v_account_claims; OperatorClaims.Validate and Operator.Validate with validateAccountServerURL, ValidateOperatorServiceURL, validateOperatorServiceURLs and ParseServerVersion against v_operator_claims; Subject.countTokenWildcards, Subject.Validate, ServiceLatency.Validate, Export.Validate (with the Export kind / response-type predicates); Imports.Validate (the walk over the import list with its set of delivery subjects, every pair compared both ways) against the model's v_imports; Exports.Validate with its overlap scan isContainedIn (one blocking issue per distinct containing subject) against the model's v_exports / v_overlaps; OperatorLimits.Validate (tiers versus flat JetStream limits, blank tier names) against v_op_limits; and the validation results themselves (Properties/C07_source_results.v)"),
    "C07": (["C07_source", "C06_source_account", "C07_source_results"], "AccountClaims.Validate / Account.Validate and OperatorClaims.Validate / Operator.Validate (append exactly the model's v_account_claims / v_operator_claims, whose time-check issues C07_time_account / C07_time_operator count: the time issues of an account are those of its own standard fields, an embedded activation token adds none, and nothing is skipped when the claims are expired); the validation results themselves - CreateValidationResults, Add, AddError, AddWarning, AddTimeCheck, IsBlocking, IsEmpty, Errors, Warnings of both packages (a results object is its list of issues: nothing dropped, capped, replaced or shared) - and ClaimsData.Validate (v2 and v1compat), the time checks every kind delegates to"),
    "C08": ("C08_source", "OperatorClaims.DidSign and AccountClaims.DidSign; SigningKeys.Contains / Keys / GetScope (membership among the keys of the set whatever is filed under them), and with it the account's DidSign asked through the translated Contains"),
    "C09": ("C09_source", "RevocationList.Revoke / ClearRevocation / IsRevoked / allRevoked / MaybeCompact (v2 and v1compat), AccountClaims.IsClaimRevoked / isRevoked, Export.IsClaimRevoked / isRevoked, and the wrappers that store - AccountClaims / Export RevokeAt, Revoke, ClearRevocation (the revocation map a data field of the receiver carried as a variable: RevokeAt makes the map if it is nil and revokes at exactly the time handed in, Revoke at what time.Now() reads)"),
    "C13": ("C13_source", "ClaimsData.hash (v2 and v1compat): the token id is the digest of the marshalled claims data and of nothing else - it fails exactly when json.Marshal of the claims data fails, otherwise it is the unpadded base32 text of what a fresh hash object, written that text once, sums to (for every reading of the hash object's methods), and the unknown functions it consults are pinned by name (json.Marshal, sha512.New512_256, the unpadded base32 encoder); with serialize = json.Marshal (C05_source_codec) and doEncode's order of steps (C12_source) the code side of 'equal content, equal token'"),
    "C12": (["C12_source", "C13_source"], "ClaimsData.hash (the id is a function of the marshalled claims data alone, Properties/C13_source.v); ClaimsData.doEncode (what a successful Encode did, in order, with an effect log; completeness; the empty token on failure), ClaimsData.encode and the Encode of all seven kinds, each proved to return what the model's encode returns under the full gate, with the same claims object afterwards"),
    "C10": (["C10_source", "C10_source_import"], "Subject.IsContainedIn / HasWildCards (v2 and v1compat); Import.Validate with Import.IsService / IsStream / GetTo and ActivationClaims.validateWithTimeChecks (appends exactly the model's v_import, whose token part v_import_token the C10 theorems are about)"),
    "C14": ("C14_source", "IssueUserJWT (the two role tests first and in order, nothing asked of the signer, the claims handed to Encode built by exactly these stores in this order - scoped, expiry only for a non-zero duration, issuer account, name or else the user key, subject, tags - whatever the stores and Encode are); UserScope.ValidateScopedSigner and UserClaims.HasEmptyPermissions (a scope accepts a claim exactly when the model's validate_scoped_signer does; reflect.DeepEqual an unknown function, instantiated by has_empty_permissions)"),
    "C16": ("C16_source", "Subject.IsContainedIn / HasWildCards and Exports.HasExportContainingSubject (v2 and v1compat; the query is true exactly when some non-nil entry's subject contains the one asked for); RenamingSubject.ToSubject (a token reads as * exactly when it is a dollar sign followed by an integer)"),
    "C18": ("C18_source", "ActivationClaims.HashID itself and cleanSubject (v2 and v1compat; the hash object an opaque value - sha256.New, Write and Sum unknown functions - so HashID is the model's hash_id for every hash function: refused when a part is missing, else base32 of the digest of exactly issuer.subject.cleaned)"),
    "C19": ("C19_source", "the v1compat Decode(token, target) with parseHeaders and parseClaims (accepts exactly what the model's v1_decode accepts, for every target kind) and the v1compat DecodeGeneric (that Decode into generic claims of its own and nothing before or after it)"),
    "C20": ("C20_source", "TagList / StringList Contains, Add, Remove; CIDRList Contains, Add, Remove (the tag list's, through a pointer conversion) and Set (the model's cidr_set: the list emptied, the lower-cased text split on commas added); CIDRList.UnmarshalJSON (array taken as it is, text through Set, anything else an error: the model's cidr_unmarshal)"),
}
for _pid, (_pf, _fns) in SOURCE_TIE.items():
    _pfl = _pf if isinstance(_pf, list) else [_pf]
    PROPS[_pid]["extra_property_files"] = list(PROPS[_pid].get("extra_property_files", [])) + _pfl
    _pf = ".v, Properties/".join(_pfl)
    PROPS[_pid]["level_text"] += (" SOURCE TIE (Properties/%s.v): %s is TRANSLATED from the Go source of the working tree on every run "
        "(go/ast + go/types -> Gallina, coq/Gen/Src*.v) and proved equal, for all arguments, to the model function the theorems above are about; "
        "a change to that function changes the translation and the equality must be re-proved." % (_pf, _fns))

NOT_APPLICABLE = {}

# finding id -> predicate on a violation record (dict with 'what' and 'input')
def _k3(v):
    i = v.get("input") or {}
    return (i.get("entity") == "operator" and i.get("strict") is True and i.get("iss_is_id") is True
            and i.get("sub_is_id") is False and i.get("id_in_keys") is True and i.get("impl") is False and i.get("spec") is True)


def _known_tag(tag):
    def f(v):
        return re.match(r"C\d\d known:", str(v.get("what", ""))) is not None and tag in ((v.get("input") or {}).get("known") or [])
    return f


KNOWN_MATCHERS = {"K3": _k3, "K1": _known_tag("K1"), "K2": _known_tag("K2"), "K4": _known_tag("K4"), "K5": _known_tag("K5")}
