(* Model/Validate.v — every Validate method of the version-2 library
   (v2/account_claims.go, exports.go, imports.go, types.go, user_claims.go,
   operator_claims.go, activation_claims.go, authorization_claims.go,
   signingkeys.go, claims.go, validation.go), mirrored statement by statement
   as functions returning the list of issues appended.  Judgements of the
   standard library and of nkeys (key roles, URL parsing, CIDR, clock times,
   time zones, decoding of an embedded activation token) are Section variables. *)
From JWT Require Export Base.Strings Model.Kinds Model.Subject.
Open Scope string_scope.
Open Scope Z_scope.

Inductive issue := Blocking | Warning | TimeCheck.
Definition issue_blocks (incl_time : bool) (i : issue) : bool :=
  match i with Blocking => true | TimeCheck => incl_time | Warning => false end.
(* ValidationResults.IsBlocking(includeTimeChecks) *)
Definition is_blocking (incl_time : bool) (l : list issue) : bool := existsb (issue_blocks incl_time) l.
Definition time_issues (l : list issue) : nat :=
  List.length (filter (fun i => match i with TimeCheck => true | _ => false end) l).

Definition when (b : bool) (i : issue) : list issue := if b then [i] else [].

(* ---------- typed views of the claims ---------- *)
Record claims_data := { cd_aud : string; cd_exp : Z; cd_iat : Z; cd_iss : string; cd_name : string; cd_nbf : Z; cd_sub : string }.

Record latency := { lat_sampling : Z; lat_results : string }.
Record export := {
  ex_subject : string; ex_type : Z; ex_response_type : string; ex_threshold : Z;
  ex_latency : option latency; ex_atp : Z; ex_allow_trace : bool; ex_desc : string; ex_url : string }.
Record import := {
  im_subject : string; im_account : string; im_token : string; im_to : string; im_local : string;
  im_type : Z; im_share : bool; im_allow_trace : bool }.
Record permission := { p_allow : list string; p_deny : list string }.
Record permissions := { perm_pub : permission; perm_sub : permission }.
Record time_range := { tr_start : string; tr_end : string }.
Record user_limits := { ul_src : list string; ul_times : list time_range; ul_locale : string }.
Record wmapping := { wm_subject : string; wm_weight : Z }.
Record js_limits := { js_ints : list Z; js_flag : bool }.     (* the seven int64 limits, MaxBytesRequired *)
Record op_limits := {
  ol_nats : list Z;                    (* subs, data, payload *)
  ol_imports : Z; ol_exports : Z; ol_wildcards : bool; ol_disallow_bearer : bool; ol_conn : Z; ol_leaf : Z;
  ol_js : js_limits; ol_tiers : list (string * js_limits) }.
Record ext_auth := { ea_users : list string; ea_accounts : list string; ea_xkey : string }.
Record trace := { tr_dest : string; tr_sampling : Z }.
Record account := {
  ac_imports : list (option import); ac_exports : list (option export); ac_limits : op_limits;
  ac_signing_keys : list (string * option string);       (* map key -> None (plain) | Some scope.Key *)
  ac_default_perms : permissions; ac_mappings : list (string * list wmapping);
  ac_auth : ext_auth; ac_trace : option trace; ac_desc : string; ac_url : string }.
Record operator := {
  op_signing_keys : list string; op_account_server_url : string; op_service_urls : list string;
  op_system_account : string; op_assert_version : string }.
Record user := { us_perms : permissions; us_limits : user_limits; us_issuer_account : string }.
Record activation := { at_subject : string; at_type : Z; at_issuer_account : string }.
Record auth_response := { ar_jwt : string; ar_error : string; ar_issuer_account : string }.

(* what url.Parse tells about a string *)
Record url_view := { u_err : bool; u_scheme : string; u_host_empty : bool; u_user : bool; u_path : string }.
(* the activation an import's token decodes to *)
Record act_view := { av_cd : claims_data; av_act : activation }.

(* strconv.Atoi on the decimal forms that matter: optional sign, digits, int64 range *)
Definition is_digit (c : ascii) : bool := let n := nat_of_ascii c in (Nat.leb 48 n) && (Nat.leb n 57).
Fixpoint digits_val (s : string) (acc : Z) : option Z :=
  match s with
  | EmptyString => Some acc
  | String c r => if is_digit c then digits_val r (acc * 10 + Z.of_nat (nat_of_ascii c - 48)) else None
  end.
Definition atoi (s : string) : option Z :=
  let body (neg : bool) (r : string) : option Z :=
    match r with
    | EmptyString => None
    | _ => match digits_val r 0 with
           | Some z => let z' := if neg then - z else z in
                       if (-9223372036854775808 <=? z') && (z' <=? 9223372036854775807) then Some z' else None
           | None => None
           end
    end in
  match s with
  | String "+"%char r => body false r
  | String "-"%char r => body true r
  | _ => body false s
  end.

Definition space : ascii := " "%char.
Definition count_wild_tokens (s : string) : Z :=
  if (s =? "*")%string then 1
  else Z.of_nat (List.length (filter (fun t => (t =? "*")%string) (split dot s))).
Definition str_first (s : string) : option ascii := match s with String c _ => Some c | _ => None end.
Definition str_last (s : string) : option ascii := str_first (srev s).
Definition is_dot (o : option ascii) : bool := match o with Some c => Ascii.eqb c dot | None => false end.
Definition str_tail (s : string) : string := match s with String _ r => r | _ => "" end.

Section Validate.
  Variable now : Z.
  Variable role_of : string -> role.
  Variable url_of : string -> url_view.
  Variable cidr_ok : string -> bool.
  Variable hhmmss_ok : string -> bool.
  Variable tz_ok : string -> bool.
  Variable act_of : string -> option act_view.       (* DecodeActivationClaims(token): None = error *)

  Definition is_role (r : role) (k : string) : bool := role_eqb (role_of k) r.

  (* ClaimsData.Validate *)
  Definition v_claims_data (c : claims_data) : list issue :=
    when ((0 <? cd_exp c) && (cd_exp c <? now)) TimeCheck ++
    when ((0 <? cd_nbf c) && (now <? cd_nbf c)) TimeCheck.

  (* Subject.Validate *)
  Definition v_subject (s : string) : list issue :=
    if (s =? "")%string then [Blocking]
    else when (contains " " s) Blocking ++
         when (is_dot (str_first s) || is_dot (str_last s)) Blocking ++
         when (contains ".." s) Blocking.

  (* Info.Validate *)
  Definition v_info (desc url : string) : list issue :=
    when (8192 <? Z.of_nat (String.length desc)) Blocking ++
    (if (url =? "")%string then []
     else when (8192 <? Z.of_nat (String.length url)) Blocking ++
          (let u := url_of url in
           when (u_err u || u_host_empty u || (u_scheme u =? "")%string) Blocking)).

  Definition is_service (t : Z) : bool := t =? 2.
  Definition is_stream (t : Z) : bool := t =? 1.

  (* ServiceLatency.Validate *)
  Definition v_latency (l : latency) : list issue :=
    when (negb (lat_sampling l =? 0) && ((lat_sampling l <? 1) || (100 <? lat_sampling l))) Blocking ++
    v_subject (lat_results l) ++
    when (has_wildcards (lat_results l)) Blocking.

  (* Export.Validate *)
  Definition v_export (oe : option export) : list issue :=
    match oe with
    | None => [Blocking]
    | Some e =>
        let svc := is_service (ex_type e) in
        let str := is_stream (ex_type e) in
        let rt := ex_response_type e in
        when (negb svc && negb str) Blocking ++
        when (svc && negb ((rt =? "Singleton")%string || (rt =? "")%string)
                  && negb (rt =? "Chunked")%string && negb (rt =? "Stream")%string) Blocking ++
        (if str then when (negb (rt =? "")%string) Blocking ++ when (ex_allow_trace e) Blocking else []) ++
        match ex_latency e with
        | Some l => when (negb svc) Blocking ++ v_latency l
        | None => []
        end ++
        when (ex_threshold e <? 0) Blocking ++
        when ((0 <? ex_threshold e) && negb svc) Blocking ++
        v_subject (ex_subject e) ++
        (if 0 <? ex_atp e then
           if negb (has_wildcards (ex_subject e)) then [Blocking]
           else let toks := split dot (ex_subject e) in
                if Z.of_nat (List.length toks) <? ex_atp e then [Blocking]
                else when (negb (nth (Z.to_nat (ex_atp e - 1)) toks "" =? "*")%string) Blocking
         else []) ++
        v_info (ex_desc e) (ex_url e)
    end.

  (* isContainedIn(kind, subjects, vr): one issue per distinct subject that contains another one *)
  Fixpoint dedup (l : list string) : list string :=
    match l with
    | [] => []
    | x :: r => if existsb (fun y => (y =? x)%string) r then dedup r else x :: dedup r
    end.
  Definition indexed {A} (l : list A) : list (nat * A) := combine (seq 0 (List.length l)) l.
  Definition containers (subjects : list string) : list string :=
    let ix := indexed subjects in
    dedup (map snd (filter (fun js => existsb (fun ins => negb (Nat.eqb (fst ins) (fst js))
                                                          && is_contained_in (snd ins) (snd js)) ix) ix)).
  Definition v_overlaps (subjects : list string) : list issue := map (fun _ => Blocking) (containers subjects).

  (* Exports.Validate *)
  Definition v_exports (l : list (option export)) : list issue :=
    flat_map v_export l ++
    v_overlaps (flat_map (fun oe => match oe with
                                    | Some e => if is_service (ex_type e) then [ex_subject e] else []
                                    | None => [] end) l) ++
    v_overlaps (flat_map (fun oe => match oe with
                                    | Some e => if is_service (ex_type e) then [] else [ex_subject e]
                                    | None => [] end) l).

  (* RenamingSubject.Validate(from) *)
  Definition ends_gt (s : string) : bool := (s =? ">")%string || has_suffix ".>" s.
  Definition ref_token (tk : string) : option Z :=      (* $N with N parsable *)
    if Nat.ltb (String.length tk) 2 then None
    else match tk with String "$"%char r => atoi r | _ => None end.
  Fixpoint v_refs (toks : list string) (from_cnt ref_cnt : Z) : list issue * Z :=
    match toks with
    | [] => ([], ref_cnt)
    | tk :: r =>
        let ref_cnt := if (tk =? "*")%string then ref_cnt + 1 else ref_cnt in
        match ref_token tk with
        | Some idx =>
            if from_cnt <? idx
            then let '(is, c) := v_refs r from_cnt ref_cnt in (Blocking :: is, c)
            else v_refs r from_cnt (ref_cnt + 1)
        | None => v_refs r from_cnt ref_cnt
        end
    end.
  Definition v_renaming (v from : string) : list issue :=
    v_subject v ++
    when (from =? "")%string Blocking ++
    when (contains " " v) Blocking ++
    when (negb (Bool.eqb (ends_gt v) (ends_gt from))) Blocking ++
    (let from_cnt := count_wild_tokens from in
     let '(is, ref_cnt) := v_refs (split dot v) from_cnt 0 in
     is ++ when (negb (ref_cnt =? from_cnt)) Blocking).

  (* RenamingSubject.ToSubject *)
  Definition to_subject (s : string) : string :=
    if negb (contains "$" s) then s
    else join dot (map (fun tk => match ref_token tk with Some _ => "*" | None => tk end) (split dot s)).

  (* Activation.Validate + issuer account, i.e. validateWithTimeChecks without the time part *)
  Definition v_activation (a : activation) : list issue :=
    when (negb (is_service (at_type a)) && negb (is_stream (at_type a))) Blocking ++
    v_subject (at_subject a) ++
    when (negb (at_issuer_account a =? "")%string && negb (is_role RAccount (at_issuer_account a))) Blocking.

  (* the part of Import.Validate that deals with the embedded activation token *)
  Definition v_import_token (act_pub : string) (i : import) : list issue :=
    if (im_token i =? "")%string then []
    else match act_of (im_token i) with
         | None => [Blocking]
         | Some av =>
             let cd := av_cd av in let a := av_act av in
             when (negb ((cd_iss cd =? im_account i)%string || (at_issuer_account a =? im_account i)%string)) Blocking ++
             when (negb (cd_sub cd =? act_pub)%string) Blocking ++
             when (negb (at_type a =? im_type i)) Blocking ++
             v_activation a ++
             (let subj := if is_service (im_type i) && negb (im_to i =? "")%string then im_to i else im_subject i in
              when (negb (is_contained_in subj (at_subject a))) Blocking)
         end.

  (* Import.Validate(actPubKey) *)
  Definition v_import (act_pub : string) (oi : option import) : list issue :=
    match oi with
    | None => [Blocking]
    | Some i =>
        let svc := is_service (im_type i) in
        when (negb svc && negb (is_stream (im_type i))) Blocking ++
        when (svc && im_allow_trace i) Blocking ++
        when (im_account i =? "")%string Blocking ++
        when (negb (im_to i =? "")%string) Warning ++
        v_subject (im_subject i) ++
        (if negb (im_local i =? "")%string
         then v_renaming (im_local i) (im_subject i) ++ when (negb (im_to i =? "")%string) Blocking
         else []) ++
        when (im_share i && negb svc) Blocking ++
        v_import_token act_pub i
    end.

  (* Imports.Validate(acctPubKey) *)
  Definition service_key (i : import) : string :=
    if negb (im_to i =? "")%string then im_to i
    else let l := to_subject (im_local i) in
         if negb (l =? "")%string then l else im_subject i.
  Fixpoint v_imports_loop (act_pub : string) (l : list (option import)) (to_set : list string) : list issue :=
    match l with
    | [] => []
    | None :: r => Blocking :: v_imports_loop act_pub r to_set
    | Some i :: r =>
        if is_service (im_type i) then
          let sub := service_key i in
          flat_map (fun k => when (is_contained_in sub k || is_contained_in k sub) Blocking) to_set ++
          when (existsb (fun k => (k =? sub)%string) to_set) Blocking ++
          v_import act_pub (Some i) ++
          v_imports_loop act_pub r (if existsb (fun k => (k =? sub)%string) to_set then to_set else to_set ++ [sub])
        else v_import act_pub (Some i) ++ v_imports_loop act_pub r to_set
    end.
  Definition v_imports (act_pub : string) (l : list (option import)) : list issue := v_imports_loop act_pub l [].

  (* OperatorLimits *)
  Definition js_zero (j : js_limits) : bool := forallb (fun z => z =? 0) (js_ints j) && negb (js_flag j).
  Definition limits_empty (o : op_limits) : bool :=
    forallb (fun z => z =? 0) (ol_nats o) &&
    (ol_imports o =? 0) && (ol_exports o =? 0) && negb (ol_wildcards o) && negb (ol_disallow_bearer o) &&
    (ol_conn o =? 0) && (ol_leaf o =? 0) && js_zero (ol_js o) && is_nil (ol_tiers o).
  Definition v_op_limits (o : op_limits) : list issue :=
    if is_nil (ol_tiers o) then []
    else when (negb (js_zero (ol_js o))) Blocking ++
         when (existsb (fun t => (fst t =? "")%string) (ol_tiers o)) Blocking.

  (* checkPermission / Permission.Validate / Permissions.Validate *)
  Definition v_check_permission (subj : string) (permit_queue : bool) : list issue :=
    match split space subj with
    | [a] => v_subject a
    | [a; b] => v_subject a ++ v_subject b ++ when (negb permit_queue) Blocking
    | _ => [Blocking]
    end.
  Definition v_permission (p : permission) (permit_queue : bool) : list issue :=
    flat_map (fun s => v_check_permission s permit_queue) (p_allow p) ++
    flat_map (fun s => v_check_permission s permit_queue) (p_deny p).
  Definition v_permissions (p : permissions) : list issue :=
    v_permission (perm_sub p) true ++ v_permission (perm_pub p) false.

  (* Mapping.Validate (weights summed without wrapping) *)
  Definition eff_weight (w : wmapping) : Z := if wm_weight w =? 0 then 100 else wm_weight w.
  Definition v_mappings (m : list (string * list wmapping)) : list issue :=
    flat_map (fun e : string * list wmapping =>
                (v_subject (fst e) ++
                 flat_map (fun w => v_subject (wm_subject w)) (snd e) ++
                 when (100 <? fold_left (fun acc w => acc + eff_weight w) (snd e) 0) Blocking)%list) m.

  (* ExternalAuthorization.Validate *)
  Definition v_ext_auth (a : ext_auth) : list issue :=
    when (negb (is_nil (ea_accounts a)) && is_nil (ea_users a)) Blocking ++
    flat_map (fun u => when (negb (is_role RUser u)) Blocking) (ea_users a) ++
    flat_map (fun x =>
                if (x =? "*")%string then when (Nat.ltb 1 (List.length (ea_accounts a))) Blocking
                else when (negb (is_role RAccount x)) Blocking) (ea_accounts a) ++
    when (negb (ea_xkey a =? "")%string && negb (is_role RCurve (ea_xkey a))) Blocking.

  (* SigningKeys.Validate *)
  Definition v_signing_keys (l : list (string * option string)) : list issue :=
    flat_map (fun e => match snd e with
                       | Some scope_key => when (negb (is_role RAccount scope_key)) Blocking
                       | None => when (negb (is_role RAccount (fst e))) Blocking
                       end) l.

  (* Account.Validate *)
  Definition v_account (act_pub : string) (a : account) : list issue :=
    v_imports act_pub (ac_imports a) ++
    v_exports (ac_exports a) ++
    v_op_limits (ac_limits a) ++
    v_permissions (ac_default_perms a) ++
    v_mappings (ac_mappings a) ++
    v_ext_auth (ac_auth a) ++
    match ac_trace a with
    | Some t =>
        when (negb (is_nil (v_subject (tr_dest t)))) Blocking ++
        when (has_wildcards (tr_dest t)) Blocking ++
        when ((tr_sampling t <? 0) || (100 <? tr_sampling t)) Blocking
    | None => []
    end ++
    (let n_imports := Z.of_nat (List.length (ac_imports a)) in
     let n_exports := Z.of_nat (List.length (ac_exports a)) in
     let lim := ac_limits a in
     when (negb (limits_empty lim) && (0 <=? ol_imports lim) && (ol_imports lim <? n_imports)) Blocking ++
     when (negb (ol_imports lim =? -1) && (ol_imports lim <? n_imports)) Blocking ++
     (if negb (ol_exports lim =? -1)
      then when (ol_exports lim <? n_exports) Blocking ++
           (if negb (ol_wildcards lim)
            then flat_map (fun oe => match oe with
                                     | Some e => when (has_wildcards (ex_subject e)) Blocking
                                     | None => []
                                     end) (ac_exports a)
            else [])
      else [])) ++
    v_signing_keys (ac_signing_keys a) ++
    v_info (ac_desc a) (ac_url a).

  (* AccountClaims.Validate *)
  Definition v_account_claims (cd : claims_data) (a : account) : list issue :=
    v_claims_data cd ++ v_account (cd_sub cd) a ++
    when (is_role RAccount (cd_iss cd) && negb (limits_empty (ac_limits a))) Warning.

  (* ParseServerVersion *)
  Definition version_ok (s : string) : bool :=
    if (s =? "")%string then true
    else match split dot s with
         | [a; b; c] => match atoi a, atoi b, atoi c with
                        | Some x, Some y, Some z => (0 <=? x) && (0 <=? y) && (0 <=? z)
                        | _, _, _ => false
                        end
         | _ => false
         end.

  (* ValidateOperatorServiceURL *)
  Definition service_url_ok (v : string) : bool :=
    if (v =? "")%string then true
    else let u := url_of v in
         if u_err u then false
         else if u_user u then false
         else if negb (u_path u =? "")%string then false
         else let s := to_lower (u_scheme u) in
              (s =? "nats")%string || (s =? "tls")%string || (s =? "ws")%string || (s =? "wss")%string.

  (* OperatorClaims.Validate *)
  Definition v_operator_claims (cd : claims_data) (o : operator) : list issue :=
    v_claims_data cd ++
    when (negb (op_account_server_url o =? "")%string &&
          (u_err (url_of (op_account_server_url o)) || (u_scheme (url_of (op_account_server_url o)) =? "")%string)) Blocking ++
    flat_map (fun v => when (negb (service_url_ok v)) Blocking) (op_service_urls o) ++
    flat_map (fun k => when (negb (is_role ROperator k)) Blocking) (op_signing_keys o) ++
    when (negb (op_system_account o =? "")%string && negb (is_role RAccount (op_system_account o))) Blocking ++
    when (negb (version_ok (op_assert_version o))) Blocking.

  (* TimeRange.Validate, Limits.Validate, User.Validate, UserClaims.Validate *)
  Definition v_time_range (t : time_range) : list issue :=
    (if (tr_start t =? "")%string then [Blocking] else when (negb (hhmmss_ok (tr_start t))) Blocking) ++
    (if (tr_end t =? "")%string then [Blocking] else when (negb (hhmmss_ok (tr_end t))) Blocking).
  Definition v_user_limits (l : user_limits) : list issue :=
    flat_map (fun c => when (negb (cidr_ok c)) Blocking) (ul_src l) ++
    flat_map v_time_range (ul_times l) ++
    when (negb (ul_locale l =? "")%string && negb (tz_ok (ul_locale l))) Blocking.
  Definition v_user_claims (cd : claims_data) (u : user) : list issue :=
    v_claims_data cd ++ v_permissions (us_perms u) ++ v_user_limits (us_limits u) ++
    when (negb (us_issuer_account u =? "")%string && negb (is_role RAccount (us_issuer_account u))) Blocking.

  (* ActivationClaims.Validate = validateWithTimeChecks(vr, true) *)
  Definition v_activation_claims (time_checks : bool) (cd : claims_data) (a : activation) : list issue :=
    (if time_checks then v_claims_data cd else []) ++ v_activation a.

  (* AuthorizationRequestClaims.Validate / AuthorizationResponseClaims.Validate / GenericClaims.Validate *)
  Definition v_auth_request (cd : claims_data) (user_nkey : string) : list issue :=
    (if (user_nkey =? "")%string then [Blocking] else when (negb (is_role RUser user_nkey)) Blocking) ++
    v_claims_data cd.
  Definition v_auth_response (cd : claims_data) (r : auth_response) : list issue :=
    when (negb (is_role RUser (cd_sub cd))) Blocking ++
    when (negb (is_role RServer (cd_aud cd))) Blocking ++
    when ((ar_error r =? "")%string && (ar_jwt r =? "")%string) Blocking ++
    when (negb (ar_error r =? "")%string && negb (ar_jwt r =? "")%string) Blocking ++
    when (negb (ar_issuer_account r =? "")%string && negb (is_role RAccount (ar_issuer_account r))) Blocking ++
    v_claims_data cd.
  Definition v_generic (cd : claims_data) : list issue := v_claims_data cd.
End Validate.
