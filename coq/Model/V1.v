(* Model/V1.v — the bundled version-1 library's decoder (v2/v1compat/claims.go
   Decode, header.go Valid): payload-only signature, five-role switch, header
   that requires type "jwt" and exactly the old algorithm name. *)
From JWT Require Export Base.Strings Model.Kinds Gen.Tables.
Open Scope string_scope.

Definition v1_header_valid (typ alg : string) : bool :=
  (v1_token_type_jwt =? to_lower typ) && (to_lower alg =? v1_alg).

(* the role switch (same five roles on the encode and the decode side) *)
Definition v1_switch (p r : role) : bool :=
  match p with
  | RAccount | ROperator | RServer | RCluster | RUser => role_eqb p r
  | _ => false
  end.
Definition v1_role_ok (prefixes : option (list role)) (r : role) : bool :=
  match prefixes with None => true | Some ps => existsb (fun p => v1_switch p r) ps end.

(* the subject test at the top of each kind's Encode *)
Definition v1_subject_ok (k : v1kind) (r : role) : bool :=
  match k with
  | V1Operator => role_eqb r ROperator
  | V1Account => role_eqb r RAccount
  | V1User => role_eqb r RUser
  | V1Activation => role_eqb r RAccount
  | V1Cluster => role_eqb r RCluster
  | V1Server => role_eqb r RServer
  | V1Generic => true
  end.
Definition v1_encode_gate (k : v1kind) (subject : string) (sub_role signer_role : role) (extra_ok : bool) : bool :=
  v1_subject_ok k sub_role && extra_ok && negb (subject =? "") && v1_role_ok (v1_expected_prefixes k) signer_role.

Record v1_accepted := { v1a_iss : string; v1a_typ : string; v1a_alg : string }.

Section V1Decode.
  Variable b64dec : string -> option string.
  Variable parse_header : string -> option (string * string).
  Variable unmarshal_ok : v1kind -> string -> bool.     (* json.Unmarshal into the target type succeeds *)
  Variable issuer_of : string -> string.
  Variable verify : string -> string -> string -> bool.
  Variable role_of : string -> role.

  (* v1compat.Decode(token, target) with a target of kind k (Decode<Kind>Claims / DecodeGeneric) *)
  Definition v1_decode (k : v1kind) (tok : string) : option v1_accepted :=
    match split dot tok with
    | [c0; c1; c2] =>
        match b64dec c0 with None => None | Some hj =>
        match parse_header hj with None => None | Some (typ, alg) =>
        if negb (v1_header_valid typ alg) then None else
        match b64dec c1 with None => None | Some data =>
        if negb (unmarshal_ok k data) then None else
        match b64dec c2 with None => None | Some sig =>
        let iss := issuer_of data in
        if negb (verify iss c1 sig) then None
        else if v1_role_ok (v1_expected_prefixes k) (role_of iss)
             then Some {| v1a_iss := iss; v1a_typ := typ; v1a_alg := alg |} else None
        end end end end
    | _ => None
    end.
End V1Decode.

(* ---------- executable cross-check ---------- *)
Record v1case := {
  v1_tok : string;                               (* surrogate token *)
  v1_hdr : option (option (string * string));
  v1_pay_b64 : bool;
  v1_unm : list (v1kind * bool);                  (* per target kind: unmarshal ok *)
  v1_sig : bool; v1_ver : bool; v1_role : role;
  v1_obs : list (v1kind * bool)                   (* per decoder: accepted *)
}.
Definition v1kind_eqb (a b : v1kind) : bool :=
  match a, b with
  | V1Operator, V1Operator | V1Account, V1Account | V1User, V1User | V1Activation, V1Activation
  | V1Cluster, V1Cluster | V1Server, V1Server | V1Generic, V1Generic => true
  | _, _ => false
  end.
Definition v1case_ok (c : v1case) : bool :=
  let tok := v1_tok c in
  let c0 := nth 0 (split dot tok) "" in let c1 := nth 1 (split dot tok) "" in let c2 := nth 2 (split dot tok) "" in
  let b64dec := fun s =>
    if s =? c0 then match v1_hdr c with Some _ => Some "H" | None => None end
    else if s =? c1 then (if v1_pay_b64 c then Some "P" else None)
    else if s =? c2 then (if v1_sig c then Some "S" else None) else None in
  let parse_header := fun (_ : string) => match v1_hdr c with Some x => x | None => None end in
  let unm := fun (k : v1kind) (_ : string) =>
    existsb (fun e => v1kind_eqb (fst e) k && snd e) (v1_unm c) in
  let verify := fun (_ text _ : string) => if text =? c1 then v1_ver c else false in
  forallb (fun q =>
    Bool.eqb (match v1_decode b64dec parse_header unm (fun _ => "I") verify (fun _ => v1_role c) (fst q) tok
              with Some _ => true | None => false end) (snd q)) (v1_obs c).

Definition v1ecase_ok (c : v1kind * bool * role * role * bool * bool) : bool :=
  let '(k, sub_empty, sr, kr, extra, obs) := c in
  Bool.eqb (v1_encode_gate k (if sub_empty then "" else "x") sr kr extra) obs.
