(* Model/Pipeline.v — Encode followed by Decode, end to end inside the model:
   the token text produced by Model/Encode.v (base64url of Base/B64.v) is fed to
   the decoder of Model/Decode.v whose JSON-level oracles are now DEFINED from
   a JSON parser and the codec of Base/Codec.v.  What remains abstract: the
   JSON text layer (a printer and a parser with parse (print j) = j), the
   hash, Ed25519 (sign / verify) and the key-role test. *)
From JWT Require Export Base.Codec Base.B64 Model.Kinds Model.Claims Model.Migrate Model.Decode Model.Encode
                        Gen.Schema Gen.Tables.
Open Scope string_scope.
Open Scope Z_scope.

Section Pipeline.
  Variable jparse : string -> option json.

  (* json.Unmarshal(h, &header) *)
  Definition p_parse_header (s : string) : option (string * string) :=
    match jparse s with
    | Some j => match dec sch_header j (zero_val sch_header) with
                | Some v => Some (get_str sch_header ["typ"] v, get_str sch_header ["alg"] v)
                | None => None
                end
    | None => None
    end.
  (* json.Unmarshal(data, &identifier) *)
  Definition p_parse_ident (s : string) : option ident :=
    match jparse s with
    | Some j => match dec sch_identifier j (zero_val sch_identifier) with
                | Some v => Some {| id_top_type := get_str sch_identifier ["type"] v;
                                    id_nats_type := get_str sch_identifier ["nats"; "type"] v;
                                    id_nats_version := get_int sch_identifier ["nats"; "version"] v |}
                | None => None
                end
    | None => None
    end.
  (* the kind/version-specific loader succeeds *)
  Definition p_unmarshal_ok (s : string) (k : ckind) (ver : Z) : bool :=
    match jparse s with
    | Some j => match load_val k (match k with KOperator | KAccount | KUser | KActivation => ver | _ => 2 end) j with
                | Some _ => true | None => false end
    | None => false
    end.
  Definition p_issuer_of (s : string) : string :=
    match jparse s with
    | Some j => match dec sch_claims_data j (zero_val sch_claims_data) with
                | Some v => get_str sch_claims_data ["iss"] v
                | None => ""
                end
    | None => ""
    end.
  (* the claims value Decode returns for an accepted token *)
  Definition p_loaded (s : string) (k : ckind) (ver : Z) : option val :=
    match jparse s with Some j => load_val k ver j | None => None end.

  Definition p_decode (verify : string -> string -> string -> bool) (role_of : string -> role) (tok : string) : option accepted :=
    decode b64dec p_parse_header p_parse_ident p_unmarshal_ok p_issuer_of verify role_of tok.
End Pipeline.

(* ---------- executable cross-check of the DEFINED oracles ---------- *)
(* (payload tree; what json.Unmarshal into the real identifier gave: None = error, Some (top type, nats type, nats version);
    the "iss" a {iss string} read gave ("" on error); the kind and version the loaders dispatch on and whether
    json.Unmarshal into that kind's real target type succeeded) *)
Definition pcase_ok (c : json * option (string * string * Z) * string * option (ckind * Z * bool)) : bool :=
  let '(tree, ident, iss, unm) := c in
  let jp := fun _ : string => Some tree in
  match p_parse_ident jp "", ident with
  | Some i, Some (t, nt, nv) => (id_top_type i =? t)%string && (id_nats_type i =? nt)%string && (id_nats_version i =? nv)
  | None, None => true
  | _, _ => false
  end &&
  (p_issuer_of jp "" =? iss)%string &&
  match unm with
  | Some (k, v, b) => Bool.eqb (p_unmarshal_ok jp "" k v) b
  | None => true
  end.
(* (header tree; what json.Unmarshal into the real Header gave) *)
Definition hcase_ok (c : json * option (string * string)) : bool :=
  let '(tree, h) := c in
  match p_parse_header (fun _ : string => Some tree) "", h with
  | Some (t, a), Some (t', a') => (t =? t')%string && (a =? a')%string
  | None, None => true
  | _, _ => false
  end.
(* the same on the rich payloads that the real Encode writes: (kind, payload tree, the issuer Encode stamped) *)
Definition prich_ok (c : ckind * json * string) : bool :=
  let '(k, tree, iss) := c in
  let jp := fun _ : string => Some tree in
  match p_parse_ident jp "" with
  | Some i => (id_top_type i =? "")%string &&
              match k with
              | KGeneric => true
              | _ => (id_nats_type i =? kind_name k)%string && (id_nats_version i =? 2)
              end
  | None => match k with KGeneric => true | _ => false end     (* K4: free-form data may defeat the probe *)
  end &&
  (p_issuer_of jp "" =? iss)%string && p_unmarshal_ok jp "" k 2.
