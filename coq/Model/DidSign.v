(* Model/DidSign.v — OperatorClaims.DidSign (v2/operator_claims.go) and
   AccountClaims.DidSign (v2/account_claims.go). *)
From JWT Require Export Base.Strings Model.Kinds.
Open Scope string_scope.

(* what DidSign looks at in the claim it is given; None = a nil claim *)
Record sclaim := { sc_kind : ckind; sc_iss : string; sc_sub : string; sc_issuer_account : string }.

Definition smem (v : string) (l : list string) : bool := existsb (fun t => t =? v) l.

(* oc.DidSign(op): id = oc.Subject, keys = oc.SigningKeys (a string list) *)
Definition op_did_sign (id : string) (strict : bool) (keys : list string) (c : option sclaim) : bool :=
  match c with
  | None => false
  | Some c =>
      if sc_iss c =? id then
        (if negb strict then true else sc_sub c =? id)
      else smem (sc_iss c) keys
  end.

(* a.DidSign(c): id = a.Subject, keys = the keys of a.SigningKeys (plain or scoped alike) *)
Definition acct_did_sign (id : string) (keys : list string) (c : option sclaim) : bool :=
  match c with
  | None => false
  | Some c =>
      if sc_iss c =? id then true
      else if ckind_eqb (sc_kind c) KUser && (sc_issuer_account c =? id) then smem (sc_iss c) keys
      else if ckind_eqb (sc_kind c) KActivation && (sc_issuer_account c =? id) then smem (sc_iss c) keys
      else false
  end.

(* ---------- the specification, written from the property statement ---------- *)
Definition op_spec (id : string) (strict : bool) (keys : list string) (c : sclaim) : Prop :=
  (sc_iss c = id /\ (strict = true -> sc_sub c = id)) \/ In (sc_iss c) keys.
Definition acct_spec (id : string) (keys : list string) (c : sclaim) : Prop :=
  sc_iss c = id \/
  ((sc_kind c = KUser \/ sc_kind c = KActivation) /\ sc_issuer_account c = id /\ In (sc_iss c) keys).

(* ---------- executable cross-check ---------- *)
Definition opcase_ok (c : string * bool * list string * option sclaim * bool) : bool :=
  let '(id, strict, keys, cl, obs) := c in Bool.eqb (op_did_sign id strict keys cl) obs.
Definition accase_ok (c : string * list string * option sclaim * bool) : bool :=
  let '(id, keys, cl, obs) := c in Bool.eqb (acct_did_sign id keys cl) obs.
