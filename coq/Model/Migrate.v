(* Model/Migrate.v — the version-1 branch of the loaders (v2/decoder_*.go):
   the shadow structs the payload is decoded into (schemas generated from the
   code), their presets, and the migrateV1 copy functions; plus DecodeGeneric's
   re-homing of the top-level type and tags of a version-1 generic token. *)
From JWT Require Export Base.Codec Model.Kinds Model.Claims Gen.Schema.
Open Scope string_scope.
Open Scope Z_scope.

Definition shadow_of (k : ckind) : option ty :=
  match k with
  | KOperator => Some sch_shadow_operator
  | KAccount => Some sch_shadow_account
  | KUser => Some sch_shadow_user
  | KActivation => Some sch_shadow_activation
  | _ => None
  end.

(* copy one field (by JSON path) from a value of schema st to a value of schema dt *)
Definition copy (st dt : ty) (s : val) (sp dp : list string) (d : val) : val :=
  match getp st sp s with Some x => setp dt dp x d | None => d end.
Definition copy_all (st dt : ty) (s : val) (pairs : list (list string * list string)) (d : val) : val :=
  fold_left (fun acc p => copy st dt s (fst p) (snd p) acc) pairs d.

Definition std_fields : list string := ["aud"; "exp"; "jti"; "iat"; "iss"; "name"; "nbf"; "sub"].
Definition std_pairs : list (list string * list string) := map (fun n => ([n], [n])) std_fields.
Definition moved_pairs : list (list string * list string) :=
  [(["type"], ["nats"; "type"]); (["tags"], ["nats"; "tags"])].
Definition same (ps : list (list string)) : list (list string * list string) := map (fun p => (p, p)) ps.

(* presets: what json.Unmarshal decodes the version-1 payload into *)
Definition preset_v1 (k : ckind) : val :=
  match k with
  | KUser =>
      let z := zero_val sch_shadow_user in
      fold_left (fun acc n => setp sch_shadow_user ["nats"; n] (VInt (-1)) acc) ["subs"; "data"; "payload"; "max"] z
  | KActivation =>
      let z := zero_val sch_shadow_activation in
      fold_left (fun acc n => setp sch_shadow_activation ["nats"; n] (VInt (-1)) acc) ["max"; "payload"] z
  | KOperator => zero_val sch_shadow_operator
  | KAccount => zero_val sch_shadow_account
  | _ => VAny None
  end.

(* SigningKeys.Add over a string list: a non-nil key set with plain entries *)
Definition keys_of_list (v : val) : val :=
  match v with
  | VList (Some l) =>
      VMap (Some (fold_left (fun acc x => match x with VStr k => vstore k (VPtr None) acc | _ => acc end) l []))
  | _ => VMap (Some [])
  end.

Definition set_version1 (k : ckind) (d : val) : val := setp (schema_of k) ["nats"; "version"] (VInt 1) d.

Definition migrate (k : ckind) (s : val) : val :=
  match k with
  | KOperator =>
      set_version1 k
        (copy_all sch_shadow_operator sch_operator s
           (std_pairs ++ moved_pairs ++
            same [["nats"; "signing_keys"]; ["nats"; "account_server_url"];
                  ["nats"; "operator_service_urls"]; ["nats"; "system_account"]])
           (zero_val sch_operator))
  | KAccount =>
      let d := copy_all sch_shadow_account sch_account s
                 (std_pairs ++ moved_pairs ++
                  same ([["nats"; "imports"]; ["nats"; "exports"]; ["nats"; "revocations"]] ++
                        map (fun n => ["nats"; "limits"; n])
                            ["subs"; "data"; "payload"; "imports"; "exports"; "wildcards";
                             "disallow_bearer"; "conn"; "leaf"]))
                 (zero_val sch_account) in
      let ks := match getp sch_shadow_account ["nats"; "signing_keys"] s with
                | Some l => keys_of_list l
                | None => VMap (Some [])
                end in
      set_version1 k (setp sch_account ["nats"; "signing_keys"] ks d)
  | KUser =>
      set_version1 k
        (copy_all sch_shadow_user sch_user s
           (std_pairs ++ moved_pairs ++ [(["issuer_account"], ["nats"; "issuer_account"])] ++
            same (map (fun n => ["nats"; n])
                      ["pub"; "sub"; "resp"; "src"; "times"; "times_location";
                       "subs"; "data"; "payload"; "bearer_token"]))
           (zero_val sch_user))
  | KActivation =>
      set_version1 k
        (copy_all sch_shadow_activation sch_activation s
           (std_pairs ++ moved_pairs ++ [(["issuer_account"], ["nats"; "issuer_account"]);
                                         (["nats"; "subject"], ["nats"; "subject"]);
                                         (["nats"; "type"], ["nats"; "kind"])])
           (zero_val sch_activation))
  | _ => s
  end.

(* the version-1 branch of loadOperator / loadAccount / loadUser / loadActivation *)
Definition load_v1 (k : ckind) (j : json) : option val :=
  match shadow_of k with
  | Some st => option_map (migrate k) (dec st j (preset_v1 k))
  | None => None
  end.

(* what Decode returns for a payload of kind k declaring version ver (1 or 2 for the four
   migratable kinds; authorization and generic claims have a single loader) *)
Definition load_val (k : ckind) (ver : Z) (j : json) : option val :=
  match k with
  | KOperator | KAccount | KUser | KActivation =>
      if ver =? 1 then load_v1 k j else if ver =? 2 then load_v2 k j else None
  | _ => load_v2 k j
  end.

(* DecodeGeneric: the payload is decoded as generic claims plus top-level
   tags/type/version; for a version-1 header the type and tags are re-homed
   into the data map (created when the payload has no nats section) *)
Definition generic_fields_ty : ty :=
  TStruct [("tags", true, TList TStr); ("type", true, TStr);
           ("version", true, TInt (-9223372036854775808) 9223372036854775807)].

Definition rehome (v1_header : bool) (g : val) (gf : val) : val :=
  if negb v1_header then g
  else
    let data := match getp sch_generic ["nats"] g with Some (VMap (Some m)) => m | _ => [] end in
    let data := match getp generic_fields_ty ["type"] gf with
                | Some (VStr tp) => if (tp =? "")%string then data else vstore "type" (VAny (Some (JStr tp))) data
                | _ => data
                end in
    let data := match getp generic_fields_ty ["tags"] gf with
                | Some (VList (Some (x :: r))) =>
                    vstore "tags" (VAny (Some (JArr (map (fun t => match t with VStr s => JStr s | _ => JNull end) (x :: r))))) data
                | _ => data
                end in
    setp sch_generic ["nats"] (VMap (Some data)) g.

Definition decode_generic_val (v1_header : bool) (j : json) : option val :=
  match dec sch_generic j (zero_val sch_generic), dec generic_fields_ty j (zero_val generic_fields_ty) with
  | Some g, Some gf => Some (rehome v1_header g gf)
  | _, _ => None
  end.

(* ---------- executable cross-check ---------- *)
(* (kind, v1compat schema index, v1 claims value after the v1 Encode, payload tree,
    what v2 Decode returned, what v2 DecodeGeneric returned for generic tokens) *)
Definition v1schema (n : nat) : ty :=
  nth n [sch1_operator; sch1_account; sch1_user; sch1_activation; sch1_cluster; sch1_server; sch1_generic] (TBad "").

Definition mcase_ok (c : ckind * nat * val * json * val * option val) : bool :=
  let '(k, n, v1v, j, d, dg) := c in
  match enc (v1schema n) v1v with Some j' => json_eqb j' j | None => false end &&
  match load_val k 1 j with Some d' => obs_eqb d' d | None => false end &&
  match dg with
  | None => true
  | Some g => match decode_generic_val true j with Some g' => obs_eqb g' g | None => false end
  end.
