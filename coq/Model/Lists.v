(* Model/Lists.v — TagList, StringList and CIDRList (v2/types.go).
   A Go slice is (backing array, length): Remove deletes in place inside the
   backing array and Add appends into spare capacity when there is some, so
   stale values beyond the length exist and must never become visible. *)
From JWT Require Export Base.Strings.
Open Scope string_scope.

Record slice := { arr : list string; len : nat }.
Definition view (s : slice) : list string := firstn (len s) (arr s).
Definition nil_slice : slice := {| arr := []; len := 0 |}.
Definition of_list (l : list string) : slice := {| arr := l; len := length l |}.

Fixpoint set_nth (n : nat) (v : string) (l : list string) : list string :=
  match l, n with
  | [], _ => []
  | _ :: r, O => v :: r
  | x :: r, S n' => x :: set_nth n' v r
  end.

(* append(s, v): in place when there is spare capacity, else a fresh zeroed array *)
Definition append (s : slice) (v : string) : slice :=
  if (len s <? length (arr s))%nat
  then {| arr := set_nth (len s) v (arr s); len := S (len s) |}
  else {| arr := view s ++ [v] ++ repeat "" (length (arr s)); len := S (len s) |}.

(* a := *u; *u = append(a[:i], a[i+1:]...)   for i < len *)
Definition remove_at (s : slice) (i : nat) : slice :=
  {| arr := firstn i (arr s) ++ skipn (S i) (view s) ++ skipn (len s - 1) (arr s);
     len := len s - 1 |}.

Fixpoint index_of (v : string) (l : list string) : option nat :=
  match l with
  | [] => None
  | t :: r => if t =? v then Some 0 else option_map S (index_of v r)
  end.
Definition mem (v : string) (l : list string) : bool := existsb (fun t => t =? v) l.

Section WithNorm.
  (* TagList: norm = ToLower . TrimSpace ; StringList: norm = identity *)
  Variable norm : string -> string.

  Definition l_contains (s : slice) (p : string) : bool := mem (norm p) (view s).
  Definition l_add1 (s : slice) (v0 : string) : slice :=
    let v := norm v0 in
    if negb (l_contains s v) && negb (v =? "") then append s v else s.
  Definition l_add (s : slice) (ps : list string) : slice := fold_left l_add1 ps s.
  Definition l_remove1 (s : slice) (v0 : string) : slice :=
    let v := norm v0 in
    match index_of v (view s) with Some i => remove_at s i | None => s end.
  Definition l_remove (s : slice) (ps : list string) : slice := fold_left l_remove1 ps s.

  Inductive lop := Add (ps : list string) | Remove (ps : list string).
  Definition lstep (s : slice) (o : lop) : slice :=
    match o with Add ps => l_add s ps | Remove ps => l_remove s ps end.
  Definition lrun (ops : list lop) (s : slice) : slice := fold_left lstep ops s.

  (* the specification: an insertion-ordered set of normalised, non-empty strings *)
  Definition spec_add1 (l : list string) (x : string) : list string :=
    let v := norm x in if (v =? "") || mem v l then l else l ++ [v].
  Definition spec_remove1 (l : list string) (x : string) : list string :=
    filter (fun t => negb (t =? norm x)) l.
  Definition spec_step (l : list string) (o : lop) : list string :=
    match o with
    | Add ps => fold_left spec_add1 ps l
    | Remove ps => fold_left spec_remove1 ps l
    end.
  Definition spec_run (ops : list lop) (l : list string) : list string := fold_left spec_step ops l.

  Definition inv (s : slice) : Prop :=
    (len s <= length (arr s))%nat /\ NoDup (view s) /\
    Forall (fun t => t <> "" /\ norm t = t) (view s).
End WithNorm.

Definition norm_tag (s : string) : string := to_lower (trim_space s).
Definition norm_id (s : string) : string := s.

(* CIDRList.Set(values): *c = CIDRList{}; c.Add(strings.Split(strings.ToLower(values), ",")...) *)
Definition comma : ascii := ","%char.
Definition cidr_set (values : string) : slice :=
  l_add norm_tag nil_slice (split comma (to_lower values)).

(* CIDRList.UnmarshalJSON: a JSON array of strings is taken verbatim, a JSON string goes through Set *)
Inductive cidr_json := CArr (es : list string) | CStr (s : string).
Definition cidr_unmarshal (j : cidr_json) : list string :=
  match j with CArr es => es | CStr s => view (cidr_set s) end.

(* ---------- executable cross-check for the correspondence cases ---------- *)
Fixpoint strs_eqb (a b : list string) : bool :=
  match a, b with
  | [], [] => true
  | x :: r1, y :: r2 => (x =? y) && strs_eqb r1 r2
  | _, _ => false
  end.

(* one step of an observed history: the operation, the slice contents afterwards,
   and Contains answers for a fixed probe list *)
Record lobs := { lo_op : lop; lo_view : list string; lo_probe : list (string * bool) }.

Fixpoint lrun_check (norm : string -> string) (s : slice) (obs : list lobs) : bool :=
  match obs with
  | [] => true
  | o :: r =>
      let s' := lstep norm s (lo_op o) in
      strs_eqb (view s') (lo_view o)
      && forallb (fun q => Bool.eqb (l_contains norm s' (fst q)) (snd q)) (lo_probe o)
      && lrun_check norm s' r
  end.
Definition tag_case_ok (obs : list lobs) : bool := lrun_check norm_tag nil_slice obs.
Definition str_case_ok (obs : list lobs) : bool := lrun_check norm_id nil_slice obs.
(* CIDR: (is-string-form, input, observed entries) *)
Definition cidr_case_ok (c : cidr_json * list string) : bool :=
  strs_eqb (cidr_unmarshal (fst c)) (snd c).

(* a whole history from the empty list, observed at the end: contents and Contains answers *)
Definition hist_ok (norm : string -> string) (c : list lop * list string * list (string * bool)) : bool :=
  let '(ops, v, pr) := c in
  let s := lrun norm ops nil_slice in
  strs_eqb (view s) v && forallb (fun q => Bool.eqb (l_contains norm s (fst q)) (snd q)) pr.
Definition tag_hist_ok := hist_ok norm_tag.
Definition str_hist_ok := hist_ok norm_id.
