(* Model/Decode.v — jwt.Decode, loadClaims, Header.Valid, the typed decoders and
   DecodeGeneric (v2/decoder.go, v2/header.go, v2/genericlaims.go, Decode*Claims),
   and the role / subject gate of Encode (v2/claims.go doEncode, per-kind Encode).
   External machinery (base64, encoding/json, Ed25519 through nkeys, key-role
   tests) enters as Section variables: every theorem holds for all of them. *)
From JWT Require Export Base.Strings Model.Kinds Gen.Tables.
Open Scope string_scope.
Open Scope Z_scope.

(* ---------- Header.Valid ---------- *)
Definition header_valid (typ alg : string) : bool :=
  (token_type_jwt =? to_upper typ)%string &&
  (let a := to_lower alg in
   has_prefix alg_old a && ((alg_old =? a)%string || (alg_new =? a)%string)).

(* ---------- identifier (what loadClaims reads first) ---------- *)
Record ident := { id_top_type : string; id_nats_type : string; id_nats_version : Z }.
Definition id_kind (i : ident) : string :=
  if negb (id_top_type i =? "")%string then id_top_type i else id_nats_type i.
Definition id_version (i : ident) : Z :=
  if negb (id_top_type i =? "")%string then 1 else id_nats_version i.

(* the per-kind loaders of operator / account / user / activation: versions 1 and 2 only *)
Definition typed_loader (k : ckind) (v : Z) (unmarshal_ok : ckind -> Z -> bool) : option (ckind * Z) :=
  if (v =? 1) || (v =? 2) then (if unmarshal_ok k v then Some (k, v) else None) else None.

(* loadClaims: Some (dynamic kind of the claims returned, version returned) / None = error *)
Definition load_claims (i : ident) (unmarshal_ok : ckind -> Z -> bool) : option (ckind * Z) :=
  let v := id_version i in
  if lib_version <? v then None
  else
    let k := id_kind i in
    if (k =? kind_name KOperator)%string then typed_loader KOperator v unmarshal_ok
    else if (k =? kind_name KAccount)%string then typed_loader KAccount v unmarshal_ok
    else if (k =? kind_name KUser)%string then typed_loader KUser v unmarshal_ok
    else if (k =? kind_name KActivation)%string then typed_loader KActivation v unmarshal_ok
    else if (k =? kind_name KAuthRequest)%string then
      (* no version-1 form: the claims' own kind (nats section) must be the dispatched one, and the version
         the claims report (nats section) must be the one that selects the signed text *)
      (if unmarshal_ok KAuthRequest v && (id_nats_type i =? kind_name KAuthRequest)%string && (id_nats_version i =? v)
       then Some (KAuthRequest, v) else None)
    else if (k =? kind_name KAuthResponse)%string then
      (if unmarshal_ok KAuthResponse v && (id_nats_type i =? kind_name KAuthResponse)%string && (id_nats_version i =? v)
       then Some (KAuthResponse, v) else None)
    else if (k =? "cluster")%string then None
    else if (k =? "server")%string then None
    else (if unmarshal_ok KGeneric v then Some (KGeneric, -1) else None).

(* the role switch after signature verification in Decode: only these four roles are recognised *)
Definition decode_switch (p r : role) : bool :=
  match p with
  | RAccount | ROperator | RUser | RServer => role_eqb p r
  | _ => false
  end.
Definition decode_role_ok (prefixes : option (list role)) (r : role) : bool :=
  match prefixes with
  | None => true
  | Some ps => existsb (fun p => decode_switch p r) ps
  end.

(* the role switch in doEncode: five roles *)
Definition encode_switch (p r : role) : bool :=
  match p with
  | RAccount | ROperator | RServer | RCluster | RUser => role_eqb p r
  | _ => false
  end.
Definition encode_role_ok (prefixes : option (list role)) (r : role) : bool :=
  match prefixes with
  | None => true
  | Some ps => existsb (fun p => encode_switch p r) ps
  end.
(* the subject test at the top of each kind's Encode *)
Definition subject_ok (k : ckind) (r : role) : bool :=
  match k with
  | KOperator => role_eqb r ROperator
  | KAccount => role_eqb r RAccount
  | KUser => role_eqb r RUser
  | KActivation => role_eqb r RAccount
  | _ => true
  end.
(* Encode succeeds (all other steps cannot fail for a value that marshals):
   subject non-empty and of the right role, kind-specific extra test (operator:
   account server URL), signing key of a permitted role *)
Definition encode_gate (k : ckind) (subject : string) (sub_role signer_role : role) (extra_ok : bool) : bool :=
  subject_ok k sub_role && extra_ok && negb (subject =? "")%string
  && encode_role_ok (expected_prefixes k) signer_role.

Inductive layout := LV1 | LV2.   (* what the signature covers: payload segment / header.payload *)
Definition layout_eqb (a b : layout) : bool :=
  match a, b with LV1, LV1 | LV2, LV2 => true | _, _ => false end.

(* what an accepting decoder reports *)
Record accepted := {
  a_kind : ckind;          (* dynamic type of the claims returned *)
  a_iss : string;          (* Claims().Issuer of the claims returned *)
  a_version : Z;           (* the version the payload declares (identifier) *)
  a_declared : string;     (* the kind string the payload declares *)
  a_typ : string; a_alg : string;   (* header fields *)
  a_layout : layout        (* which text the signature was checked against *)
}.

Section Decode.
  Variable b64dec : string -> option string.               (* base64.RawURLEncoding.DecodeString *)
  Variable parse_header : string -> option (string * string).  (* json.Unmarshal into Header: (typ, alg) *)
  Variable parse_ident : string -> option ident.           (* json.Unmarshal into identifier *)
  Variable unmarshal_ok : string -> ckind -> Z -> bool.    (* the kind/version-specific json.Unmarshal succeeds *)
  Variable issuer_of : string -> string.                   (* "iss" of the payload as loaded *)
  Variable gunmarshal_ok : string -> bool.                 (* DecodeGeneric's json.Unmarshal succeeds *)
  Variable verify : string -> string -> string -> bool.    (* verify issuer text sig: FromPublicKey ok and Ed25519 verifies *)
  Variable role_of : string -> role.

  Definition protected (l : layout) (c0 c1 : string) (tok : string) : string :=
    match l with
    | LV1 => c1
    | LV2 => substring 0 (String.length c0 + String.length c1 + 1) tok   (* token[:len(c0)+len(c1)+1] *)
    end.

  (* jwt.Decode *)
  Definition decode (tok : string) : option accepted :=
    match split dot tok with
    | [c0; c1; c2] =>
        match b64dec c0 with None => None | Some hj =>
        match parse_header hj with None => None | Some (typ, alg) =>
        if negb (header_valid typ alg) then None else
        match b64dec c1 with None => None | Some data =>
        match parse_ident data with None => None | Some i =>
        match load_claims i (unmarshal_ok data) with None => None | Some (k, ver) =>
        match b64dec c2 with None => None | Some sig =>
        let ver' := if ckind_eqb k KGeneric
                    then (if (alg =? alg_old)%string then 1 else lib_version)
                    else ver in
        let l := if ver' <=? 1 then LV1 else LV2 in
        let iss := issuer_of data in
        if negb (verify iss (protected l c0 c1 tok) sig) then None
        else if decode_role_ok (expected_prefixes k) (role_of iss)
             then Some {| a_kind := k; a_iss := iss; a_version := id_version i; a_declared := id_kind i;
                          a_typ := typ; a_alg := alg; a_layout := l |}
             else None
        end end end end end end
    | _ => None
    end.

  (* which text the token itself declares as signed: typed kinds by the payload's
     version, generic claims by the header's algorithm name *)
  Definition is_typed_name (s : string) : bool :=
    existsb (fun k => (s =? kind_name k)%string)
            [KOperator; KAccount; KUser; KActivation; KAuthRequest; KAuthResponse].
  Definition declared_layout (tok : string) : option layout :=
    match split dot tok with
    | [c0; c1; c2] =>
        match b64dec c0 with None => None | Some hj =>
        match parse_header hj with None => None | Some (typ, alg) =>
        match b64dec c1 with None => None | Some data =>
        match parse_ident data with None => None | Some i =>
        Some (if is_typed_name (id_kind i)
              then (if id_version i <=? 1 then LV1 else LV2)
              else (if (alg =? alg_old)%string then LV1 else LV2))
        end end end end
    | _ => None
    end.
  Definition text_of (l : layout) (c0 c1 : string) : string :=
    match l with LV1 => c1 | LV2 => c0 ++ "." ++ c1 end.

  (* Decode{Operator,Account,User,Activation,AuthorizationRequest,AuthorizationResponse}Claims *)
  Definition decode_typed (k : ckind) (tok : string) : option accepted :=
    match decode tok with
    | Some a => if ckind_eqb (a_kind a) k then Some a else None
    | None => None
    end.

  (* jwt.DecodeGeneric: layout by header algorithm, no role check *)
  Definition decode_generic (tok : string) : option accepted :=
    match split dot tok with
    | [c0; c1; c2] =>
        match b64dec c0 with None => None | Some hj =>
        match parse_header hj with None => None | Some (typ, alg) =>
        if negb (header_valid typ alg) then None else
        match b64dec c1 with None => None | Some data =>
        if negb (gunmarshal_ok data) then None else
        match b64dec c2 with None => None | Some sig =>
        let l := if (alg =? alg_old)%string then LV1 else LV2 in
        let iss := issuer_of data in
        if negb (verify iss (protected l c0 c1 tok) sig) then None
        else Some {| a_kind := KGeneric; a_iss := iss; a_version := 0; a_declared := "";
                     a_typ := typ; a_alg := alg; a_layout := l |}
        end end end end
    | _ => None
    end.
End Decode.

(* ---------- executable cross-check for the correspondence cases ---------- *)
(* A forged token is presented to the model with its segments replaced by short
   surrogate strings (the token's dot structure and the empty/non-empty status
   of every segment are kept) and the facts about each real segment computed
   by the harness with its own base64 / JSON / nkey / Ed25519 code. *)
Record dcase := {
  dc_tok : string;                                  (* surrogate token, e.g. "h.p.s" *)
  dc_hdr : option (option (string * string));       (* b64 ok -> header JSON ok -> (typ, alg) *)
  dc_pay : option (option ident);                   (* b64 ok -> identifier JSON ok -> ident *)
  dc_unm : bool;                                    (* kind-specific unmarshal ok *)
  dc_gunm : bool;                                   (* DecodeGeneric's unmarshal ok *)
  dc_iss : string;                                  (* surrogate for the payload's issuer *)
  dc_sig : bool;                                    (* signature segment is base64url *)
  dc_ver1 : bool; dc_ver2 : bool;                   (* Ed25519 verdict over payload / header.payload under iss *)
  dc_role : role;                                   (* role of iss *)
  dc_obs_decode : option ckind;                     (* jwt.Decode: accepted with this dynamic kind / rejected *)
  dc_obs_iss_ok : bool;                             (* the accepted claims report the payload's iss *)
  dc_obs_typed : list (ckind * bool);               (* each typed decoder accepted? *)
  dc_obs_generic : bool                             (* jwt.DecodeGeneric accepted? *)
}.

Definition seg (n : nat) (tok : string) : string := nth n (split dot tok) "".

Definition dcase_ok (c : dcase) : bool :=
  let tok := dc_tok c in
  let c0 := seg 0 tok in let c1 := seg 1 tok in let c2 := seg 2 tok in
  let b64dec := fun s =>
    if (s =? c0)%string then match dc_hdr c with Some _ => Some "H" | None => None end
    else if (s =? c1)%string then match dc_pay c with Some _ => Some "P" | None => None end
    else if (s =? c2)%string then (if dc_sig c then Some "S" else None) else None in
  let parse_header := fun (_ : string) => match dc_hdr c with Some x => x | None => None end in
  let parse_ident := fun (_ : string) => match dc_pay c with Some x => x | None => None end in
  let unmarshal_ok := fun (_ : string) (_ : ckind) (_ : Z) => dc_unm c in
  let gunm := fun (_ : string) => dc_gunm c in
  let issuer_of := fun (_ : string) => dc_iss c in
  let verify := fun (_ text _ : string) =>
    if (text =? c1)%string then dc_ver1 c
    else if (text =? c0 ++ "." ++ c1)%string then dc_ver2 c else false in
  let role_of := fun (_ : string) => dc_role c in
  let d := decode b64dec parse_header parse_ident unmarshal_ok issuer_of verify role_of tok in
  let kind_opt_eqb := fun (a : option ckind) (b : option ckind) =>
    match a, b with
    | None, None => true
    | Some x, Some y => ckind_eqb x y
    | _, _ => false
    end in
  kind_opt_eqb (option_map a_kind d) (dc_obs_decode c)
  && (match d with Some _ => dc_obs_iss_ok c | None => true end)
  && forallb (fun q =>
       Bool.eqb (match decode_typed b64dec parse_header parse_ident unmarshal_ok issuer_of verify role_of (fst q) tok
                 with Some _ => true | None => false end) (snd q)) (dc_obs_typed c)
  && Bool.eqb (match decode_generic b64dec parse_header issuer_of gunm verify tok with Some _ => true | None => false end)
              (dc_obs_generic c).

(* Encode side: (kind, subject empty?, subject role, signer role, extra ok, observed success) *)
Definition ecase_ok (c : ckind * bool * role * role * bool * bool) : bool :=
  let '(k, sub_empty, sr, kr, extra, obs) := c in
  Bool.eqb (encode_gate k (if sub_empty then "" else "x") sr kr extra) obs.
