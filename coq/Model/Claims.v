(* Model/Claims.v — claims values of the seven kinds as [val]s typed by the
   generated schemas, the version-2 loaders of v2/decoder_*.go (what the value
   is decoded INTO, what is done afterwards), and field access by JSON path. *)
From JWT Require Export Base.Codec Model.Kinds Gen.Schema.
Open Scope string_scope.
Open Scope Z_scope.

Definition schema_of (k : ckind) : ty :=
  match k with
  | KOperator => sch_operator
  | KAccount => sch_account
  | KUser => sch_user
  | KActivation => sch_activation
  | KAuthRequest => sch_auth_request
  | KAuthResponse => sch_auth_response
  | KGeneric => sch_generic
  end.

(* ---------- field access by JSON names ---------- *)
Definition fields_of (t : ty) : list (string * bool * ty) :=
  match t with TStruct fs => fs | _ => [] end.

Fixpoint get_path (fuel : nat) (t : ty) (path : list string) (v : val) : option val :=
  match path with
  | [] => Some v
  | name :: rest =>
      match fuel with
      | O => None
      | S fuel' =>
          match t, v with
          | TStruct fs, VStruct vs =>
              match field_index_exact name fs 0 with
              | Some i => match nth_error fs i, nth_error vs i with
                          | Some (_, _, ft), Some fv => get_path fuel' ft rest fv
                          | _, _ => None
                          end
              | None => None
              end
          | _, _ => None
          end
      end
  end.

Fixpoint set_path (fuel : nat) (t : ty) (path : list string) (x : val) (v : val) : val :=
  match path with
  | [] => x
  | name :: rest =>
      match fuel with
      | O => v
      | S fuel' =>
          match t, v with
          | TStruct fs, VStruct vs =>
              match field_index_exact name fs 0 with
              | Some i => match nth_error fs i, nth_error vs i with
                          | Some (_, _, ft), Some fv => VStruct (set_nth_val i (set_path fuel' ft rest x fv) vs)
                          | _, _ => v
                          end
              | None => v
              end
          | _, _ => v
          end
      end
  end.

Definition getp (t : ty) (path : list string) (v : val) : option val := get_path 8 t path v.
Definition setp (t : ty) (path : list string) (x : val) (v : val) : val := set_path 8 t path x v.

Definition get_str (t : ty) (path : list string) (v : val) : string :=
  match getp t path v with Some (VStr s) => s | _ => "" end.
Definition get_int (t : ty) (path : list string) (v : val) : Z :=
  match getp t path v with Some (VInt z) => z | _ => 0 end.

(* ---------- version-2 loaders ---------- *)

(* what json.Unmarshal decodes into: loadAccount pre-makes the signing-key map *)
Definition preset_v2 (k : ckind) : val :=
  match k with
  | KAccount => setp sch_account ["nats"; "signing_keys"] (VMap (Some [])) (zero_val sch_account)
  | _ => zero_val (schema_of k)
  end.

(* loadAccount: flat JetStream limits are cleared when tiered limits are present *)
Definition js_limit_names : list string :=
  ["mem_storage"; "disk_storage"; "streams"; "consumer"; "max_ack_pending";
   "mem_max_stream_bytes"; "disk_max_stream_bytes"; "max_bytes_required"].
Definition clear_js (v : val) : val :=
  fold_left (fun acc n =>
               let p := ["nats"; "limits"; n] in
               match getp sch_account p acc with
               | Some (VBool _) => setp sch_account p (VBool false) acc
               | Some (VInt _) => setp sch_account p (VInt 0) acc
               | _ => acc
               end) js_limit_names v.
Definition post_v2 (k : ckind) (v : val) : val :=
  match k with
  | KAccount =>
      match getp sch_account ["nats"; "limits"; "tiered_limits"] v with
      | Some (VMap (Some (_ :: _))) => clear_js v
      | _ => v
      end
  | _ => v
  end.

(* the version-2 branch of the loaders (and the generic / authorization loaders) *)
Definition load_v2 (k : ckind) (j : json) : option val :=
  option_map (post_v2 k) (dec (schema_of k) j (preset_v2 k)).

(* a Go map has no order: for comparison with an observed value (dumped with keys
   sorted) sort every map's entries, leaving nil / empty as they are *)
Fixpoint norm_maps (v : val) : val :=
  match v with
  | VList (Some l) => VList (Some (map norm_maps l))
  | VMap (Some m) => VMap (Some (sort_by_key (map (fun kv => (fst kv, norm_maps (snd kv))) m)))
  | VPtr (Some x) => VPtr (Some (norm_maps x))
  | VStruct l => VStruct (map norm_maps l)
  | _ => v
  end.
Definition obs_eqb (model observed : val) : bool := val_eqb (norm_maps model) (norm_maps observed).

(* ---------- executable cross-check ---------- *)
(* (kind, claims value as it is after Encode, payload tree of the token, claims value Decode returned) *)
Definition ccase_ok (c : ckind * val * json * val) : bool :=
  let '(k, v, j, d) := c in
  match enc (schema_of k) v with
  | Some j' => json_eqb j' j
  | None => false
  end &&
  match load_v2 k j with
  | Some d' => obs_eqb d' d
  | None => false
  end.

(* the type of a field addressed by JSON path *)
Fixpoint get_path_ty (fuel : nat) (t : ty) (path : list string) : option ty :=
  match path with
  | [] => Some t
  | name :: rest =>
      match fuel with
      | O => None
      | S fuel' =>
          match t with
          | TStruct fs =>
              match field_index_exact name fs 0 with
              | Some i => match nth_error fs i with
                          | Some (_, _, ft) => get_path_ty fuel' ft rest
                          | None => None
                          end
              | None => None
              end
          | _ => None
          end
      end
  end.
Definition getp_ty (t : ty) (path : list string) : option ty := get_path_ty 8 t path.
