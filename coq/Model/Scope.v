(* Model/Scope.v — UserScope.ValidateScopedSigner, UserClaims.HasEmptyPermissions
   (v2/signingkeys.go, v2/user_claims.go) and IssueUserJWT (v2/creds_utils.go). *)
From JWT Require Export Base.Codec Model.Kinds Model.Claims Gen.Schema Gen.Tables.
Open Scope string_scope.
Open Scope Z_scope.

Definition upl_ty : ty := ty_jwt_UserPermissionLimits.
Definition upl_names : list string := map (fun f => fst (fst f)) (fields_of upl_ty).

(* the UserPermissionLimits part of a user claims value *)
Definition upl_of_user (u : val) : val :=
  VStruct (map (fun n => match getp sch_user ["nats"; n] u with Some x => x | None => VAny None end) upl_names).

(* reflect.DeepEqual(u.UserPermissionLimits, UserPermissionLimits{}): nil lists, nil pointer, zeros;
   a present-but-empty list is NOT the zero value *)
Definition has_empty_permissions (upl : val) : bool := val_eqb upl (zero_val upl_ty).

(* UserScope.ValidateScopedSigner(c): true = nil error *)
Definition validate_scoped_signer (scope_key : string) (k : ckind) (iss : string) (upl : val) : bool :=
  ckind_eqb k KUser && (iss =? scope_key)%string && has_empty_permissions upl.

(* IssueUserJWT: the user claims handed to Encode (None = an error before Encode);
   now_ns + d in nanoseconds, expiry = its whole second *)
Definition issue_user_claims (acct_role user_role : role) (account_id user_key name : string)
                             (now_ns d : Z) (tags : val) : option val :=
  if negb (role_eqb acct_role RAccount) then None
  else if negb (role_eqb user_role RUser) then None
  else
    let z := zero_val sch_user in                       (* NewUserClaims + SetScoped(true): empty permissions and limits *)
    let z := setp sch_user ["sub"] (VStr user_key) z in
    let z := if d =? 0 then z else setp sch_user ["exp"] (VInt ((now_ns + d) / 1000000000)) z in
    let z := setp sch_user ["nats"; "issuer_account"] (VStr account_id) z in
    let z := setp sch_user ["name"] (VStr (if (name =? "")%string then user_key else name)) z in
    Some (setp sch_user ["nats"; "tags"] tags z).
(* ... and then claim.Encode(scopedSigningKey): succeeds iff the signing key is an account key (C02) *)
Definition issue_user_ok (acct_role user_role signer_role : role) : bool :=
  role_eqb acct_role RAccount && role_eqb user_role RUser && role_eqb signer_role RAccount.

(* ---------- executable cross-check ---------- *)
(* scoped-signer: (scope key, kind, issuer, user-permission-limits value, observed nil error) *)
Definition sscase_ok (c : string * ckind * string * val * bool) : bool :=
  let '(sk, k, iss, upl, obs) := c in Bool.eqb (validate_scoped_signer sk k iss upl) obs.
(* IssueUserJWT: roles, arguments, whether it succeeded, and (when it did) the decoded
   user claims with the stamps (iss, iat, jti, type, version) blanked by the harness;
   the expiry is compared as a fact: exp_lo <= exp <= exp_hi around the call *)
Definition iucase_ok (c : role * role * role * string * string * string * Z * Z * Z * val * bool * val) : bool :=
  let '(ar, ur, sr, acct, user, name, now_lo, now_hi, d, tags, ok, decoded) := c in
  Bool.eqb (issue_user_ok ar ur sr) ok &&
  (if ok then
     match issue_user_claims ar ur acct user name now_lo d tags, issue_user_claims ar ur acct user name now_hi d tags with
     | Some lo, Some hi =>
         let e := get_int sch_user ["exp"] decoded in
         (get_int sch_user ["exp"] lo <=? e) && (e <=? get_int sch_user ["exp"] hi) &&
         val_eqb (canon (setp sch_user ["exp"] (VInt e) lo)) (canon decoded)   (* the claims went through Encode and Decode: nil = empty *)
     | _, _ => false
     end
   else true).
