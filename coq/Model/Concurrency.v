(* Model/Concurrency.v — threads running library operations: a shared store
   (package-level state, a shared claims object) and one private object per
   thread.  An operation run by thread t may read the shared store and read and
   write t's own object.  Interleavings are merges of the per-thread programs. *)
From JWT Require Export Base.Strings.
From Coq Require Export Permutation.

Section Threads.
  Variables Sh L Op R : Type.                (* shared store, per-thread object, operation, result *)
  Variable step : Sh -> L -> Op -> Sh * L * R.

  (* sequential run of one thread's program *)
  Fixpoint run_seq (s : Sh) (l : L) (prog : list Op) : Sh * L * list R :=
    match prog with
    | [] => (s, l, [])
    | o :: r => let '(s1, l1, x) := step s l o in
                let '(s2, l2, xs) := run_seq s1 l1 r in (s2, l2, x :: xs)
    end.

  (* the state of all threads: thread i has object, remaining program, results so far *)
  Record thread := { t_obj : L; t_prog : list Op; t_res : list R }.

  Fixpoint update {A} (n : nat) (x : A) (l : list A) : list A :=
    match l, n with
    | [], _ => []
    | _ :: r, O => x :: r
    | y :: r, S n' => y :: update n' x r
    end.

  (* one scheduler step: thread i runs its next operation (a schedule entry naming a
     finished or non-existent thread is skipped) *)
  Definition sched_step (st : Sh * list thread) (i : nat) : Sh * list thread :=
    let '(s, ts) := st in
    match nth_error ts i with
    | Some t =>
        match t_prog t with
        | o :: rest => let '(s', l', x) := step s (t_obj t) o in
                       (s', update i {| t_obj := l'; t_prog := rest; t_res := t_res t ++ [x] |} ts)
        | [] => st
        end
    | None => st
    end.
  Definition run_sched (sched : list nat) (st : Sh * list thread) : Sh * list thread := fold_left sched_step sched st.

  Definition start (objs : list L) (progs : list (list Op)) : list thread :=
    map (fun lp => {| t_obj := fst lp; t_prog := snd lp; t_res := [] |}) (combine objs progs).

  (* a schedule is complete when it runs every program to its end *)
  Definition complete (sched : list nat) (s0 : Sh) (ts : list thread) : Prop :=
    Forall (fun t => t_prog t = []) (snd (run_sched sched (s0, ts))).

  (* footprints: what a step of thread i touches *)
  Inductive loc := Shared | Obj (i : nat).
  Definition reads (i : nat) : list loc := [Shared; Obj i].
  Definition writes (i : nat) : list loc := [Obj i].
  Definition loc_eqb (a b : loc) : bool :=
    match a, b with Shared, Shared => true | Obj i, Obj j => Nat.eqb i j | _, _ => false end.
  (* two steps conflict when one writes a location the other reads or writes *)
  Definition conflict (i j : nat) : bool :=
    existsb (fun w => existsb (loc_eqb w) (reads j ++ writes j)) (writes i) ||
    existsb (fun w => existsb (loc_eqb w) (reads i ++ writes i)) (writes j).
End Threads.
