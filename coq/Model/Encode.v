(* Model/Encode.v — what Encode does to a claims object and what it writes
   (v2/claims.go doEncode / hash / serialize, the per-kind Encode and
   updateVersion, account sorting), on [val]s typed by the generated schemas. *)
From JWT Require Export Base.Codec Base.B64 Model.Kinds Model.Claims Model.Decode Gen.Schema Gen.Tables.
Open Scope string_scope.
Open Scope Z_scope.

Definition std_names : list string := ["aud"; "exp"; "jti"; "iat"; "iss"; "name"; "nbf"; "sub"].

(* the ClaimsData part of a claims value, as a value of the ClaimsData schema *)
Definition claims_data_of (k : ckind) (v : val) : val :=
  VStruct (map (fun n => match getp (schema_of k) [n] v with Some x => x | None => VStr "" end) std_names).

(* sort.Sort(a.Exports) / sort.Sort(a.Imports): by subject; null entries first *)
Definition entry_subject (t : ty) (e : val) : option string :=
  match e with
  | VPtr (Some x) => Some (get_str t ["subject"] x)
  | _ => None
  end.
Definition entry_le (t : ty) (a b : val) : bool :=
  match entry_subject t a, entry_subject t b with
  | None, _ => true
  | Some _, None => false
  | Some x, Some y => String.leb x y
  end.
Fixpoint insert_entry (t : ty) (e : val) (l : list val) : list val :=
  match l with
  | [] => [e]
  | x :: r => if entry_le t e x then e :: l else x :: insert_entry t e r
  end.
Definition sort_entries (t : ty) (v : val) : val :=
  match v with
  | VList (Some l) => VList (Some (fold_right (insert_entry t) [] l))
  | _ => v
  end.
Definition elem_ty (t : ty) (path : list string) : ty :=
  (* element struct type of a list-of-pointers field *)
  match t with
  | TStruct fs =>
      match path with
      | [a; b] =>
          match field_index_exact a fs 0 with
          | Some i => match nth_error fs i with
                      | Some (_, _, TStruct gs) =>
                          match field_index_exact b gs 0 with
                          | Some j => match nth_error gs j with
                                      | Some (_, _, TList (TPtr et)) => et
                                      | _ => TBad "not a list of pointers"
                                      end
                          | None => TBad "no such field"
                          end
                      | _ => TBad "not a struct"
                      end
          | None => TBad "no such field"
          end
      | _ => TBad "path"
      end
  | _ => TBad "not a struct"
  end.
Definition sort_field (k : ckind) (path : list string) (v : val) : val :=
  match getp (schema_of k) path v with
  | Some l => setp (schema_of k) path (sort_entries (elem_ty (schema_of k) path) l) v
  | None => v
  end.

Section Encode.
  Variable H : string -> string.        (* base32(sha512/256(.)) *)
  Variable jprint : json -> string.     (* json.Marshal's text for a tree *)

  (* the per-kind Encode up to the call of doEncode: kind stamp and account sorting *)
  Definition pre_encode (k : ckind) (v : val) : val :=
    match k with
    | KGeneric => v
    | KAccount =>
        setp sch_account ["nats"; "type"] (VStr (kind_name k))
          (sort_field k ["nats"; "imports"] (sort_field k ["nats"; "exports"] v))
    | _ => setp (schema_of k) ["nats"; "type"] (VStr (kind_name k)) v
    end.

  (* updateVersion *)
  Definition update_version (k : ckind) (v : val) : val :=
    match k with
    | KGeneric =>
        match getp sch_generic ["nats"] v with
        | Some (VMap (Some m)) => setp sch_generic ["nats"] (VMap (Some (vstore "version" (VAny (Some (JInt lib_version))) m))) v
        | _ => v       (* nil data map: nothing to stamp *)
        end
    | _ => setp (schema_of k) ["nats"; "version"] (VInt lib_version) v
    end.

  (* doEncode's stamping: issuer, issue time, id (hash of the ClaimsData with an empty id), version *)
  Definition stamp (k : ckind) (issuer : string) (now : Z) (v : val) : option val :=
    let t := schema_of k in
    let v1 := setp t ["jti"] (VStr "") (setp t ["iat"] (VInt now) (setp t ["iss"] (VStr issuer) (pre_encode k v))) in
    match enc sch_claims_data (claims_data_of k v1) with
    | None => None
    | Some j => Some (update_version k (setp t ["jti"] (VStr (H (jprint j))) v1))
    end.

  (* the token text: header . payload . signature, each unpadded base64url *)
  Variable sign : string -> string.     (* the key pair's Sign on the text *)
  Definition header_json : json := JObj [("typ", JStr token_type_jwt); ("alg", JStr alg_new)].
  Definition token_of (payload : json) : string :=
    let h := b64enc (jprint header_json) in
    let p := b64enc (jprint payload) in
    let to_sign := h ++ "." ++ p in
    to_sign ++ "." ++ b64enc (sign to_sign).

  (* Encode: None = error and empty token *)
  Definition encode (k : ckind) (gate_ok : bool) (issuer : string) (now : Z) (v : val) : option (val * string) :=
    if negb gate_ok then None
    else match stamp k issuer now v with
         | None => None
         | Some v' => match enc (schema_of k) v' with
                      | None => None
                      | Some j => Some (v', token_of j)
                      end
         end.
End Encode.

(* ---------- executable cross-check ---------- *)
(* (kind, claims before Encode, issuer, observed iat,
    fact: the JSON tree of the standard fields with an empty id, as marshalled by the harness,
    fact: base32(sha512/256(that text)) computed by the harness,
    claims after Encode) *)
Definition scase_ok (c : ckind * val * string * Z * json * string * val) : bool :=
  let '(k, v, issuer, now, ftree, fid, v') := c in
  match stamp (fun x => if (x =? "T")%string then fid else "?")
              (fun j => if json_eqb j ftree then "T" else "other") k issuer now v with
  | Some s => obs_eqb s v'
  | None => false
  end.
