(* Model/HashID.v — ActivationClaims.HashID and cleanSubject
   (v2/activation_claims.go; v2/v1compat/activation_claims.go is the same code). *)
From JWT Require Export Base.Strings Model.Subject.
Open Scope string_scope.

(* index of the first token that is "*" or ">" *)
Fixpoint find_wc (l : list string) (i : nat) : option nat :=
  match l with
  | [] => None
  | t :: r => if (t =? "*") || (t =? ">") then Some i else find_wc r (S i)
  end.

Definition clean_subject (subject : string) : string :=
  let sp := split dot subject in
  let cleaned :=
    match find_wc sp 0 with
    | None => ""
    | Some O => "_"
    | Some i => join dot (firstn i sp)
    end in
  if cleaned =? "" then subject else cleaned.

Definition preimage (iss sub imp : string) : string :=
  iss ++ "." ++ sub ++ "." ++ clean_subject imp.

Section Hash.
  (* base32(sha256(.)) — an external function; theorems hold for every H *)
  Variable H : string -> string.
  (* None = refused with an error *)
  Definition hash_id (iss sub imp : string) : option string :=
    if (iss =? "") || (sub =? "") || (imp =? "") then None
    else Some (H (preimage iss sub imp)).
End Hash.

(* ---------- executable cross-check ---------- *)
(* (issuer, subject, import subject, fact: preimage hashed by the harness's own
   SHA-256/base32, fact: that hash, observed: Some hash / None = refused) *)
Definition hcase_ok (c : string * string * string * string * string * option string) : bool :=
  let '(iss, sub, imp, fpre, fhash, obs) := c in
  let H := fun x => if x =? fpre then fhash else "?" ++ x in
  match hash_id H iss sub imp, obs with
  | None, None => true
  | Some h, Some o => (h =? o) && (preimage iss sub imp =? fpre)
  | _, _ => false
  end.
