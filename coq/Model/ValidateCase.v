(* Model/ValidateCase.v — running the validation model on an observed case:
   the claims as typed records, the external judgements as fact tables computed
   by the harness with the standard library and its own nkey decoder. *)
From JWT Require Export Model.Validate.
Open Scope string_scope.
Open Scope Z_scope.

Record facts := {
  f_roles : list (string * role);
  f_urls : list (string * url_view);
  f_cidr : list (string * bool);
  f_hhmmss : list (string * bool);
  f_tz : list (string * bool);
  f_acts : list (string * option act_view)
}.

Fixpoint slookup {A} (d : A) (l : list (string * A)) (k : string) : A :=
  match l with
  | [] => d
  | (k', v) :: r => if (k' =? k)%string then v else slookup d r k
  end.

Definition no_url : url_view := {| u_err := true; u_scheme := ""; u_host_empty := true; u_user := false; u_path := "" |}.

Inductive vclaims :=
| VCAccount (cd : claims_data) (a : account)
| VCOperator (cd : claims_data) (o : operator)
| VCUser (cd : claims_data) (u : user)
| VCActivation (cd : claims_data) (a : activation)
| VCAuthRequest (cd : claims_data) (user_nkey : string)
| VCAuthResponse (cd : claims_data) (r : auth_response)
| VCGeneric (cd : claims_data).

Definition validate (now : Z) (f : facts) (c : vclaims) : list issue :=
  let role_of := slookup RNone (f_roles f) in
  let url_of := slookup no_url (f_urls f) in
  let cidr_ok := slookup false (f_cidr f) in
  let hh := slookup false (f_hhmmss f) in
  let tz := slookup false (f_tz f) in
  let act_of := slookup None (f_acts f) in
  match c with
  | VCAccount cd a => v_account_claims now role_of url_of act_of cd a
  | VCOperator cd o => v_operator_claims now role_of url_of cd o
  | VCUser cd u => v_user_claims now role_of cidr_ok hh tz cd u
  | VCActivation cd a => v_activation_claims now role_of true cd a
  | VCAuthRequest cd k => v_auth_request now role_of cd k
  | VCAuthResponse cd r => v_auth_response now role_of cd r
  | VCGeneric cd => v_generic now cd
  end.

(* observed: IsBlocking(false), IsBlocking(true), number of issues with TimeCheck set *)
Record vcase := { vc_now : Z; vc_facts : facts; vc_claims : vclaims;
                  vc_blocking : bool; vc_blocking_t : bool; vc_time : nat }.
Definition vcase_ok (c : vcase) : bool :=
  let l := validate (vc_now c) (vc_facts c) (vc_claims c) in
  Bool.eqb (is_blocking false l) (vc_blocking c) &&
  Bool.eqb (is_blocking true l) (vc_blocking_t c) &&
  Nat.eqb (time_issues l) (vc_time c).
