(* Model/Revocation.v — RevocationList (v2/revocation_list.go) and its wrappers
   on AccountClaims / Export.  A Go map is an association list with distinct
   keys; the list order stands for "the iteration order the runtime picked",
   and theorems quantify over it. *)
From JWT Require Export Base.Strings.
From Coq Require Export Permutation.
Open Scope string_scope.
Open Scope Z_scope.

Definition rmap := list (string * Z).
Definition ALL : string := "*".

Fixpoint lookup (k : string) (m : rmap) : option Z :=
  match m with
  | [] => None
  | (k', v) :: r => if String.eqb k' k then Some v else lookup k r
  end.
Fixpoint remove (k : string) (m : rmap) : rmap :=
  match m with
  | [] => []
  | (k', v) :: r => if String.eqb k' k then remove k r else (k', v) :: remove k r
  end.
(* m[k] = v : overwrite in place, or a new entry (where it lands in the
   iteration order is irrelevant: theorems are stated up to permutation) *)
Fixpoint store (k : string) (v : Z) (m : rmap) : rmap :=
  match m with
  | [] => [(k, v)]
  | (k', v') :: r => if String.eqb k' k then (k, v) :: r else (k', v') :: store k v r
  end.

(* RevocationList.Revoke(pubKey, timestamp) with newTS = timestamp.Unix() *)
Definition revoke (k : string) (newTS : Z) (m : rmap) : rmap :=
  match lookup k m with
  | Some ts => if newTS <? ts then m else store k newTS m
  | None => store k newTS m
  end.

(* RevocationList.ClearRevocation *)
Definition clear (k : string) (m : rmap) : rmap := remove k m.

(* RevocationList.MaybeCompact: returns (map afterwards, deleted entries in iteration order) *)
Definition covered (ats : Z) (e : string * Z) : bool :=
  negb (String.eqb (fst e) ALL) && (snd e <=? ats).
Definition compact (m : rmap) : rmap * list (string * Z) :=
  match lookup ALL m with
  | None => (m, [])
  | Some ats => (filter (fun e => negb (covered ats e)) m, filter (covered ats) m)
  end.

(* RevocationList.allRevoked / IsRevoked, t = timestamp.Unix() *)
Definition all_revoked (m : rmap) (t : Z) : bool :=
  match lookup ALL m with Some ts => t <=? ts | None => false end.
Definition is_revoked (m : rmap) (k : string) (t : Z) : bool :=
  all_revoked m t ||
  match lookup k m with Some ts => t <=? ts | None => false end.

(* ---------- wrappers: AccountClaims / Export hold a possibly-nil map ---------- *)
Definition holder := option rmap.     (* None = nil map *)
Definition h_map (h : holder) : rmap := match h with Some m => m | None => [] end.

Definition h_revoke_at (k : string) (t : Z) (h : holder) : holder := Some (revoke k t (h_map h)).
Definition h_clear (k : string) (h : holder) : holder :=
  match h with None => None | Some m => Some (clear k m) end.   (* delete on a nil map is a no-op *)
Definition h_compact (h : holder) : holder * list (string * Z) :=
  match h with None => (None, []) | Some m => let '(m', d) := compact m in (Some m', d) end.
Definition h_is_revoked (h : holder) (k : string) (t : Z) : bool := is_revoked (h_map h) k t.

(* IsClaimRevoked(claim): claim = None (nil) or Some (subject, issued-at) *)
Definition is_claim_revoked (h : holder) (claim : option (string * Z)) : bool :=
  match claim with
  | None => true
  | Some (sub, iat) => if (iat =? 0) || (sub =? "")%string then true else h_is_revoked h sub iat
  end.

(* ---------- histories ---------- *)
Inductive op := Revoke (k : string) (t : Z) | Clear (k : string) | Compact.

Definition step (h : holder) (o : op) : holder :=
  match o with
  | Revoke k t => h_revoke_at k t h
  | Clear k => h_clear k h
  | Compact => fst (h_compact h)
  end.
Definition run (ops : list op) (h : holder) : holder := fold_left step ops h.

(* ---------- the specification: surviving revocation time per key ---------- *)
Definition fmap := string -> option Z.
Definition fempty : fmap := fun _ => None.
Definition spec_step (f : fmap) (o : op) : fmap :=
  match o with
  | Revoke k t => fun x => if (x =? k)%string
                           then Some (match f k with Some ts => Z.max ts t | None => t end)
                           else f x
  | Clear k => fun x => if (x =? k)%string then None else f x
  | Compact => match f ALL with
               | None => f
               | Some a => fun x => if (x =? ALL)%string then f x
                                    else match f x with
                                         | Some ts => if ts <=? a then None else Some ts
                                         | None => None
                                         end
               end
  end.
Definition surviving (ops : list op) : fmap := fold_left spec_step ops fempty.

Definition spec_answer (f : fmap) (k : string) (t : Z) : bool :=
  match f ALL with Some ts => t <=? ts | None => false end ||
  match f k with Some ts => t <=? ts | None => false end.

Definition wf (m : rmap) : Prop := NoDup (map fst m).

(* ---------- executable cross-check for the correspondence cases ---------- *)
(* a case: history, observed final map (sorted by key), list of (key, time, answer),
   and for the last Compact of the history (if any) the sorted deleted entries — checked per step *)
Fixpoint insert_sorted (e : string * Z) (l : list (string * Z)) : list (string * Z) :=
  match l with
  | [] => [e]
  | x :: r => if String.leb (fst e) (fst x) then e :: l else x :: insert_sorted e r
  end.
Definition sort_entries (l : list (string * Z)) := fold_right insert_sorted [] l.

Fixpoint entries_eqb (a b : list (string * Z)) : bool :=
  match a, b with
  | [], [] => true
  | (k1, v1) :: r1, (k2, v2) :: r2 => (k1 =? k2)%string && (v1 =? v2) && entries_eqb r1 r2
  | _, _ => false
  end.

(* Encode followed by Decode, as far as a revocation map is concerned: the entries
   survive unchanged (JSON object, keys sorted by the encoder, any order after
   decoding); an empty map is omitted from the token and comes back as a nil map *)
Definition codec (h : holder) : holder :=
  match h with Some [] => None | _ => h end.

Inductive xop := Plain (o : op) | Codec.

(* run while collecting what every Compact deleted (sorted) *)
Fixpoint run_obs (ops : list xop) (h : holder) : holder * list (list (string * Z)) :=
  match ops with
  | [] => (h, [])
  | Plain Compact :: r => let '(h', d) := h_compact h in
                          let '(hf, ds) := run_obs r h' in (hf, sort_entries d :: ds)
  | Plain o :: r => run_obs r (step h o)
  | Codec :: r => run_obs r (codec h)
  end.

Fixpoint lists_eqb (a b : list (list (string * Z))) : bool :=
  match a, b with
  | [], [] => true
  | x :: r1, y :: r2 => entries_eqb x y && lists_eqb r1 r2
  | _, _ => false
  end.

Record rcase := {
  rc_ops : list xop;
  rc_final_nil : bool;                       (* the map is nil afterwards *)
  rc_final : list (string * Z);              (* map contents, sorted by key *)
  rc_deleted : list (list (string * Z));     (* per Compact, sorted *)
  rc_queries : list (string * Z * bool);     (* IsRevoked(key, time) = answer *)
  rc_claims : list (option (string * Z) * bool)  (* IsClaimRevoked(claim) = answer *)
}.
Definition rcase_ok (c : rcase) : bool :=
  let '(h, ds) := run_obs (rc_ops c) None in
  Bool.eqb (match h with None => true | Some _ => false end) (rc_final_nil c)
  && entries_eqb (sort_entries (h_map h)) (rc_final c)
  && lists_eqb ds (rc_deleted c)
  && forallb (fun q => let '(k, t, a) := q in Bool.eqb (h_is_revoked h k t) a) (rc_queries c)
  && forallb (fun q => Bool.eqb (is_claim_revoked h (fst q)) (snd q)) (rc_claims c).
