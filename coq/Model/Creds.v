(* Model/Creds.v — credentials files (v2/creds_utils.go): formatJwt, DecorateSeed,
   FormatUserConfig, ParseDecoratedJWT, ParseDecoratedNKey, ParseDecoratedUserNKey.
   The regular expression is the one generated from the code (Gen/CredsRe.v);
   what Decode says about a token's kind and what nkeys.FromSeed says about a
   seed are facts supplied from outside. *)
From JWT Require Export Base.Strings Base.Regex Gen.CredsRe.
Open Scope string_scope.

Definition nl : string := String "010" "".

(* formatJwt(kind, jwt) *)
Definition format_jwt (kind tok : string) : string :=
  "-----BEGIN NATS " ++ to_upper kind ++ " JWT-----" ++ nl ++ tok ++ nl ++
  "------END NATS " ++ to_upper kind ++ " JWT------" ++ nl ++ nl.

(* DecorateSeed(seed): None = error *)
Definition seed_kind (ts : string) : option string :=
  if Nat.ltb (String.length ts) 2 then None
  else let pre := substring 0 2 ts in
       if pre =? "SU" then Some "USER" else if pre =? "SA" then Some "ACCOUNT"
       else if pre =? "SO" then Some "OPERATOR" else None.
Definition decorate_seed (seed : string) : option string :=
  let ts := trim_space seed in
  match seed_kind ts with
  | None => None
  | Some kind =>
      Some ("************************* IMPORTANT *************************" ++ nl ++
            "NKEY Seed printed below can be used to sign and prove identity." ++ nl ++
            "NKEYs are sensitive and should be treated as secrets." ++ nl ++ nl ++
            "-----BEGIN " ++ kind ++ " NKEY SEED-----" ++ nl ++ ts ++ nl ++
            "------END " ++ kind ++ " NKEY SEED------" ++ nl ++ nl ++
            "*************************************************************" ++ nl)
  end.

(* FormatUserConfig(jwt, seed): decoded_kind = what Decode + ClaimType say (None = does not decode) *)
Definition format_user_config (decoded_kind : option string) (tok seed : string) : option string :=
  match decoded_kind with
  | Some "user" =>
      if has_prefix "SU" (trim_space seed)
      then match decorate_seed seed with Some d => Some (format_jwt "user" tok ++ d) | None => None end
      else None
  | _ => None
  end.
(* DecorateJWT(jwt) *)
Definition decorate_jwt (decoded_kind : option string) (tok : string) : option string :=
  match decoded_kind with Some k => Some (format_jwt k tok) | None => None end.

(* ParseDecoratedJWT(contents) *)
Definition parse_decorated_jwt (contents : string) : string :=
  match find_all creds_re contents with
  | [] => contents
  | it :: _ => cap 1 it
  end.

(* ParseDecoratedNKey(contents): the seed text handed to nkeys.FromSeed; None = error before that *)
Definition lf : ascii := "010"%char.
Definition seed_prefixed (s : string) : bool := has_prefix "SO" s || has_prefix "SA" s || has_prefix "SU" s.
Definition parse_decorated_seed (contents : string) : option string :=
  let seed :=
    match find_all creds_re contents with
    | _ :: it :: _ => Some (cap 1 it)
    | _ => find (fun line => seed_prefixed (trim_space line)) (split lf contents)
    end in
  match seed with
  | None => None
  | Some s => if seed_prefixed s then Some s else None
  end.
(* ParseDecoratedUserNKey: additionally the seed must be a user seed *)
Definition parse_decorated_user_seed (contents : string) : option string :=
  match parse_decorated_seed contents with
  | Some s => if has_prefix "SU" s then Some s else None
  | None => None
  end.

(* the alphabet of tokens and seeds: [A-Za-z0-9_\-.=] *)
Definition tok_cls : cls := [(45, 46); (48, 57); (61, 61); (65, 90); (95, 95); (97, 122)].
Fixpoint all_in (c : cls) (s : string) : bool :=
  match s with EmptyString => true | String ch r => in_cls c ch && all_in c r end.

(* ---------- executable cross-check ---------- *)
Inductive crcase :=
| CRParseJWT (contents : string) (obs : string)                       (* ParseDecoratedJWT *)
| CRParseSeed (contents : string) (obs : option (option string))       (* None: error before nkeys.FromSeed; Some None: FromSeed refused
                                                                          the extracted text; Some (Some s): key pair with seed s *)
| CRFormat (kind : option string) (tok seed : string) (obs : option string)   (* FormatUserConfig *)
| CRDecorate (kind : option string) (tok : string) (obs : option string)      (* DecorateJWT *)
| CRSeed (seed : string) (obs : option string).                        (* DecorateSeed *)
Definition ostr_eqb (a b : option string) : bool :=
  match a, b with Some x, Some y => x =? y | None, None => true | _, _ => false end.
Definition crcase_ok (c : crcase) : bool :=
  match c with
  | CRParseJWT s obs => parse_decorated_jwt s =? obs
  | CRParseSeed s obs => match parse_decorated_seed s, obs with
                         | None, None => true
                         | Some x, Some (Some o) => x =? o
                         | Some _, Some None => true
                         | _, _ => false
                         end
  | CRFormat k t s obs => ostr_eqb (format_user_config k t s) obs
  | CRDecorate k t obs => ostr_eqb (decorate_jwt k t) obs
  | CRSeed s obs => ostr_eqb (decorate_seed s) obs
  end.
