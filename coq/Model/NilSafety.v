(* Model/NilSafety.v — the places where the library indexes a slice or string,
   dereferences a list entry, or stores into a map that decoding may have left
   nil, mirrored with PARTIAL primitives: indexing out of range, dereferencing
   nil and storing into a nil map yield [Panic].  The theorems (Properties/C11.v)
   say that no input reaches a Panic. *)
From JWT Require Export Base.Strings Model.Subject.
Open Scope string_scope.

Inductive result (A : Type) := Ok (a : A) | Panic (site : string).
Arguments Ok {A} a.
Arguments Panic {A} site.
Definition bind {A B} (r : result A) (f : A -> result B) : result B :=
  match r with Ok a => f a | Panic s => Panic s end.
Notation "x <- r ;; k" := (bind r (fun x => k)) (at level 61, r at next level, right associativity).
Definition is_ok {A} (r : result A) : bool := match r with Ok _ => true | Panic _ => false end.

(* ---------- the partial primitives ---------- *)
Definition index {A} (site : string) (l : list A) (i : nat) : result A :=          (* l[i] *)
  match nth_error l i with Some x => Ok x | None => Panic site end.
Definition char_at (site : string) (s : string) (i : nat) : result ascii :=         (* s[i] *)
  match String.get i s with Some c => Ok c | None => Panic site end.
Definition slice_to {A} (site : string) (l : list A) (i : nat) : result (list A) :=  (* l[:i] *)
  if Nat.leb i (List.length l) then Ok (firstn i l) else Panic site.
Definition str_slice (site : string) (s : string) (lo hi : nat) : result string :=   (* s[lo:hi] *)
  if Nat.leb lo hi && Nat.leb hi (String.length s) then Ok (substring lo (hi - lo) s) else Panic site.
Definition deref {A} (site : string) (p : option A) : result A :=                    (* *p / p.f *)
  match p with Some x => Ok x | None => Panic site end.
Definition map_store {K V} (site : string) (m : option (list (K * V))) (k : K) (v : V) : result (list (K * V)) :=
  match m with Some l => Ok ((k, v) :: l) | None => Panic site end.                  (* m[k] = v on a possibly nil map *)

(* ---------- Subject.IsContainedIn: otherArray[len-1], myArray[ind] ---------- *)
Fixpoint ns_contained_loop (other my : list string) (ind : nat) (n_other : nat) : result bool :=
  match other with
  | [] => Ok true
  | tok :: orest =>
      myTok <- index "IsContainedIn: myArray[ind]" my ind ;;
      if Nat.eqb ind (n_other - 1) && (tok =? ">") then Ok true
      else if negb (tok =? myTok) && (negb (tok =? "*") || (myTok =? ">")) then Ok false
      else ns_contained_loop orest my (S ind) n_other
  end.
Definition ns_is_contained_in (s o : string) : result bool :=
  let oa := split dot o in let ma := split dot s in
  lst <- index "IsContainedIn: otherArray[len-1]" oa (List.length oa - 1) ;;
  if Nat.ltb (List.length oa) (List.length ma) && negb (lst =? ">") then Ok false
  else if Nat.ltb (List.length ma) (List.length oa) then Ok false
  else ns_contained_loop oa ma 0 (List.length oa).

(* ---------- Subject.Validate: v[0], v[len(v)-1] ---------- *)
Definition ns_subject_validate (v : string) : result nat :=         (* number of issues *)
  if v =? "" then Ok 1%nat
  else
    c0 <- char_at "Subject.Validate: v[0]" v 0 ;;
    cl <- char_at "Subject.Validate: v[len(v)-1]" v (String.length v - 1) ;;
    Ok ((if contains " " v then 1 else 0) + (if Ascii.eqb c0 dot || Ascii.eqb cl dot then 1 else 0)
        + (if contains ".." v then 1 else 0))%nat.

(* ---------- Export.Validate: token[AccountTokenPosition-1] ---------- *)
Definition ns_export_token_position (subject : string) (atp : nat) : result nat :=
  if Nat.ltb 0 atp then
    if negb (has_wildcards subject) then Ok 1%nat
    else let token := split dot subject in
         if Nat.ltb (List.length token) atp then Ok 1%nat
         else tk <- index "Export.Validate: token[AccountTokenPosition-1]" token (atp - 1) ;;
              Ok (if String.eqb tk "*" then 0%nat else 1%nat)
  else Ok 0%nat.

(* ---------- RenamingSubject.Validate / ToSubject: tk[0], tk[1:] ---------- *)
Definition ns_ref_token (tk : string) : result (option string) :=
  if Nat.ltb (String.length tk) 2 then Ok None
  else c <- char_at "RenamingSubject: tk[0]" tk 0 ;;
       if Ascii.eqb c "$"%char
       then r <- str_slice "RenamingSubject: tk[1:]" tk 1 (String.length tk) ;; Ok (Some r)
       else Ok None.
Fixpoint ns_refs (toks : list string) : result (list string) :=
  match toks with
  | [] => Ok []
  | tk :: r => x <- ns_ref_token tk ;; rest <- ns_refs r ;;
               Ok (match x with Some s => s :: rest | None => rest end)
  end.
Definition ns_renaming (v : string) : result (list string) := ns_refs (split dot v).

(* ---------- RenamingSubject.ToSubject: `len(tk) > 1 && tk[0] == '$'` ---------- *)
Definition ns_to_subject_token (tk : string) : result bool :=
  if Nat.ltb 1 (String.length tk)
  then c <- char_at "ToSubject: tk[0]" tk 0 ;; Ok (Ascii.eqb c "$"%char)
  else Ok false.
Fixpoint ns_to_subject_toks (toks : list string) : result nat :=      (* number of tokens starting with $ *)
  match toks with
  | [] => Ok 0%nat
  | tk :: r => b <- ns_to_subject_token tk ;; n <- ns_to_subject_toks r ;; Ok (if b then S n else n)
  end.
Definition ns_to_subject (s : string) : result nat :=
  if negb (contains "$" s) then Ok 0%nat else ns_to_subject_toks (split dot s).

(* ---------- cleanSubject: split[:i] ---------- *)
Fixpoint ns_find_wc (l : list string) (i : nat) : option nat :=
  match l with [] => None | t :: r => if (t =? "*") || (t =? ">") then Some i else ns_find_wc r (S i) end.
Definition ns_clean_subject (subject : string) : result string :=
  let sp := split dot subject in
  match ns_find_wc sp 0 with
  | None => Ok subject
  | Some O => Ok "_"
  | Some i => pre <- slice_to "cleanSubject: split[:i]" sp i ;;
              let c := join dot pre in Ok (if c =? "" then subject else c)
  end.

(* ---------- lists of entries decoded from JSON: null entries are nil pointers ---------- *)
(* an export / import as far as these loops look at it: its subject (and service flag) *)
Definition entry := option (string * bool).

(* Exports.Validate / Imports.Validate: `if v == nil { ...; continue }` before any use *)
Fixpoint ns_entries_validate (l : list entry) : result nat :=
  match l with
  | [] => Ok 0%nat
  | None :: r => n <- ns_entries_validate r ;; Ok (S n)
  | Some e :: r => e' <- deref "Exports/Imports.Validate: v" (Some e) ;; n <- ns_entries_validate r ;; Ok n
  end.
(* Account.Validate, wildcard loop: `if ex != nil && ex.Subject.HasWildCards()` *)
Fixpoint ns_wildcard_loop (l : list entry) : result nat :=
  match l with
  | [] => Ok 0%nat
  | p :: r =>
      n <- ns_wildcard_loop r ;;
      match p with
      | None => Ok n
      | Some _ => e <- deref "Account.Validate: ex.Subject" p ;; Ok (if has_wildcards (fst e) then S n else n)
      end
  end.
(* Exports.HasExportContainingSubject: `if s != nil && subject.IsContainedIn(s.Subject)` *)
Fixpoint ns_has_export_containing (subject : string) (l : list entry) : result bool :=
  match l with
  | [] => Ok false
  | p :: r =>
      match p with
      | None => ns_has_export_containing subject r
      | Some _ => e <- deref "HasExportContainingSubject: s.Subject" p ;;
                  b <- ns_is_contained_in subject (fst e) ;;
                  if b then Ok true else ns_has_export_containing subject r
      end
  end.
(* Exports.Less / Imports.Less as used by sort.Sort in Encode: nil entries compared without dereference *)
Definition ns_less (a b : entry) : result bool :=
  match a, b with
  | None, None => Ok false
  | None, Some _ => Ok true
  | Some _, None => Ok false
  | Some _, Some _ => x <- deref "Less: e[i].Subject" a ;; y <- deref "Less: e[j].Subject" b ;;
                      Ok (negb (String.leb (fst y) (fst x)))
  end.
Fixpoint ns_insert (e : entry) (l : list entry) : result (list entry) :=
  match l with
  | [] => Ok [e]
  | x :: r => lt <- ns_less e x ;; if lt then Ok (e :: l) else (r' <- ns_insert e r ;; Ok (x :: r'))
  end.
Fixpoint ns_sort (l : list entry) : result (list entry) :=
  match l with [] => Ok [] | e :: r => s <- ns_sort r ;; ns_insert e s end.

(* ---------- maps that decoding may leave nil ---------- *)
Definition gomap := option (list (string * string)).
(* DecodeGeneric, v1 header: `if Data == nil { Data = make(...) }` then Data["type"] = ..., Data["tags"] = ... *)
Definition ns_rehome (data : gomap) (tp : string) (has_tags : bool) : result gomap :=
  let data := match data with None => Some [] | d => d end in
  d1 <- (if negb (tp =? "") then (m <- map_store "DecodeGeneric: Data[type]" data "type" tp ;; Ok (Some m)) else Ok data) ;;
  d2 <- (if has_tags then (m <- map_store "DecodeGeneric: Data[tags]" d1 "tags" "" ;; Ok (Some m)) else Ok d1) ;;
  Ok d2.
(* Account.AddMapping: `if a.Mappings == nil { a.Mappings = Mapping{} }` then a.Mappings[sub] = to *)
Definition ns_add_mapping (m : gomap) (sub : string) : result gomap :=
  let m := match m with None => Some [] | x => x end in
  l <- map_store "AddMapping: a.Mappings[sub]" m sub "" ;; Ok (Some l).
(* RevokeAt: `if Revocations == nil { Revocations = RevocationList{} }` then r[pubKey] = ts; ClearRevocation: delete on nil is a no-op *)
Definition ns_revoke_at (m : gomap) (k : string) : result gomap :=
  let m := match m with None => Some [] | x => x end in
  l <- map_store "Revoke: r[pubKey]" m k "" ;; Ok (Some l).
Definition ns_clear_revocation (m : gomap) (k : string) : result gomap :=
  Ok (match m with None => None | Some l => Some (filter (fun e => negb (fst e =? k)) l) end).

(* ---------- DecorateSeed: ts[0:2] after the length test ---------- *)
Definition ns_decorate_seed (seed : string) : result (option string) :=   (* Some kind / None = error *)
  let ts := trim_space seed in
  if Nat.ltb (String.length ts) 2 then Ok None
  else pre <- str_slice "DecorateSeed: ts[0:2]" ts 0 2 ;;
       Ok (if pre =? "SU" then Some "USER" else if pre =? "SA" then Some "ACCOUNT"
           else if pre =? "SO" then Some "OPERATOR" else None).

(* ---------- ParseDecoratedJWT / ParseDecoratedNKey: items[0][1], items[1][1] ---------- *)
(* items = the submatch lists FindAllSubmatch returned *)
Definition ns_parse_decorated_jwt (contents : string) (items : list (list string)) : result string :=
  if Nat.eqb (List.length items) 0 then Ok contents
  else it <- index "ParseDecoratedJWT: items[0]" items 0 ;; index "ParseDecoratedJWT: items[0][1]" it 1.
Definition ns_parse_decorated_nkey (items : list (list string)) : result (option string) :=
  if Nat.ltb 1 (List.length items)
  then it <- index "ParseDecoratedNKey: items[1]" items 1 ;; s <- index "ParseDecoratedNKey: items[1][1]" it 1 ;; Ok (Some s)
  else Ok None.

(* ---------- nil claims ---------- *)
Definition ns_did_sign (c : option (string * string)) (id : string) : result bool :=
  match c with
  | None => Ok false
  | Some _ => x <- deref "DidSign: c.Claims()" c ;; Ok (fst x =? id)
  end.
Definition ns_is_claim_revoked (c : option (string * nat)) : result bool :=
  match c with
  | None => Ok true
  | Some _ => x <- deref "IsClaimRevoked: claim.IssuedAt" c ;; Ok (Nat.eqb (snd x) 0 || (fst x =? ""))
  end.

(* ---------- executable cross-check ---------- *)
Inductive nscase :=
| NSContained (s o : string) (obs : bool)
| NSSubject (v : string)
| NSTokenPos (subject : string) (atp : nat)
| NSRenaming (v : string)
| NSClean (s : string) (obs : string)
| NSEntries (subject : string) (l : list entry)
| NSSeed (seed : string) (obs_err : bool)
| NSRehome (nil_map : bool) (tp : string) (tags : bool).
Definition nscase_ok (c : nscase) : bool :=
  match c with
  | NSContained s o obs => match ns_is_contained_in s o with Ok b => Bool.eqb b obs | Panic _ => false end
  | NSSubject v => is_ok (ns_subject_validate v)
  | NSTokenPos s n => is_ok (ns_export_token_position s n)
  | NSRenaming v => is_ok (ns_renaming v) && is_ok (ns_to_subject v)
  | NSClean s obs => match ns_clean_subject s with Ok r => r =? obs | Panic _ => false end
  | NSEntries subj l => is_ok (ns_entries_validate l) && is_ok (ns_wildcard_loop l)
                        && is_ok (ns_has_export_containing subj l) && is_ok (ns_sort l)
  | NSSeed seed obs_err => match ns_decorate_seed seed with
                           | Ok r => Bool.eqb (match r with None => true | Some _ => false end) obs_err
                           | Panic _ => false end
  | NSRehome nil_map tp tags => is_ok (ns_rehome (if nil_map then None else Some []) tp tags)
  end.
