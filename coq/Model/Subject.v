(* Model/Subject.v — Subject.IsContainedIn and Subject.HasWildCards
   (v2/types.go; the v1compat copy is identical), mirrored decision for
   decision, plus the NATS matching semantics they are compared with. *)
From JWT Require Export Base.Strings.
Open Scope string_scope.

Definition is_nil {A} (l : list A) : bool := match l with [] => true | _ => false end.

(* ---------- the code ---------- *)

(* the body of the [for ind, tok := range otherArray] loop *)
Fixpoint contained_loop (other my : list string) : bool :=
  match other with
  | [] => true
  | tok :: orest =>
      match my with
      | [] => false (* index out of range; excluded by the length tests before the loop *)
      | myTok :: mrest =>
          if is_nil orest && (tok =? ">") then true
          else if negb (tok =? myTok) && (negb (tok =? "*") || (myTok =? ">")) then false
          else contained_loop orest mrest
      end
  end.

Definition contained_toks (my other : list string) : bool :=
  if (length other <? length my)%nat && negb (last other "" =? ">") then false
  else if (length my <? length other)%nat then false
  else contained_loop other my.

(* s.IsContainedIn(o) *)
Definition is_contained_in (s o : string) : bool :=
  contained_toks (split dot s) (split dot o).

(* s.HasWildCards() *)
Definition has_wildcards (v : string) : bool :=
  has_suffix ".>" v || contains ".*." v || has_suffix ".*" v || has_prefix "*." v
  || (v =? "*") || (v =? ">").

(* ---------- the semantics (NATS token rules) ---------- *)

(* a valid subject: at least one token, no empty token, ">" only as last token *)
Fixpoint valid_toks (l : list string) : bool :=
  match l with
  | [] => false
  | [t] => negb (t =? "")
  | t :: r => negb (t =? "") && negb (t =? ">") && valid_toks r
  end.
Definition valid_subject (s : string) : bool := valid_toks (split dot s).

(* a concrete (literal) subject: non-empty list of non-empty, dot-free tokens, none a wildcard *)
Definition lit_tok (t : string) : bool :=
  negb (t =? "") && negb (t =? "*") && negb (t =? ">") && sep_free dot t.
Definition literal (l : list string) : Prop := l <> [] /\ Forall (fun t => lit_tok t = true) l.

(* pattern [pat] matches the literal [lit]:  * = exactly one token, trailing > = one or more *)
Fixpoint matches (pat lit : list string) : bool :=
  match pat with
  | [] => is_nil lit
  | p :: ps =>
      match lit with
      | [] => false
      | l :: ls =>
          if (p =? ">") && is_nil ps then true
          else ((p =? "*") || (p =? l)) && matches ps ls
      end
  end.

Definition subject_matches (s : string) (lit : list string) : bool := matches (split dot s) lit.

(* ---------- executable cross-check used by the correspondence cases ---------- *)
(* one observed case: subject, other, IsContainedIn(subject, other), HasWildCards(subject) *)
Definition case_ok (c : string * string * bool * bool) : bool :=
  let '(s, o, r_in, r_wc) := c in
  Bool.eqb (is_contained_in s o) r_in && Bool.eqb (has_wildcards s) r_wc.
