(* Model/Catalogue.v — the CATALOGUE of C06 (DESIGN.md section 5.6): for every
   Validate method, the decidable predicate "some catalogued rule fires",
   written from the rules and parameterised by the same external judgements as
   Model/Validate.v.  The statements relating it to the model are in
   Properties/C06.v, their proofs in Proofs/Validate.v. *)
From JWT Require Export Model.Validate.
Open Scope string_scope.
Open Scope Z_scope.

Section Catalogue.
  Variable role_of : string -> role.
  Variable url_of : string -> url_view.
  Variable cidr_ok : string -> bool.
  Variable hhmmss_ok : string -> bool.
  Variable tz_ok : string -> bool.
  Variable act_of : string -> option act_view.
  Notation is_key r k := (role_eqb (role_of k) r).

  (* S: empty; contains a space; starts or ends with "."; contains ".." *)
  Definition subject_bad (s : string) : bool :=
    (s =? "")%string || contains " " s || is_dot (str_first s) || is_dot (str_last s) || contains ".." s.

  (* E12 / account info *)
  Definition info_bad (desc url : string) : bool :=
    (8192 <? Z.of_nat (String.length desc)) ||
    (negb (url =? "")%string &&
     ((8192 <? Z.of_nat (String.length url)) ||
      u_err (url_of url) || u_host_empty (url_of url) || (u_scheme (url_of url) =? "")%string)).

  Definition service t := t =? 2.
  Definition stream t := t =? 1.

  (* E0 .. E12 for one export entry *)
  Definition export_bad (oe : option export) : bool :=
    match oe with
    | None => true                                                               (* E0 *)
    | Some e =>
        let t := ex_type e in let rt := ex_response_type e in
        (negb (service t) && negb (stream t))                                    (* E1 *)
        || (service t && negb (existsb (fun x => (x =? rt)%string) [""; "Singleton"; "Stream"; "Chunked"]))  (* E2 *)
        || (stream t && negb (rt =? "")%string)                                  (* E3 *)
        || (stream t && ex_allow_trace e)                                        (* E4 *)
        || match ex_latency e with
           | Some l => negb (service t)                                          (* E5 *)
                       || (negb (lat_sampling l =? 0) && ((lat_sampling l <? 1) || (100 <? lat_sampling l)))  (* E6 *)
                       || subject_bad (lat_results l) || has_wildcards (lat_results l)                        (* E7 *)
           | None => false
           end
        || (ex_threshold e <? 0)                                                 (* E8 *)
        || ((0 <? ex_threshold e) && negb (service t))                           (* E9 *)
        || subject_bad (ex_subject e)                                            (* E10 *)
        || ((0 <? ex_atp e) &&                                                   (* E11 *)
            (negb (has_wildcards (ex_subject e))
             || (Z.of_nat (List.length (split dot (ex_subject e))) <? ex_atp e)
             || negb (nth (Z.to_nat (ex_atp e - 1)) (split dot (ex_subject e)) "" =? "*")%string))
        || info_bad (ex_desc e) (ex_url e)                                       (* E12 *)
    end.

  (* E13: two exports of the same class, at different positions, one contained in the other *)
  Definition overlap (subjects : list string) : bool :=
    existsb (fun i => existsb (fun j => negb (Nat.eqb i j) &&
                                        is_contained_in (nth i subjects "") (nth j subjects ""))
                              (seq 0 (List.length subjects)))
            (seq 0 (List.length subjects)).
  Definition class_subjects (svc : bool) (l : list (option export)) : list string :=
    flat_map (fun oe => match oe with
                        | Some e => if Bool.eqb (service (ex_type e)) svc then [ex_subject e] else []
                        | None => [] end) l.
  Definition exports_bad (l : list (option export)) : bool :=
    existsb export_bad l || overlap (class_subjects true l) || overlap (class_subjects false l).

  (* I5: local subject rules *)
  Definition gt_suffix (s : string) : bool := (s =? ">")%string || has_suffix ".>" s.
  Definition stars (s : string) : Z := count_wild_tokens s.
  Definition refs (v : string) : list Z :=            (* the $n references of a local subject *)
    flat_map (fun tk => match ref_token tk with Some n => [n] | None => [] end) (split dot v).
  Definition local_bad (v from : string) : bool :=
    subject_bad v || (from =? "")%string || contains " " v
    || negb (Bool.eqb (gt_suffix v) (gt_suffix from))
    || existsb (fun n => stars from <? n) (refs v)
    || negb (stars v + Z.of_nat (List.length (filter (fun n => n <=? stars from) (refs v))) =? stars from).

  (* V1 .. V3 *)
  Definition activation_bad (a : activation) : bool :=
    (negb (service (at_type a)) && negb (stream (at_type a)))
    || subject_bad (at_subject a)
    || (negb (at_issuer_account a =? "")%string && negb (is_key RAccount (at_issuer_account a))).

  (* I8, I9: the embedded activation token *)
  Definition token_bad (act_pub : string) (i : import) : bool :=
    negb (im_token i =? "")%string &&
    match act_of (im_token i) with
    | None => true                                                                           (* I8 *)
    | Some av =>
        negb ((cd_iss (av_cd av) =? im_account i)%string
              || (at_issuer_account (av_act av) =? im_account i)%string)                    (* exporter *)
        || negb (cd_sub (av_cd av) =? act_pub)%string                                        (* importer *)
        || negb (at_type (av_act av) =? im_type i)                                           (* kind *)
        || activation_bad (av_act av)                                                        (* valid *)
        || negb (is_contained_in
                   (if service (im_type i) && negb (im_to i =? "")%string then im_to i else im_subject i)
                   (at_subject (av_act av)))                                                 (* subject *)
    end.

  (* I0 .. I9 for one import entry *)
  Definition import_bad (act_pub : string) (oi : option import) : bool :=
    match oi with
    | None => true                                                               (* I0 *)
    | Some i =>
        (negb (service (im_type i)) && negb (stream (im_type i)))                (* I1 *)
        || (service (im_type i) && im_allow_trace i)                             (* I2 *)
        || (im_account i =? "")%string                                           (* I3 *)
        || subject_bad (im_subject i)                                            (* I4 *)
        || (negb (im_local i =? "")%string &&
            (local_bad (im_local i) (im_subject i) || negb (im_to i =? "")%string))   (* I5, I6 *)
        || (im_share i && negb (service (im_type i)))                            (* I7 *)
        || token_bad act_pub i                                                   (* I8, I9 *)
    end.

  (* I10: two service imports whose effective local subjects overlap *)
  Definition service_keys (l : list (option import)) : list string :=
    flat_map (fun oi => match oi with
                        | Some i => if service (im_type i) then [service_key i] else []
                        | None => [] end) l.
  Definition keys_overlap (ks : list string) : bool :=
    existsb (fun i => existsb (fun j => Nat.ltb i j &&
                                        (is_contained_in (nth j ks "") (nth i ks "")
                                         || is_contained_in (nth i ks "") (nth j ks "")))
                              (seq 0 (List.length ks)))
            (seq 0 (List.length ks)).
  Definition imports_bad (act_pub : string) (l : list (option import)) : bool :=
    existsb (import_bad act_pub) l || keys_overlap (service_keys l).

  (* P: one allow/deny entry *)
  Definition permission_entry_bad (permit_queue : bool) (s : string) : bool :=
    match split space s with
    | [a] => subject_bad a
    | [a; b] => subject_bad a || subject_bad b || negb permit_queue
    | _ => true
    end.
  Definition permissions_bad (p : permissions) : bool :=
    existsb (permission_entry_bad true) (p_allow (perm_sub p) ++ p_deny (perm_sub p))%list
    || existsb (permission_entry_bad false) (p_allow (perm_pub p) ++ p_deny (perm_pub p))%list.

  (* M1 .. M3 (true sum of the effective weights) *)
  Definition weight_sum (ws : list wmapping) : Z :=
    fold_right (fun w acc => (if wm_weight w =? 0 then 100 else wm_weight w) + acc) 0 ws.
  Definition mappings_bad (m : list (string * list wmapping)) : bool :=
    existsb (fun e => subject_bad (fst e) || existsb (fun w => subject_bad (wm_subject w)) (snd e)
                      || (100 <? weight_sum (snd e))) m.

  (* L1, L2 *)
  Definition js_nonzero (j : js_limits) : bool := existsb (fun z => negb (z =? 0)) (js_ints j) || js_flag j.
  Definition limits_bad (o : op_limits) : bool :=
    negb (is_nil (ol_tiers o)) &&
    (js_nonzero (ol_js o) || existsb (fun t => (fst t =? "")%string) (ol_tiers o)).

  (* A1 .. A4 *)
  Definition ext_auth_bad (a : ext_auth) : bool :=
    (negb (is_nil (ea_accounts a)) && is_nil (ea_users a))
    || existsb (fun u => negb (is_key RUser u)) (ea_users a)
    || existsb (fun x => if (x =? "*")%string then Nat.ltb 1 (List.length (ea_accounts a))
                         else negb (is_key RAccount x)) (ea_accounts a)
    || (negb (ea_xkey a =? "")%string && negb (is_key RCurve (ea_xkey a))).

  (* T1 .. T3 *)
  Definition trace_bad (t : trace) : bool :=
    subject_bad (tr_dest t) || has_wildcards (tr_dest t) || (tr_sampling t <? 0) || (100 <? tr_sampling t).

  (* K1, K2 *)
  Definition signing_keys_bad (l : list (string * option string)) : bool :=
    existsb (fun e => negb (is_key RAccount (match snd e with Some k => k | None => fst e end))) l.

  (* L3 .. L5 *)
  Definition counts_bad (a : account) : bool :=
    let ni := Z.of_nat (List.length (ac_imports a)) in
    let ne := Z.of_nat (List.length (ac_exports a)) in
    let lim := ac_limits a in
    (negb (ol_imports lim =? -1) && (ol_imports lim <? ni))
    || (negb (ol_exports lim =? -1) &&
        ((ol_exports lim <? ne)
         || (negb (ol_wildcards lim) &&
             existsb (fun oe => match oe with Some e => has_wildcards (ex_subject e) | None => false end) (ac_exports a)))).

  Definition account_bad (act_pub : string) (a : account) : bool :=
    imports_bad act_pub (ac_imports a) || exports_bad (ac_exports a) || limits_bad (ac_limits a)
    || permissions_bad (ac_default_perms a) || mappings_bad (ac_mappings a) || ext_auth_bad (ac_auth a)
    || match ac_trace a with Some t => trace_bad t | None => false end
    || counts_bad a || signing_keys_bad (ac_signing_keys a) || info_bad (ac_desc a) (ac_url a).

  (* O1 .. O5 *)
  Definition service_url_bad (v : string) : bool :=
    negb (v =? "")%string &&
    (u_err (url_of v) || u_user (url_of v) || negb (u_path (url_of v) =? "")%string
     || negb (existsb (fun s => (s =? to_lower (u_scheme (url_of v)))%string) ["nats"; "tls"; "ws"; "wss"])).
  Definition version_bad (s : string) : bool :=
    negb (s =? "")%string &&
    match split dot s with
    | [a; b; c] => match atoi a, atoi b, atoi c with
                   | Some x, Some y, Some z => (x <? 0) || (y <? 0) || (z <? 0)
                   | _, _, _ => true
                   end
    | _ => true
    end.
  Definition operator_bad (o : operator) : bool :=
    (negb (op_account_server_url o =? "")%string &&
     (u_err (url_of (op_account_server_url o)) || (u_scheme (url_of (op_account_server_url o)) =? "")%string))
    || existsb service_url_bad (op_service_urls o)
    || existsb (fun k => negb (is_key ROperator k)) (op_signing_keys o)
    || (negb (op_system_account o =? "")%string && negb (is_key RAccount (op_system_account o)))
    || version_bad (op_assert_version o).

  (* U1 .. U5 *)
  Definition time_range_bad (t : time_range) : bool :=
    (tr_start t =? "")%string || negb (hhmmss_ok (tr_start t)) || (tr_end t =? "")%string || negb (hhmmss_ok (tr_end t)).
  Definition user_bad (u : user) : bool :=
    permissions_bad (us_perms u)
    || existsb (fun c => negb (cidr_ok c)) (ul_src (us_limits u))
    || existsb time_range_bad (ul_times (us_limits u))
    || (negb (ul_locale (us_limits u) =? "")%string && negb (tz_ok (ul_locale (us_limits u))))
    || (negb (us_issuer_account u =? "")%string && negb (is_key RAccount (us_issuer_account u))).

  (* R1; X1 .. X5 *)
  Definition auth_request_bad (user_nkey : string) : bool :=
    (user_nkey =? "")%string || negb (is_key RUser user_nkey).
  Definition auth_response_bad (cd : claims_data) (r : auth_response) : bool :=
    negb (is_key RUser (cd_sub cd)) || negb (is_key RServer (cd_aud cd))
    || ((ar_error r =? "")%string && (ar_jwt r =? "")%string)
    || (negb (ar_error r =? "")%string && negb (ar_jwt r =? "")%string)
    || (negb (ar_issuer_account r =? "")%string && negb (is_key RAccount (ar_issuer_account r))).
End Catalogue.
