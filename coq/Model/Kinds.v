(* Model/Kinds.v — claim kinds and nkey roles shared by the models. *)
From JWT Require Export Base.Strings.

Inductive ckind := KOperator | KAccount | KUser | KActivation | KAuthRequest | KAuthResponse | KGeneric.
Definition ckind_eqb (a b : ckind) : bool :=
  match a, b with
  | KOperator, KOperator | KAccount, KAccount | KUser, KUser | KActivation, KActivation
  | KAuthRequest, KAuthRequest | KAuthResponse, KAuthResponse | KGeneric, KGeneric => true
  | _, _ => false
  end.
Definition all_kinds : list ckind :=
  [KOperator; KAccount; KUser; KActivation; KAuthRequest; KAuthResponse; KGeneric].

(* the kinds of the bundled version-1 library *)
Inductive v1kind := V1Operator | V1Account | V1User | V1Activation | V1Cluster | V1Server | V1Generic.
Definition all_v1kinds : list v1kind :=
  [V1Operator; V1Account; V1User; V1Activation; V1Cluster; V1Server; V1Generic].

(* what kind of public nkey a string is (nkeys.IsValidPublic*Key); RNone = not a valid public key *)
Inductive role := ROperator | RAccount | RUser | RServer | RCluster | RCurve | RNone.
Definition role_eqb (a b : role) : bool :=
  match a, b with
  | ROperator, ROperator | RAccount, RAccount | RUser, RUser | RServer, RServer
  | RCluster, RCluster | RCurve, RCurve | RNone, RNone => true
  | _, _ => false
  end.
Definition all_roles : list role := [ROperator; RAccount; RUser; RServer; RCluster; RCurve; RNone].

Lemma ckind_eqb_eq a b : ckind_eqb a b = true <-> a = b.
Proof. destruct a, b; simpl; split; intros H; try reflexivity; try discriminate. Qed.
Lemma role_eqb_eq a b : role_eqb a b = true <-> a = b.
Proof. destruct a, b; simpl; split; intros H; try reflexivity; try discriminate. Qed.
