(* Base/Strings.v — byte strings as Coq [string], with the few operations of
   Go's [strings] package that the jwt decision logic uses.  Definitions and
   their algebraic lemmas; no property theorem lives here. *)
From Coq Require Export String Ascii List Bool Arith ZArith Lia.
Export ListNotations.
Open Scope string_scope.

(* ---------- characters ---------- *)
Definition dot : ascii := "."%char.
Definition ascii_eqb := Ascii.eqb.

Definition is_upper (c : ascii) : bool :=
  let n := nat_of_ascii c in (Nat.leb 65 n) && (Nat.leb n 90).
Definition is_lower (c : ascii) : bool :=
  let n := nat_of_ascii c in (Nat.leb 97 n) && (Nat.leb n 122).
Definition lower_ascii (c : ascii) : ascii :=
  if is_upper c then ascii_of_nat (nat_of_ascii c + 32) else c.
Definition upper_ascii (c : ascii) : ascii :=
  if is_lower c then ascii_of_nat (nat_of_ascii c - 32) else c.
(* Go's unicode.IsSpace restricted to single bytes of valid UTF-8: \t \n \v \f \r and blank *)
Definition is_space (c : ascii) : bool :=
  let n := nat_of_ascii c in ((Nat.leb 9 n) && (Nat.leb n 13)) || (Nat.eqb n 32).

(* ---------- whole-string maps ---------- *)
Fixpoint smap (f : ascii -> ascii) (s : string) : string :=
  match s with EmptyString => EmptyString | String c r => String (f c) (smap f r) end.
Definition to_lower := smap lower_ascii.
Definition to_upper := smap upper_ascii.

Fixpoint drop_while (p : ascii -> bool) (s : string) : string :=
  match s with
  | EmptyString => EmptyString
  | String c r => if p c then drop_while p r else s
  end.
Fixpoint srev_acc (s acc : string) : string :=
  match s with EmptyString => acc | String c r => srev_acc r (String c acc) end.
Definition srev (s : string) : string := srev_acc s EmptyString.
Definition trim_space (s : string) : string :=
  srev (drop_while is_space (srev (drop_while is_space s))).

(* ---------- prefix / suffix / contains ---------- *)
Fixpoint has_prefix (p s : string) : bool :=
  match p with
  | EmptyString => true
  | String a p' => match s with
                   | EmptyString => false
                   | String b s' => Ascii.eqb a b && has_prefix p' s'
                   end
  end.
Definition has_suffix (p s : string) : bool := has_prefix (srev p) (srev s).
Fixpoint contains (p s : string) : bool :=
  has_prefix p s || match s with EmptyString => false | String _ r => contains p r end.
Fixpoint contains_char (c : ascii) (s : string) : bool :=
  match s with EmptyString => false | String a r => Ascii.eqb a c || contains_char c r end.

(* ---------- split / join on one separator character (Go: strings.Split / Join) ---------- *)
Fixpoint split (sep : ascii) (s : string) : list string :=
  match s with
  | EmptyString => [EmptyString]
  | String c r =>
      if Ascii.eqb c sep then EmptyString :: split sep r
      else match split sep r with
           | [] => [String c EmptyString]
           | h :: t => String c h :: t
           end
  end.
Fixpoint join (sep : ascii) (l : list string) : string :=
  match l with
  | [] => EmptyString
  | [x] => x
  | x :: r => x ++ String sep (join sep r)
  end.

Definition sep_free (sep : ascii) (s : string) : bool := negb (contains_char sep s).

(* ---------- lemmas ---------- *)
Lemma split_not_nil sep s : split sep s <> [].
Proof.
  destruct s as [|c r]; simpl; [discriminate|].
  destruct (Ascii.eqb c sep); [discriminate|].
  destruct (split sep r); discriminate.
Qed.

Lemma join_split sep s : join sep (split sep s) = s.
Proof.
  induction s as [|c r IH]; [reflexivity|].
  simpl. destruct (Ascii.eqb c sep) eqn:E.
  - apply Ascii.eqb_eq in E. subst c.
    destruct (split sep r) as [|h t] eqn:S; [exfalso; eapply split_not_nil; eauto|].
    change (join sep (EmptyString :: h :: t)) with (EmptyString ++ String sep (join sep (h :: t))).
    simpl in *. now rewrite IH.
  - destruct (split sep r) as [|h t] eqn:S; [exfalso; eapply split_not_nil; eauto|].
    destruct t as [|h2 t2]; simpl in *; now rewrite <- IH.
Qed.

Lemma split_sep_free sep s : sep_free sep s = true -> split sep s = [s].
Proof.
  unfold sep_free. induction s as [|c r IH]; [reflexivity|].
  simpl. destruct (Ascii.eqb c sep) eqn:E; simpl; [discriminate|].
  intros H. now rewrite (IH H).
Qed.

Lemma split_app_sep sep a b :
  sep_free sep a = true -> split sep (a ++ String sep b) = a :: split sep b.
Proof.
  unfold sep_free. induction a as [|c r IH]; simpl.
  - now rewrite Ascii.eqb_refl.
  - destruct (Ascii.eqb c sep) eqn:E; simpl; [discriminate|].
    intros H. now rewrite (IH H).
Qed.

Lemma split_join sep l :
  l <> [] -> Forall (fun t => sep_free sep t = true) l -> split sep (join sep l) = l.
Proof.
  induction l as [|x r IH]; [congruence|]. intros _ HF.
  inversion HF as [|? ? Hx Hr]; subst.
  destruct r as [|y r'].
  - simpl. now apply split_sep_free.
  - change (join sep (x :: y :: r')) with (x ++ String sep (join sep (y :: r'))).
    rewrite split_app_sep by assumption. f_equal. apply IH; [discriminate|assumption].
Qed.

Lemma split_tokens_sep_free sep s : Forall (fun t => sep_free sep t = true) (split sep s).
Proof.
  induction s as [|c r IH]; simpl.
  - constructor; [reflexivity|constructor].
  - destruct (Ascii.eqb c sep) eqn:E.
    + constructor; [reflexivity|assumption].
    + destruct (split sep r) as [|h t]; [repeat constructor; unfold sep_free; simpl; now rewrite E|].
      inversion IH; subst. constructor; [|assumption].
      unfold sep_free in *. simpl. now rewrite E.
Qed.

Lemma has_prefix_refl s : has_prefix s s = true.
Proof. induction s; simpl; [reflexivity|]. now rewrite Ascii.eqb_refl. Qed.

Lemma has_prefix_app p s : has_prefix p (p ++ s) = true.
Proof. induction p; simpl; [reflexivity|]. now rewrite Ascii.eqb_refl. Qed.

Lemma has_prefix_spec p s : has_prefix p s = true <-> exists r, s = p ++ r.
Proof.
  revert s; induction p as [|a p IH]; intros s; simpl.
  - split; [eexists; reflexivity|reflexivity].
  - destruct s as [|b s]; [split; [discriminate|intros [r H]; discriminate]|].
    rewrite andb_true_iff, Ascii.eqb_eq, IH. split.
    + intros [-> [r ->]]. now exists r.
    + intros [r H]. injection H as -> ->. split; [reflexivity|now exists r].
Qed.

Lemma sapp_assoc (a b c : string) : (a ++ b) ++ c = a ++ (b ++ c).
Proof. induction a; simpl; congruence. Qed.
Lemma sapp_nil_r (a : string) : a ++ EmptyString = a.
Proof. induction a; simpl; congruence. Qed.
Lemma slength_app (a b : string) : String.length (a ++ b) = String.length a + String.length b.
Proof. induction a; simpl; congruence. Qed.

Lemma srev_acc_app s acc : srev_acc s acc = srev s ++ acc.
Proof.
  unfold srev. revert acc. induction s as [|c r IH]; intros acc; simpl; [reflexivity|].
  rewrite IH, (IH (String c EmptyString)). now rewrite sapp_assoc.
Qed.

Lemma srev_app a b : srev (a ++ b) = srev b ++ srev a.
Proof.
  induction a as [|c r IH]; simpl.
  - unfold srev at 2. simpl. now rewrite sapp_nil_r.
  - unfold srev at 1 3. simpl. rewrite !srev_acc_app, IH. now rewrite sapp_assoc.
Qed.

Lemma srev_involutive s : srev (srev s) = s.
Proof.
  induction s as [|c r IH]; [reflexivity|].
  unfold srev at 2. simpl. rewrite srev_acc_app, srev_app, IH. reflexivity.
Qed.

Lemma has_suffix_spec p s : has_suffix p s = true <-> exists r, s = r ++ p.
Proof.
  unfold has_suffix. rewrite has_prefix_spec. split.
  - intros [r H]. exists (srev r).
    rewrite <- (srev_involutive s), H, srev_app, srev_involutive. reflexivity.
  - intros [r ->]. exists (srev r). apply srev_app.
Qed.

Lemma contains_spec p s : contains p s = true <-> exists a b, s = a ++ p ++ b.
Proof.
  induction s as [|c r IH].
  - simpl. rewrite orb_false_r, has_prefix_spec. split.
    + intros [x H]. exists EmptyString, x. exact H.
    + intros [a [b H]]. destruct a; simpl in H; [now exists b|discriminate].
  - cbn [contains]. rewrite orb_true_iff, has_prefix_spec, IH. split.
    + intros [[x H]|[a [b H]]].
      * exists EmptyString, x. exact H.
      * exists (String c a), b. simpl. now rewrite H.
    + intros [a [b H]]. destruct a as [|c' a].
      * left. now exists b.
      * right. simpl in H. injection H as -> ->. now exists a, b.
Qed.

Lemma smap_idem f : (forall c, f (f c) = f c) -> forall s, smap f (smap f s) = smap f s.
Proof. intros H s; induction s; simpl; congruence. Qed.

Lemma lower_ascii_idem c : lower_ascii (lower_ascii c) = lower_ascii c.
Proof.
  destruct c as [[] [] [] [] [] [] [] []]; vm_compute; reflexivity.
Qed.
Lemma upper_ascii_idem c : upper_ascii (upper_ascii c) = upper_ascii c.
Proof.
  destruct c as [[] [] [] [] [] [] [] []]; vm_compute; reflexivity.
Qed.
Lemma to_lower_idem s : to_lower (to_lower s) = to_lower s.
Proof. apply smap_idem, lower_ascii_idem. Qed.
Lemma to_upper_idem s : to_upper (to_upper s) = to_upper s.
Proof. apply smap_idem, upper_ascii_idem. Qed.

Lemma string_eqb_refl s : String.eqb s s = true.
Proof. apply String.eqb_eq; reflexivity. Qed.
