(* Base/CaseUtil.v — helpers for the generated correspondence case files. *)
From JWT Require Import Base.Strings.
From Coq Require Export NArith.

(* a byte string given by its byte values (for bytes that cannot sit in a literal) *)
Definition bs (l : list nat) : string := string_of_list_ascii (map ascii_of_nat l).

(* ids of the cases on which the model's answer differs from the observed one *)
Definition failing {A} (ok : A -> bool) (cases : list (N * A)) : list N :=
  map fst (filter (fun c => negb (ok (snd c))) cases).
