(* Base/Regex.v — a backtracking, leftmost-first regular-expression matcher for
   the fragment the credentials expression uses (regexp/syntax tree after
   Simplify: literals, byte classes, greedy star / plus / quest over a single
   character class, concatenation, alternation, capture groups, end of text).
   Go's regexp returns the leftmost match and, among matches starting there,
   the one a backtracking engine exploring alternatives left to right and
   repetitions greedily finds first; that is what [m] computes. *)
From JWT Require Export Base.Strings.
Open Scope string_scope.

(* a class of single bytes: inclusive ranges *)
Definition cls := list (nat * nat).
Definition in_cls (c : cls) (ch : ascii) : bool :=
  let n := nat_of_ascii ch in existsb (fun r => Nat.leb (fst r) n && Nat.leb n (snd r)) c.

Inductive re :=
| REmpty
| RChar (c : cls)
| RStar (c : cls)            (* c*  greedy *)
| RPlus (c : cls)            (* c+  greedy *)
| RQuest (c : cls)           (* c?  greedy *)
| RCat (a b : re)
| RAlt (a b : re)
| RCap (n : nat) (r : re)
| REnd                       (* \z *)
| RBad (why : string).       (* outside the fragment: never matches; makes the obligations fail *)

Definition caps := list (nat * string).

(* greedy repetition of a class with backtracking: longest first *)
Fixpoint star_greedy {A} (c : cls) (s : string) (k : string -> option A) : option A :=
  match s with
  | String ch r =>
      if in_cls c ch
      then match star_greedy c r k with Some x => Some x | None => k s end
      else k s
  | EmptyString => k s
  end.

(* the text consumed between s and its suffix rest *)
Definition consumed (s rest : string) : string := substring 0 (String.length s - String.length rest) s.

Fixpoint m {A} (r : re) (s : string) (cs : caps) (k : string -> caps -> option A) {struct r} : option A :=
  match r with
  | REmpty => k s cs
  | RChar c => match s with
               | String ch rest => if in_cls c ch then k rest cs else None
               | EmptyString => None
               end
  | RStar c => star_greedy c s (fun rest => k rest cs)
  | RPlus c => match s with
               | String ch rest => if in_cls c ch then star_greedy c rest (fun r' => k r' cs) else None
               | EmptyString => None
               end
  | RQuest c => match s with
                | String ch rest =>
                    if in_cls c ch
                    then match k rest cs with Some x => Some x | None => k s cs end
                    else k s cs
                | EmptyString => k s cs
                end
  | RCat a b => m a s cs (fun s' cs' => m b s' cs' k)
  | RAlt a b => match m a s cs k with Some x => Some x | None => m b s cs k end
  | RCap n r' => m r' s cs (fun s' cs' => k s' ((n, consumed s s') :: cs'))
  | REnd => match s with EmptyString => k s cs | _ => None end
  | RBad _ => None
  end.

(* one match anchored at the start of s: remaining text and captures *)
Definition match_here (r : re) (s : string) : option (string * caps) :=
  m r s [] (fun rest cs => Some (rest, cs)).

(* FindAllSubmatch(s, -1): successive non-overlapping leftmost matches *)
Fixpoint find_all_fuel (fuel : nat) (r : re) (s : string) : list caps :=
  match fuel with
  | O => []
  | S fuel' =>
      match match_here r s with
      | Some (rest, cs) =>
          if Nat.ltb (String.length rest) (String.length s)
          then cs :: find_all_fuel fuel' r rest
          else (* empty match: record it and move on by one character *)
            cs :: match s with String _ t => find_all_fuel fuel' r t | EmptyString => [] end
      | None => match s with String _ t => find_all_fuel fuel' r t | EmptyString => [] end
      end
  end.
Definition find_all (r : re) (s : string) : list caps := find_all_fuel (S (String.length s)) r s.

Definition cap (n : nat) (cs : caps) : string :=
  match find (fun e => Nat.eqb (fst e) n) cs with Some e => snd e | None => "" end.

Fixpoint re_ok (r : re) : bool :=
  match r with
  | RBad _ => false
  | RCat a b | RAlt a b => re_ok a && re_ok b
  | RCap _ r' => re_ok r'
  | _ => true
  end.
