(* Base/GoSem.v — the target vocabulary of the source translator (tools/globalsgen srcgen.go):
   what a translated Go function body is written in.  Integers are Z, strings are byte strings,
   slices of strings are lists (read-only use), an error is [option string] (None = nil).
   A range loop is [go_range]: the body sees the index, the element and the tuple of the outer
   variables it assigns, and answers continue / break / return.
   NOT modelled: run-time panics (an index out of range yields the zero value here), slice
   aliasing, integer overflow. *)
From JWT Require Export Base.Strings.
Open Scope string_scope.

Inductive ctl (S R : Type) : Type :=
| Cont (s : S)      (* next iteration (also: continue) *)
| Brk (s : S)       (* break *)
| Ret (r : R).      (* return r *)
Arguments Cont {S R} s.
Arguments Brk {S R} s.
Arguments Ret {S R} r.

Fixpoint go_range {A S R : Type} (body : Z -> A -> S -> ctl S R) (i : Z) (l : list A) (s : S) : S + R :=
  match l with
  | [] => inl s
  | x :: r =>
      match body i x s with
      | Cont s' => go_range body (i + 1)%Z r s'
      | Brk s' => inl s'
      | Ret v => inr v
      end
  end.

Definition go_llen {A} (l : list A) : Z := Z.of_nat (List.length l).
Definition go_slen (s : string) : Z := Z.of_nat (String.length s).
Definition go_idx (l : list string) (i : Z) : string := nth (Z.to_nat i) l "".
(* l[lo:hi] *)
Definition go_slice {A} (l : list A) (lo hi : Z) : list A :=
  firstn (Z.to_nat hi - Z.to_nat lo) (skipn (Z.to_nat lo) l).

(* a one-character constant string as the separator of strings.Split / strings.Join *)
Definition go_sep (s : string) : ascii := match s with String c _ => c | EmptyString => dot end.
Definition go_split (s sep : string) : list string := split (go_sep sep) s.
Definition go_join (l : list string) (sep : string) : string := join (go_sep sep) l.

(* a function the translator could not express carries this type, so nothing can be proved of it *)
Inductive untranslatable : Type := Untranslatable (why : string).

(* ---------- maps of strings to integers: association lists (the list order is the iteration order) ---------- *)
Fixpoint go_mlookup (m : list (string * Z)) (k : string) : option Z :=
  match m with
  | [] => None
  | (k', v) :: r => if String.eqb k' k then Some v else go_mlookup r k
  end.
(* v, ok := m[k] *)
Definition go_mget (m : list (string * Z)) (k : string) : Z * bool :=
  match go_mlookup m k with Some v => (v, true) | None => (0%Z, false) end.
(* m[k] = v *)
Fixpoint go_mset (m : list (string * Z)) (k : string) (v : Z) : list (string * Z) :=
  match m with
  | [] => [(k, v)]
  | (k', v') :: r => if String.eqb k' k then (k, v) :: r else (k', v') :: go_mset r k v
  end.
(* delete(m, k) *)
Fixpoint go_mdel (m : list (string * Z)) (k : string) : list (string * Z) :=
  match m with
  | [] => []
  | (k', v) :: r => if String.eqb k' k then go_mdel r k else (k', v) :: go_mdel r k
  end.

(* s[i] of a string: the byte as an integer (0 beyond the end: a run-time panic in Go, not modelled) *)
Fixpoint go_sbyte_nat (s : string) (n : nat) : Z :=
  match s with
  | EmptyString => 0%Z
  | String c r => match n with O => Z.of_nat (nat_of_ascii c) | S n' => go_sbyte_nat r n' end
  end.
Definition go_sbyte (s : string) (i : Z) : Z := go_sbyte_nat s (Z.to_nat i).

(* what a Validate method reports into its *ValidationResults: AddError / AddWarning / AddTimeCheck, in order;
   the texts are not kept *)
Inductive go_issue := GoError | GoWarning | GoTimeCheck.
Definition go_err_isnil (e : option string) : bool := match e with None => true | Some _ => false end.

(* arithmetic in an integer type of fewer than 64 bits wraps around *)
Definition go_wrap_u (bits : Z) (v : Z) : Z := (v mod 2 ^ bits)%Z.
Definition go_wrap_s (bits : Z) (v : Z) : Z := ((v + 2 ^ (bits - 1)) mod 2 ^ bits - 2 ^ (bits - 1))%Z.

(* a map from strings to any other type of value: the get takes the value to answer for a missing key *)
Fixpoint go_plookup {V} (m : list (string * V)) (k : string) : option V :=
  match m with
  | [] => None
  | (k', v) :: r => if String.eqb k' k then Some v else go_plookup r k
  end.
Definition go_pget {V} (d : V) (m : list (string * V)) (k : string) : V * bool :=
  match go_plookup m k with Some v => (v, true) | None => (d, false) end.
Fixpoint go_pset {V} (m : list (string * V)) (k : string) (v : V) : list (string * V) :=
  match m with
  | [] => [(k, v)]
  | (k', v') :: r => if String.eqb k' k then (k, v) :: r else (k', v') :: go_pset r k v
  end.
(* a ValidationIssue held by value: (text, blocking, time check) - what it is once it is added to the results *)
Definition go_issue_of (i : string * bool * bool) : go_issue :=
  let '(_, b, tc) := i in if b then GoError else if tc then GoTimeCheck else GoWarning.

(* a map to the empty struct used as a set: the list of its members in the order they went in *)
Definition go_smem (s : list string) (k : string) : bool := existsb (String.eqb k) s.
Definition go_sadd (s : list string) (k : string) : list string := if go_smem s k then s else (s ++ [k])%list.

(* s[lo:hi] of a string *)
Definition go_substr (s : string) (lo hi : Z) : string := substring (Z.to_nat lo) (Z.to_nat hi - Z.to_nat lo) s.
(* l == nil for a slice (a nil slice and an empty one are the same list) *)
Definition go_lnil {A} (l : list A) : bool := match l with [] => true | _ => false end.

(* effects on abstract values, in order: a field assigned (by the name of the observation it would be read through),
   a method called for its effect.  A function whose body has such effects carries the log; every observation that is
   a call (a method, an untranslated function) is a function of the log so far. *)
Inductive go_event := GoSetS (field : string) (v : string) | GoSetZ (field : string) (v : Z) | GoSetB (field : string) (v : bool) | GoDo (call : string).
