(* Base/B64.v — Go's [base64.RawURLEncoding] (unpadded, URL-safe alphabet
   A-Z a-z 0-9 - _) as an executable model on Coq [string] (= byte strings),
   with the round-trip, alphabet, length and rejection theorems.

   [b64enc] models [EncodeToString]; [b64dec] models [DecodeString] in Go's
   default non-strict mode: '\r' and '\n' are skipped anywhere, every other
   byte must be in the alphabet, trailing groups of 2/3 characters give 1/2
   bytes without checking the unused low bits, a trailing group of exactly one
   character is an error. *)
From Coq Require Import NArith ZifyN ZifyNat.
From JWT Require Import Base.Strings.

Local Open Scope N_scope.

(* lia with / and mod by constants, without touching the global zify hook *)
Local Ltac dlia := zify; Z.div_mod_to_equations; lia.

(* ---------- alphabet ---------- *)
Definition b64_char (n : N) : ascii :=
  if n <? 26 then ascii_of_N (65 + n)               (* A-Z *)
  else if n <? 52 then ascii_of_N (97 + (n - 26))   (* a-z *)
  else if n <? 62 then ascii_of_N (48 + (n - 52))   (* 0-9 *)
  else if n =? 62 then "-"%char
  else "_"%char.

Definition b64_val (c : ascii) : option N :=
  let n := N_of_ascii c in
  if (65 <=? n) && (n <=? 90) then Some (n - 65)
  else if (97 <=? n) && (n <=? 122) then Some (n - 97 + 26)
  else if (48 <=? n) && (n <=? 57) then Some (n - 48 + 52)
  else if n =? 45 then Some 62
  else if n =? 95 then Some 63
  else None.

Definition is_b64url_char (c : ascii) : bool :=
  let n := N_of_ascii c in
  ((65 <=? n) && (n <=? 90)) || ((97 <=? n) && (n <=? 122)) ||
  ((48 <=? n) && (n <=? 57)) || (n =? 45) || (n =? 95).

(* the two characters Go's decoder skips *)
Definition is_crlf (c : ascii) : bool :=
  Ascii.eqb c "010"%char || Ascii.eqb c "013"%char.

Fixpoint forallb_string (p : ascii -> bool) (s : string) : bool :=
  match s with
  | EmptyString => true
  | String c r => p c && forallb_string p r
  end.

(* ---------- encoder ---------- *)
(* bytes -> 6-bit values *)
Fixpoint enc_vals (s : string) : list N :=
  match s with
  | EmptyString => []
  | String a EmptyString =>
      let a := N_of_ascii a in
      [a / 4; (a mod 4) * 16]
  | String a (String b EmptyString) =>
      let a := N_of_ascii a in let b := N_of_ascii b in
      [a / 4; (a mod 4) * 16 + b / 16; (b mod 16) * 4]
  | String a (String b (String c r)) =>
      let a := N_of_ascii a in let b := N_of_ascii b in let c := N_of_ascii c in
      a / 4 :: (a mod 4) * 16 + b / 16 :: (b mod 16) * 4 + c / 64 :: c mod 64
        :: enc_vals r
  end.

Fixpoint chars_of_vals (l : list N) : string :=
  match l with
  | [] => EmptyString
  | v :: r => String (b64_char v) (chars_of_vals r)
  end.

Definition b64enc (s : string) : string := chars_of_vals (enc_vals s).

(* ---------- decoder ---------- *)
(* characters -> 6-bit values; CR/LF skipped; any other non-alphabet byte fails *)
Fixpoint dec_vals (s : string) : option (list N) :=
  match s with
  | EmptyString => Some []
  | String c r =>
      if is_crlf c then dec_vals r
      else match b64_val c with
           | None => None
           | Some v => match dec_vals r with
                       | None => None
                       | Some l => Some (v :: l)
                       end
           end
  end.

Definition byte1 (x y : N) : ascii := ascii_of_N (x * 4 + y / 16).
Definition byte2 (y z : N) : ascii := ascii_of_N ((y mod 16) * 16 + z / 4).
Definition byte3 (z w : N) : ascii := ascii_of_N ((z mod 4) * 64 + w).

(* 6-bit values -> bytes, 4 at a time; trailing 2 -> 1 byte, 3 -> 2 bytes, 1 -> error *)
Fixpoint dec_groups (l : list N) : option string :=
  match l with
  | [] => Some EmptyString
  | [_] => None
  | [x; y] => Some (String (byte1 x y) EmptyString)
  | [x; y; z] => Some (String (byte1 x y) (String (byte2 y z) EmptyString))
  | x :: y :: z :: w :: r =>
      match dec_groups r with
      | None => None
      | Some t => Some (String (byte1 x y) (String (byte2 y z) (String (byte3 z w) t)))
      end
  end.

Definition b64dec (s : string) : option string :=
  match dec_vals s with
  | None => None
  | Some l => dec_groups l
  end.

(* ---------- examples (RFC 4648 vectors, JWT header, high bytes, lenient decode) ---------- *)
Example enc_empty : b64enc "" = "". Proof. vm_compute. reflexivity. Qed.
Example enc_f : b64enc "f" = "Zg". Proof. vm_compute. reflexivity. Qed.
Example enc_fo : b64enc "fo" = "Zm8". Proof. vm_compute. reflexivity. Qed.
Example enc_foo : b64enc "foo" = "Zm9v". Proof. vm_compute. reflexivity. Qed.
Example enc_foob : b64enc "foob" = "Zm9vYg". Proof. vm_compute. reflexivity. Qed.
Example enc_fooba : b64enc "fooba" = "Zm9vYmE". Proof. vm_compute. reflexivity. Qed.
Example enc_foobar : b64enc "foobar" = "Zm9vYmFy". Proof. vm_compute. reflexivity. Qed.
Example enc_jwt_header :
  b64enc "{""typ"":""JWT"",""alg"":""ed25519-nkey""}"
  = "eyJ0eXAiOiJKV1QiLCJhbGciOiJlZDI1NTE5LW5rZXkifQ".
Proof. vm_compute. reflexivity. Qed.
Example enc_251_255 :
  b64enc (String "251"%char (String "255"%char "")) = "-_8".
Proof. vm_compute. reflexivity. Qed.
Example enc_255_255_255 :
  b64enc (String "255"%char (String "255"%char (String "255"%char ""))) = "____".
Proof. vm_compute. reflexivity. Qed.
Example enc_zero : b64enc (String "000"%char "") = "AA".
Proof. vm_compute. reflexivity. Qed.

Example dec_empty : b64dec "" = Some "". Proof. vm_compute. reflexivity. Qed.
Example dec_foo : b64dec "Zm9v" = Some "foo". Proof. vm_compute. reflexivity. Qed.
Example dec_fo : b64dec "Zm8" = Some "fo". Proof. vm_compute. reflexivity. Qed.
Example dec_fo_trailing_bits : b64dec "Zm9" = Some "fo". Proof. vm_compute. reflexivity. Qed.
Example dec_f_trailing_bits : b64dec "Zh" = Some "f". Proof. vm_compute. reflexivity. Qed.
Example dec_one_char : b64dec "Z" = None. Proof. vm_compute. reflexivity. Qed.
Example dec_five_chars : b64dec "Zm9vY" = None. Proof. vm_compute. reflexivity. Qed.
Example dec_pad : b64dec "Zm9v=" = None. Proof. vm_compute. reflexivity. Qed.
Example dec_pad2 : b64dec "Zg==" = None. Proof. vm_compute. reflexivity. Qed.
Example dec_std_plus : b64dec "-_+8" = None. Proof. vm_compute. reflexivity. Qed.
Example dec_std_slash : b64dec "-_/8" = None. Proof. vm_compute. reflexivity. Qed.
Example dec_dot : b64dec "Zm9v.Zm9v" = None. Proof. vm_compute. reflexivity. Qed.
Example dec_space : b64dec "Zm 9v" = None. Proof. vm_compute. reflexivity. Qed.
Example dec_newline : b64dec ("Zm" ++ String "010" "9v") = Some "foo".
Proof. vm_compute. reflexivity. Qed.
Example dec_crlf_everywhere :
  b64dec (String "013" (String "010" ("Z" ++ String "013" ("m9v" ++ String "010" "")))) = Some "foo".
Proof. vm_compute. reflexivity. Qed.
Example dec_high :
  b64dec "-_8" = Some (String "251"%char (String "255"%char "")).
Proof. vm_compute. reflexivity. Qed.
Example dec_jwt_header :
  b64dec "eyJ0eXAiOiJKV1QiLCJhbGciOiJlZDI1NTE5LW5rZXkifQ"
  = Some "{""typ"":""JWT"",""alg"":""ed25519-nkey""}".
Proof. vm_compute. reflexivity. Qed.
Example val_pad : b64_val "="%char = None. Proof. vm_compute. reflexivity. Qed.
Example val_dot : b64_val "."%char = None. Proof. vm_compute. reflexivity. Qed.
Example val_plus : b64_val "+"%char = None. Proof. vm_compute. reflexivity. Qed.
Example val_slash : b64_val "/"%char = None. Proof. vm_compute. reflexivity. Qed.

(* ---------- finite sweeps ---------- *)
Lemma N_lt64_sweep (p : N -> bool) :
  forallb (fun k => p (N.of_nat k)) (seq 0 64) = true ->
  forall n, n < 64 -> p n = true.
Proof.
  intros H n Hn. rewrite forallb_forall in H.
  rewrite <- (N2Nat.id n). apply H. apply in_seq. lia.
Qed.

Definition opt_N_eqb (o : option N) (n : N) : bool :=
  match o with Some m => N.eqb m n | None => false end.

Lemma b64_val_char n : n < 64 -> b64_val (b64_char n) = Some n.
Proof.
  intros Hn.
  assert (H : opt_N_eqb (b64_val (b64_char n)) n = true).
  { revert n Hn. apply N_lt64_sweep. vm_compute. reflexivity. }
  unfold opt_N_eqb in H. destruct (b64_val (b64_char n)); [|discriminate].
  apply N.eqb_eq in H. now subst.
Qed.

Lemma b64_char_is_char n : n < 64 -> is_b64url_char (b64_char n) = true.
Proof. revert n. apply N_lt64_sweep. vm_compute. reflexivity. Qed.

Lemma b64_char_not_crlf n : n < 64 -> is_crlf (b64_char n) = false.
Proof.
  intros Hn. apply negb_true_iff. revert n Hn.
  apply (N_lt64_sweep (fun n => negb (is_crlf (b64_char n)))). vm_compute. reflexivity.
Qed.

(* [is_b64url_char] is exactly the domain of [b64_val] *)
Lemma is_b64url_char_val c :
  is_b64url_char c = match b64_val c with Some _ => true | None => false end.
Proof. destruct c as [[] [] [] [] [] [] [] []]; vm_compute; reflexivity. Qed.

Lemma b64_val_lt64 c v : b64_val c = Some v -> v < 64.
Proof.
  destruct c as [[] [] [] [] [] [] [] []]; vm_compute; intros H; try discriminate H;
    injection H as <-; reflexivity.
Qed.

Lemma b64_char_val c v : b64_val c = Some v -> b64_char v = c.
Proof.
  destruct c as [[] [] [] [] [] [] [] []]; intros H; vm_compute in H; try discriminate H;
    injection H as <-; reflexivity.
Qed.

(* ---------- induction three bytes at a time ---------- *)
Lemma string_ind3 (P : string -> Prop) :
  P EmptyString ->
  (forall a, P (String a EmptyString)) ->
  (forall a b, P (String a (String b EmptyString))) ->
  (forall a b c r, P r -> P (String a (String b (String c r)))) ->
  forall s, P s.
Proof.
  intros H0 H1 H2 H3 s.
  assert (H : P s /\ (forall a, P (String a s)) /\ (forall a b, P (String a (String b s)))).
  { induction s as [|c r [IH0 [IH1 IH2]]].
    - repeat split; auto.
    - repeat split; auto. }
  apply H.
Qed.

(* ---------- encoder facts ---------- *)
Lemma enc_vals_lt64 s : Forall (fun v => v < 64) (enc_vals s).
Proof.
  induction s as [|a|a b|a b c r IH] using string_ind3; cbn [enc_vals].
  - constructor.
  - pose proof (N_ascii_bounded a). repeat constructor; dlia.
  - pose proof (N_ascii_bounded a). pose proof (N_ascii_bounded b).
    repeat constructor; dlia.
  - pose proof (N_ascii_bounded a). pose proof (N_ascii_bounded b).
    pose proof (N_ascii_bounded c).
    repeat (constructor; [dlia|]). exact IH.
Qed.

Lemma chars_of_vals_length l : String.length (chars_of_vals l) = List.length l.
Proof. induction l; simpl; congruence. Qed.

Lemma enc_vals_length s : List.length (enc_vals s) = ((String.length s * 4 + 2) / 3)%nat.
Proof.
  induction s as [|a|a b|a b c r IH] using string_ind3.
  - reflexivity.
  - reflexivity.
  - reflexivity.
  - cbn [enc_vals List.length String.length]. rewrite IH.
    set (n := String.length r). clearbody n. dlia.
Qed.

Lemma chars_of_vals_alphabet l :
  Forall (fun v => v < 64) l -> forallb_string is_b64url_char (chars_of_vals l) = true.
Proof.
  induction 1 as [|v r Hv _ IH]; [reflexivity|].
  cbn [chars_of_vals forallb_string]. now rewrite b64_char_is_char, IH.
Qed.

Lemma forallb_string_no_char p c s :
  forallb_string p s = true -> p c = false -> contains_char c s = false.
Proof.
  intros Hs Hc. induction s as [|a r IH]; [reflexivity|].
  cbn [forallb_string contains_char] in *. apply andb_true_iff in Hs as [Ha Hr].
  rewrite (IH Hr), orb_false_r. destruct (Ascii.eqb a c) eqn:E; [|reflexivity].
  apply Ascii.eqb_eq in E. subst a. congruence.
Qed.

(* ---------- decoder facts ---------- *)
Lemma dec_vals_chars l :
  Forall (fun v => v < 64) l -> dec_vals (chars_of_vals l) = Some l.
Proof.
  induction 1 as [|v r Hv _ IH]; [reflexivity|].
  cbn [chars_of_vals dec_vals].
  now rewrite (b64_char_not_crlf _ Hv), (b64_val_char _ Hv), IH.
Qed.

Lemma byte1_enc a b : a < 256 -> b < 256 ->
  byte1 (a / 4) ((a mod 4) * 16 + b / 16) = ascii_of_N a.
Proof. intros. unfold byte1. f_equal. dlia. Qed.
Lemma byte1_enc_last a : a < 256 ->
  byte1 (a / 4) ((a mod 4) * 16) = ascii_of_N a.
Proof. intros. unfold byte1. f_equal. dlia. Qed.
Lemma byte2_enc a b c : a < 256 -> b < 256 -> c < 256 ->
  byte2 ((a mod 4) * 16 + b / 16) ((b mod 16) * 4 + c / 64) = ascii_of_N b.
Proof. intros. unfold byte2. f_equal. dlia. Qed.
Lemma byte2_enc_last a b : a < 256 -> b < 256 ->
  byte2 ((a mod 4) * 16 + b / 16) ((b mod 16) * 4) = ascii_of_N b.
Proof. intros. unfold byte2. f_equal. dlia. Qed.
Lemma byte3_enc b c : b < 256 -> c < 256 ->
  byte3 ((b mod 16) * 4 + c / 64) (c mod 64) = ascii_of_N c.
Proof. intros. unfold byte3. f_equal. dlia. Qed.

Lemma dec_groups_enc_vals s : dec_groups (enc_vals s) = Some s.
Proof.
  induction s as [|a|a b|a b c r IH] using string_ind3.
  - reflexivity.
  - pose proof (N_ascii_bounded a).
    cbn [enc_vals dec_groups].
    rewrite byte1_enc_last, ascii_N_embedding by assumption. reflexivity.
  - pose proof (N_ascii_bounded a). pose proof (N_ascii_bounded b).
    cbn [enc_vals dec_groups].
    rewrite byte1_enc, byte2_enc_last, !ascii_N_embedding by assumption. reflexivity.
  - pose proof (N_ascii_bounded a). pose proof (N_ascii_bounded b).
    pose proof (N_ascii_bounded c).
    cbn [enc_vals dec_groups]. rewrite IH.
    rewrite byte1_enc, byte2_enc, byte3_enc, !ascii_N_embedding by assumption.
    reflexivity.
Qed.

Lemma dec_vals_bad_char a c b :
  is_crlf c = false -> b64_val c = None -> dec_vals (a ++ String c b) = None.
Proof.
  intros Hs Hv. induction a as [|x r IH]; cbn [append dec_vals].
  - now rewrite Hs, Hv.
  - rewrite IH. destruct (is_crlf x); [reflexivity|]. now destruct (b64_val x).
Qed.

(* ---------- theorems ---------- *)
Theorem b64dec_enc : forall s : string, b64dec (b64enc s) = Some s.
Proof.
  intros s. unfold b64dec, b64enc.
  rewrite dec_vals_chars by apply enc_vals_lt64. apply dec_groups_enc_vals.
Qed.

Theorem b64enc_alphabet : forall s : string,
  forallb_string is_b64url_char (b64enc s) = true.
Proof. intros s. apply chars_of_vals_alphabet, enc_vals_lt64. Qed.

Theorem b64enc_no_dot_no_pad : forall s,
  contains_char "."%char (b64enc s) = false /\ contains_char "="%char (b64enc s) = false.
Proof.
  intros s. split;
    (eapply forallb_string_no_char; [apply b64enc_alphabet|vm_compute; reflexivity]).
Qed.

Theorem b64dec_rejects_bad_char : forall a c b,
  is_b64url_char c = false -> c <> "010"%char -> c <> "013"%char ->
  b64dec (a ++ String c b) = None.
Proof.
  intros a c b Hc Hlf Hcr. unfold b64dec.
  rewrite dec_vals_bad_char; [reflexivity| |].
  - unfold is_crlf. apply orb_false_iff. split; now apply Ascii.eqb_neq.
  - rewrite is_b64url_char_val in Hc. now destruct (b64_val c).
Qed.

Theorem b64enc_length : forall s,
  String.length (b64enc s) = ((String.length s * 4 + 2) / 3)%nat.
Proof. intros s. unfold b64enc. now rewrite chars_of_vals_length, enc_vals_length. Qed.

(* auxiliary: every value the character pass of the decoder produces is a 6-bit value *)
Lemma dec_vals_sound s l : dec_vals s = Some l -> Forall (fun v => v < 64) l.
Proof.
  revert l. induction s as [|c r IH]; intros l; cbn [dec_vals].
  - intros [= <-]. constructor.
  - destruct (is_crlf c); [apply IH|].
    destruct (b64_val c) as [v|] eqn:Ev; [|discriminate].
    destruct (dec_vals r) as [l'|]; [|discriminate].
    intros [= <-]. constructor; [eapply b64_val_lt64; eauto|now apply IH].
Qed.

Print Assumptions b64dec_enc.
Print Assumptions b64enc_alphabet.
Print Assumptions b64enc_no_dot_no_pad.
Print Assumptions b64dec_rejects_bad_char.
Print Assumptions b64enc_length.
