(* Base/Codec.v — one generic model of json.Marshal / json.Unmarshal on Go
   values, driven by a schema.  Values are untyped [val]s, typed by [ty]; the
   schema of every claims type is generated from the code by reflection
   (Gen/Schema.v).  [enc] / [dec] mirror encoding/json's tree-level behaviour:
   struct fields in effective order, omitempty, sorted map keys, nil versus
   empty, decoding INTO an existing value (presets), JSON null, integer ranges,
   and the library's custom (un)marshalers as built-in type constructors. *)
From JWT Require Export Base.Strings Base.Json.
Open Scope string_scope.
Open Scope Z_scope.

Inductive val :=
| VBool (b : bool)
| VInt (z : Z)
| VStr (s : string)
| VList (l : option (list val))             (* None = nil slice *)
| VMap (m : option (list (string * val)))   (* None = nil map; distinct keys, order irrelevant *)
| VPtr (p : option val)                     (* None = nil pointer *)
| VStruct (l : list val)                    (* positional: one value per schema field *)
| VAny (j : option json).                   (* interface{}: None = nil *)

Inductive ty :=
| TBool
| TInt (lo hi : Z)                          (* every Go integer kind, with its range *)
| TStr
| TList (t : ty)
| TMap (t : ty)                             (* string-keyed map *)
| TPtr (t : ty)
| TStruct (fs : list (string * bool * ty))  (* (JSON name, omitempty, type), effective field order *)
| TAny                                      (* interface{} *)
| TEnum (tbl : list (Z * string))           (* ExportType, ScopeType: integer <-> quoted name *)
| TSampling                                 (* SamplingRate: 0 <-> "headers", 1..100 <-> number *)
| TCidr                                     (* CIDRList: array of strings, or one comma-separated string *)
| TKeySet (scope : ty) (preset : val) (keyidx : nat)
                                            (* SigningKeys: key -> nil | scope; JSON: sorted array of
                                               key strings and scope objects; scope objects are decoded
                                               into [preset]; the entry's key is field [keyidx] *)
| TBad (why : string).                      (* a type the translator does not know *)

(* ---------- helpers ---------- *)
Fixpoint map_opt {A B} (f : A -> option B) (l : list A) : option (list B) :=
  match l with
  | [] => Some []
  | x :: r => match f x with
              | None => None
              | Some y => match map_opt f r with None => None | Some ys => Some (y :: ys) end
              end
  end.

Fixpoint zassoc (z : Z) (tbl : list (Z * string)) : option string :=
  match tbl with [] => None | (k, s) :: r => if k =? z then Some s else zassoc z r end.
Fixpoint sassoc (s : string) (tbl : list (Z * string)) : option Z :=
  match tbl with [] => None | (k, s') :: r => if (s' =? s)%string then Some k else sassoc s r end.

(* m[k] = v on an association list *)
Fixpoint vstore {A} (k : string) (v : A) (m : list (string * A)) : list (string * A) :=
  match m with
  | [] => [(k, v)]
  | (k', v') :: r => if (k' =? k)%string then (k, v) :: r else (k', v') :: vstore k v r
  end.
Fixpoint vlookup {A} (k : string) (m : list (string * A)) : option A :=
  match m with
  | [] => None
  | (k', v) :: r => if (k' =? k)%string then Some v else vlookup k r
  end.

Fixpoint set_nth_val (n : nat) (v : val) (l : list val) : list val :=
  match l, n with
  | [], _ => []
  | _ :: r, O => v :: r
  | x :: r, S n' => x :: set_nth_val n' v r
  end.

(* ---------- zero_val values ---------- *)
Fixpoint zero_val (t : ty) : val :=
  match t with
  | TBool => VBool false
  | TInt _ _ => VInt 0
  | TStr => VStr ""
  | TList _ => VList None
  | TMap _ => VMap None
  | TPtr _ => VPtr None
  | TStruct fs => VStruct ((fix go (fs : list (string * bool * ty)) : list val :=
                              match fs with
                              | [] => []
                              | (_, _, ft) :: r => zero_val ft :: go r
                              end) fs)
  | TAny => VAny None
  | TEnum _ => VInt 0
  | TSampling => VInt 0
  | TCidr => VList None
  | TKeySet _ _ _ => VMap None
  | TBad _ => VAny None
  end.

(* encoding/json's isEmptyValue, on our values *)
Definition is_empty (v : val) : bool :=
  match v with
  | VBool b => negb b
  | VInt z => z =? 0
  | VStr s => (s =? "")%string
  | VList None | VList (Some []) => true
  | VMap None | VMap (Some []) => true
  | VPtr None => true
  | VAny None => true
  | _ => false
  end.

(* ---------- Marshal ---------- *)
Fixpoint enc (t : ty) (v : val) {struct t} : option json :=
  match t, v with
  | TBool, VBool b => Some (JBool b)
  | TInt _ _, VInt z => Some (JInt z)
  | TStr, VStr s => Some (JStr s)
  | TList _, VList None => Some JNull
  | TList t', VList (Some l) => option_map JArr (map_opt (enc t') l)
  | TMap _, VMap None => Some JNull
  | TMap t', VMap (Some m) =>
      option_map JObj
        (map_opt (fun kv => option_map (fun j => (fst kv, j)) (enc t' (snd kv))) (sort_by_key m))
  | TPtr _, VPtr None => Some JNull
  | TPtr t', VPtr (Some x) => enc t' x
  | TStruct fs, VStruct vs =>
      option_map JObj
        ((fix go (fs : list (string * bool * ty)) (vs : list val) : option (list (string * json)) :=
            match fs, vs with
            | [], [] => Some []
            | (name, omit, ft) :: fr, fv :: vr =>
                match go fr vr with
                | None => None
                | Some rest =>
                    if omit && is_empty fv then Some rest
                    else match enc ft fv with
                         | None => None
                         | Some j => Some ((name, j) :: rest)
                         end
                end
            | _, _ => None
            end) fs vs)
  | TAny, VAny None => Some JNull
  | TAny, VAny (Some j) => Some (jsort j)
  | TEnum tbl, VInt z => option_map JStr (zassoc z tbl)
  | TSampling, VInt z =>
      if z =? 0 then Some (JStr "headers")
      else if (1 <=? z) && (z <=? 100) then Some (JInt z) else None
  | TCidr, VList None => Some JNull
  | TCidr, VList (Some l) =>
      option_map JArr (map_opt (fun x => match x with VStr s => Some (JStr s) | _ => None end) l)
  | TKeySet _ _ _, VMap None => Some JNull
  | TKeySet st _ _, VMap (Some m) =>
      option_map JArr
        (map_opt (fun kv => match snd kv with
                            | VPtr None => Some (JStr (fst kv))
                            | VPtr (Some s) => enc st s
                            | _ => None
                            end) (sort_by_key m))
  | _, _ => None
  end.

(* ---------- Unmarshal (into an existing value v0) ---------- *)

(* find the struct field a JSON member name addresses: exact name first, else
   the first field equal under ASCII case folding *)
Fixpoint field_index_exact (k : string) (fs : list (string * bool * ty)) (i : nat) : option nat :=
  match fs with
  | [] => None
  | (n, _, _) :: r => if (n =? k)%string then Some i else field_index_exact k r (S i)
  end.
Fixpoint field_index_fold (k : string) (fs : list (string * bool * ty)) (i : nat) : option nat :=
  match fs with
  | [] => None
  | (n, _, _) :: r => if (to_lower n =? to_lower k)%string then Some i else field_index_fold k r (S i)
  end.
Definition field_index (k : string) (fs : list (string * bool * ty)) : option nat :=
  match field_index_exact k fs 0 with Some i => Some i | None => field_index_fold k fs 0 end.

(* CIDRList.Set *)
Definition cidr_norm (s : string) : string := to_lower (trim_space s).
Definition cidr_add (l : list string) (x : string) : list string :=
  let v := cidr_norm x in
  if existsb (fun t => (t =? v)%string) l || (v =? "")%string then l else l ++ [v].
Definition cidr_set_list (values : string) : list string :=
  fold_left cidr_add (split ","%char (to_lower values)) [].

Definition is_jstr (j : json) : option string := match j with JStr s => Some s | _ => None end.

Fixpoint dec (t : ty) (j : json) (v0 : val) {struct t} : option val :=
  match t with
  | TBool => match j with JNull => Some v0 | JBool b => Some (VBool b) | _ => None end
  | TInt lo hi =>
      match j with
      | JNull => Some v0
      | JInt z => if (lo <=? z) && (z <=? hi) then Some (VInt z) else None
      | _ => None
      end
  | TStr => match j with JNull => Some v0 | JStr s => Some (VStr s) | _ => None end
  | TList t' =>
      match j with
      | JNull => Some (VList None)
      | JArr l => option_map (fun x => VList (Some x)) (map_opt (fun e => dec t' e (zero_val t')) l)
      | _ => None
      end
  | TMap t' =>
      match j with
      | JNull => Some (VMap None)
      | JObj m =>
          let start := match v0 with VMap (Some m0) => m0 | _ => [] end in
          option_map (fun x => VMap (Some x))
            (fold_left (fun acc kv =>
                          match acc with
                          | None => None
                          | Some a => match dec t' (snd kv) (zero_val t') with
                                      | None => None
                                      | Some x => Some (vstore (fst kv) x a)
                                      end
                          end) m (Some start))
      | _ => None
      end
  | TPtr t' =>
      match j with
      | JNull => Some (VPtr None)
      | _ => option_map (fun x => VPtr (Some x))
               (dec t' j (match v0 with VPtr (Some x) => x | _ => zero_val t' end))
      end
  | TStruct fs =>
      match j with
      | JNull => Some v0
      | JObj m =>
          let start := match v0 with VStruct vs => vs | _ => match zero_val (TStruct fs) with VStruct z => z | _ => [] end end in
          option_map VStruct
            (fold_left (fun acc kv =>
                          match acc with
                          | None => None
                          | Some vs =>
                              (* locate the field; decode into its current value *)
                              (fix find (fs' : list (string * bool * ty)) (i : nat) : option (list val) :=
                                 match fs' with
                                 | [] => Some vs          (* unknown member: ignored *)
                                 | (_, _, ft) :: r =>
                                     if Nat.eqb i (match field_index (fst kv) fs with Some n => n | None => List.length fs end)
                                     then match dec ft (snd kv) (nth i vs (zero_val ft)) with
                                          | None => None
                                          | Some x => Some (set_nth_val i x vs)
                                          end
                                     else find r (S i)
                                 end) fs 0%nat
                          end) m (Some start))
      | _ => None
      end
  | TAny =>
      match j with
      | JNull => Some (VAny None)
      | _ => Some (VAny (Some j))
      end
  | TEnum tbl =>
      match j with
      | JStr s => option_map VInt (sassoc s tbl)
      | _ => None                      (* including null: the custom unmarshaler rejects it *)
      end
  | TSampling =>
      match j with
      | JNull => Some (VInt 0)
      | JStr s => if (to_lower s =? "headers")%string then Some (VInt 0) else None
      | JInt z => if (-9223372036854775808 <=? z) && (z <=? 9223372036854775807) then Some (VInt z) else None
      | _ => None
      end
  | TCidr =>
      match j with
      | JNull => Some (VList None)
      | JArr l => option_map (fun x => VList (Some (map VStr x))) (map_opt is_jstr l)
      | JStr s => Some (VList (Some (map VStr (cidr_set_list s))))
      | _ => None
      end
  | TKeySet st preset ki =>
      let start := match v0 with VMap (Some m0) => m0 | _ => [] end in
      match j with
      | JNull => Some (VMap (Some start))
      | JArr l =>
          option_map (fun x => VMap (Some x))
            (fold_left (fun acc e =>
                          match acc with
                          | None => None
                          | Some a =>
                              match e with
                              | JStr k => Some (vstore k (VPtr None) a)
                              | JObj m =>
                                  match jlookup "kind" m with
                                  | Some (JStr "user_scope") =>
                                      match dec st (JObj (sort_by_key m)) preset with
                                      | Some (VStruct fields) =>
                                          match nth ki fields (VStr "") with
                                          | VStr k => Some (vstore k (VPtr (Some (VStruct fields))) a)
                                          | _ => None
                                          end
                                      | _ => None
                                      end
                                  | _ => None
                                  end
                              | _ => Some a      (* numbers, booleans, null, arrays: silently skipped *)
                              end
                          end) l (Some start))
      | _ => None
      end
  | TBad _ => None
  end.

(* ---------- canonical form: nil = empty, maps sorted by key ---------- *)
Fixpoint canon (v : val) : val :=
  match v with
  | VList None => VList None
  | VList (Some []) => VList None
  | VList (Some l) => VList (Some (map canon l))
  | VMap None => VMap None
  | VMap (Some []) => VMap None
  | VMap (Some m) => VMap (Some (sort_by_key (map (fun kv => (fst kv, canon (snd kv))) m)))
  | VPtr (Some x) => VPtr (Some (canon x))
  | VStruct l => VStruct (map canon l)
  | VAny (Some JNull) => VAny None
  | VAny (Some j) => VAny (Some (jsort j))
  | _ => v
  end.

Fixpoint val_eqb (a b : val) {struct a} : bool :=
  match a, b with
  | VBool x, VBool y => Bool.eqb x y
  | VInt x, VInt y => x =? y
  | VStr x, VStr y => (x =? y)%string
  | VList None, VList None => true
  | VList (Some x), VList (Some y) =>
      (fix go (x y : list val) : bool :=
         match x, y with
         | [], [] => true
         | a :: r, b :: s => val_eqb a b && go r s
         | _, _ => false
         end) x y
  | VMap None, VMap None => true
  | VMap (Some x), VMap (Some y) =>
      (fix go (x y : list (string * val)) : bool :=
         match x, y with
         | [], [] => true
         | (k, a) :: r, (k', b) :: s => (k =? k')%string && val_eqb a b && go r s
         | _, _ => false
         end) x y
  | VPtr None, VPtr None => true
  | VPtr (Some x), VPtr (Some y) => val_eqb x y
  | VStruct x, VStruct y =>
      (fix go (x y : list val) : bool :=
         match x, y with
         | [], [] => true
         | a :: r, b :: s => val_eqb a b && go r s
         | _, _ => false
         end) x y
  | VAny None, VAny None => true
  | VAny (Some x), VAny (Some y) => json_eqb x y
  | _, _ => false
  end.

(* ---------- well-formed schemas and typed values (decidable) ---------- *)
Fixpoint names_nodup (l : list string) : bool :=
  match l with
  | [] => true
  | x :: r => negb (existsb (fun y => (to_lower y =? to_lower x)%string) r) && names_nodup r
  end.

Fixpoint wf_ty (t : ty) : bool :=
  match t with
  | TBool | TStr | TAny | TSampling | TCidr => true
  | TInt lo hi => (lo <=? 0) && (0 <=? hi)
  | TList t' | TMap t' => wf_ty t'
  | TPtr t' => match t' with TStruct _ => wf_ty t' | _ => false end
  | TStruct fs =>
      names_nodup (map (fun f => fst (fst f)) fs) &&
      (fix go (fs : list (string * bool * ty)) : bool :=
         match fs with [] => true | (_, _, ft) :: r => wf_ty ft && go r end) fs
  | TEnum tbl => negb (existsb (fun e => fst e =? 0) tbl)      (* 0 is "unknown": omitted or an error *)
  | TKeySet st _ ki =>
      match st with
      | TStruct fs => wf_ty st && match nth_error fs ki with Some (_, _, TStr) => true | _ => false end
      | _ => false
      end
  | TBad _ => false
  end.

Fixpoint json_plain (j : json) : bool :=     (* free-form data the float64 trip does not disturb *)
  match j with
  | JNull | JBool _ | JStr _ => true
  | JInt z => (-9007199254740992 <=? z) && (z <=? 9007199254740992)
  | JNum _ => false
  | JArr l => forallb json_plain l
  | JObj l => forallb (fun kv => json_plain (snd kv)) l
  end.

Fixpoint keys_nodup {A} (l : list (string * A)) : bool :=
  match l with
  | [] => true
  | (k, _) :: r => negb (existsb (fun e => (fst e =? k)%string) r) && keys_nodup r
  end.
Fixpoint json_keys_nodup (j : json) : bool :=
  match j with
  | JArr l => forallb json_keys_nodup l
  | JObj l => keys_nodup l && forallb (fun kv => json_keys_nodup (snd kv)) l
  | _ => true
  end.

Fixpoint has_type (t : ty) (v : val) {struct t} : bool :=
  match t, v with
  | TBool, VBool _ => true
  | TInt lo hi, VInt z => (lo <=? z) && (z <=? hi)
  | TStr, VStr _ => true
  | TList _, VList None => true
  | TList t', VList (Some l) => forallb (has_type t') l
  | TMap _, VMap None => true
  | TMap t', VMap (Some m) => keys_nodup m && forallb (fun kv => has_type t' (snd kv)) m
  | TPtr _, VPtr None => true
  | TPtr t', VPtr (Some x) => has_type t' x
  | TStruct fs, VStruct vs =>
      (fix go (fs : list (string * bool * ty)) (vs : list val) : bool :=
         match fs, vs with
         | [], [] => true
         | (_, _, ft) :: fr, fv :: vr => has_type ft fv && go fr vr
         | _, _ => false
         end) fs vs
  | TAny, VAny None => true
  | TAny, VAny (Some j) => json_plain j && json_keys_nodup j
  | TEnum _, VInt _ => true
  | TSampling, VInt _ => true
  | TCidr, VList None => true
  | TCidr, VList (Some l) => forallb (fun x => match x with VStr _ => true | _ => false end) l
  | TKeySet _ _ _, VMap None => true
  | TKeySet st preset ki, VMap (Some m) =>
      keys_nodup m &&
      forallb (fun kv => match snd kv with
                         | VPtr None => true
                         | VPtr (Some (VStruct fields)) =>
                             has_type st (VStruct fields) &&
                             match nth ki fields (VStr "") with VStr k => (k =? fst kv)%string | _ => false end
                         | _ => false
                         end) m
  | _, _ => false
  end.

(* ---------- when decoding INTO a preset v0 gives the value back ---------- *)
(* a field dropped by omitempty keeps whatever the preset holds: the preset must
   then be (canonically) the dropped value; maps are decoded into the preset's
   map, which must therefore be empty *)
Fixpoint omit_ok (t : ty) (v v0 : val) {struct t} : bool :=
  match t, v with
  | TStruct fs, VStruct vs =>
      match v0 with
      | VStruct v0s =>
          (fix go (fs : list (string * bool * ty)) (vs v0s : list val) : bool :=
             match fs, vs, v0s with
             | [], [], [] => true
             | (_, omit, ft) :: fr, fv :: vr, f0 :: v0r =>
                 (if omit && is_empty fv then val_eqb (canon f0) (canon fv) else omit_ok ft fv f0)
                 && go fr vr v0r
             | _, _, _ => false
             end) fs vs v0s
      | _ => false
      end
  | TMap _, _ => match v0 with VMap None | VMap (Some []) => true | _ => false end
  | TKeySet _ _ _, _ => match v0 with VMap None | VMap (Some []) => true | _ => false end
  | TPtr t', VPtr (Some x) =>
      match v0 with
      | VPtr (Some x0) => omit_ok t' x x0
      | _ => omit_ok t' x (zero_val t')
      end
  | _, _ => true
  end.

(* scope objects inside a key set are decoded into the key set's preset *)
Fixpoint scopes_ok (t : ty) (v : val) {struct t} : bool :=
  match t, v with
  | TList t', VList (Some l) => forallb (scopes_ok t') l
  | TMap t', VMap (Some m) => forallb (fun kv => scopes_ok t' (snd kv)) m
  | TPtr t', VPtr (Some x) => scopes_ok t' x
  | TStruct fs, VStruct vs =>
      (fix go (fs : list (string * bool * ty)) (vs : list val) : bool :=
         match fs, vs with
         | (_, _, ft) :: fr, fv :: vr => scopes_ok ft fv && go fr vr
         | _, _ => true
         end) fs vs
  | TKeySet st preset _, VMap (Some m) =>
      forallb (fun kv => match snd kv with
                         | VPtr (Some s) => omit_ok st s preset && scopes_ok st s
                         | _ => true
                         end) m
  | _, _ => true
  end.
