(* Base/Json.v — JSON trees as encoding/json sees them (text layer abstracted:
   escaping, white space and number syntax live in the parser/printer, which
   the models treat as external functions). *)
From JWT Require Export Base.Strings.
Open Scope string_scope.

Inductive json :=
| JNull
| JBool (b : bool)
| JInt (z : Z)              (* a number literal without fraction or exponent *)
| JNum (lit : string)       (* any other number literal, kept verbatim *)
| JStr (s : string)
| JArr (l : list json)
| JObj (l : list (string * json)).   (* members in textual order *)

(* strong induction principle for the nested type *)
Section JsonInd.
  Variable P : json -> Prop.
  Hypothesis Hnull : P JNull.
  Hypothesis Hbool : forall b, P (JBool b).
  Hypothesis Hint : forall z, P (JInt z).
  Hypothesis Hnum : forall s, P (JNum s).
  Hypothesis Hstr : forall s, P (JStr s).
  Hypothesis Harr : forall l, Forall P l -> P (JArr l).
  Hypothesis Hobj : forall l, Forall (fun kv => P (snd kv)) l -> P (JObj l).
  Fixpoint json_ind' (j : json) : P j :=
    match j with
    | JNull => Hnull
    | JBool b => Hbool b
    | JInt z => Hint z
    | JNum s => Hnum s
    | JStr s => Hstr s
    | JArr l => Harr l ((fix go (l : list json) : Forall P l :=
                           match l with
                           | [] => Forall_nil _
                           | x :: r => Forall_cons _ (json_ind' x) (go r)
                           end) l)
    | JObj l => Hobj l ((fix go (l : list (string * json)) : Forall (fun kv => P (snd kv)) l :=
                           match l with
                           | [] => Forall_nil _
                           | x :: r => Forall_cons _ (json_ind' (snd x)) (go r)
                           end) l)
    end.
End JsonInd.

Fixpoint json_eqb (a b : json) {struct a} : bool :=
  match a, b with
  | JNull, JNull => true
  | JBool x, JBool y => Bool.eqb x y
  | JInt x, JInt y => Z.eqb x y
  | JNum x, JNum y => x =? y
  | JStr x, JStr y => x =? y
  | JArr x, JArr y =>
      (fix go (x y : list json) : bool :=
         match x, y with
         | [], [] => true
         | a :: r, b :: s => json_eqb a b && go r s
         | _, _ => false
         end) x y
  | JObj x, JObj y =>
      (fix go (x y : list (string * json)) : bool :=
         match x, y with
         | [], [] => true
         | (k, a) :: r, (k', b) :: s => (k =? k') && json_eqb a b && go r s
         | _, _ => false
         end) x y
  | _, _ => false
  end.

(* member lookup: first member with exactly this name *)
Fixpoint jlookup (k : string) (l : list (string * json)) : option json :=
  match l with
  | [] => None
  | (k', v) :: r => if k' =? k then Some v else jlookup k r
  end.

(* insertion sort of members by key (bytewise), as encoding/json orders map keys *)
Fixpoint insert_by_key {A} (e : string * A) (l : list (string * A)) : list (string * A) :=
  match l with
  | [] => [e]
  | x :: r => if String.leb (fst e) (fst x) then e :: l else x :: insert_by_key e r
  end.
Definition sort_by_key {A} (l : list (string * A)) : list (string * A) :=
  fold_right insert_by_key [] l.

Fixpoint insert_str (e : string) (l : list string) : list string :=
  match l with
  | [] => [e]
  | x :: r => if String.leb e x then e :: l else x :: insert_str e r
  end.
Definition sort_strs (l : list string) : list string := fold_right insert_str [] l.

(* a free-form value (interface{}) as json.Marshal writes it: map keys sorted at every level *)
Fixpoint jsort (j : json) : json :=
  match j with
  | JArr l => JArr (map jsort l)
  | JObj l => JObj (sort_by_key (map (fun kv => (fst kv, jsort (snd kv))) l))
  | _ => j
  end.
