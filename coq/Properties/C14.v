(* C14 — Scoped signing keys and the one-call user-token issuer.
   Only statements; proofs in Proofs/Scope.v and Proofs/ScopeCodec.v (the codec
   meta-theorem of Proofs/Codec.v instantiated on the signing-key set). *)
From JWT Require Import Base.Codec Model.Claims Model.Scope Proofs.Scope Proofs.ScopeCodec.
Open Scope string_scope.
Open Scope Z_scope.

(* the type of Account.SigningKeys as generated from the code *)
Definition keyset_ty : ty :=
  match getp_ty sch_account ["nats"; "signing_keys"] with Some t => t | None => TBad "" end.

(* a key set mixing plain keys and scopes survives encode/decode with every scope's key,
   role, description and full template; guard (inside scopes_ok): no zero subs/data/payload
   limit in a template - recorded finding K2 *)
Theorem C14_signing_keys_roundtrip : forall (v : val) (j : json),
  has_type keyset_ty v = true -> scopes_ok keyset_ty v = true -> enc keyset_ty v = Some j ->
  exists v', dec keyset_ty j (VMap (Some [])) = Some v' /\ canon v' = canon v.
Proof. exact signing_keys_roundtrip. Qed.
Print Assumptions C14_signing_keys_roundtrip.

(* a scope accepts exactly: a user claim, issued by the scope's key, whose permissions and
   limits are the zero value (a present-but-empty list counts as content, as in the code) *)
Theorem C14_scoped_signer_iff : forall scope_key k iss upl,
  validate_scoped_signer scope_key k iss upl = true <->
  (k = KUser /\ iss = scope_key /\ upl = zero_val upl_ty).
Proof. exact scoped_signer_iff. Qed.
Print Assumptions C14_scoped_signer_iff.

(* IssueUserJWT: succeeds exactly for an account id, a user key and an account signing key;
   the claims it encodes have the given subject, issuer account, name (subject when empty),
   tags, expiry 0 or the whole second of now+d, and empty permissions and limits - so a
   scope for the signing key accepts the result *)
Theorem C14_issue_user_roles : forall ar ur sr,
  issue_user_ok ar ur sr = true <-> (ar = RAccount /\ ur = RUser /\ sr = RAccount).
Proof. exact issue_user_roles. Qed.
Theorem C14_issue_user_claims : forall ar ur acct user name now_ns d tags c,
  has_type (TList TStr) tags = true ->
  -9223372036854775808 <= (now_ns + d) / 1000000000 <= 9223372036854775807 ->   (* ADDED: int64 range of the expiry *)
  issue_user_claims ar ur acct user name now_ns d tags = Some c ->
  ar = RAccount /\ ur = RUser /\
  getp sch_user ["sub"] c = Some (VStr user) /\
  getp sch_user ["nats"; "issuer_account"] c = Some (VStr acct) /\
  getp sch_user ["name"] c = Some (VStr (if (name =? "")%string then user else name)) /\
  getp sch_user ["nats"; "tags"] c = Some tags /\
  getp sch_user ["exp"] c = Some (VInt (if d =? 0 then 0 else (now_ns + d) / 1000000000)) /\
  has_empty_permissions (upl_of_user c) = true /\
  has_type sch_user c = true.
Proof. exact issue_user_claims_spec. Qed.
Theorem C14_issue_user_refused : forall ar ur acct user name now_ns d tags,
  (ar <> RAccount \/ ur <> RUser) -> issue_user_claims ar ur acct user name now_ns d tags = None.
Proof. exact issue_user_refused. Qed.
Print Assumptions C14_issue_user_roles.
Print Assumptions C14_issue_user_claims.
Print Assumptions C14_issue_user_refused.
