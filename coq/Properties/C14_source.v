(* C14 — the tie to the source: UserScope.ValidateScopedSigner and UserClaims.HasEmptyPermissions (v2/signingkeys.go,
   v2/user_claims.go) as translated on this run (Gen/SrcDidSign.v).  A scope accepts a claim exactly when the model's
   [validate_scoped_signer] does: the claim is a user claim, its issuer is the scope's own key, and its permissions and
   limits are deeply equal to the zero value.  The claim is an abstract value; reflect.DeepEqual is an unknown function,
   instantiated by the model's [has_empty_permissions].  Only statements; proofs in Proofs/SrcScope.v. *)
From JWT Require Import Base.GoSem Gen.SrcDidSign Model.Scope Proofs.SrcScope.
Open Scope string_scope.

Theorem C14_source_has_empty_permissions : forall (V : Type) (vnil : V) (deep_equal_zero : V -> bool),
  V2.UserClaims_HasEmptyPermissions V vnil deep_equal_zero = deep_equal_zero vnil.
Proof. intros V vnil d. exact (src_has_empty_permissions vnil d). Qed.
Print Assumptions C14_source_has_empty_permissions.

Theorem C14_source_validate_scoped_signer : forall (V : Type) (vnil : V) (scope_key : string) (k : ckind) (iss : string) (upl : val),
  go_err_isnil (V2.UserScope_ValidateScopedSigner V vnil iss (ckind_eqb k KUser) (fun _ => has_empty_permissions upl) scope_key)
  = validate_scoped_signer scope_key k iss upl.
Proof. intros V vnil. exact (src_validate_scoped_signer vnil). Qed.
Print Assumptions C14_source_validate_scoped_signer.
