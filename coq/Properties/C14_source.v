(* C14 — the tie to the source: UserScope.ValidateScopedSigner and UserClaims.HasEmptyPermissions (v2/signingkeys.go,
   v2/user_claims.go) as translated on this run (Gen/SrcDidSign.v).  A scope accepts a claim exactly when the model's
   [validate_scoped_signer] does: the claim is a user claim, its issuer is the scope's own key, and its permissions and
   limits are deeply equal to the zero value.  The claim is an abstract value; reflect.DeepEqual is an unknown function,
   instantiated by the model's [has_empty_permissions].  Only statements; proofs in Proofs/SrcScope.v. *)
From JWT Require Import Base.GoSem Gen.SrcDidSign Model.Scope Proofs.SrcScope.
Open Scope string_scope.

Theorem C14_source_has_empty_permissions : forall (V : Type) (vnil : V) (deep_equal_zero : V -> bool),
  V2.UserClaims_HasEmptyPermissions V vnil deep_equal_zero = deep_equal_zero vnil.
Proof. intros V vnil d. exact (src_has_empty_permissions vnil d). Qed.
Print Assumptions C14_source_has_empty_permissions.

Theorem C14_source_validate_scoped_signer : forall (V : Type) (vnil : V) (scope_key : string) (k : ckind) (iss : string) (upl : val),
  go_err_isnil (V2.UserScope_ValidateScopedSigner V vnil iss (ckind_eqb k KUser) (fun _ => has_empty_permissions upl) scope_key)
  = validate_scoped_signer scope_key k iss upl.
Proof. intros V vnil. exact (src_validate_scoped_signer vnil). Qed.
Print Assumptions C14_source_validate_scoped_signer.

(* IssueUserJWT (v2/creds_utils.go): the roles of account id and user key are tested first, in that order, and nothing
   is asked of the signer beyond what Encode asks; the claims handed to Encode are exactly: made for the user key, scoped
   (no permissions or limits of their own), expiring at "the clock plus the duration" exactly when the duration is not
   zero, the account as issuer account, the name given (the user key when none is), the user key as subject, the tags
   as given - every store in this order, whatever the stores and Encode are (the claims are a value of the function's
   own; NewUserClaims, SetScoped, the field stores and Encode are unknown functions). *)
Theorem C14_source_issue_user_jwt : forall (V : Type) (vnil : V) (new_user : list go_event -> string -> V) (is_acct is_user : string -> bool) (now_add : Z -> Z)
    (enc : V -> list go_event -> string * option string) (set_scoped : V -> bool -> V) (set_exp : V -> Z -> V)
    (set_issuer_account set_name set_subject : V -> string -> V) (set_tags : V -> list string -> V)
    (account_id user_key name : string) (d : Z) (tags : list string),
  V2.IssueUserJWT V vnil new_user is_acct is_user now_add enc set_scoped set_exp set_issuer_account set_name set_subject set_tags
    account_id user_key name d tags
  = ([], if negb (is_acct account_id) then ("", Some "error")
         else if negb (is_user user_key) then ("", Some "error")
         else match snd (enc (issued_claims new_user now_add set_scoped set_exp set_issuer_account set_name set_subject set_tags account_id user_key name d tags) []) with
              | None => (fst (enc (issued_claims new_user now_add set_scoped set_exp set_issuer_account set_name set_subject set_tags account_id user_key name d tags) []), None)
              | Some _ => ("", Some "error")
              end)%list.
Proof. intros V vnil new_user is_acct is_user now_add enc. exact (src_issue_user_jwt vnil new_user is_acct is_user now_add enc). Qed.
Print Assumptions C14_source_issue_user_jwt.
Theorem C14_source_issue_user_jwt_consults :
  V2.IssueUserJWT_consults = ["go_NewUserClaims"; "go_nkeys_IsValidPublicAccountKey"; "go_nkeys_IsValidPublicUserKey"; "go_now_add"]%list.
Proof. reflexivity. Qed.
Print Assumptions C14_source_issue_user_jwt_consults.
