(* C16 — Subject containment and wildcard detection agree with NATS matching
   semantics.  Only statements live here; proofs are in Proofs/Subject.v. *)
From JWT Require Import Model.Subject Proofs.Subject.

(* containment reported  <->  every concrete subject matched by s is matched by o;
   any number of tokens, token alphabet = all non-empty dot-free strings *)
Theorem C16_contained_iff : forall s o : string,
  valid_subject s = true -> valid_subject o = true ->
  (is_contained_in s o = true <->
   forall lit, literal lit -> subject_matches s lit = true -> subject_matches o lit = true).
Proof. exact contained_iff. Qed.
Print Assumptions C16_contained_iff.

(* wildcards reported  <->  the subject matches more than one concrete subject *)
Theorem C16_has_wildcards_iff : forall s : string,
  valid_subject s = true ->
  (has_wildcards s = true <->
   exists l1 l2, literal l1 /\ literal l2 /\ l1 <> l2 /\
                 subject_matches s l1 = true /\ subject_matches s l2 = true).
Proof. exact has_wildcards_iff. Qed.
Print Assumptions C16_has_wildcards_iff.

(* every valid subject matches at least one concrete subject (so the right-hand
   sides above are never vacuous) *)
Theorem C16_valid_inhabited : forall s : string,
  valid_subject s = true -> exists lit, literal lit /\ subject_matches s lit = true.
Proof. exact valid_inhabited. Qed.
Print Assumptions C16_valid_inhabited.

(* non-vacuity and the former defect as regression examples *)
Example C16_ex_valid : valid_subject "a.*.>" = true /\ valid_subject "a.b" = true.
Proof. split; reflexivity. Qed.
Example C16_gt_not_in_star : is_contained_in ">" "*" = false /\ is_contained_in "a.>" "a.*" = false.
Proof. split; reflexivity. Qed.
Example C16_pos : is_contained_in "a.b.c" "a.>" = true /\ is_contained_in "a.*" "a.>" = true
               /\ is_contained_in "a.b" "a.*" = true /\ is_contained_in "a.*" "a.b" = false.
Proof. repeat split; reflexivity. Qed.
