(* C13 / C12 — the tie to the source: ClaimsData.hash (v2/claims.go and the bundled version-1 library), which computes
   the token id, as translated on this run (Gen/SrcCodec.v).  The id is a function of the marshalled claims data alone:
   it fails exactly when json.Marshal of the claims data fails (with that error), otherwise it is the unpadded base32
   text of what a freshly made hash object, written exactly that text once, sums to - for every reading of
   sha512.New512_256, Write and Sum (the hash object is an opaque value).  So equal claims data give equal ids, and
   nothing but the claims data - no buffer, pool, earlier call or other goroutine's text - enters (the seeded change
   C13-m, a pooled scratch buffer under the digest, changes the translation and leaves the subset).  Together with
   serialize = json.Marshal (C05_source_codec) and doEncode's order of steps (C12_source) this is the code side of
   "equal content, equal token".  Only statements; proofs in Proofs/SrcCodec.v. *)
From JWT Require Import Base.GoSem Gen.SrcCodec Proofs.SrcCodec.
Open Scope string_scope.

Theorem C13_source_hash : forall (V : Type) (vnil : V) (b32 : string -> string) (hnew : V) (hsum : V -> string -> string) (hwrite : V -> string -> V)
    (marshalled : string * option string),
  V2.ClaimsData_hash V vnil b32 marshalled hnew hsum hwrite
  = match snd marshalled with Some e => ("", Some e) | None => (id_of b32 hnew hsum hwrite (fst marshalled), None) end.
Proof. intros V vnil b32 hnew hsum hwrite. exact (src_hash vnil b32 hnew hsum hwrite). Qed.
Print Assumptions C13_source_hash.

Theorem C13_source_v1_hash : forall (V : Type) (vnil : V) (b32 : string -> string) (hnew : V) (hsum : V -> string -> string) (hwrite : V -> string -> V)
    (marshalled : string * option string),
  V1.ClaimsData_hash V vnil b32 marshalled hnew hsum hwrite
  = match snd marshalled with Some e => ("", Some e) | None => (id_of b32 hnew hsum hwrite (fst marshalled), None) end.
Proof. intros V vnil b32 hnew hsum hwrite. exact (src_v1_hash vnil b32 hnew hsum hwrite). Qed.
Print Assumptions C13_source_v1_hash.

(* equal marshalled claims data, equal id - whatever was hashed before *)
Corollary C13_source_hash_deterministic : forall (V : Type) (vnil : V) b32 hnew hsum hwrite (text : string),
  V2.ClaimsData_hash V vnil b32 (text, None) hnew hsum hwrite = (id_of b32 hnew hsum hwrite text, None).
Proof. intros. rewrite C13_source_hash. reflexivity. Qed.
Print Assumptions C13_source_hash_deterministic.

(* ... and the unknown functions the translated hash consults are exactly these (json.Marshal of the claims data, the
   hash constructor, the unpadded base32 encoder; Write and Sum of the hash object are observations of that object):
   replacing one of them by another function leaves the shape of the translation unchanged and changes this list *)
Theorem C13_source_hash_consults :
  V2.ClaimsData_hash_consults = ["go_base32_StdEncoding_WithPadding_base32_NoPadding_EncodeToString"; "go_json_Marshal__c"; "go_sha512_New512_256"]%list /\
  V1.ClaimsData_hash_consults = ["go_base32_StdEncoding_WithPadding_base32_NoPadding_EncodeToString"; "go_json_Marshal__c"; "go_sha512_New512_256"]%list.
Proof. split; reflexivity. Qed.
Print Assumptions C13_source_hash_consults.
