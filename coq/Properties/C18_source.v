(* C18 — the tie to the source: cleanSubject as translated on this run from v2/activation_claims.go and from the
   bundled version-1 library (Gen/SrcHash.v) is the model's [clean_subject], for all strings. *)
From JWT Require Import Base.GoSem Gen.SrcHash Model.HashID Proofs.SrcHash.
Open Scope string_scope.

Theorem C18_source_clean_subject : forall s : string, V2.cleanSubject s = clean_subject s.
Proof. exact src_clean_subject. Qed.
Print Assumptions C18_source_clean_subject.
Theorem C18_source_v1_clean_subject : forall s : string, V1.cleanSubject s = clean_subject s.
Proof. exact src_v1_clean_subject. Qed.
Print Assumptions C18_source_v1_clean_subject.
