(* C18 — the tie to the source: cleanSubject as translated on this run from v2/activation_claims.go and from the
   bundled version-1 library (Gen/SrcHash.v) is the model's [clean_subject], for all strings. *)
From JWT Require Import Base.GoSem Gen.SrcHash Model.HashID Proofs.SrcHash.
Open Scope string_scope.

Theorem C18_source_clean_subject : forall s : string, V2.cleanSubject s = clean_subject s.
Proof. exact src_clean_subject. Qed.
Print Assumptions C18_source_clean_subject.
Theorem C18_source_v1_clean_subject : forall s : string, V1.cleanSubject s = clean_subject s.
Proof. exact src_v1_clean_subject. Qed.
Print Assumptions C18_source_v1_clean_subject.

(* ActivationClaims.HashID itself, of both libraries: refused exactly when issuer, subject or granted subject is
   missing; otherwise the base32 text of what a freshly made hash object, written the text issuer.subject.cleaned
   once, sums to - the model's [hash_id] with that composite as its hash function.  The hash object is an opaque
   value: sha256.New, its Write and its Sum are unknown functions, so the theorem holds whatever they are. *)
Theorem C18_source_hash_id : forall (V : Type) (vnil : V) (b32 : string -> string) (hnew : V) (hsum : V -> string -> string) (hwrite : V -> string -> V)
    (iss sub imp : string),
  V2.ActivationClaims_HashID V vnil imp iss sub b32 hnew hsum hwrite = hash_result (hash_id (hash_of b32 hnew hsum hwrite) iss sub imp).
Proof. intros V vnil b32 hnew hsum hwrite. exact (src_hash_id vnil b32 hnew hsum hwrite). Qed.
Print Assumptions C18_source_hash_id.
Theorem C18_source_v1_hash_id : forall (V : Type) (vnil : V) (b32 : string -> string) (hnew : V) (hsum : V -> string -> string) (hwrite : V -> string -> V)
    (iss sub imp : string),
  V1.ActivationClaims_HashID V vnil imp iss sub b32 hnew hsum hwrite = hash_result (hash_id (hash_of b32 hnew hsum hwrite) iss sub imp).
Proof. intros V vnil b32 hnew hsum hwrite. exact (src_v1_hash_id vnil b32 hnew hsum hwrite). Qed.
Print Assumptions C18_source_v1_hash_id.

(* the unknown functions HashID consults: the SHA-256 constructor and the standard (padded) base32 encoder, nothing else *)
Theorem C18_source_hash_id_consults :
  V2.ActivationClaims_HashID_consults = ["go_base32_StdEncoding_EncodeToString"; "go_sha256_New"]%list /\
  V1.ActivationClaims_HashID_consults = ["go_base32_StdEncoding_EncodeToString"; "go_sha256_New"]%list.
Proof. split; reflexivity. Qed.
Print Assumptions C18_source_hash_id_consults.
