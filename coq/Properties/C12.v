(* C12 — Encode stamps issuer, issue time, id, kind and version, and changes
   nothing else.  Only statements; proofs in Proofs/Encode.v.  H is
   base32(SHA-512/256(.)) and jprint the JSON printer: arbitrary functions. *)
From JWT Require Import Base.Codec Model.Claims Model.Encode Proofs.Encode.
Open Scope string_scope.
Open Scope Z_scope.

(* every field of a claims value by JSON path (depth <= 2), read off the generated schema *)
Definition all_paths (k : ckind) : list (list string) :=
  flat_map (fun f => match snd f with
                     | TStruct gs => if (fst (fst f) =? "nats")%string
                                     then map (fun g => ["nats"; fst (fst g)]) gs
                                     else [[fst (fst f)]]
                     | _ => [[fst (fst f)]]
                     end) (fields_of (schema_of k)).
Definition stamped_paths (k : ckind) : list (list string) :=
  [["iss"]; ["iat"]; ["jti"]] ++
  match k with
  | KGeneric => [["nats"]]                             (* the data map gains its version entry *)
  | KAccount => [["nats"; "type"]; ["nats"; "version"]; ["nats"; "imports"]; ["nats"; "exports"]]
  | _ => [["nats"; "type"]; ["nats"; "version"]]
  end.
Definition path_eqb (a b : list string) : bool :=
  (fix go (a b : list string) := match a, b with
                                 | [], [] => true
                                 | x :: r, y :: s => (x =? y)%string && go r s
                                 | _, _ => false end) a b.

Section C12.
  Variable H : string -> string.
  Variable jprint : json -> string.

  (* what is stamped *)
  Theorem C12_stamp_fields : forall k issuer now v v',
    has_type (schema_of k) v = true -> stamp H jprint k issuer now v = Some v' ->
    getp (schema_of k) ["iss"] v' = Some (VStr issuer) /\
    getp (schema_of k) ["iat"] v' = Some (VInt now) /\
    (k <> KGeneric -> getp (schema_of k) ["nats"; "type"] v' = Some (VStr (kind_name k)) /\
                      getp (schema_of k) ["nats"; "version"] v' = Some (VInt 2)) /\
    exists j, enc sch_claims_data (claims_data_of k (setp (schema_of k) ["jti"] (VStr "") v')) = Some j /\
              getp (schema_of k) ["jti"] v' = Some (VStr (H (jprint j))).
  Proof. exact (stamp_fields H jprint). Qed.

  (* the id depends only on the other standard fields: equal aud/exp/name/nbf/sub (and the
     same issuer and second) give equal ids, whatever the previous id, kind or payload *)
  Theorem C12_id_function_of_fields : forall k k' issuer now v w v' w',
    has_type (schema_of k) v = true -> has_type (schema_of k') w = true ->
    stamp H jprint k issuer now v = Some v' -> stamp H jprint k' issuer now w = Some w' ->
    (forall n, In n ["aud"; "exp"; "name"; "nbf"; "sub"] -> getp (schema_of k) [n] v = getp (schema_of k') [n] w) ->
    getp (schema_of k) ["jti"] v' = getp (schema_of k') ["jti"] w'.
  Proof. exact (id_function_of_fields H jprint). Qed.

  (* everything else is left untouched *)
  Theorem C12_stamp_frame : forall k issuer now v v' p,
    has_type (schema_of k) v = true -> stamp H jprint k issuer now v = Some v' ->
    In p (all_paths k) -> existsb (path_eqb p) (stamped_paths k) = false ->
    getp (schema_of k) p v' = getp (schema_of k) p v.
  Proof. exact (stamp_frame H jprint). Qed.

  (* imports and exports: the same entries, ordered by subject *)
  Theorem C12_account_lists_sorted : forall issuer now v v' p l,
    has_type sch_account v = true -> stamp H jprint KAccount issuer now v = Some v' ->
    p = ["nats"; "imports"] \/ p = ["nats"; "exports"] ->
    getp sch_account p v = Some (VList (Some l)) ->
    exists l', getp sch_account p v' = Some (VList (Some l')) /\ Permutation l l' /\
               StronglySorted (fun a b => entry_le (elem_ty sch_account p) a b = true) l'.
  Proof. exact (account_lists_sorted H jprint). Qed.

  (* a failed gate returns no token *)
  Theorem C12_encode_fail_empty : forall sign k issuer now v,
    encode H jprint sign k false issuer now v = None.
  Proof. exact (encode_fail_empty H jprint). Qed.
End C12.
Print Assumptions C12_stamp_fields.
Print Assumptions C12_id_function_of_fields.
Print Assumptions C12_stamp_frame.
Print Assumptions C12_account_lists_sorted.
Print Assumptions C12_encode_fail_empty.

(* changing any standard field changes the hashed text: the marshalled standard fields
   determine them (omitempty maps exactly the zero value to absence), so two claims
   with different fields have different pre-images - equal ids would be a
   SHA-512/256 collision *)
Theorem C12_id_preimage_injective : forall cd cd' j,
  has_type sch_claims_data cd = true -> has_type sch_claims_data cd' = true ->
  enc sch_claims_data cd = Some j -> enc sch_claims_data cd' = Some j -> cd = cd'.
Proof. exact id_preimage_injective. Qed.
Print Assumptions C12_id_preimage_injective.
