(* C06 — the tie to the source: Imports.Validate (v2/imports.go) as translated on this run (Gen/SrcValidateClaims.v): the
   list walked once; a null entry is an error; for a service import the subject it is delivered on (To, else the local
   subject with its references read as wildcards, else the subject) is compared, both ways, with EVERY such subject
   collected so far - not only the previous one - and collected; every entry is then validated by the translated
   Import.Validate.  What it appends to the validation results is exactly the model's [v_imports], for every list.
   The set of collected subjects (a Go map to the empty struct) is read as the list of its members in the order they
   went in; the scan over it appends the same issue whatever the order.  Only statements; proofs in
   Proofs/SrcValidateClaims.v. *)
From JWT Require Import Base.GoSem Gen.SrcValidateClaims Model.Subject Model.Validate Proofs.SrcValidateClaims.
Open Scope string_scope.
Open Scope list_scope.

Theorem C06_source_imports_validate : forall role_of act_of now (act_pub : string) (l : list (option import)) (vr : list go_issue),
  src_imports_validate role_of act_of now act_pub l vr = vr ++ map goi (v_imports role_of act_of act_pub l).
Proof. exact vc_imports. Qed.
Print Assumptions C06_source_imports_validate.
