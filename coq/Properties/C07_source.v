(* C07 — the tie to the source: ClaimsData.Validate, to which every claim kind delegates its time checks, as
   translated on this run from v2/claims.go and from the bundled version-1 library (Gen/SrcValidate.v) appends to the
   validation results exactly the issues of the model's [v_claims_data]; the clock is one more observation. *)
From JWT Require Import Base.GoSem Gen.SrcValidate Gen.SrcValidateClaims Model.Validate Proofs.SrcValidate Proofs.SrcValidateClaims.
Open Scope Z_scope.

Theorem C07_source_claims_data_validate : forall (now : Z) (c : claims_data) (vr : list go_issue),
  V2.ClaimsData_Validate (cd_exp c) (cd_nbf c) now vr = (vr ++ map goi (v_claims_data now c))%list.
Proof. exact src_claims_data_validate. Qed.
Print Assumptions C07_source_claims_data_validate.
Theorem C07_source_v1_claims_data_validate : forall (now : Z) (c : claims_data) (vr : list go_issue),
  V1.ClaimsData_Validate (cd_exp c) (cd_nbf c) now vr = (vr ++ map goi (v_claims_data now c))%list.
Proof. exact src_v1_claims_data_validate. Qed.
Print Assumptions C07_source_v1_claims_data_validate.

(* ... and the claim kinds' own Validate methods, translated on this run (Gen/SrcValidateClaims.v), append exactly the
   model's issue lists that C07_time_activation / _auth_request / _auth_response / _generic / _user count the time
   issues of.  What nkeys says of a key is an unknown function in the translation, instantiated by the model's role
   oracle; what Limits.Validate reports (CIDR, clock times, time zone) is an observation, instantiated by the model's
   list.  (Account and operator claims: Properties/C06_source_account.v.) *)
Open Scope list_scope.
Theorem C07_source_activation_validate : forall role_of now (cd : claims_data) (a : activation) (vr : list go_issue),
  SrcValidateClaims.V2.ActivationClaims_Validate (at_subject a) (at_type a) (at_issuer_account a) (cd_exp cd) (cd_nbf cd) (is_acct role_of) now vr
  = vr ++ map SrcValidateClaims.goi (v_activation_claims now role_of true cd a).
Proof. exact vc_activation_validate. Qed.
Print Assumptions C07_source_activation_validate.
Theorem C07_source_auth_request_validate : forall role_of now (cd : claims_data) (k : string) (vr : list go_issue),
  SrcValidateClaims.V2.AuthorizationRequestClaims_Validate k (cd_exp cd) (cd_nbf cd) (is_user role_of) now vr
  = vr ++ map SrcValidateClaims.goi (v_auth_request now role_of cd k).
Proof. exact vc_auth_request. Qed.
Print Assumptions C07_source_auth_request_validate.
Theorem C07_source_auth_response_validate : forall role_of now (cd : claims_data) (r : auth_response) (vr : list go_issue),
  SrcValidateClaims.V2.AuthorizationResponseClaims_Validate (ar_error r) (ar_issuer_account r) (ar_jwt r) (cd_aud cd) (cd_exp cd) (cd_nbf cd) (cd_sub cd)
    (is_acct role_of) (is_server role_of) (is_user role_of) now vr
  = vr ++ map SrcValidateClaims.goi (v_auth_response now role_of cd r).
Proof. exact vc_auth_response. Qed.
Print Assumptions C07_source_auth_response_validate.
Theorem C07_source_generic_validate : forall now (cd : claims_data) (vr : list go_issue),
  SrcValidateClaims.V2.GenericClaims_Validate (cd_exp cd) (cd_nbf cd) now vr = vr ++ map SrcValidateClaims.goi (v_generic now cd).
Proof. exact vc_generic. Qed.
Print Assumptions C07_source_generic_validate.
(* user claims: the standard fields, the permissions, the limits (Limits.Validate is translated too: net.ParseCIDR and
   time.LoadLocation are unknown functions of their text, here the model's judgements) and the issuer account *)
Theorem C07_source_user_validate : forall role_of cidr_ok hhmmss_ok tz_ok now (cd : claims_data) (u : user) (resp_nil : bool) (vr : list go_issue),
  src_user_claims_validate role_of cidr_ok hhmmss_ok tz_ok now cd u resp_nil vr
  = vr ++ map SrcValidateClaims.goi (v_user_claims now role_of cidr_ok hhmmss_ok tz_ok cd u).
Proof. exact vc_user_claims. Qed.
Print Assumptions C07_source_user_validate.
