(* C07 — the tie to the source: ClaimsData.Validate, to which every claim kind delegates its time checks, as
   translated on this run from v2/claims.go and from the bundled version-1 library (Gen/SrcValidate.v) appends to the
   validation results exactly the issues of the model's [v_claims_data]; the clock is one more observation. *)
From JWT Require Import Base.GoSem Gen.SrcValidate Model.Validate Proofs.SrcValidate.
Open Scope Z_scope.

Theorem C07_source_claims_data_validate : forall (now : Z) (c : claims_data) (vr : list go_issue),
  V2.ClaimsData_Validate (cd_exp c) (cd_nbf c) now vr = (vr ++ map goi (v_claims_data now c))%list.
Proof. exact src_claims_data_validate. Qed.
Print Assumptions C07_source_claims_data_validate.
Theorem C07_source_v1_claims_data_validate : forall (now : Z) (c : claims_data) (vr : list go_issue),
  V1.ClaimsData_Validate (cd_exp c) (cd_nbf c) now vr = (vr ++ map goi (v_claims_data now c))%list.
Proof. exact src_v1_claims_data_validate. Qed.
Print Assumptions C07_source_v1_claims_data_validate.
