(* C16 — the tie to the source: Subject.IsContainedIn and Subject.HasWildCards as translated on this run from
   v2/types.go and from the bundled version-1 library (Gen/SrcSubject.v) are the model's functions, for all subjects. *)
From JWT Require Import Base.GoSem Gen.SrcSubject Model.Subject Proofs.SrcSubject.
Open Scope string_scope.

Theorem C16_source_is_contained_in : forall s o : string, V2.Subject_IsContainedIn s o = is_contained_in s o.
Proof. exact src_is_contained_in. Qed.
Print Assumptions C16_source_is_contained_in.
Theorem C16_source_has_wildcards : forall s : string, V2.Subject_HasWildCards s = has_wildcards s.
Proof. exact src_has_wildcards. Qed.
Print Assumptions C16_source_has_wildcards.
Theorem C16_source_v1_is_contained_in : forall s o : string, V1.Subject_IsContainedIn s o = is_contained_in s o.
Proof. exact src_v1_is_contained_in. Qed.
Print Assumptions C16_source_v1_is_contained_in.
Theorem C16_source_v1_has_wildcards : forall s : string, V1.Subject_HasWildCards s = has_wildcards s.
Proof. exact src_v1_has_wildcards. Qed.
Print Assumptions C16_source_v1_has_wildcards.

(* Exports.HasExportContainingSubject of both libraries: true exactly when some entry of the list that is there holds a
   subject containing the one asked for; the exports are opaque values of any type, known through their subject and
   through whether they are nil *)
Theorem C16_source_has_export_containing : forall (V : Type) (vnil : V) (subj_of : V -> string) (is_nil_v : V -> bool) (l : list V) (subject : string),
  V2.Exports_HasExportContainingSubject V vnil subj_of is_nil_v l subject
  = existsb (fun e => negb (is_nil_v e) && is_contained_in subject (subj_of e)) l.
Proof. intros V vnil subj_of is_nil_v. exact (src_has_export_containing vnil subj_of is_nil_v). Qed.
Print Assumptions C16_source_has_export_containing.
Theorem C16_source_v1_has_export_containing : forall (V : Type) (vnil : V) (subj_of : V -> string) (is_nil_v : V -> bool) (l : list V) (subject : string),
  V1.Exports_HasExportContainingSubject V vnil subj_of is_nil_v l subject
  = existsb (fun e => negb (is_nil_v e) && is_contained_in subject (subj_of e)) l.
Proof. intros V vnil subj_of is_nil_v. exact (src_v1_has_export_containing vnil subj_of is_nil_v). Qed.
Print Assumptions C16_source_v1_has_export_containing.

(* RenamingSubject.ToSubject - the subject a renaming subject stands for, which the overlap rules compare: a token that is
   a reference (a dollar sign followed by an integer, nothing more and nothing less) reads as the wildcard *, every
   other token stays as written (so $$1, $x, a lone $ are literal).  strconv.Atoi is an unknown function of its text,
   here the model's [atoi]; a strings.Builder is the text written into it so far. *)
Theorem C16_source_to_subject : forall s : string, V2.RenamingSubject_ToSubject o_atoi_err s = Model.Validate.to_subject s.
Proof. exact src_to_subject. Qed.
Print Assumptions C16_source_to_subject.
