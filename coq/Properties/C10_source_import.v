(* C10 — the tie to the source: Import.Validate (v2/imports.go) as translated on this run (Gen/SrcValidateClaims.v, with
   Import.IsService / IsStream / GetTo, ActivationClaims.validateWithTimeChecks, Subject.Validate and
   Subject.IsContainedIn translated beside it) appends to the validation results exactly the issues of the model's
   [v_import], whose token part [v_import_token] is what the C10 theorems are about.  The import and the activation
   its token decodes to are opaque values in the translation (DecodeActivationClaims is an unknown function of the
   token text, the fields read off its result are unknown functions of that value); [src_import_validate]
   instantiates them by the model's records and [act_of] (nil when decoding fails).  Only statements; proofs in
   Proofs/SrcValidateClaims.v. *)
From JWT Require Import Base.GoSem Gen.SrcValidateClaims Model.Subject Model.Validate Proofs.SrcValidateClaims.
Open Scope string_scope.
Open Scope list_scope.

Theorem C10_source_import_validate : forall role_of act_of now (act_pub : string) (oi : option import) (vr : list go_issue),
  src_import_validate role_of act_of now act_pub (gv_of oi) vr = vr ++ map goi (v_import role_of act_of act_pub oi).
Proof. exact vc_import. Qed.
Print Assumptions C10_source_import_validate.
