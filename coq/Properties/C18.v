(* C18 — Activation hash identity.  Only statements live here; proofs are in Proofs/HashID.v. *)
From JWT Require Import Model.HashID Proofs.HashID.

(* what the granted subject contributes: the tokens before the first wildcard
   token, "_" for a leading wildcard, the subject itself when it has none *)
Theorem C18_clean_subject_spec : forall s : string,
  valid_subject s = true ->
  match find_wc (split dot s) 0 with
  | None => clean_subject s = s
  | Some O => clean_subject s = "_"
  | Some i => clean_subject s = join dot (firstn i (split dot s))
              /\ Forall (fun t => t <> "*" /\ t <> ">") (firstn i (split dot s))
              /\ (exists w, nth_error (split dot s) i = Some w /\ (w = "*" \/ w = ">"))
  end.
Proof. exact clean_subject_spec. Qed.
Print Assumptions C18_clean_subject_spec.

(* the id is the hash of exactly issuer.subject.cleaned — so it depends on
   nothing else, whatever H (SHA-256 + base32) is *)
Theorem C18_hash_depends_only : forall (H : string -> string) iss sub imp imp',
  iss <> "" -> sub <> "" -> imp <> "" -> imp' <> "" ->
  clean_subject imp = clean_subject imp' ->
  hash_id H iss sub imp = hash_id H iss sub imp' /\
  hash_id H iss sub imp = Some (H (iss ++ "." ++ sub ++ "." ++ clean_subject imp)).
Proof. exact hash_depends_only. Qed.
Print Assumptions C18_hash_depends_only.

(* it differs when issuer, subject or cleaned prefix differ: the hashed texts
   differ (keys are dot-free), so equal ids would be a SHA-256 collision *)
Theorem C18_preimage_injective : forall iss sub imp iss' sub' imp',
  sep_free dot iss = true -> sep_free dot sub = true ->
  sep_free dot iss' = true -> sep_free dot sub' = true ->
  preimage iss sub imp = preimage iss' sub' imp' ->
  iss = iss' /\ sub = sub' /\ clean_subject imp = clean_subject imp'.
Proof. exact preimage_injective. Qed.
Print Assumptions C18_preimage_injective.

(* refused when any of the three is missing, and only then *)
Theorem C18_hash_refused : forall (H : string -> string) iss sub imp,
  hash_id H iss sub imp = None <-> (iss = "" \/ sub = "" \/ imp = "").
Proof. exact hash_refused. Qed.
Print Assumptions C18_hash_refused.

Example C18_ex : clean_subject "foo.bar.*.x" = "foo.bar" /\ clean_subject "*.a" = "_"
              /\ clean_subject ">" = "_" /\ clean_subject "a.b" = "a.b" /\ clean_subject "a.>" = "a".
Proof. repeat split; reflexivity. Qed.
