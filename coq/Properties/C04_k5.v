(* C04 - recorded finding K5: the statement "every token the version-1 encoder writes migrates" is FALSE of the code for
   version-1 generic tokens whose free-form data holds a member "version" that is not an integer (an application's own
   "1.4.2" or 2.5): the version-1 schema reads the payload, but the version-2 decoder's kind / version probe - the
   identifier read of the same payload, which looks for an integer nats.version - fails, so Decode refuses the token.
   (Same root as K4: generic data shares its namespace with the members the probe reads.)  Only the statement; the
   witness is in Proofs/Pipeline.v. *)
From JWT Require Import Base.Codec Gen.Schema Model.Claims Model.Pipeline Proofs.Pipeline.
Open Scope string_scope.

Theorem C04_k5_refuted :
  (exists d, dec sch1_generic k5_payload (zero_val sch1_generic) = Some d) /\
  forall (jparse : string -> option json) (s : string), jparse s = Some k5_payload -> p_parse_ident jparse s = None.
Proof. exact k5_refuted. Qed.
Print Assumptions C04_k5_refuted.
