(* C06 / C07 — the tie to the source: AccountClaims.Validate and Account.Validate (v2/account_claims.go), with
   Info.Validate (v2/types.go), SigningKeys.Validate and UserScope.Validate (v2/signingkeys.go), OperatorLimits.IsEmpty;
   OperatorClaims.Validate and Operator.Validate with validateAccountServerURL, ValidateOperatorServiceURL,
   validateOperatorServiceURLs and ParseServerVersion (v2/operator_claims.go) - as translated on this run
   (Gen/SrcValidateClaims.v).
   Account.Validate reports into the results it is handed and also stores through a pointer (a trace sampling of zero
   becomes 100): the translation returns the log of such stores together with the results.  Proved, for every account
   and every results list handed in: the results are what was there followed by exactly the model's [v_account_claims]
   (whose blocking issues C06 and whose time-check issues C07 count), nothing is dropped when the claims are expired
   or carry other issues, no issue of an embedded token is added, and the only store is that one default.  What
   Exports.Validate reports is a parameter of the translation of Account.Validate (it lives in another group): the
   theorem takes exactly the list C06_source_exports_validate proves it to be.  nkeys, url.Parse, strconv.Atoi and
   DecodeActivationClaims are unknown functions in the translation, instantiated by the model's oracles.
   Only statements; proofs in Proofs/SrcAccount.v. *)
From JWT Require Import Base.GoSem Gen.SrcValidateClaims Model.Subject Model.Validate Proofs.SrcValidateClaims Proofs.SrcAccount.
Open Scope string_scope.
Open Scope list_scope.

Theorem C06_source_info_validate : forall url_of (desc url : string) (vr : list go_issue),
  V2.Info_Validate gvi IVnil (o_url_parse url_of) o_url_host o_url_scheme desc url vr = vr ++ map goi (v_info url_of desc url).
Proof. exact vc_info. Qed.
Print Assumptions C06_source_info_validate.

Theorem C06_source_signing_keys_validate : forall role_of (l : list (string * option string)) (vr : list go_issue),
  V2.SigningKeys_Validate gvi IVnil (is_acct role_of) (o_scope_validate role_of) o_scope_nil (map gv_scope l) vr
  = vr ++ map goi (v_signing_keys role_of l).
Proof. exact vc_signing_keys. Qed.
Print Assumptions C06_source_signing_keys_validate.

(* UserScope.Validate is what the scope of a signing key reports: its own key must be an account key *)
Theorem C06_source_user_scope_validate : forall role_of (key : string) (vr : list go_issue),
  V2.UserScope_Validate (is_acct role_of) key vr = vr ++ o_scope_validate role_of (IVscope key).
Proof.
  intros role_of key vr. unfold V2.UserScope_Validate, o_scope_validate, is_acct. cbv zeta.
  destruct (negb (is_role role_of RAccount key)); [reflexivity|now rewrite app_nil_r].
Qed.
Print Assumptions C06_source_user_scope_validate.

Theorem C06_source_limits_is_empty : forall (o : op_limits),
  V2.OperatorLimits_IsEmpty (acct_zero o) (js_zero (ol_js o)) (Z.of_nat (List.length (ol_tiers o))) (nats_zero o) = limits_empty o.
Proof. exact vc_limits_empty. Qed.
Print Assumptions C06_source_limits_is_empty.

Theorem C06_source_account_validate : forall role_of act_of url_of now (resp_nil : bool) (act_pub : string) (a : account) (vr : list go_issue),
  src_account_validate role_of act_of url_of now resp_nil (map goi (v_exports url_of (ac_exports a))) act_pub a vr
  = (trace_log a, vr ++ map goi (v_account role_of url_of act_of act_pub a)).
Proof. exact src_account. Qed.
Print Assumptions C06_source_account_validate.

Theorem C06_source_account_claims_validate : forall role_of act_of url_of now (resp_nil : bool) (cd : claims_data) (a : account) (vr : list go_issue),
  src_account_claims_validate role_of act_of url_of now resp_nil (map goi (v_exports url_of (ac_exports a))) cd a vr
  = (trace_log a, vr ++ map goi (v_account_claims now role_of url_of act_of cd a)).
Proof. exact src_account_claims. Qed.
Print Assumptions C06_source_account_claims_validate.

(* the premises are met, and the store happens: an account whose trace samples "0" *)
Example C06_source_account_store :
  trace_log {| ac_imports := []; ac_exports := []; ac_limits := {| ol_nats := [0; 0; 0]%Z; ol_imports := 0; ol_exports := 0; ol_wildcards := false;
                 ol_disallow_bearer := false; ol_conn := 0; ol_leaf := 0; ol_js := {| js_ints := []; js_flag := false |}; ol_tiers := [] |};
               ac_signing_keys := []; ac_default_perms := {| perm_pub := {| p_allow := []; p_deny := [] |}; perm_sub := {| p_allow := []; p_deny := [] |} |};
               ac_mappings := []; ac_auth := {| ea_users := []; ea_accounts := []; ea_xkey := "" |};
               ac_trace := Some {| tr_dest := "trace.here"; tr_sampling := 0 |}; ac_desc := ""; ac_url := "" |}
  = [GoSetZ "a_Trace_Sampling" 100%Z].
Proof. reflexivity. Qed.

(* ---------- operator claims ---------- *)
Theorem C06_source_parse_server_version : forall (s : string), go_err_isnil (version_err s) = version_ok s.
Proof. exact vc_parse_version. Qed.
Print Assumptions C06_source_parse_server_version.

Theorem C06_source_operator_service_url : forall url_of (v : string),
  go_err_isnil (V2.ValidateOperatorServiceURL gvi IVnil (o_url_parse url_of) o_url_path o_url_scheme o_url_nouser v) = service_url_ok url_of v.
Proof. exact vc_service_url. Qed.
Print Assumptions C06_source_operator_service_url.

Theorem C06_source_operator_claims_validate : forall role_of url_of now (cd : claims_data) (o : operator) (vr : list go_issue),
  src_operator_claims_validate role_of url_of now cd o vr = vr ++ map goi (v_operator_claims now role_of url_of cd o).
Proof. exact src_operator_claims. Qed.
Print Assumptions C06_source_operator_claims_validate.

(* the unknown functions the two top-level walks consult, by name: the nkeys role predicates, the clock, url.Parse,
   strconv.Atoi, DecodeActivationClaims - and nothing else (no cache, no global, no other decoder) *)
Theorem C06_source_validate_consults :
  V2.AccountClaims_Validate_consults = ["go_DecodeActivationClaims"; "go_nkeys_IsValidPublicAccountKey"; "go_nkeys_IsValidPublicCurveKey";
    "go_nkeys_IsValidPublicUserKey"; "go_now"; "go_url_Parse"]%list /\
  V2.OperatorClaims_Validate_consults = ["go_nkeys_IsValidPublicAccountKey"; "go_nkeys_IsValidPublicOperatorKey"; "go_now";
    "go_strconv_Atoi"; "go_url_Parse"]%list /\
  V2.UserClaims_Validate_consults = ["go_net_ParseCIDR"; "go_nkeys_IsValidPublicAccountKey"; "go_now"; "go_time_LoadLocation_err"; "go_time_Parse_err"]%list /\
  V2.ActivationClaims_Validate_consults = ["go_nkeys_IsValidPublicAccountKey"; "go_now"]%list /\
  V2.Import_Validate_consults = ["go_DecodeActivationClaims"; "go_nkeys_IsValidPublicAccountKey"; "go_now"]%list.
Proof. repeat split; reflexivity. Qed.
Print Assumptions C06_source_validate_consults.

(* RenamingSubject.Validate - an import's local subject against the subject it renames: the subject rules, no blanks, both
   or neither ending in >, every reference $N within the number of wildcard TOKENS of the subject, and as many wildcard
   tokens and references as the subject has wildcard tokens (whole tokens: a star or a dollar sign inside a literal token
   counts for nothing) - the model's [v_renaming], which Import.Validate's theorem takes as an observation *)
Theorem C06_source_renaming_validate : forall (s from : string) (vr : list go_issue),
  V2.RenamingSubject_Validate (o_atoi) s from vr = vr ++ map goi (v_renaming s from).
Proof. exact vc_renaming. Qed.
Print Assumptions C06_source_renaming_validate.
