(* C06 — Validation flags every catalogued violation as blocking and never flags
   clean claims.  The CATALOGUE (DESIGN.md section 5.6), decidable predicates
   written from the rules, is in Model/Catalogue.v; this file holds the
   statements; proofs are in Proofs/Validate.v.  Each theorem is an equation
       IsBlocking(false) after Validate  =  "some catalogued rule fires",
   for EVERY claims value and every judgement of the external functions: so a
   violation is flagged whatever else the claims contain and wherever it sits
   (list membership is an existential over positions), and claims on which no
   rule fires are never flagged. *)
From JWT Require Import Model.Catalogue Proofs.Validate.
Open Scope string_scope.
Open Scope Z_scope.

(* The catalogue itself (Section Catalogue: subject_bad, info_bad, export_bad,
   overlap, exports_bad, local_bad, activation_bad, token_bad, import_bad,
   keys_overlap, imports_bad, permissions_bad, mappings_bad, limits_bad,
   ext_auth_bad, trace_bad, signing_keys_bad, counts_bad, account_bad,
   service_url_bad, version_bad, operator_bad, time_range_bad, user_bad,
   auth_request_bad, auth_response_bad) lives in Model/Catalogue.v, so that
   Proofs/Validate.v can state its lemmas about it. *)

(* ---------------- the theorems: blocking  <->  some catalogued rule fires ---------------- *)
Section C06.
  Variable now : Z.
  Variable role_of : string -> role.
  Variable url_of : string -> url_view.
  Variable cidr_ok : string -> bool.
  Variable hhmmss_ok : string -> bool.
  Variable tz_ok : string -> bool.
  Variable act_of : string -> option act_view.

  Theorem C06_account : forall cd a,
    is_blocking false (v_account_claims now role_of url_of act_of cd a)
    = account_bad role_of url_of act_of (cd_sub cd) a.
  Proof. exact (account_blocking_iff now role_of url_of act_of). Qed.

  Theorem C06_operator : forall cd o,
    is_blocking false (v_operator_claims now role_of url_of cd o) = operator_bad role_of url_of o.
  Proof. exact (operator_blocking_iff now role_of url_of). Qed.

  Theorem C06_user : forall cd u,
    is_blocking false (v_user_claims now role_of cidr_ok hhmmss_ok tz_ok cd u)
    = user_bad role_of cidr_ok hhmmss_ok tz_ok u.
  Proof. exact (user_blocking_iff now role_of cidr_ok hhmmss_ok tz_ok). Qed.

  Theorem C06_activation : forall tc cd a,
    is_blocking false (v_activation_claims now role_of tc cd a) = activation_bad role_of a.
  Proof. exact (activation_blocking_iff now role_of). Qed.

  Theorem C06_auth_request : forall cd k,
    is_blocking false (v_auth_request now role_of cd k) = auth_request_bad role_of k.
  Proof. exact (auth_request_blocking_iff now role_of). Qed.

  Theorem C06_auth_response : forall cd r,
    is_blocking false (v_auth_response now role_of cd r) = auth_response_bad role_of cd r.
  Proof. exact (auth_response_blocking_iff now role_of). Qed.

  Theorem C06_generic : forall cd, is_blocking false (v_generic now cd) = false.
  Proof. exact (generic_blocking_iff now). Qed.
End C06.
Print Assumptions C06_account.
Print Assumptions C06_operator.
Print Assumptions C06_user.
Print Assumptions C06_activation.
Print Assumptions C06_auth_request.
Print Assumptions C06_auth_response.
Print Assumptions C06_generic.

(* M3 with the true sum: 100 + 100 + 100 is flagged (it wrapped to 44 before the fix) *)
Example C06_weights_300 :
  mappings_bad [("a", [{| wm_subject := "x"; wm_weight := 100 |}; {| wm_subject := "y"; wm_weight := 100 |};
                       {| wm_subject := "z"; wm_weight := 100 |}])] = true.
Proof. reflexivity. Qed.
