(* C08 — Signer attribution (DidSign).  Only statements; proofs in Proofs/DidSign.v. *)
From JWT Require Import Model.DidSign Proofs.DidSign.
Open Scope string_scope.

(* account: exactly the rule of the property statement, for every claim and key set *)
Theorem C08_acct_did_sign_spec : forall id keys c,
  acct_did_sign id keys (Some c) = true <-> acct_spec id keys c.
Proof. exact acct_did_sign_spec. Qed.
Print Assumptions C08_acct_did_sign_spec.

(* operator: exactly the rule, except in the corner recorded as known finding K3
   (strict usage, issuer = identity key, foreign subject, identity key also listed) *)
Theorem C08_op_did_sign_spec : forall id strict keys c,
  ~ (strict = true /\ sc_iss c = id /\ sc_sub c <> id /\ In id keys) ->
  (op_did_sign id strict keys (Some c) = true <-> op_spec id strict keys c).
Proof. exact op_did_sign_spec. Qed.
Print Assumptions C08_op_did_sign_spec.

(* the full statement is false of the code as it is: witness for K3 *)
Theorem C08_op_did_sign_refuted : exists id strict keys c,
  op_spec id strict keys c /\ op_did_sign id strict keys (Some c) = false.
Proof. exact op_did_sign_refuted. Qed.
Print Assumptions C08_op_did_sign_refuted.

(* what the code answers in that corner: no *)
Theorem C08_op_did_sign_corner : forall id strict keys c,
  strict = true -> sc_iss c = id -> sc_sub c <> id -> op_did_sign id strict keys (Some c) = false.
Proof. exact op_did_sign_corner. Qed.
Print Assumptions C08_op_did_sign_corner.

Theorem C08_did_sign_nil : forall id strict keys,
  op_did_sign id strict keys None = false /\ acct_did_sign id keys None = false.
Proof. exact did_sign_nil. Qed.
Print Assumptions C08_did_sign_nil.

Example C08_ex : acct_did_sign "A" ["K"] (Some {| sc_kind := KUser; sc_iss := "K"; sc_sub := "U"; sc_issuer_account := "A" |}) = true
              /\ acct_did_sign "A" ["K"] (Some {| sc_kind := KUser; sc_iss := "K"; sc_sub := "U"; sc_issuer_account := "B" |}) = false
              /\ op_did_sign "O" true ["S"] (Some {| sc_kind := KAccount; sc_iss := "S"; sc_sub := "A"; sc_issuer_account := "" |}) = true.
Proof. repeat split; reflexivity. Qed.
