(* C05, Encode side — the tie to the source: a successful ClaimsData.doEncode (v2/claims.go, translated on this run
   into Gen/SrcEncode.v) was given the version-2 algorithm name (the legacy one is refused) and returns the serialized
   header, a dot, the serialized claims, a dot and the encoded signature over header-dot-claims.  Only statements;
   proofs in Proofs/SrcEncode.v. *)
From JWT Require Import Base.GoSem Gen.SrcEncode Proofs.SrcEncode.
Open Scope string_scope.
Open Scope list_scope.

Theorem C05_source_encode_shape : forall subject hash prefixes b64 isA isC isO isS isU now same ser_claim ser_header alg hnil pubkey sign knil,
  let run := run subject hash prefixes b64 isA isC isO isS isU now same ser_claim ser_header alg hnil pubkey sign knil in
  snd (snd run) = None ->
  alg = "ed25519-nkey" /\
  exists h payload sg log, ser_header [] = (h, None) /\ ser_claim log = (payload, None) /\
    sign log (h ++ "." ++ payload)%string = (sg, None) /\
    fst (snd run) = (h ++ "." ++ payload ++ "." ++ b64 log sg)%string.
Proof. exact src_do_encode_shape. Qed.
Print Assumptions C05_source_encode_shape.
