(* C02 — the tie to the source: the kind a payload declares is read exactly as identifier.Kind (v2/decoder.go,
   translated on this run into Gen/SrcHeader.v) reads it.  Only statements. *)
From JWT Require Import Base.GoSem Gen.SrcHeader Gen.SrcDecode Model.Decode Proofs.SrcHeader Proofs.SrcDecode.
Open Scope string_scope.

Theorem C02_source_identifier_kind : forall i : ident,
  V2.identifier_Kind (id_nats_type i) (id_top_type i) = id_kind i.
Proof. exact src_id_kind. Qed.
Print Assumptions C02_source_identifier_kind.

(* the six typed decoders as translated on this run: each accepts exactly what the model's [decode_typed] accepts for
   its kind and returns claims of that kind (the role matrix of C02 is proved of [decode] / [decode_typed]) *)
Theorem C02_source_decode_Operator : forall b64dec parse_header parse_ident unmarshal_ok issuer_of verify role_of (tok : string),
  match decode_typed b64dec parse_header parse_ident unmarshal_ok issuer_of verify role_of KOperator tok with
  | Some a => exists d, src_decode_Operator b64dec parse_header parse_ident unmarshal_ok issuer_of verify role_of tok = (GClaims KOperator d, None)
                        /\ issuer_of d = a_iss a
  | None => snd (src_decode_Operator b64dec parse_header parse_ident unmarshal_ok issuer_of verify role_of tok) <> None
  end.
Proof. exact src_decode_Operator_spec. Qed.
Print Assumptions C02_source_decode_Operator.
Theorem C02_source_decode_Account : forall b64dec parse_header parse_ident unmarshal_ok issuer_of verify role_of (tok : string),
  match decode_typed b64dec parse_header parse_ident unmarshal_ok issuer_of verify role_of KAccount tok with
  | Some a => exists d, src_decode_Account b64dec parse_header parse_ident unmarshal_ok issuer_of verify role_of tok = (GClaims KAccount d, None)
                        /\ issuer_of d = a_iss a
  | None => snd (src_decode_Account b64dec parse_header parse_ident unmarshal_ok issuer_of verify role_of tok) <> None
  end.
Proof. exact src_decode_Account_spec. Qed.
Print Assumptions C02_source_decode_Account.
Theorem C02_source_decode_User : forall b64dec parse_header parse_ident unmarshal_ok issuer_of verify role_of (tok : string),
  match decode_typed b64dec parse_header parse_ident unmarshal_ok issuer_of verify role_of KUser tok with
  | Some a => exists d, src_decode_User b64dec parse_header parse_ident unmarshal_ok issuer_of verify role_of tok = (GClaims KUser d, None)
                        /\ issuer_of d = a_iss a
  | None => snd (src_decode_User b64dec parse_header parse_ident unmarshal_ok issuer_of verify role_of tok) <> None
  end.
Proof. exact src_decode_User_spec. Qed.
Print Assumptions C02_source_decode_User.
Theorem C02_source_decode_Activation : forall b64dec parse_header parse_ident unmarshal_ok issuer_of verify role_of (tok : string),
  match decode_typed b64dec parse_header parse_ident unmarshal_ok issuer_of verify role_of KActivation tok with
  | Some a => exists d, src_decode_Activation b64dec parse_header parse_ident unmarshal_ok issuer_of verify role_of tok = (GClaims KActivation d, None)
                        /\ issuer_of d = a_iss a
  | None => snd (src_decode_Activation b64dec parse_header parse_ident unmarshal_ok issuer_of verify role_of tok) <> None
  end.
Proof. exact src_decode_Activation_spec. Qed.
Print Assumptions C02_source_decode_Activation.
Theorem C02_source_decode_AuthorizationRequest : forall b64dec parse_header parse_ident unmarshal_ok issuer_of verify role_of (tok : string),
  match decode_typed b64dec parse_header parse_ident unmarshal_ok issuer_of verify role_of KAuthRequest tok with
  | Some a => exists d, src_decode_AuthorizationRequest b64dec parse_header parse_ident unmarshal_ok issuer_of verify role_of tok = (GClaims KAuthRequest d, None)
                        /\ issuer_of d = a_iss a
  | None => snd (src_decode_AuthorizationRequest b64dec parse_header parse_ident unmarshal_ok issuer_of verify role_of tok) <> None
  end.
Proof. exact src_decode_AuthorizationRequest_spec. Qed.
Print Assumptions C02_source_decode_AuthorizationRequest.
Theorem C02_source_decode_AuthorizationResponse : forall b64dec parse_header parse_ident unmarshal_ok issuer_of verify role_of (tok : string),
  match decode_typed b64dec parse_header parse_ident unmarshal_ok issuer_of verify role_of KAuthResponse tok with
  | Some a => exists d, src_decode_AuthorizationResponse b64dec parse_header parse_ident unmarshal_ok issuer_of verify role_of tok = (GClaims KAuthResponse d, None)
                        /\ issuer_of d = a_iss a
  | None => snd (src_decode_AuthorizationResponse b64dec parse_header parse_ident unmarshal_ok issuer_of verify role_of tok) <> None
  end.
Proof. exact src_decode_AuthorizationResponse_spec. Qed.
Print Assumptions C02_source_decode_AuthorizationResponse.
