(* C02 — the tie to the source: the kind a payload declares is read exactly as identifier.Kind (v2/decoder.go,
   translated on this run into Gen/SrcHeader.v) reads it.  Only statements. *)
From JWT Require Import Base.GoSem Gen.SrcHeader Model.Decode Proofs.SrcHeader.
Open Scope string_scope.

Theorem C02_source_identifier_kind : forall i : ident,
  V2.identifier_Kind (id_nats_type i) (id_top_type i) = id_kind i.
Proof. exact src_id_kind. Qed.
Print Assumptions C02_source_identifier_kind.
