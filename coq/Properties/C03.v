(* C03 — Encode then Decode is lossless.  Only statements; proofs in
   Proofs/Codec.v (the generic meta-theorem) and Proofs/Claims.v (its instances
   on the schemas generated from the code). *)
From JWT Require Import Base.Codec Model.Claims Proofs.Codec Proofs.Claims.
Open Scope Z_scope.

(* META-THEOREM, proved once for every schema and every value: marshalling and
   then unmarshalling into a compatible preset gives the value back, up to the
   identification of nil with empty containers (and nothing else).
   [wf_ty' t = wf_ty t && enums_ok t && keyset_kind_ok t] (Proofs/Codec.v): besides
   [wf_ty], (1) enum tables give distinct names to their numbers, (2) the scope
   struct of a key set has a never-omitted field "kind" whose only encoding is
   "user_scope".  With [wf_ty] alone the statement is false: see
   [wf_ty_alone_fails_enum] and [wf_ty_alone_fails_keyset] in Proofs/Codec.v. *)
Theorem C03_codec_roundtrip : forall (t : ty) (v v0 : val) (j : json),
  wf_ty' t = true -> has_type t v = true -> scopes_ok t v = true -> omit_ok t v v0 = true ->
  enc t v = Some j ->
  exists v', dec t j v0 = Some v' /\ canon v' = canon v.
Proof. exact codec_roundtrip. Qed.
Print Assumptions C03_codec_roundtrip.

(* decoding into the zero value is always compatible *)
Theorem C03_zero_compatible : forall (t : ty) (v : val),
  wf_ty t = true -> has_type t v = true -> omit_ok t v (zero_val t) = true.
Proof. exact zero_compatible. Qed.
Print Assumptions C03_zero_compatible.

(* the schemas read from the code on this run are well formed: distinct JSON names
   per struct, every custom codec recognised, pointers only to structs; and no
   field is silently dropped by an ambiguous embedding *)
Theorem C03_schemas_wf : forallb (fun s => wf_ty (snd s)) all_schemas = true /\ dropped_fields = [].
Proof. exact schemas_wf. Qed.
Print Assumptions C03_schemas_wf.

(* ... and they satisfy the two side conditions of the meta-theorem *)
Theorem C03_schemas_wf' : forallb (fun s => wf_ty' (snd s)) all_schemas = true.
Proof. exact schemas_wf'. Qed.
Print Assumptions C03_schemas_wf'.

(* every kind: for claims as they are after Encode's stamping, what Encode writes
   is read back by the version-2 loader as the same content.  Guards that remain
   (each a recorded finding): K1 an account with tiered AND flat JetStream
   limits; K2 (inside scopes_ok) a scope template with a zero limit *)
(* [k1_guard] is defined in Proofs/Claims.v:
   Definition k1_guard (k : ckind) (v : val) : bool :=
     match k with
     | KAccount =>
         match getp sch_account ["nats"; "limits"; "tiered_limits"]%string v with
         | Some (VMap (Some (_ :: _))) => val_eqb (clear_js v) v
         | _ => true
         end
     | _ => true
     end. *)

Theorem C03_claims_roundtrip : forall (k : ckind) (v : val) (j : json),
  has_type (schema_of k) v = true -> scopes_ok (schema_of k) v = true -> k1_guard k v = true ->
  enc (schema_of k) v = Some j ->
  exists v', load_v2 k j = Some v' /\ canon v' = canon v.
Proof. exact claims_roundtrip. Qed.
Print Assumptions C03_claims_roundtrip.

(* the guards are not vacuous and are necessary: witnesses for K1 and K2 *)
Theorem C03_k2_refuted : exists (v : val) (j : json) (v' : val),
  has_type sch_account v = true /\ enc sch_account v = Some j /\
  load_v2 KAccount j = Some v' /\ canon v' <> canon v.
Proof. exact k2_refuted. Qed.
Print Assumptions C03_k2_refuted.
