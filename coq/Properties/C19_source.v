(* C19 — the tie to the source: the bundled version-1 library's Decode(token, target), with its parseHeaders and
   parseClaims, as translated on this run from v2/v1compat (Gen/SrcDecodeV1.v) accepts exactly the tokens the model's
   [v1_decode] accepts, for every target kind and every choice of base64 / JSON / Ed25519 / key-role functions.  The
   target is an abstract value; [src_v1_decode k data tok] is the translated function with what the code observes of
   the target after json.Unmarshal filled it from [data] (Verify, ExpectedPrefixes, Claims().Issuer) instantiated by
   the model's oracles for kind k, and [payload_of tok] is the text the payload segment decodes to. *)
From JWT Require Import Base.GoSem Gen.SrcDecodeV1 Model.V1 Proofs.SrcDecodeV1.
Open Scope string_scope.

Theorem C19_source_v1_decode : forall b64dec parse_header unmarshal_ok issuer_of verify role_of (k : v1kind) (tok : string),
  src_v1_decode b64dec parse_header unmarshal_ok issuer_of verify role_of k (payload_of b64dec tok) tok = None <->
  v1_decode b64dec parse_header unmarshal_ok issuer_of verify role_of k tok <> None.
Proof. exact src_v1_decode_spec. Qed.
Print Assumptions C19_source_v1_decode.

(* the version-1 DecodeGeneric: Decode into generic claims of its own and nothing else - no check before it, none after
   it (a generic token is accepted whatever kind it declares and whichever role signed it, as Decode with a generic target
   decides): it hands back that Decode's error, for every reading of the observations *)
Theorem C19_source_v1_decode_generic : forall (V : Type) (vnil : V) ds uh isA isC isO isS isU
    (iss : V -> string) (pre : V -> list Z) (ver : V -> string -> string -> bool) (unm : V -> string -> option string) halg htyp (tok : string),
  V1.DecodeGeneric V vnil ds uh isA isC isO isS isU iss pre ver unm halg htyp tok
  = (vnil, V1.Decode V vnil ds uh isA isC isO isS isU halg htyp (iss vnil) (pre vnil) (ver vnil) (unm vnil) tok).
Proof. exact src_v1_decode_generic. Qed.
Print Assumptions C19_source_v1_decode_generic.
