(* C10 — Import activation tokens are bound to exporter, importer, kind and
   subject.  Only statements; proofs in Proofs/Validate.v.  "Authentic and
   decodable" is DecodeActivationClaims (modelled and proved in C01/C02/C05);
   here it enters as the function act_of. *)
From JWT Require Import Model.Validate Proofs.Validate.
Open Scope string_scope.
Open Scope Z_scope.

Section C10.
  Variable now : Z.
  Variable role_of : string -> role.
  Variable url_of : string -> url_view.
  Variable act_of : string -> option act_view.

  (* the binding, as the property states it *)
  Definition binding_ok (act_pub : string) (i : import) (av : act_view) : Prop :=
    (cd_iss (av_cd av) = im_account i \/ at_issuer_account (av_act av) = im_account i) /\   (* exporter, directly or as issuer account *)
    cd_sub (av_cd av) = act_pub /\                                                           (* addressed to the containing account *)
    at_type (av_act av) = im_type i /\                                                       (* same stream/service kind *)
    is_blocking false (v_activation role_of (av_act av)) = false /\                          (* the activation itself is valid *)
    is_contained_in (if (im_type i =? 2) && negb (im_to i =? "")%string then im_to i else im_subject i)
                    (at_subject (av_act av)) = true.                                         (* grants the imported subject *)

  (* the token part of Import.Validate is non-blocking exactly when the token decodes
     as an activation and satisfies the whole binding *)
  Theorem C10_token_blocking_iff : forall act_pub i,
    im_token i <> "" ->
    (is_blocking false (v_import_token role_of act_of act_pub i) = false <->
     exists av, act_of (im_token i) = Some av /\ binding_ok act_pub i av).
  Proof. exact (token_blocking_iff role_of act_of). Qed.

  (* no token, nothing to check *)
  Theorem C10_no_token : forall act_pub i, im_token i = "" -> v_import_token role_of act_of act_pub i = [].
  Proof. exact (no_token role_of act_of). Qed.

  (* expiry is deliberately not considered: the token never contributes a time-check issue *)
  Theorem C10_expiry_ignored : forall act_pub i,
    time_issues (v_import_token role_of act_of act_pub i) = 0%nat /\
    is_blocking true (v_import_token role_of act_of act_pub i) = is_blocking false (v_import_token role_of act_of act_pub i).
  Proof. exact (expiry_ignored role_of act_of). Qed.

  (* consequence at the level of the import and of the whole account: an import that
     sits anywhere in an account validating without a blocking issue has a bound token *)
  Theorem C10_import_nonblocking : forall act_pub i,
    is_blocking false (v_import role_of act_of act_pub (Some i)) = false ->
    im_token i = "" \/ exists av, act_of (im_token i) = Some av /\ binding_ok act_pub i av.
  Proof. exact (import_nonblocking role_of act_of). Qed.

  Theorem C10_account_nonblocking : forall cd a i,
    In (Some i) (ac_imports a) ->
    is_blocking false (v_account_claims now role_of url_of act_of cd a) = false ->
    im_token i = "" \/ exists av, act_of (im_token i) = Some av /\ binding_ok (cd_sub cd) i av.
  Proof. exact (account_nonblocking now role_of url_of act_of). Qed.
End C10.
Print Assumptions C10_token_blocking_iff.
Print Assumptions C10_no_token.
Print Assumptions C10_expiry_ignored.
Print Assumptions C10_import_nonblocking.
Print Assumptions C10_account_nonblocking.
