(* C11 — No panic on untrusted input (PARTIAL: the model carries the library's
   own indexing, dereferencing and map stores; panics inside encoding/json,
   base64, regexp, sort, fmt, net/url, time and nkeys, stack exhaustion and
   out-of-memory are outside it and are only exercised by the harness).
   Only statements; proofs in Proofs/NilSafety.v.  Each theorem: for EVERY input
   the operation ends in a value, never in the Panic that an out-of-range
   index, a nil dereference or a store into a nil map would produce. *)
From JWT Require Import Model.NilSafety Proofs.NilSafety.
Open Scope string_scope.

Theorem C11_is_contained_in : forall s o, exists b, ns_is_contained_in s o = Ok b.
Proof. exact no_panic_is_contained_in. Qed.
Theorem C11_is_contained_in_agrees : forall s o, ns_is_contained_in s o = Ok (is_contained_in s o).
Proof. exact is_contained_in_agrees. Qed.
Theorem C11_subject_validate : forall v, exists n, ns_subject_validate v = Ok n.
Proof. exact no_panic_subject_validate. Qed.
Theorem C11_export_token_position : forall subject atp, exists n, ns_export_token_position subject atp = Ok n.
Proof. exact no_panic_export_token_position. Qed.
Theorem C11_renaming : forall v, exists l, ns_renaming v = Ok l.
Proof. exact no_panic_renaming. Qed.
Theorem C11_to_subject : forall s, exists n, ns_to_subject s = Ok n.
Proof. exact no_panic_to_subject. Qed.
Theorem C11_clean_subject : forall s, exists r, ns_clean_subject s = Ok r.
Proof. exact no_panic_clean_subject. Qed.
(* lists decoded from JSON with null entries anywhere *)
Theorem C11_entries_validate : forall l : list entry, exists n, ns_entries_validate l = Ok n.
Proof. exact no_panic_entries_validate. Qed.
Theorem C11_wildcard_loop : forall l : list entry, exists n, ns_wildcard_loop l = Ok n.
Proof. exact no_panic_wildcard_loop. Qed.
Theorem C11_has_export_containing : forall subject (l : list entry), exists b, ns_has_export_containing subject l = Ok b.
Proof. exact no_panic_has_export_containing. Qed.
Theorem C11_sort : forall l : list entry, exists s, ns_sort l = Ok s.
Proof. exact no_panic_sort. Qed.
(* maps that decoding left nil *)
Theorem C11_rehome : forall data tp tags, exists d, ns_rehome data tp tags = Ok d.
Proof. exact no_panic_rehome. Qed.
Theorem C11_add_mapping : forall m sub, exists r, ns_add_mapping m sub = Ok r.
Proof. exact no_panic_add_mapping. Qed.
Theorem C11_revoke_clear : forall m k, (exists r, ns_revoke_at m k = Ok r) /\ (exists r, ns_clear_revocation m k = Ok r).
Proof. exact no_panic_revoke_clear. Qed.
(* arbitrary byte strings as seeds and credentials *)
Theorem C11_decorate_seed : forall seed, exists r, ns_decorate_seed seed = Ok r.
Proof. exact no_panic_decorate_seed. Qed.
(* FindAllSubmatch returns, per match, the whole match and one entry per capture group (two groups here) *)
Theorem C11_parse_decorated : forall contents items,
  Forall (fun it => List.length it = 3%nat) items ->
  (exists r, ns_parse_decorated_jwt contents items = Ok r) /\ (exists r, ns_parse_decorated_nkey items = Ok r).
Proof. exact no_panic_parse_decorated. Qed.
(* nil claims *)
Theorem C11_nil_claims : forall c1 c2 id, (exists b, ns_did_sign c1 id = Ok b) /\ (exists b, ns_is_claim_revoked c2 = Ok b).
Proof. exact no_panic_nil_claims. Qed.

Print Assumptions C11_is_contained_in.
Print Assumptions C11_is_contained_in_agrees.
Print Assumptions C11_subject_validate.
Print Assumptions C11_export_token_position.
Print Assumptions C11_renaming.
Print Assumptions C11_to_subject.
Print Assumptions C11_clean_subject.
Print Assumptions C11_entries_validate.
Print Assumptions C11_wildcard_loop.
Print Assumptions C11_has_export_containing.
Print Assumptions C11_sort.
Print Assumptions C11_rehome.
Print Assumptions C11_add_mapping.
Print Assumptions C11_revoke_clear.
Print Assumptions C11_decorate_seed.
Print Assumptions C11_parse_decorated.
Print Assumptions C11_nil_claims.

(* the former crashes, as regression examples *)
Example C11_ex_null_entries : is_ok (ns_sort [Some ("b", false); None; Some ("a", true)]) = true
                           /\ is_ok (ns_wildcard_loop [None; Some ("a.*", false)]) = true
                           /\ is_ok (ns_has_export_containing "a.b" [None; Some ("a.*", false)]) = true.
Proof. repeat split; reflexivity. Qed.
Example C11_ex_short_seed : ns_decorate_seed "S" = Ok None /\ ns_decorate_seed "" = Ok None /\ ns_decorate_seed " S " = Ok None.
Proof. repeat split; reflexivity. Qed.
Example C11_ex_nil_maps : is_ok (ns_rehome None "generic" true) = true /\ is_ok (ns_add_mapping None "a") = true.
Proof. repeat split; reflexivity. Qed.
