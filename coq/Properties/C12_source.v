(* C12 — the tie to the source: ClaimsData.doEncode (v2/claims.go), translated on this run into Gen/SrcEncode.v.
   The receiver, the claims object, the header and the key pair are abstract values: assigning their fields and calling
   their methods for effect is recorded, in order, in a log ([go_event]); every observation that is a call (hash,
   serialize, PublicKey, Sign, ExpectedPrefixes, the base64 encoder) is a function of the log so far, so it sees exactly
   the assignments made before it.  Only statements; proofs in Proofs/SrcEncode.v. *)
From JWT Require Import Base.GoSem Base.Codec Base.B64 Model.Kinds Model.Claims Model.Decode Model.Encode Gen.Tables Gen.SrcEncode Proofs.SrcEncode.
Open Scope string_scope.
Open Scope list_scope.

(* what a successful doEncode did, fully: the guards passed; the signing key's role is on the kind's list (five roles)
   or the kind has no list; the issuer, the issue time and an empty id were assigned in this order before the id was
   hashed; the id and then the version were set before the claims were serialized; the algorithm is the version-2 one;
   the signature is over header-dot-payload; the token is the three segments *)
Theorem C12_source_do_encode : forall subject hash prefixes b64 isA isC isO isS isU now same ser_claim ser_header alg hnil pubkey sign knil,
  let run := run subject hash prefixes b64 isA isC isO isS isU now same ser_claim ser_header alg hnil pubkey sign knil in
  snd (snd run) = None <->
  hnil = false /\ knil = false /\ same [] = true /\ subject <> "" /\
  exists h pub id payload sig,
    ser_header [] = (h, None) /\ pubkey [] = (pub, None) /\
    (go_lnil (prefixes []) = true \/ existsb (erole isA isC isO isS isU pub) (prefixes []) = true) /\
    hash (stamped now pub) = (id, None) /\
    ser_claim (finished now pub id) = (payload, None) /\
    alg = "ed25519-nkey" /\
    sign (finished now pub id) (h ++ "." ++ payload)%string = (sig, None) /\
    run = (finished now pub id, ((h ++ "." ++ payload ++ "." ++ b64 (finished now pub id) sig)%string, None)).
Proof. exact src_do_encode_spec. Qed.
Print Assumptions C12_source_do_encode.

(* the converse with nothing assumed about the result *)
Theorem C12_source_do_encode_complete : forall subject hash prefixes b64 isA isC isO isS isU now same ser_claim ser_header alg hnil pubkey sign knil h pub id payload sg,
  hnil = false -> knil = false -> same [] = true -> subject <> "" ->
  ser_header [] = (h, None) -> pubkey [] = (pub, None) ->
  (go_lnil (prefixes []) = true \/ existsb (erole isA isC isO isS isU pub) (prefixes []) = true) ->
  hash (stamped now pub) = (id, None) -> ser_claim (finished now pub id) = (payload, None) ->
  alg = "ed25519-nkey" -> sign (finished now pub id) (h ++ "." ++ payload)%string = (sg, None) ->
  run subject hash prefixes b64 isA isC isO isS isU now same ser_claim ser_header alg hnil pubkey sign knil
  = (finished now pub id, ((h ++ "." ++ payload ++ "." ++ b64 (finished now pub id) sg)%string, None)).
Proof. exact src_do_encode_complete. Qed.
Print Assumptions C12_source_do_encode_complete.

(* a failed Encode returns the empty token *)
Theorem C12_source_fail_empty : forall subject hash prefixes b64 isA isC isO isS isU now same ser_claim ser_header alg hnil pubkey sign knil,
  let run := run subject hash prefixes b64 isA isC isO isS isU now same ser_claim ser_header alg hnil pubkey sign knil in
  snd (snd run) <> None -> fst (snd run) = "".
Proof. exact src_do_encode_fail_empty. Qed.
Print Assumptions C12_source_fail_empty.

(* against the model the C12 theorems are about: with the abstract values instantiated by the model (the claims object
   a [val], the log interpreted on it, hash / serialize the model's marshalling of the object the log has produced so
   far, the version-2 header, a key pair reporting [issuer]), the translated doEncode returns exactly what the model's
   [encode] returns — the same token and the same claims object afterwards — and an error with the empty token exactly
   when [encode] fails *)
Theorem C12_source_encode_model : forall H jprint msign role_of k v issuer now subject,
  match encode H jprint msign k (negb (subject =? "")%string && encode_role_ok (expected_prefixes k) (role_of issuer)) issuer now v with
  | Some (v', tok) => snd (m_run H jprint msign role_of k issuer now (pre_encode k v) subject) = (tok, None) /\
                      interp k (pre_encode k v) (fst (m_run H jprint msign role_of k issuer now (pre_encode k v) subject)) = v'
  | None => snd (snd (m_run H jprint msign role_of k issuer now (pre_encode k v) subject)) <> None /\
            fst (snd (m_run H jprint msign role_of k issuer now (pre_encode k v) subject)) = ""
  end.
Proof. exact src_do_encode_model. Qed.
Print Assumptions C12_source_encode_model.

(* ClaimsData.encode is doEncode with the version-2 header *)
Theorem C12_source_claims_encode : forall subject hash b64 isA isC isO isS isU now same ser_claim ser_header pubkey sign knil prefixes,
  V2.ClaimsData_encode subject hash b64 isA isC isO isS isU now same ser_claim ser_header pubkey sign knil prefixes
  = run subject hash prefixes b64 isA isC isO isS isU now same ser_claim ser_header "ed25519-nkey" false pubkey sign knil.
Proof. exact src_claims_encode_eq. Qed.
Print Assumptions C12_source_claims_encode.

(* each kind's Encode as translated on this run (subject test, operator URL test, sorting, kind stamp, then
   ClaimsData.encode continuing the log), with the model's oracles and starting from the object [v] as handed to
   Encode, returns what the model's [encode] returns under the full gate [encode_gate]: the same token, the same object
   afterwards ([interp] of the whole log), or an error and the empty token *)
Theorem C12_source_operator_encode : forall H jprint msign role_of v issuer now subject extra_ok,
  kind_result H jprint msign role_of v issuer now subject KOperator extra_ok (src_operator_encode H jprint msign role_of v issuer now subject extra_ok).
Proof. exact src_operator_encode_model. Qed.
Print Assumptions C12_source_operator_encode.
Theorem C12_source_account_encode : forall H jprint msign role_of v issuer now subject,
  kind_result H jprint msign role_of v issuer now subject KAccount true (src_account_encode H jprint msign role_of v issuer now subject).
Proof. exact src_account_encode_model. Qed.
Print Assumptions C12_source_account_encode.
Theorem C12_source_user_encode : forall H jprint msign role_of v issuer now subject,
  kind_result H jprint msign role_of v issuer now subject KUser true (src_user_encode H jprint msign role_of v issuer now subject).
Proof. exact src_user_encode_model. Qed.
Print Assumptions C12_source_user_encode.
Theorem C12_source_activation_encode : forall H jprint msign role_of v issuer now subject,
  kind_result H jprint msign role_of v issuer now subject KActivation true (src_activation_encode H jprint msign role_of v issuer now subject).
Proof. exact src_activation_encode_model. Qed.
Print Assumptions C12_source_activation_encode.
Theorem C12_source_auth_request_encode : forall H jprint msign role_of v issuer now subject,
  kind_result H jprint msign role_of v issuer now subject KAuthRequest true (src_auth_request_encode H jprint msign role_of v issuer now subject).
Proof. exact src_auth_request_encode_model. Qed.
Print Assumptions C12_source_auth_request_encode.
Theorem C12_source_auth_response_encode : forall H jprint msign role_of v issuer now subject,
  kind_result H jprint msign role_of v issuer now subject KAuthResponse true (src_auth_response_encode H jprint msign role_of v issuer now subject).
Proof. exact src_auth_response_encode_model. Qed.
Print Assumptions C12_source_auth_response_encode.
Theorem C12_source_generic_encode : forall H jprint msign role_of v issuer now subject,
  kind_result H jprint msign role_of v issuer now subject KGeneric true (src_generic_encode H jprint msign role_of v issuer now subject).
Proof. exact src_generic_encode_model. Qed.
Print Assumptions C12_source_generic_encode.

(* the unknown functions doEncode consults, by name: the package's own encodeToString and serialize (translated and
   pinned in C05_source_codec), the nkeys role predicates, the clock, and the identity test of the claims object *)
Theorem C12_source_do_encode_consults :
  V2.ClaimsData_doEncode_consults = ["go_encodeToString"; "go_nkeys_IsValidPublicAccountKey"; "go_nkeys_IsValidPublicClusterKey";
    "go_nkeys_IsValidPublicOperatorKey"; "go_nkeys_IsValidPublicServerKey"; "go_nkeys_IsValidPublicUserKey"; "go_now";
    "go_same__c__claim_Claims"; "go_serialize__claim"; "go_serialize__header"]%list.
Proof. reflexivity. Qed.
Print Assumptions C12_source_do_encode_consults.
