(* C09 — Revocation answers follow the revoke / clear / compact history.
   Only statements live here; proofs are in Proofs/Revocation.v. *)
From JWT Require Import Model.Revocation Proofs.Revocation.
Open Scope Z_scope.

(* for every history, from every starting map (nil, or any decoded map), every
   iteration order: the stored time of every key is the surviving time of the spec *)
Theorem C09_run_refines_surviving : forall (ops : list op) (h : holder) (k : string),
  wf (h_map h) ->
  lookup k (h_map (run ops h)) = fold_left spec_step ops (fun x => lookup x (h_map h)) k.
Proof. exact run_refines_surviving. Qed.
Print Assumptions C09_run_refines_surviving.

(* the answer rule, spelled out as in the property statement *)
Theorem C09_answer_rule : forall (ops : list op) (k : string) (t : Z),
  is_revoked (h_map (run ops None)) k t = true <->
  (exists ts, surviving ops k = Some ts /\ t <= ts) \/
  (exists ts, surviving ops ALL = Some ts /\ t <= ts).
Proof. exact answer_rule. Qed.
Print Assumptions C09_answer_rule.

(* revoking never lowers a stored time, of any key *)
Theorem C09_revoke_never_lowers : forall (m : rmap) (k : string) (t : Z) (x : string) (ts : Z),
  wf m -> lookup x m = Some ts ->
  exists ts', lookup x (revoke k t m) = Some ts' /\ ts <= ts'.
Proof. exact revoke_never_lowers. Qed.
Print Assumptions C09_revoke_never_lowers.

Theorem C09_revoke_stores_max : forall (m : rmap) (k : string) (t : Z),
  wf m ->
  lookup k (revoke k t m) = Some (match lookup k m with Some ts => Z.max ts t | None => t end)
  /\ forall x, x <> k -> lookup x (revoke k t m) = lookup x m.
Proof. exact revoke_stores_max. Qed.
Print Assumptions C09_revoke_stores_max.

(* clearing removes only the named entry *)
Theorem C09_clear_frame : forall (m : rmap) (k : string),
  wf m ->
  lookup k (clear k m) = None /\ forall x, x <> k -> lookup x (clear k m) = lookup x m.
Proof. exact clear_frame. Qed.
Print Assumptions C09_clear_frame.

(* compaction changes no answer *)
Theorem C09_compact_preserves_answers : forall (m : rmap) (k : string) (t : Z),
  wf m -> is_revoked (fst (compact m)) k t = is_revoked m k t.
Proof. exact compact_preserves_answers. Qed.
Print Assumptions C09_compact_preserves_answers.

(* compaction removes precisely the entries covered by the wildcard and returns them *)
Theorem C09_compact_removes_exactly : forall (m : rmap),
  wf m ->
  Permutation (fst (compact m) ++ snd (compact m)) m /\
  (forall e, In e (snd (compact m)) <->
             In e m /\ exists ats, lookup ALL m = Some ats /\ fst e <> ALL /\ snd e <= ats).
Proof. exact compact_removes_exactly. Qed.
Print Assumptions C09_compact_removes_exactly.

(* nothing depends on the map iteration order *)
Theorem C09_order_independent : forall (m m' : rmap),
  wf m -> Permutation m m' ->
  (forall k, lookup k m = lookup k m') /\
  (forall k t, is_revoked m k t = is_revoked m' k t) /\
  Permutation (fst (compact m)) (fst (compact m')) /\
  Permutation (snd (compact m)) (snd (compact m')).
Proof. exact order_independent. Qed.
Print Assumptions C09_order_independent.

(* distinct keys are preserved by every operation *)
Theorem C09_wf_preserved : forall (ops : list op) (h : holder),
  wf (h_map h) -> wf (h_map (run ops h)).
Proof. exact wf_preserved. Qed.
Print Assumptions C09_wf_preserved.

(* fail closed *)
Theorem C09_fail_closed : forall (h : holder) (s : string) (t : Z),
  is_claim_revoked h None = true /\
  is_claim_revoked h (Some (s, 0)) = true /\
  is_claim_revoked h (Some (""%string, t)) = true /\
  (t <> 0 -> s <> ""%string -> is_claim_revoked h (Some (s, t)) = is_revoked (h_map h) s t).
Proof. exact fail_closed. Qed.
Print Assumptions C09_fail_closed.

Example C09_ex : is_revoked (h_map (run [Revoke "a" 2; Revoke ALL 1; Revoke "a" 1; Compact; Clear "b"] None)) "a"%string 2 = true
              /\ is_revoked (h_map (run [Revoke "a" 2; Revoke ALL 3; Compact] None)) "b"%string 3 = true
              /\ is_revoked (h_map (run [Revoke "a" 2; Clear "a"] None)) "a"%string 1 = false.
Proof. repeat split; reflexivity. Qed.

(* answers survive encode/decode: the codec keeps every entry (an empty map
   comes back nil, which answers alike); that the real codec keeps the entries is
   C03's round trip and is exercised here on every history with a Codec step *)
Theorem C09_codec_preserves : forall (h : holder) (k : string) (t : Z),
  lookup k (h_map (codec h)) = lookup k (h_map h) /\
  is_revoked (h_map (codec h)) k t = is_revoked (h_map h) k t.
Proof. exact codec_preserves. Qed.
Print Assumptions C09_codec_preserves.
