(* C02 — the tie to the source for the role lists: ExpectedPrefixes() of the seven claims kinds as translated on this run
   (Gen/SrcCodec.v).  Each is a FRESH list of constants built on every call - it depends on no field of the claims
   (not on the declared type, not on the issuer account) and no two callers share its memory - and it is exactly the
   list the generated table [expected_prefixes] holds for the kind (the table the role theorems of C02 are about, and
   the list the translated doEncode / Decode receive as the observation claim.ExpectedPrefixes()), written as nkeys
   prefix bytes ([role_z]: account 0, operator 112, server 104, ...).  Only statements; proofs in Proofs/SrcCodec.v. *)
From JWT Require Import Base.GoSem Model.Kinds Gen.SrcCodec Proofs.SrcEncode Proofs.SrcCodec.
Open Scope string_scope.

Theorem C02_source_expected_prefixes :
  SrcCodec.V2.OperatorClaims_ExpectedPrefixes = m_prefixes KOperator /\
  SrcCodec.V2.AccountClaims_ExpectedPrefixes = m_prefixes KAccount /\
  SrcCodec.V2.UserClaims_ExpectedPrefixes = m_prefixes KUser /\
  SrcCodec.V2.ActivationClaims_ExpectedPrefixes = m_prefixes KActivation /\
  SrcCodec.V2.AuthorizationRequestClaims_ExpectedPrefixes = m_prefixes KAuthRequest /\
  SrcCodec.V2.AuthorizationResponseClaims_ExpectedPrefixes = m_prefixes KAuthResponse /\
  SrcCodec.V2.GenericClaims_ExpectedPrefixes = m_prefixes KGeneric.
Proof. exact src_expected_prefixes. Qed.
Print Assumptions C02_source_expected_prefixes.
