(* C20 — the tie to the source: TagList / StringList Contains, Add and Remove as translated on this run from
   v2/types.go (Gen/SrcLists.v), at the level of the visible elements, are the ordered-set specification that
   C20_history_refines_spec relates the backing-array model to. *)
From JWT Require Import Base.GoSem Gen.SrcLists Model.Lists Proofs.SrcLists.
Open Scope string_scope.

Theorem C20_source_tag_contains : forall u p, V2.TagList_Contains u p = mem (norm_tag p) u.
Proof. exact src_tag_contains. Qed.
Print Assumptions C20_source_tag_contains.
Theorem C20_source_tag_add : forall u ps, V2.TagList_Add u ps = fold_left (spec_add1 norm_tag) ps u.
Proof. exact src_tag_add. Qed.
Print Assumptions C20_source_tag_add.
Theorem C20_source_tag_remove : forall u ps, NoDup u -> V2.TagList_Remove u ps = fold_left (spec_remove1 norm_tag) ps u.
Proof. exact src_tag_remove. Qed.
Print Assumptions C20_source_tag_remove.
Theorem C20_source_string_contains : forall u p, V2.StringList_Contains u p = mem p u.
Proof. exact src_string_contains. Qed.
Print Assumptions C20_source_string_contains.
Theorem C20_source_string_add : forall u ps, V2.StringList_Add u ps = fold_left (spec_add1 norm_id) ps u.
Proof. exact src_string_add. Qed.
Print Assumptions C20_source_string_add.
Theorem C20_source_string_remove : forall u ps, NoDup u -> V2.StringList_Remove u ps = fold_left (spec_remove1 norm_id) ps u.
Proof. exact src_string_remove. Qed.
Print Assumptions C20_source_string_remove.

(* the source-network list: Contains / Add / Remove are the tag list's (the receiver seen as a pointer to a TagList),
   Set empties the list and adds the lower-cased text split on commas - the model's [cidr_set], whatever the list held *)
Theorem C20_source_cidr_contains : forall u p, V2.CIDRList_Contains u p = mem (norm_tag p) u.
Proof. exact src_cidr_contains. Qed.
Print Assumptions C20_source_cidr_contains.
Theorem C20_source_cidr_add : forall u ps, V2.CIDRList_Add u ps = fold_left (spec_add1 norm_tag) ps u.
Proof. exact src_cidr_add. Qed.
Print Assumptions C20_source_cidr_add.
Theorem C20_source_cidr_remove : forall u ps, NoDup u -> V2.CIDRList_Remove u ps = fold_left (spec_remove1 norm_tag) ps u.
Proof. exact src_cidr_remove. Qed.
Print Assumptions C20_source_cidr_remove.
Theorem C20_source_cidr_set : forall (c : list string) (values : string), V2.CIDRList_Set c values = view (cidr_set values).
Proof. exact src_cidr_set. Qed.
Print Assumptions C20_source_cidr_set.

(* CIDRList.UnmarshalJSON: a JSON array of texts is taken as it is, a JSON text goes through Set (the model's
   [cidr_unmarshal]); a body that is neither leaves the list untouched and is an error.  json.Unmarshal into a list of
   texts and into a text are unknown functions of the body, here what the body is; and these two are all it consults. *)
Theorem C20_source_cidr_unmarshal : forall (j : option cidr_json) (c : list string) (body : string),
  V2.CIDRList_UnmarshalJSON (as_list_of j) (as_string_of j) c body
  = match j with Some jj => (cidr_unmarshal jj, None) | None => (c, Some "cannot unmarshal into a string") end.
Proof. exact src_cidr_unmarshal. Qed.
Print Assumptions C20_source_cidr_unmarshal.
Theorem C20_source_cidr_unmarshal_consults :
  V2.CIDRList_UnmarshalJSON_consults = ["go_json_Unmarshal_as_list_string"; "go_json_Unmarshal_as_string"]%list.
Proof. reflexivity. Qed.
Print Assumptions C20_source_cidr_unmarshal_consults.
