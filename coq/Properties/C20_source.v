(* C20 — the tie to the source: TagList / StringList Contains, Add and Remove as translated on this run from
   v2/types.go (Gen/SrcLists.v), at the level of the visible elements, are the ordered-set specification that
   C20_history_refines_spec relates the backing-array model to. *)
From JWT Require Import Base.GoSem Gen.SrcLists Model.Lists Proofs.SrcLists.
Open Scope string_scope.

Theorem C20_source_tag_contains : forall u p, V2.TagList_Contains u p = mem (norm_tag p) u.
Proof. exact src_tag_contains. Qed.
Print Assumptions C20_source_tag_contains.
Theorem C20_source_tag_add : forall u ps, V2.TagList_Add u ps = fold_left (spec_add1 norm_tag) ps u.
Proof. exact src_tag_add. Qed.
Print Assumptions C20_source_tag_add.
Theorem C20_source_tag_remove : forall u ps, NoDup u -> V2.TagList_Remove u ps = fold_left (spec_remove1 norm_tag) ps u.
Proof. exact src_tag_remove. Qed.
Print Assumptions C20_source_tag_remove.
Theorem C20_source_string_contains : forall u p, V2.StringList_Contains u p = mem p u.
Proof. exact src_string_contains. Qed.
Print Assumptions C20_source_string_contains.
Theorem C20_source_string_add : forall u ps, V2.StringList_Add u ps = fold_left (spec_add1 norm_id) ps u.
Proof. exact src_string_add. Qed.
Print Assumptions C20_source_string_add.
Theorem C20_source_string_remove : forall u ps, NoDup u -> V2.StringList_Remove u ps = fold_left (spec_remove1 norm_id) ps u.
Proof. exact src_string_remove. Qed.
Print Assumptions C20_source_string_remove.

(* the source-network list: Contains / Add / Remove are the tag list's (the receiver seen as a pointer to a TagList),
   Set empties the list and adds the lower-cased text split on commas - the model's [cidr_set], whatever the list held *)
Theorem C20_source_cidr_contains : forall u p, V2.CIDRList_Contains u p = mem (norm_tag p) u.
Proof. exact src_cidr_contains. Qed.
Print Assumptions C20_source_cidr_contains.
Theorem C20_source_cidr_add : forall u ps, V2.CIDRList_Add u ps = fold_left (spec_add1 norm_tag) ps u.
Proof. exact src_cidr_add. Qed.
Print Assumptions C20_source_cidr_add.
Theorem C20_source_cidr_remove : forall u ps, NoDup u -> V2.CIDRList_Remove u ps = fold_left (spec_remove1 norm_tag) ps u.
Proof. exact src_cidr_remove. Qed.
Print Assumptions C20_source_cidr_remove.
Theorem C20_source_cidr_set : forall (c : list string) (values : string), V2.CIDRList_Set c values = view (cidr_set values).
Proof. exact src_cidr_set. Qed.
Print Assumptions C20_source_cidr_set.
