(* C04 — the tie to the source: the four version-1 migrations (v1OperatorClaims / v1AccountClaims / v1UserClaims /
   v1ActivationClaims .migrateV1 in v2/decoder_*.go) as translated on this run (Gen/SrcDecode.v).  Each builds the
   version-2 claims in a struct of its own by a sequence of stores; the opaque type of the translation is instantiated
   by the LOG of those stores ([line]: which field, from what - a text, a list, a number copied as it is; an opaque part
   of the version-1 struct copied whole, named by a one-line log of its own; a new empty map; the zero struct; a method
   called on a part).  Proved, for every content of the version-1 struct: which field of the version-2 claims receives
   what, in which order, and that nothing else is written - standard claims copied whole; kind, tags and issuer account
   moved from the top level into the claims' own section; the account's imports, exports, account and NATS limits
   copied, its flat JetStream limits zero, its signing keys added one by one in list order to a NEW key set, its
   revocations copied as they are (no time touched); an activation's granted subject and kind copied as they are; the
   version reported as 1.  (The version-1 `to`, the granted subject's `$N` tokens, the revocation times: nothing is
   rewritten on the way.)  Only statements; proofs in Proofs/SrcDecode.v. *)
From JWT Require Import Base.GoSem Gen.SrcDecode Proofs.SrcDecode.
Open Scope string_scope.
Open Scope list_scope.

Theorem C04_source_migrate_activation : forall (cd : mlog) (ia : string) (tags : list string) (ty subj : string) (kind : Z),
  V2.v1ActivationClaims_migrateV1 mlog [] cd ia tags ty subj kind
    (fun a v => wr (LStr "Activation.IssuerAccount" v) a) (fun a v => wr (LList "Activation.Tags" v) a) (fun a v => wr (LStr "Activation.Type" v) a)
    (fun a v => wr (LCopy "ClaimsData" v) a) (fun a v => wr (LStr "ImportSubject" v) a) (fun a v => wr (LZ "ImportType" v) a) (fun a v => wr (LZ "Version" v) a)
  = ([LCopy "ClaimsData" cd; LStr "Activation.Type" ty; LList "Activation.Tags" tags; LStr "Activation.IssuerAccount" ia;
      LStr "ImportSubject" subj; LZ "ImportType" kind; LZ "Version" 1%Z], None).
Proof. exact src_migrate_activation. Qed.
Print Assumptions C04_source_migrate_activation.

Theorem C04_source_migrate_user : forall (cd : mlog) (ia : string) (tags : list string) (ty : string) (bearer : bool) (limits perms : mlog),
  V2.v1UserClaims_migrateV1 mlog [] cd ia tags ty bearer limits perms
    (fun a v => wr (LCopy "ClaimsData" v) a) (fun a v => wr (LBool "User.BearerToken" v) a) (fun a v => wr (LStr "User.IssuerAccount" v) a)
    (fun a v => wr (LCopy "User.Limits" v) a) (fun a v => wr (LCopy "User.Permissions" v) a) (fun a v => wr (LList "User.Tags" v) a)
    (fun a v => wr (LStr "User.Type" v) a) (fun a v => wr (LZ "Version" v) a)
  = ([LCopy "ClaimsData" cd; LStr "User.Type" ty; LList "User.Tags" tags; LStr "User.IssuerAccount" ia;
      LCopy "User.Permissions" perms; LCopy "User.Limits" limits; LBool "User.BearerToken" bearer; LZ "Version" 1%Z], None).
Proof. exact src_migrate_user. Qed.
Print Assumptions C04_source_migrate_user.

Theorem C04_source_migrate_operator : forall (cd : mlog) (tags : list string) (ty url : string) (urls keys : list string) (sys : string),
  V2.v1OperatorClaims_migrateV1 mlog [] cd tags ty url urls keys sys
    (fun a v => wr (LCopy "ClaimsData" v) a) (fun a v => wr (LStr "Operator.AccountServerURL" v) a) (fun a v => wr (LList "Operator.OperatorServiceURLs" v) a)
    (fun a v => wr (LList "Operator.SigningKeys" v) a) (fun a v => wr (LStr "Operator.SystemAccount" v) a) (fun a v => wr (LList "Operator.Tags" v) a)
    (fun a v => wr (LStr "Operator.Type" v) a) (fun a v => wr (LZ "Version" v) a)
  = ([LCopy "ClaimsData" cd; LStr "Operator.Type" ty; LList "Operator.Tags" tags; LList "Operator.SigningKeys" keys;
      LStr "Operator.AccountServerURL" url; LList "Operator.OperatorServiceURLs" urls; LStr "Operator.SystemAccount" sys; LZ "Version" 1%Z], None).
Proof. exact src_migrate_operator. Qed.
Print Assumptions C04_source_migrate_operator.

Theorem C04_source_migrate_account : forall (cd : mlog) (tags : list string) (ty : string) (exports imports : list mlog) (alim nlim : mlog)
    (revs : list (string * Z)) (keys : list string),
  V2.v1AccountClaims_migrateV1 mlog [] cd tags ty exports imports alim nlim revs keys
    (fun a v => wr (LCall "Account.SigningKeys" "Add" v) a)
    (fun a v => wr (LCopyAll "Account.Exports" v) a) (fun a v => wr (LCopyAll "Account.Imports" v) a)
    (fun a v => wr (LCopy "Account.Limits.AccountLimits" v) a) (fun a => wr (LZero "Account.Limits.JetStreamLimits") a)
    (fun a v => wr (LCopy "Account.Limits.NatsLimits" v) a) (fun a v => wr (LRevs "Account.Revocations" v) a)
    (fun a => wr (LMake "Account.SigningKeys") a) (fun a v => wr (LList "Account.Tags" v) a) (fun a v => wr (LStr "Account.Type" v) a)
    (fun a v => wr (LCopy "ClaimsData" v) a) (fun a v => wr (LZ "Version" v) a)
  = ([LCopy "ClaimsData" cd; LStr "Account.Type" ty; LList "Account.Tags" tags; LCopyAll "Account.Imports" imports; LCopyAll "Account.Exports" exports;
      LCopy "Account.Limits.AccountLimits" alim; LCopy "Account.Limits.NatsLimits" nlim; LZero "Account.Limits.JetStreamLimits"; LMake "Account.SigningKeys"]
     ++ map (LCall "Account.SigningKeys" "Add") keys ++ [LRevs "Account.Revocations" revs; LZ "Version" 1%Z], None).
Proof. exact src_migrate_account. Qed.
Print Assumptions C04_source_migrate_account.
