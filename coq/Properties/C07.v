(* C07 — Expiry and not-before are enforced for every claim kind.
   Only statements; proofs in Proofs/Validate.v. *)
From JWT Require Import Model.Validate Proofs.Validate.
Open Scope Z_scope.

(* a positive expiry in the past, a positive not-before in the future; zero and
   negative values mean "unset"; over all of Z *)
Definition expected_time_issues (now exp nbf : Z) : nat :=
  ((if ((0 <? exp) && (exp <? now))%Z then 1 else 0) + (if ((0 <? nbf) && (now <? nbf))%Z then 1 else 0))%nat.

Section C07.
  Variable now : Z.
  Variable role_of : string -> role.
  Variable url_of : string -> url_view.
  Variable cidr_ok : string -> bool.
  Variable hhmmss_ok : string -> bool.
  Variable tz_ok : string -> bool.
  Variable act_of : string -> option act_view.

  (* every kind raises exactly the expected time-check issues, whatever else the claims contain *)
  Theorem C07_time_account : forall cd a,
    time_issues (v_account_claims now role_of url_of act_of cd a) = expected_time_issues now (cd_exp cd) (cd_nbf cd).
  Proof. exact (time_account now role_of url_of act_of). Qed.
  Theorem C07_time_operator : forall cd o,
    time_issues (v_operator_claims now role_of url_of cd o) = expected_time_issues now (cd_exp cd) (cd_nbf cd).
  Proof. exact (time_operator now role_of url_of). Qed.
  Theorem C07_time_user : forall cd u,
    time_issues (v_user_claims now role_of cidr_ok hhmmss_ok tz_ok cd u) = expected_time_issues now (cd_exp cd) (cd_nbf cd).
  Proof. exact (time_user now role_of cidr_ok hhmmss_ok tz_ok). Qed.
  Theorem C07_time_activation : forall cd a,
    time_issues (v_activation_claims now role_of true cd a) = expected_time_issues now (cd_exp cd) (cd_nbf cd).
  Proof. exact (time_activation now role_of). Qed.
  Theorem C07_time_auth_request : forall cd k,
    time_issues (v_auth_request now role_of cd k) = expected_time_issues now (cd_exp cd) (cd_nbf cd).
  Proof. exact (time_auth_request now role_of). Qed.
  Theorem C07_time_auth_response : forall cd r,
    time_issues (v_auth_response now role_of cd r) = expected_time_issues now (cd_exp cd) (cd_nbf cd).
  Proof. exact (time_auth_response now role_of). Qed.
  Theorem C07_time_generic : forall cd,
    time_issues (v_generic now cd) = expected_time_issues now (cd_exp cd) (cd_nbf cd).
  Proof. exact (time_generic now). Qed.
End C07.

(* time issues make the result blocking only when the caller asks for them *)
Theorem C07_blocking_with_time : forall l : list issue,
  is_blocking true l = is_blocking false l || Nat.ltb 0 (time_issues l).
Proof. exact blocking_with_time. Qed.
Theorem C07_time_alone_never_blocks : forall l : list issue,
  is_blocking false l = is_blocking false (filter (fun i => match i with TimeCheck => false | _ => true end) l).
Proof. exact time_alone_never_blocks. Qed.

Print Assumptions C07_time_account.
Print Assumptions C07_time_operator.
Print Assumptions C07_time_user.
Print Assumptions C07_time_activation.
Print Assumptions C07_time_auth_request.
Print Assumptions C07_time_auth_response.
Print Assumptions C07_time_generic.
Print Assumptions C07_blocking_with_time.
Print Assumptions C07_time_alone_never_blocks.

Example C07_ex : expected_time_issues 1000 999 0 = 1%nat /\ expected_time_issues 1000 0 (-5) = 0%nat
              /\ expected_time_issues 1000 1000 1000 = 0%nat /\ expected_time_issues 1000 1 1001 = 2%nat.
Proof. repeat split; reflexivity. Qed.
