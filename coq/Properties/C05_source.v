(* C05 — the tie to the source: Header.Valid as translated from v2/header.go on this run (Gen/SrcHeader.v, by
   tools/globalsgen srcgen.go) accepts exactly the headers the model's [header_valid] accepts.  Only statements;
   proofs in Proofs/SrcHeader.v. *)
From JWT Require Import Base.GoSem Gen.SrcHeader Gen.SrcDecode Model.Decode Proofs.SrcHeader Proofs.SrcDecode.
Open Scope string_scope.

Theorem C05_source_header_valid : forall typ alg : string,
  V2.Header_Valid alg typ = None <-> header_valid typ alg = true.
Proof. exact src_header_valid. Qed.
Print Assumptions C05_source_header_valid.

(* the gate as the code has it: parseHeaders and loadClaims, translated on this run, in terms of the model's steps *)
Theorem C05_source_parse_headers : forall b64dec parse_header (s : string),
  src_parse_headers b64dec parse_header s =
  match b64dec s with
  | None => (GNil, e1)
  | Some hj => match parse_header hj with
               | None => (GNil, e1)
               | Some (typ, alg) => if header_valid typ alg then (GHeader typ alg, None)
                                    else (GNil, SrcDecode.V2.Header_Valid alg typ)
               end
  end.
Proof. exact src_parse_headers_spec. Qed.
Print Assumptions C05_source_parse_headers.
Theorem C05_source_load_claims : forall parse_ident unmarshal_ok (d : string) (i : ident), parse_ident d = Some i ->
  match load_claims i (unmarshal_ok d) with
  | Some (k, ver) => src_load_claims parse_ident unmarshal_ok d = (ver, GClaims k d, None)
  | None => snd (src_load_claims parse_ident unmarshal_ok d) <> None
  end.
Proof. exact src_load_claims_spec. Qed.
Print Assumptions C05_source_load_claims.

(* the four loaders with a version-1 form (v2/decoder_operator.go, decoder_account.go, decoder_user.go,
   decoder_activation.go), translated on this run: a switch on the version loadClaims hands in.  Any version but 1 and 2 is
   refused before the payload is looked at - whatever the payload holds and whatever json.Unmarshal, the stores into
   the loader's own struct and Migrate are (they are unknown functions; the structs are fresh values of the loader's
   own).  Version 1: the payload is unmarshalled into the version-1 shadow struct - for users and activations after
   the "no limit" presets, and nothing else, were stored into it - and migrated; version 2: into the claims struct (an
   account's key set made beforehand, its flat JetStream limits cleared exactly when tiers are present). *)
Theorem C05_source_loaders_refuse_other_versions : forall (V : Type) (vnil : V) (data : string) (version : Z), version <> 1%Z -> version <> 2%Z ->
  (forall unm2 unm1 migrate, V2.loadOperator V vnil unm2 unm1 migrate data version = refuse_version vnil) /\
  (forall unm2into unm1 tiers clear_flat make_keys migrate, V2.loadAccount V vnil unm2into unm1 tiers clear_flat make_keys migrate data version = refuse_version vnil) /\
  (forall unm2 unm1into migrate set_nolimits set_max, V2.loadUser V vnil unm2 unm1into migrate set_nolimits set_max data version = refuse_version vnil) /\
  (forall unm2 unm1into migrate set_max set_payload, V2.loadActivation V vnil unm2 unm1into migrate set_max set_payload data version = refuse_version vnil).
Proof. intros V vnil. exact (src_loaders_refuse_other_versions vnil). Qed.
Print Assumptions C05_source_loaders_refuse_other_versions.

Theorem C05_source_load_account : forall (V : Type) (vnil : V) unm2into unm1 (tiers : V -> list (string * V)) clear_flat make_keys migrate (data : string) (version : Z),
  V2.loadAccount V vnil unm2into unm1 tiers clear_flat make_keys migrate data version
  = if (version =? 1)%Z then after_unmarshal vnil (unm1 data) migrate
    else if (version =? 2)%Z
         then after_unmarshal vnil (unm2into (make_keys vnil) data) (fun v => (if (go_llen (tiers v) >? 0)%Z then clear_flat v else v, None))
    else refuse_version vnil.
Proof. intros V vnil. exact (src_load_account vnil). Qed.
Print Assumptions C05_source_load_account.
Theorem C05_source_load_operator : forall (V : Type) (vnil : V) unm2 unm1 migrate (data : string) (version : Z),
  V2.loadOperator V vnil unm2 unm1 migrate data version
  = if (version =? 1)%Z then after_unmarshal vnil (unm1 data) migrate
    else if (version =? 2)%Z then after_unmarshal vnil (unm2 data) (fun v => (v, None)) else refuse_version vnil.
Proof. intros V vnil. exact (src_load_operator vnil). Qed.
Print Assumptions C05_source_load_operator.
Theorem C05_source_load_user : forall (V : Type) (vnil : V) unm2 unm1into migrate set_nolimits (set_max : V -> Z -> V) (data : string) (version : Z),
  V2.loadUser V vnil unm2 unm1into migrate set_nolimits set_max data version
  = if (version =? 1)%Z then after_unmarshal vnil (unm1into (set_max (set_nolimits vnil) (-1)%Z) data) migrate
    else if (version =? 2)%Z then after_unmarshal vnil (unm2 data) (fun v => (v, None)) else refuse_version vnil.
Proof. intros V vnil. exact (src_load_user vnil). Qed.
Print Assumptions C05_source_load_user.
Theorem C05_source_load_activation : forall (V : Type) (vnil : V) unm2 unm1into migrate (set_max set_payload : V -> Z -> V) (data : string) (version : Z),
  V2.loadActivation V vnil unm2 unm1into migrate set_max set_payload data version
  = if (version =? 1)%Z then after_unmarshal vnil (unm1into (set_payload (set_max vnil (-1)%Z) (-1)%Z) data) migrate
    else if (version =? 2)%Z then after_unmarshal vnil (unm2 data) (fun v => (v, None)) else refuse_version vnil.
Proof. intros V vnil. exact (src_load_activation vnil). Qed.
Print Assumptions C05_source_load_activation.
Theorem C05_source_loaders_consult :
  V2.loadOperator_consults = ["go_json_Unmarshal_OperatorClaims"; "go_json_Unmarshal_v1OperatorClaims"]%list /\
  V2.loadAccount_consults = ["go_json_Unmarshal_into_AccountClaims"; "go_json_Unmarshal_v1AccountClaims"]%list /\
  V2.loadUser_consults = ["go_json_Unmarshal_UserClaims"; "go_json_Unmarshal_into_v1UserClaims"]%list /\
  V2.loadActivation_consults = ["go_json_Unmarshal_ActivationClaims"; "go_json_Unmarshal_into_v1ActivationClaims"]%list.
Proof. repeat split; reflexivity. Qed.
Print Assumptions C05_source_loaders_consult.
