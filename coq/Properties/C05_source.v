(* C05 — the tie to the source: Header.Valid as translated from v2/header.go on this run (Gen/SrcHeader.v, by
   tools/globalsgen srcgen.go) accepts exactly the headers the model's [header_valid] accepts.  Only statements;
   proofs in Proofs/SrcHeader.v. *)
From JWT Require Import Base.GoSem Gen.SrcHeader Model.Decode Proofs.SrcHeader.
Open Scope string_scope.

Theorem C05_source_header_valid : forall typ alg : string,
  V2.Header_Valid alg typ = None <-> header_valid typ alg = true.
Proof. exact src_header_valid. Qed.
Print Assumptions C05_source_header_valid.
