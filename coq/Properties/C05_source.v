(* C05 — the tie to the source: Header.Valid as translated from v2/header.go on this run (Gen/SrcHeader.v, by
   tools/globalsgen srcgen.go) accepts exactly the headers the model's [header_valid] accepts.  Only statements;
   proofs in Proofs/SrcHeader.v. *)
From JWT Require Import Base.GoSem Gen.SrcHeader Gen.SrcDecode Model.Decode Proofs.SrcHeader Proofs.SrcDecode.
Open Scope string_scope.

Theorem C05_source_header_valid : forall typ alg : string,
  V2.Header_Valid alg typ = None <-> header_valid typ alg = true.
Proof. exact src_header_valid. Qed.
Print Assumptions C05_source_header_valid.

(* the gate as the code has it: parseHeaders and loadClaims, translated on this run, in terms of the model's steps *)
Theorem C05_source_parse_headers : forall b64dec parse_header (s : string),
  src_parse_headers b64dec parse_header s =
  match b64dec s with
  | None => (GNil, e1)
  | Some hj => match parse_header hj with
               | None => (GNil, e1)
               | Some (typ, alg) => if header_valid typ alg then (GHeader typ alg, None)
                                    else (GNil, SrcDecode.V2.Header_Valid alg typ)
               end
  end.
Proof. exact src_parse_headers_spec. Qed.
Print Assumptions C05_source_parse_headers.
Theorem C05_source_load_claims : forall parse_ident unmarshal_ok (d : string) (i : ident), parse_ident d = Some i ->
  match load_claims i (unmarshal_ok d) with
  | Some (k, ver) => src_load_claims parse_ident unmarshal_ok d = (ver, GClaims k d, None)
  | None => snd (src_load_claims parse_ident unmarshal_ok d) <> None
  end.
Proof. exact src_load_claims_spec. Qed.
Print Assumptions C05_source_load_claims.
