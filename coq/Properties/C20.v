(* C20 — Tag, string and source-network lists behave as duplicate-free ordered
   sets.  Only statements live here; proofs are in Proofs/Lists.v. *)
From JWT Require Import Model.Lists Proofs.Lists.

Definition idempotent (norm : string -> string) : Prop := forall x, norm (norm x) = norm x.

(* the two real normalisers are idempotent *)
Theorem C20_norm_tag_idempotent : idempotent norm_tag.
Proof. exact norm_tag_idempotent. Qed.
Print Assumptions C20_norm_tag_idempotent.
Theorem C20_norm_id_idempotent : idempotent norm_id.
Proof. exact norm_id_idempotent. Qed.
Print Assumptions C20_norm_id_idempotent.

(* every add/remove history (any number of steps, any arguments), whatever is
   left in the backing array, shows exactly the ordered-set specification *)
Theorem C20_history_refines_spec : forall norm, idempotent norm ->
  forall (ops : list (lop)) (s : slice),
  inv norm s -> view (lrun norm ops s) = spec_run norm ops (view s) /\ inv norm (lrun norm ops s).
Proof. exact history_refines_spec. Qed.
Print Assumptions C20_history_refines_spec.

(* from the empty list: no duplicates, all entries normalised and non-empty *)
Theorem C20_invariant_from_nil : forall norm, idempotent norm ->
  forall ops, inv norm (lrun norm ops nil_slice).
Proof. exact invariant_from_nil. Qed.
Print Assumptions C20_invariant_from_nil.

(* single steps, in the terms of the property statement: an add either leaves
   the list alone or appends the normalised value at the end; a remove erases
   exactly that value and keeps the order of the others *)
Theorem C20_add1_view : forall norm, idempotent norm -> forall s x, inv norm s ->
  view (l_add1 norm s x) =
    if ((norm x =? "") || mem (norm x) (view s))%bool then view s else (view s ++ [norm x])%list.
Proof. exact add1_view. Qed.
Print Assumptions C20_add1_view.
Theorem C20_remove1_view : forall norm, idempotent norm -> forall s x, inv norm s ->
  view (l_remove1 norm s x) = filter (fun t => negb (t =? norm x)) (view s).
Proof. exact remove1_view. Qed.
Print Assumptions C20_remove1_view.

(* membership is membership of the normalised probe (case-insensitive for tags) *)
Theorem C20_contains_iff : forall norm s p,
  l_contains norm s p = true <-> In (norm p) (view s).
Proof. exact contains_iff. Qed.
Print Assumptions C20_contains_iff.

(* source networks: the comma-separated string form and the array form of the
   same lower-case, trimmed, non-empty, comma-free, distinct entries decode alike *)
Theorem C20_cidr_forms_agree : forall es : list string,
  NoDup es ->
  Forall (fun e => e <> "" /\ norm_tag e = e /\ sep_free comma e = true) es ->
  cidr_unmarshal (CStr (join comma es)) = es /\ cidr_unmarshal (CArr es) = es.
Proof. exact cidr_forms_agree. Qed.
Print Assumptions C20_cidr_forms_agree.

Example C20_ex1 :
  view (lrun norm_tag [Add [" A "; "b"; "a"]; Remove ["B "]; Add ["c"; ""; "B"]] nil_slice)
  = ["a"; "c"; "b"].
Proof. reflexivity. Qed.
Example C20_ex2 : cidr_unmarshal (CStr "10.0.0.0/8, 192.168.0.0/16 ,10.0.0.0/8")
  = ["10.0.0.0/8"; "192.168.0.0/16"].
Proof. reflexivity. Qed.
