(* C07 (and C06, C10: everything that speaks of blocking issues) — the tie to the source for the validation results
   themselves: the methods of ValidationResults (v2/validation.go and the bundled version-1 copy) as translated on this
   run (Gen/SrcResults.v).  A results object is its list of issues; an issue is its text and its two flags.  Every
   other translated Validate method - and the model - reads AddError / AddWarning / AddTimeCheck as "append one issue of
   that sort" and IsBlocking as "is there an error (or, with time checks, anything but a warning)".  Here that reading
   is proved of the code: nothing is dropped, capped, replaced, deduplicated or reordered, whatever the list already
   holds.  Only statements; proofs in Proofs/SrcResults.v. *)
From JWT Require Import Base.GoSem Gen.SrcResults Proofs.SrcResults.
Open Scope string_scope.
Open Scope list_scope.

(* a new results object holds nothing - and nothing else: no shared list, no pre-sized array handed out twice (a package-level
   variable in its place is outside the translated subset and is reported) *)
Theorem C07_source_create : V2.CreateValidationResults = [] /\ V1.CreateValidationResults = [].
Proof. exact src_create. Qed.
Print Assumptions C07_source_create.

Theorem C07_source_add : forall (v : list issue) (vi : issue), V2.ValidationResults_Add v vi = v ++ [vi].
Proof. exact src_add. Qed.
Print Assumptions C07_source_add.

Theorem C07_source_add_sorts : forall (sprintf : string -> string) (v : list issue) (format : string),
  V2.ValidationResults_AddError sprintf v format = v ++ [(sprintf format, true, false)] /\
  V2.ValidationResults_AddTimeCheck sprintf v format = v ++ [(sprintf format, false, true)] /\
  V2.ValidationResults_AddWarning sprintf v format = v ++ [(sprintf format, false, false)].
Proof. intros. repeat split. Qed.
Print Assumptions C07_source_add_sorts.

Theorem C07_source_is_blocking : forall (v : list issue) (include_time_checks : bool),
  V2.ValidationResults_IsBlocking v include_time_checks = existsb (blocks include_time_checks) v.
Proof. exact src_is_blocking. Qed.
Print Assumptions C07_source_is_blocking.

Theorem C07_source_queries : forall (v : list issue),
  V2.ValidationResults_IsEmpty v = match v with [] => true | _ => false end /\
  V2.ValidationResults_Errors v = map (fun _ => Some "error") (filter i_blocking v) /\
  V2.ValidationResults_Warnings v = map i_text (filter (fun i => negb (i_blocking i)) v).
Proof. intros v. split; [apply src_is_empty|split; [apply src_errors|apply src_warnings]]. Qed.
Print Assumptions C07_source_queries.

(* in the vocabulary of the other translations: issues as error / warning / time check *)
Theorem C07_source_results_abstract : forall (sprintf : string -> string) (v : list issue) (format : string),
  (map go_issue_of (V2.ValidationResults_AddError sprintf v format) = map go_issue_of v ++ [GoError] /\
   map go_issue_of (V2.ValidationResults_AddWarning sprintf v format) = map go_issue_of v ++ [GoWarning] /\
   map go_issue_of (V2.ValidationResults_AddTimeCheck sprintf v format) = map go_issue_of v ++ [GoTimeCheck]) /\
  (V2.ValidationResults_IsBlocking v false = existsb g_is_error (map go_issue_of v) /\
   V2.ValidationResults_IsBlocking v true = existsb g_not_warning (map go_issue_of v)).
Proof. intros. split; [apply src_added_abstract|apply src_blocking_abstract]. Qed.
Print Assumptions C07_source_results_abstract.

Theorem C07_source_v1_results : 
  V1.ValidationResults_Add = V2.ValidationResults_Add /\ V1.ValidationResults_AddError = V2.ValidationResults_AddError /\
  V1.ValidationResults_AddTimeCheck = V2.ValidationResults_AddTimeCheck /\ V1.ValidationResults_AddWarning = V2.ValidationResults_AddWarning /\
  V1.ValidationResults_IsBlocking = V2.ValidationResults_IsBlocking /\ V1.ValidationResults_IsEmpty = V2.ValidationResults_IsEmpty /\
  V1.ValidationResults_Errors = V2.ValidationResults_Errors /\ V1.ValidationResults_Warnings = V2.ValidationResults_Warnings.
Proof. exact src_v1_results_same. Qed.
Print Assumptions C07_source_v1_results.
