(* C08 — the tie to the source: OperatorClaims.DidSign and AccountClaims.DidSign as translated on this run from
   v2/operator_claims.go and v2/account_claims.go (Gen/SrcDidSign.v) are the model's functions.  The claim handed in
   is an abstract value: the translation's parameters are exactly what the code observes of it - whether it is nil,
   Claims().Issuer, Claims().Subject, whether it is a *UserClaims / *ActivationClaims and that form's IssuerAccount -
   and of the signer: its subject, the strict flag, the operator's key list, the account's key set through Contains. *)
From JWT Require Import Base.GoSem Gen.SrcDidSign Model.DidSign Proofs.SrcDidSign.
Open Scope string_scope.

Theorem C08_source_operator_did_sign : forall id strict keys (c : option sclaim),
  V2.OperatorClaims_DidSign id keys strict (sc_iss' c) (sc_sub' c) (sc_nil c) = op_did_sign id strict keys c.
Proof. exact src_op_did_sign. Qed.
Print Assumptions C08_source_operator_did_sign.
Theorem C08_source_account_did_sign : forall id keys (c : option sclaim),
  V2.AccountClaims_DidSign (fun k => smem k keys) id (sc_iss' c) (sc_ia' c) (sc_ia' c) (sc_is KActivation c) (sc_is KUser c) (sc_nil c)
  = acct_did_sign id keys c.
Proof. exact src_acct_did_sign. Qed.
Print Assumptions C08_source_account_did_sign.
