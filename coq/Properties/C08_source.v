(* C08 — the tie to the source: OperatorClaims.DidSign and AccountClaims.DidSign as translated on this run from
   v2/operator_claims.go and v2/account_claims.go (Gen/SrcDidSign.v) are the model's functions.  The claim handed in
   is an abstract value: the translation's parameters are exactly what the code observes of it - whether it is nil,
   Claims().Issuer, Claims().Subject, whether it is a *UserClaims / *ActivationClaims and that form's IssuerAccount -
   and of the signer: its subject, the strict flag, the operator's key list, the account's key set through Contains. *)
From JWT Require Import Base.GoSem Gen.SrcDidSign Model.DidSign Proofs.SrcDidSign.
Open Scope string_scope.

Theorem C08_source_operator_did_sign : forall id strict keys (c : option sclaim),
  V2.OperatorClaims_DidSign id keys strict (sc_iss' c) (sc_sub' c) (sc_nil c) = op_did_sign id strict keys c.
Proof. exact src_op_did_sign. Qed.
Print Assumptions C08_source_operator_did_sign.
Theorem C08_source_account_did_sign : forall id keys (c : option sclaim),
  V2.AccountClaims_DidSign (fun k => smem k keys) id (sc_iss' c) (sc_ia' c) (sc_ia' c) (sc_is KActivation c) (sc_is KUser c) (sc_nil c)
  = acct_did_sign id keys c.
Proof. exact src_acct_did_sign. Qed.
Print Assumptions C08_source_account_did_sign.

(* the key set the account's DidSign asks: SigningKeys.Contains is membership of the key among the keys of the map
   (whatever scope is filed under it - a plain key's nil as well), Keys lists them, GetScope hands back what is filed
   under a key; the map is an association list, the scopes opaque values of any type *)
Theorem C08_source_signing_keys_contains : forall (V : Type) (vnil : V) (sk : list (string * V)) (k : string),
  V2.SigningKeys_Contains V vnil sk k = existsb (fun e => (fst e =? k)%string) sk.
Proof. intros V vnil. exact (src_sk_contains vnil). Qed.
Print Assumptions C08_source_signing_keys_contains.
Theorem C08_source_signing_keys_keys : forall (V : Type) (vnil : V) (sk : list (string * V)), V2.SigningKeys_Keys V vnil sk = map fst sk.
Proof. intros V vnil. exact (src_sk_keys vnil). Qed.
Print Assumptions C08_source_signing_keys_keys.
Theorem C08_source_signing_keys_get_scope : forall (V : Type) (vnil : V) (sk : list (string * V)) (k : string),
  V2.SigningKeys_GetScope V vnil sk k = match go_plookup sk k with Some v => (v, true) | None => (vnil, false) end.
Proof. intros V vnil. exact (src_sk_get_scope vnil). Qed.
Print Assumptions C08_source_signing_keys_get_scope.
(* ... so the account's DidSign, asked through the translated Contains of a key set, is the model's over that set's keys *)
Theorem C08_source_account_did_sign_keyset : forall (V : Type) (vnil : V) (sk : list (string * V)) id (c : option sclaim),
  V2.AccountClaims_DidSign (V2.SigningKeys_Contains V vnil sk) id (sc_iss' c) (sc_ia' c) (sc_ia' c) (sc_is KActivation c) (sc_is KUser c) (sc_nil c)
  = acct_did_sign id (map fst sk) c.
Proof. intros V vnil. exact (src_acct_did_sign_keyset vnil). Qed.
Print Assumptions C08_source_account_did_sign_keyset.
