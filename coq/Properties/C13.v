(* C13 — Encoding is deterministic and independent of map or insertion order.
   Only statements; proofs in Proofs/Encode.v / Proofs/CodecOrder.v. *)
From JWT Require Import Base.Codec Model.Claims Model.Encode Proofs.CodecOrder Proofs.Encode.
Open Scope string_scope.

(* a Go map has no order: a value stands for all reorderings of its maps' entry
   lists; [norm_maps] picks the sorted representative.  Marshalling does not see
   the order: whatever order the runtime iterates in, the same tree is written
   (key sets - signing keys - included: their keys are sorted explicitly) *)
Theorem C13_enc_order_independent : forall (t : ty) (v : val),
  wf_ty t = true -> has_type t v = true -> enc t (norm_maps v) = enc t v.
Proof. exact enc_order_independent. Qed.
Print Assumptions C13_enc_order_independent.

Theorem C13_same_content_same_tree : forall (t : ty) (v w : val),
  wf_ty t = true -> has_type t v = true -> has_type t w = true ->
  norm_maps v = norm_maps w -> enc t v = enc t w.
Proof. exact same_content_same_tree. Qed.
Print Assumptions C13_same_content_same_tree.

(* the sorted representative is reached from every permutation of a map's entries *)
Theorem C13_norm_maps_perm : forall (m m' : list (string * val)),
  keys_nodup m = true -> Permutation m m' -> norm_maps (VMap (Some m)) = norm_maps (VMap (Some m')).
Proof. exact norm_maps_perm. Qed.
Print Assumptions C13_norm_maps_perm.

(* the token is a function of the written tree, the key and nothing else: header,
   printer and (deterministic Ed25519) signature are functions *)
Theorem C13_token_function : forall jprint sign (j j' : json),
  j = j' -> token_of jprint sign j = token_of jprint sign j'.
Proof. exact token_function. Qed.
Print Assumptions C13_token_function.
