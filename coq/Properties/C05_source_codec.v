(* C05 (and C01, C03: every token passes through them) — the tie to the source for the three codec helpers of claims.go,
   translated on this run (Gen/SrcCodec.v): decodeString IS base64.RawURLEncoding.DecodeString, encodeToString IS
   base64.RawURLEncoding.EncodeToString, serialize IS json.Marshal followed by encodeToString (an error gives the empty
   text) - the unpadded base64url codec and nothing around it: no length limit, no retry with another alphabet or with
   padding, no rewriting of the marshalled text; the same in the bundled version-1 library.  Only statements; proofs in
   Proofs/SrcCodec.v. *)
From JWT Require Import Base.GoSem Gen.Tables Gen.SrcCodec Proofs.SrcCodec.
Open Scope string_scope.

Theorem C05_source_decode_string : forall (std_decode : string -> string * option string) (s : string),
  V2.decodeString std_decode s = std_decode s.
Proof. exact src_decode_string. Qed.
Print Assumptions C05_source_decode_string.
Theorem C05_source_encode_to_string : forall (std_encode : string -> string) (d : string),
  V2.encodeToString std_encode d = std_encode d.
Proof. exact src_encode_to_string. Qed.
Print Assumptions C05_source_encode_to_string.
Theorem C05_source_serialize : forall (std_encode : string -> string) (marshalled : string * option string),
  V2.serialize std_encode marshalled =
  match snd marshalled with None => (std_encode (fst marshalled), None) | Some e => ("", Some e) end.
Proof. exact src_serialize. Qed.
Print Assumptions C05_source_serialize.
Theorem C05_source_v1_codec :
  V1.decodeString = V2.decodeString /\ V1.encodeToString = V2.encodeToString /\ V1.serialize = V2.serialize.
Proof. exact src_v1_codec_same. Qed.
Print Assumptions C05_source_v1_codec.

(* the updateVersion of the six typed kinds (Encode calls it between the id and the serialization): one assignment - the
   version member becomes the library's version (2, read from the source into Gen/Tables.v) - whatever version the
   object had (1 after a migration, 0, 7) and with no other effect *)
Theorem C05_source_update_version :
  V2.OperatorClaims_updateVersion = [GoSetZ "oc_Operator_GenericFields_Version" lib_version] /\
  V2.AccountClaims_updateVersion = [GoSetZ "a_Account_GenericFields_Version" lib_version] /\
  V2.UserClaims_updateVersion = [GoSetZ "u_User_GenericFields_Version" lib_version] /\
  V2.ActivationClaims_updateVersion = [GoSetZ "a_Activation_GenericFields_Version" lib_version] /\
  V2.AuthorizationRequestClaims_updateVersion = [GoSetZ "ac_AuthorizationRequest_GenericFields_Version" lib_version] /\
  V2.AuthorizationResponseClaims_updateVersion = [GoSetZ "ar_AuthorizationResponse_GenericFields_Version" lib_version].
Proof. exact src_update_version. Qed.
Print Assumptions C05_source_update_version.

(* the unknown functions these consult are exactly the standard library's: the unpadded base64url codec and json.Marshal
   (another function in their place - a padded codec, a pooled or caching marshaller - keeps the shape of the
   translation and changes these lists) *)
Theorem C05_source_codec_consults :
  V2.decodeString_consults = ["go_base64_RawURLEncoding_DecodeString"]%list /\
  V2.encodeToString_consults = ["go_base64_RawURLEncoding_EncodeToString"]%list /\
  V2.serialize_consults = ["go_base64_RawURLEncoding_EncodeToString"; "go_json_Marshal__v"]%list /\
  V1.decodeString_consults = ["go_base64_RawURLEncoding_DecodeString"]%list /\
  V1.encodeToString_consults = ["go_base64_RawURLEncoding_EncodeToString"]%list /\
  V1.serialize_consults = ["go_base64_RawURLEncoding_EncodeToString"; "go_json_Marshal__v"]%list.
Proof. repeat split; reflexivity. Qed.
Print Assumptions C05_source_codec_consults.
