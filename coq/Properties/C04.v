(* C04 — Version-1 tokens migrate to version 2 without losing meaning.
   Only statements; proofs in Proofs/Migrate.v.  The shadow schemas (what a v1
   payload is decoded into) and the v2 schemas are generated from the code. *)
From JWT Require Import Base.Codec Base.B64 Model.Claims Model.Migrate Model.Decode Model.Pipeline Proofs.Codec Proofs.Migrate Proofs.CrossDecode Proofs.MigrateCross Proofs.PipelineV1.
Open Scope string_scope.
Open Scope Z_scope.

(* THE EXPECTED MAPPING, written from the property statement: which version-2
   field (JSON path) must carry which version-1 field (path in the v1 payload) *)
Definition std : list (list string * list string) :=
  [(["aud"], ["aud"]); (["exp"], ["exp"]); (["jti"], ["jti"]); (["iat"], ["iat"]);
   (["iss"], ["iss"]); (["name"], ["name"]); (["nbf"], ["nbf"]); (["sub"], ["sub"])].
Definition expected_copies (k : ckind) : list (list string * list string) :=
  match k with
  | KOperator =>
      std ++ [(["nats"; "type"], ["type"]); (["nats"; "tags"], ["tags"]);
              (["nats"; "signing_keys"], ["nats"; "signing_keys"]);
              (["nats"; "account_server_url"], ["nats"; "account_server_url"]);
              (["nats"; "operator_service_urls"], ["nats"; "operator_service_urls"]);
              (["nats"; "system_account"], ["nats"; "system_account"])]
  | KAccount =>
      std ++ [(["nats"; "type"], ["type"]); (["nats"; "tags"], ["tags"]);
              (["nats"; "imports"], ["nats"; "imports"]); (["nats"; "exports"], ["nats"; "exports"]);
              (["nats"; "revocations"], ["nats"; "revocations"]);
              (["nats"; "limits"; "subs"], ["nats"; "limits"; "subs"]);
              (["nats"; "limits"; "data"], ["nats"; "limits"; "data"]);
              (["nats"; "limits"; "payload"], ["nats"; "limits"; "payload"]);
              (["nats"; "limits"; "imports"], ["nats"; "limits"; "imports"]);
              (["nats"; "limits"; "exports"], ["nats"; "limits"; "exports"]);
              (["nats"; "limits"; "wildcards"], ["nats"; "limits"; "wildcards"]);
              (["nats"; "limits"; "conn"], ["nats"; "limits"; "conn"]);
              (["nats"; "limits"; "leaf"], ["nats"; "limits"; "leaf"])]
  | KUser =>
      std ++ [(["nats"; "type"], ["type"]); (["nats"; "tags"], ["tags"]);
              (["nats"; "issuer_account"], ["issuer_account"]);
              (["nats"; "pub"], ["nats"; "pub"]); (["nats"; "sub"], ["nats"; "sub"]);
              (["nats"; "resp"], ["nats"; "resp"]); (["nats"; "src"], ["nats"; "src"]);
              (["nats"; "times"], ["nats"; "times"]);
              (["nats"; "subs"], ["nats"; "subs"]); (["nats"; "data"], ["nats"; "data"]);
              (["nats"; "payload"], ["nats"; "payload"]);
              (["nats"; "bearer_token"], ["nats"; "bearer_token"])]
  | KActivation =>
      std ++ [(["nats"; "type"], ["type"]); (["nats"; "tags"], ["tags"]);
              (["nats"; "issuer_account"], ["issuer_account"]);
              (["nats"; "subject"], ["nats"; "subject"]);
              (["nats"; "kind"], ["nats"; "type"])]
  | _ => []
  end.

Definition migratable (k : ckind) : Prop := k = KOperator \/ k = KAccount \/ k = KUser \/ k = KActivation.

(* every listed field is carried over, for every v1 payload value *)
Theorem C04_migrate_copies : forall k st s p2 p1,
  shadow_of k = Some st -> has_type st s = true ->
  In (p2, p1) (expected_copies k) ->
  getp (schema_of k) p2 (migrate k s) = getp st p1 s /\ getp st p1 s <> None.
Proof. exact migrate_copies. Qed.
Print Assumptions C04_migrate_copies.

(* migrated claims report version 1 *)
Theorem C04_migrate_version : forall k st s,
  shadow_of k = Some st -> has_type st s = true ->
  getp (schema_of k) ["nats"; "version"] (migrate k s) = Some (VInt 1).
Proof. exact migrate_version. Qed.
Print Assumptions C04_migrate_version.

(* account signing keys: the v1 list becomes the key set with exactly those keys, all plain *)
Theorem C04_migrate_signing_keys : forall s l,
  has_type sch_shadow_account s = true ->
  getp sch_shadow_account ["nats"; "signing_keys"] s = Some (VList l) ->
  exists m, getp sch_account ["nats"; "signing_keys"] (migrate KAccount s) = Some (VMap (Some m)) /\
            forall k, (vlookup k m = Some (VPtr None) <-> exists l', l = Some l' /\ In (VStr k) l') /\
                      (forall x, vlookup k m = Some x -> x = VPtr None).
Proof. exact migrate_signing_keys. Qed.
Print Assumptions C04_migrate_signing_keys.

(* migrated claims are well-typed version-2 values (so C03's round trip applies to them) *)
Theorem C04_migrate_typed : forall k st s,
  shadow_of k = Some st -> has_type st s = true -> has_type (schema_of k) (migrate k s) = true.
Proof. exact migrate_typed. Qed.
Print Assumptions C04_migrate_typed.

(* ---------------------------------------------------------------------------
   FROM THE VERSION-1 ENCODER TO THE VERSION-2 CLAIMS.  The theorems above speak of the
   shadow value the payload was decoded into.  These speak of the value the version-1
   library ENCODED: [sch1_of k] is the schema of the v1compat claims type, [shadow_of k]
   the schema of the struct the v2 decoder reads it with - two different Go types, both
   schemas generated from the code on every run.  [rd reader writer] (decidable, Proofs/
   CrossDecode.v) relates them: the reader's members are found in the writer by exact JSON
   name (and Go's case-folding fallback cannot pick another one), member types are equal,
   or structs / lists / pointers of related types, or an integer read as a sampling rate,
   or a comma string read as a network list. *)
Theorem C04_schemas_related : forall k st, shadow_of k = Some st ->
  rd st (sch1_of k) = true /\ pre_ok st (preset_v1 k) = true.
Proof. intros k st H. destruct (rd_generated k st H) as (H1 & H2 & _). now split. Qed.
Print Assumptions C04_schemas_related.

(* the general fact (any reader, writer, preset): decoding what the writer encoded succeeds
   and agrees with the written value ([ag]: member by member - a member the writer lacks or
   omitted as empty keeps the preset -, element by element, up to canon at equal-typed leaves) *)
Theorem C04_cross_decode : forall s t v0 v j,
  rd s t = true -> pre_ok s v0 = true -> W t v = true -> enc t v = Some j ->
  exists w, dec s j v0 = Some w /\ ag s t v0 w v.
Proof. intros s. exact (cross_decode s). Qed.
Print Assumptions C04_cross_decode.

(* every v1 claims value of the four migratable kinds: the v2 loader accepts what the v1 encoder wrote *)
Theorem C04_v1_payload_loads : forall k st c1 j,
  shadow_of k = Some st ->
  has_type (sch1_of k) c1 = true -> enc (sch1_of k) c1 = Some j ->
  exists w, dec st j (preset_v1 k) = Some w /\ ag st (sch1_of k) (preset_v1 k) w c1 /\
            load_v1 k j = Some (migrate k w).
Proof.
  intros k st c1 j Hs Ht He. destruct (v1_reaches_shadow k st c1 j Hs Ht He) as [w [Hd [Ha _]]].
  exists w. repeat split; try assumption. unfold load_v1. now rewrite Hs, Hd.
Qed.
Print Assumptions C04_v1_payload_loads.

(* ... and every field of the mapping table arrives: [wget] walks the path in the WRITER's value.
   r = None: the v1 type has no such member (subs / data limits): the v2 field is the preset (-1);
   r = Some (omitempty, type, x1) with x1 empty and omitempty: not in the payload, the v2 field is the preset;
   otherwise the v2 field agrees with the v1 field x1 *)
Theorem C04_v1_field_reaches_v2 : forall k st c1 j p2 p1,
  shadow_of k = Some st ->
  has_type (sch1_of k) c1 = true -> enc (sch1_of k) c1 = Some j ->
  In (p2, p1) (expected_copies k) ->
  exists d, load_v1 k j = Some d /\
  exists x2 x0 sty r,
    getp (schema_of k) p2 d = Some x2 /\ getp st p1 (preset_v1 k) = Some x0 /\ getp_ty st p1 = Some sty /\
    wget 8 (sch1_of k) p1 c1 = Some r /\
    (wty 8 (sch1_of k) p1 = Some None -> r = None) /\
    match r with
    | None => x2 = x0
    | Some (o, tq, x1) => if o && is_empty x1 then x2 = x0 else ag sty tq x0 x2 x1
    end.
Proof. exact v1_field_reaches_v2. Qed.
Print Assumptions C04_v1_field_reaches_v2.

(* AT TOKEN LEVEL: the text the version-1 encoder writes - v1 header {"typ":"jwt","alg":"ed25519"}, the payload its
   claims type marshals, the signature over the PAYLOAD segment (concrete base64url, concrete dot structure) - is
   accepted by the version-2 decoder whose JSON-level steps are the codec on the generated schemas: the identifier and
   the issuer are read out of the v1 payload (cross decode), the kind is the v1 top-level type, the version reported is
   1, the signature is checked over the payload segment under that issuer, and the claims loaded are the migration of
   the shadow value that agrees with the encoded value.  Abstract: the JSON text layer, Ed25519, the key-role test. *)
Theorem C04_v1_token_accepted : forall (jparse : string -> option json) (jprint : json -> string)
    (sign : string -> string) (verify : string -> string -> string -> bool) (role_of : string -> role)
    k st c1 j issuer,
  (forall x, jparse (jprint x) = Some x) ->
  shadow_of k = Some st ->
  has_type (sch1_of k) c1 = true ->
  getp (sch1_of k) ["type"] c1 = Some (VStr (kind_name k)) ->
  getp (sch1_of k) ["iss"] c1 = Some (VStr issuer) -> issuer <> "" ->
  enc (sch1_of k) c1 = Some j ->
  (forall text, verify issuer text (sign text) = true) ->
  decode_role_ok (expected_prefixes k) (role_of issuer) = true ->
  exists a w,
    p_decode jparse verify role_of (v1_token_of jprint sign j) = Some a /\
    a_kind a = k /\ a_iss a = issuer /\ a_layout a = LV1 /\ a_version a = 1 /\
    dec st j (preset_v1 k) = Some w /\ ag st (sch1_of k) (preset_v1 k) w c1 /\
    p_loaded jparse (jprint j) k 1 = Some (migrate k w).
Proof.
  intros jparse jprint sign verify role_of k st c1 j issuer Hjp.
  exact (v1_token_accepted jparse jprint Hjp sign verify role_of k st c1 j issuer).
Qed.
Print Assumptions C04_v1_token_accepted.

(* the hypotheses are satisfiable, and the subs / data limits are members the v1 user type does not have *)
Example C04_cross_nonvacuous :
  (exists c1 j, has_type (sch1_of KUser) c1 = true /\ enc (sch1_of KUser) c1 = Some j) /\
  map (wty 8 sch1_user) [["nats"; "subs"]; ["nats"; "data"]] = [Some None; Some None].
Proof. split; [exists (zero_val sch1_user); eexists; repeat split; vm_compute; reflexivity | exact legacy_absent]. Qed.

(* absent legacy limits read as unlimited: a struct member that the payload does not
   mention keeps the preset, and the presets of the legacy limits are -1 *)
Theorem C04_absent_keeps_preset : forall fs m v0s vs i,
  dec (TStruct fs) (JObj m) (VStruct v0s) = Some (VStruct vs) ->
  List.length v0s = List.length fs ->
  (forall kv, In kv m -> field_index (fst kv) fs <> Some i) ->
  nth_error vs i = nth_error v0s i.
Proof. exact absent_keeps_preset. Qed.
Print Assumptions C04_absent_keeps_preset.

Theorem C04_legacy_presets :
  map (fun n => getp sch_shadow_user ["nats"; n] (preset_v1 KUser)) ["subs"; "data"; "payload"; "max"]
    = [Some (VInt (-1)); Some (VInt (-1)); Some (VInt (-1)); Some (VInt (-1))] /\
  map (fun n => getp sch_shadow_activation ["nats"; n] (preset_v1 KActivation)) ["max"; "payload"]
    = [Some (VInt (-1)); Some (VInt (-1))].
Proof. exact legacy_presets. Qed.

(* deprecated members are ignored rather than rejected: unknown members never make a struct decode fail *)
Theorem C04_unknown_member_ignored : forall fs m v0s name j,
  field_index name fs = None ->
  dec (TStruct fs) (JObj (m ++ [(name, j)])) (VStruct v0s) = dec (TStruct fs) (JObj m) (VStruct v0s).
Proof. exact unknown_member_ignored. Qed.
Print Assumptions C04_unknown_member_ignored.

(* a worked instance: a version-1 user payload without limits *)
Example C04_ex_user_unlimited :
  option_map (fun v => (get_int sch_user ["nats"; "subs"] v, get_int sch_user ["nats"; "payload"] v,
                        get_int sch_user ["nats"; "version"] v, get_str sch_user ["nats"; "type"] v))
    (load_v1 KUser (JObj [("iss", JStr "A"); ("sub", JStr "U"); ("type", JStr "user");
                          ("nats", JObj [("max", JInt 5); ("src", JStr "10.0.0.0/8, 192.168.0.0/16")])]))
  = Some (-1, -1, 1, "user").
Proof. vm_compute. reflexivity. Qed.
Print Assumptions C04_legacy_presets.
